#!/bin/bash
# Wrapper used by MANIFEST commands. Usage:
#   run.sh setup
#   run.sh check <property> <quick|thorough>
#   run.sh explain <violation.json>
set -u
cd "$(dirname "$0")"
export GOFLAGS=-mod=mod GOPROXY=off GOSUMDB=off GOTOOLCHAIN=local
unset GOWORK
export GOWORK=off
build() {
	mkdir -p bin
	(cd checker && go build -o ../bin/verifcheck ./cmd/verifcheck) || { echo "build of verifcheck failed"; exit 2; }
}
case "${1:-}" in
setup)
	build
	;;
check)
	# rebuild only when sources are newer than the binary (cheap, deterministic)
	if [ ! -x bin/verifcheck ] || [ -n "$(find checker -newer bin/verifcheck -name '*.go' -print -quit)" ]; then build; fi
	exec ./bin/verifcheck check "$2" "${3:-${VERIF_TIER:-quick}}"
	;;
explain)
	if [ ! -x bin/verifcheck ]; then build; fi
	exec ./bin/verifcheck explain "$2"
	;;
*)
	echo "usage: run.sh setup | check <property> <tier> | explain <file>"
	exit 2
	;;
esac
