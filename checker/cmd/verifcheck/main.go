package main

import (
	"encoding/json"
	"fmt"
	"os"
	"os/exec"
	"path/filepath"
	"sort"
	"strings"
	"time"

	"verifcheck/internal/core"
	"verifcheck/internal/flow"
	"verifcheck/internal/locks"
	"verifcheck/internal/rules"
	"verifcheck/internal/ssaq"
)

func usage() {
	fmt.Fprintln(os.Stderr, "usage: verifcheck check <property> <quick|thorough> | explain <file> | dump-locks | list")
	os.Exit(2)
}

func verifDir() string {
	if d := os.Getenv("VERIF_DIR"); d != "" {
		return d
	}
	return "/verif"
}

func main() {
	if len(os.Args) < 2 {
		usage()
	}
	switch os.Args[1] {
	case "check":
		if len(os.Args) < 4 {
			usage()
		}
		os.Exit(check(os.Args[2], os.Args[3]))
	case "check-all":
		// Evaluation helper (seeded / benign variants): one load of the tree,
		// the quick rules of every property, no evidence written. Prints one
		// summary line per property and a final "ALARMS:" line.
		os.Setenv("VERIF_NO_EVIDENCE", "1")
		os.Exit(checkAll())
	case "explain":
		if len(os.Args) < 3 {
			usage()
		}
		b, err := os.ReadFile(os.Args[2])
		if err != nil {
			fmt.Println(err)
			os.Exit(2)
		}
		var m map[string]interface{}
		json.Unmarshal(b, &m)
		fmt.Printf("property %v rule %v\nconstruct %v\nat %v (repo %v)\nstatus %v: %v\n", m["property"], m["rule"], m["construct"], m["pos"], m["repo"], m["status"], m["reason"])
		if tr, ok := m["trace"].([]interface{}); ok {
			for _, t := range tr {
				fmt.Println("   ", t)
			}
		}
		fmt.Println("re-run: /verif/run.sh check", m["property"], "quick   (deterministic; analyses the current tree)")
	case "list":
		for _, p := range rules.Properties() {
			fmt.Println(p)
		}
	case "dump-locks":
		dumpLocks()
	case "gen-ref":
		p, err := core.Load(core.RepoDir(), nil, nil)
		if err != nil {
			fmt.Println(err)
			os.Exit(1)
		}
		fmt.Print(p.GenRef())
	case "gen-locals":
		// run the quick rules of every property once (this records which
		// functions anchor lemmas are about), then print their local definitions
		p, err := core.Load(core.RepoDir(), nil, nil)
		if err != nil {
			fmt.Println(err)
			os.Exit(1)
		}
		os.Setenv("VERIF_NO_EVIDENCE", "1")
		for _, prop := range rules.Properties() {
			func() {
				defer func() { recover() }()
				rules.Get(prop).Run(&rules.Ctx{Prog: p, Rep: core.NewReport(prop, "quick"), Tier: "quick", Primary: true})
			}()
		}
		fmt.Print(rules.GenLocals(p))
	case "gen-lemmas":
		p, err := core.Load(core.RepoDir(), nil, nil)
		if err != nil {
			fmt.Println(err)
			os.Exit(1)
		}
		fmt.Print(rules.GenLemmas(p))
	case "anchors":
		p, err := core.Load(core.RepoDir(), nil, nil)
		if err != nil {
			fmt.Println(err)
			os.Exit(1)
		}
		q := ssaq.For(p)
		for _, name := range os.Args[2:] {
			f := q.Func(name)
			if f == nil {
				fmt.Println("##", name, "NOT FOUND")
				continue
			}
			fmt.Println("##", name)
			for _, a := range ssaq.Anchors(f) {
				fmt.Printf("  %s #%d (%s)\n", a.Callee, a.Ordinal, strings.Join(a.Args, ", "))
				for _, at := range a.Atoms {
					fmt.Println("        ", at)
				}
			}
		}
	case "fingerprint":
		p, err := core.Load(core.RepoDir(), nil, nil)
		if err != nil {
			fmt.Println(err)
			os.Exit(1)
		}
		q := ssaq.For(p)
		for _, name := range os.Args[2:] {
			f := q.Func(name)
			if f == nil {
				fmt.Println("##", name, "NOT FOUND")
				continue
			}
			lines, err := ssaq.Fingerprint(f)
			fmt.Println("##", name)
			if err != nil {
				fmt.Println("   error:", err)
			}
			for _, l := range lines {
				fmt.Println("   ", l)
			}
		}
	default:
		usage()
	}
}

func checkAll() int {
	p, err := core.Load(core.RepoDir(), nil, nil)
	var alarms []string
	for _, prop := range rules.Properties() {
		start := time.Now()
		spec := rules.Get(prop)
		rep := core.NewReport(prop, "quick")
		if err != nil {
			rep.Fail("%v", err)
		} else {
			ctx := &rules.Ctx{Prog: p, Rep: rep, Tier: "quick", Primary: true}
			func() {
				defer func() {
					if r := recover(); r != nil {
						rep.Fail("analyzer panic: %v", r)
					}
				}()
				spec.Run(ctx)
			}()
		}
		if rep.Finish(verifDir(), spec.Explanation, []string{"default"}, start, nil) != 0 {
			alarms = append(alarms, prop)
		}
	}
	fmt.Println("ALARMS:", strings.Join(alarms, " "))
	if len(alarms) > 0 {
		return 1
	}
	return 0
}

func check(prop, tier string) int {
	start := time.Now()
	spec := rules.Get(prop)
	if spec == nil {
		fmt.Println("unknown property", prop)
		return 2
	}
	rep := core.NewReport(prop, tier)
	var configs []string
	run := func(env, flags []string, only func(rule string) bool) {
		p, err := core.Load(core.RepoDir(), env, flags)
		if err != nil {
			rep.Fail("%v", err)
			return
		}
		configs = append(configs, p.Config)
		ctx := &rules.Ctx{Prog: p, Rep: rep, Tier: tier, Primary: len(configs) == 1}
		func() {
			defer func() {
				if r := recover(); r != nil {
					rep.Fail("analyzer panic: %v", r)
					if os.Getenv("VERIF_DEBUG") != "" {
						panic(r)
					}
				}
			}()
			spec.Run(ctx)
		}()
	}
	run(nil, nil, nil)
	if tier == "thorough" && spec.ExtraConfigs {
		// The pinned tree does not compile for 32-bit targets (message.go:
		// int(maxSegmentSize) overflows int), so GOARCH=386 is not a build
		// configuration of this repository; the only other one is the gofuzz tag.
		run(nil, []string{"-tags=gofuzz"}, nil)
	}
	var extra map[string]interface{}
	if tier == "thorough" && os.Getenv("VERIF_NO_SENSITIVITY") == "" {
		extra = map[string]interface{}{"sensitivity": sensitivity(spec, rep)}
	}
	return rep.Finish(verifDir(), spec.Explanation, configs, start, extra)
}

// sensitivity is the thorough tier's self-test: every seeded change kept under
// /verif/seeded for this property (a change that breaks the property, compiles
// and passes the existing suite) is applied to a scratch copy of the current
// tree, the property's rules are run on the copy, and the report is compared
// with the report on the real tree. Nothing is executed. The outcome never
// changes the exit code (a seed that no longer applies to a changed tree, or is
// no longer reported, says something about the checker, not about the
// property); it is recorded in the evidence.
func sensitivity(spec *rules.Spec, base *core.Report) map[string]interface{} {
	res := map[string]interface{}{"what": "seeded property-breaking changes applied to a scratch copy of the current tree and analysed (no code is run)"}
	dirs, _ := filepath.Glob(filepath.Join(verifDir(), "seeded", spec.ID+"-m*"))
	sort.Strings(dirs)
	baseKeys := base.ViolatedKeys()
	var tried, killed, skipped []string
	detail := map[string]interface{}{}
	for _, d := range dirs {
		name := filepath.Base(d)
		patch := filepath.Join(d, "patch.diff")
		if _, err := os.Stat(patch); err != nil {
			continue
		}
		tmp, err := os.MkdirTemp("", "verif-sens-")
		if err != nil {
			skipped = append(skipped, name+": "+err.Error())
			continue
		}
		func() {
			defer os.RemoveAll(tmp)
			if err := copyTree(core.RepoDir(), tmp); err != nil {
				skipped = append(skipped, name+": copy failed: "+err.Error())
				return
			}
			ap := exec.Command("git", "apply", "--unsafe-paths", "--directory="+tmp, patch)
			ap.Dir = "/"
			if out, err := ap.CombinedOutput(); err != nil {
				skipped = append(skipped, name+": does not apply to the current tree: "+firstLine(string(out)))
				return
			}
			p, err := core.Load(tmp, nil, nil)
			if err != nil {
				skipped = append(skipped, name+": "+firstLine(err.Error()))
				return
			}
			defer rules.Forget(p)
			rep := core.NewReport(spec.ID, "thorough")
			func() {
				defer func() {
					if r := recover(); r != nil {
						rep.Fail("analyzer panic: %v", r)
					}
				}()
				spec.Run(&rules.Ctx{Prog: p, Rep: rep, Tier: "thorough", Primary: true})
			}()
			tried = append(tried, name)
			var newKeys []string
			for k := range rep.ViolatedKeys() {
				if !baseKeys[k] {
					newKeys = append(newKeys, k)
				}
			}
			sort.Strings(newKeys)
			if len(newKeys) > 0 {
				killed = append(killed, name)
				if len(newKeys) > 3 {
					newKeys = newKeys[:3]
				}
				detail[name] = newKeys
			} else {
				detail[name] = "not reported by this property's rules (see SEEDS.md: it may be caught by another property's check)"
			}
		}()
	}
	res["seeds_tried"] = tried
	res["seeds_reported"] = killed
	res["seeds_skipped"] = skipped
	res["reported_constructs"] = detail
	return res
}

// copyTree copies the working tree (not .git) into dst.
func copyTree(src, dst string) error {
	return filepath.Walk(src, func(p string, info os.FileInfo, err error) error {
		if err != nil {
			return err
		}
		rel, err := filepath.Rel(src, p)
		if err != nil {
			return err
		}
		if rel == ".git" {
			if info.IsDir() {
				return filepath.SkipDir
			}
			return nil
		}
		target := filepath.Join(dst, rel)
		switch {
		case info.IsDir():
			return os.MkdirAll(target, 0o755)
		case info.Mode().IsRegular():
			b, err := os.ReadFile(p)
			if err != nil {
				return err
			}
			return os.WriteFile(target, b, 0o644)
		}
		return nil
	})
}

func firstLine(s string) string {
	s = strings.TrimSpace(s)
	if i := strings.Index(s, "\n"); i >= 0 {
		s = s[:i]
	}
	if len(s) > 200 {
		s = s[:200]
	}
	return s
}

func dumpLocks() {
	p, err := core.Load(core.RepoDir(), nil, nil)
	if err != nil {
		fmt.Println(err)
		os.Exit(1)
	}
	a, err := locks.Run(p)
	if err != nil {
		fmt.Println(err)
		os.Exit(1)
	}
	fmt.Println("rounds", a.Eng.Rounds, "units", len(a.Eng.Units), "states", a.Eng.States)
	for i := 0; i < a.Sem.NumClasses(); i++ {
		fmt.Printf("class %d %s ops=%d\n", i, a.Sem.ClassName(i), a.Sem.Ops[i])
	}
	for _, u := range a.UnitsSorted() {
		s := u.Summary
		interesting := s.Bad || s.CondIdx >= 0 || len(s.All) > 0 || len(u.Overflow) > 0
		if !interesting {
			continue
		}
		fmt.Printf("%-50s %s ", u.Name, p.Rel(u.Pos))
		switch {
		case s.Bad:
			fmt.Printf("BAD %s\n", s.BadWhy)
			for _, x := range u.Exits {
				fmt.Printf("      exit %s %s\n", p.Rel(x.Pos), a.Eng.FmtDelta(x.D))
			}
		case s.CondIdx >= 0:
			fmt.Printf("cond[%d] nil=>%s nonnil=>%s\n", s.CondIdx, a.Eng.FmtDelta(s.Nil), a.Eng.FmtDelta(s.NonNil))
		default:
			fmt.Printf("all=>%s\n", a.Eng.FmtDelta(s.All))
		}
		for _, o := range u.Overflow {
			fmt.Println("      overflow:", o)
		}
	}
	fmt.Println("---- entry states")
	var us []*flow.Unit
	for u := range a.Abs.Entry {
		us = append(us, u)
	}
	sort.Slice(us, func(i, j int) bool { return us[i].Pos < us[j].Pos })
	for _, u := range us {
		ents := a.Abs.Entry[u]
		if len(ents) == 1 && len(ents[0]) == 0 {
			continue
		}
		fmt.Printf("%-50s", u.Name)
		for _, d := range ents {
			fmt.Printf(" %s", a.Eng.FmtDelta(d))
		}
		fmt.Println()
	}
}
