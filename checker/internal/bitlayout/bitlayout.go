// Package bitlayout is E5: abstract interpretation of pure integer SSA
// functions over the domain "each of the 64 result bits is 0, 1, bit k of
// input i, or unknown", used to compare pointer-word encoders and decoders
// with the layout table of the Cap'n Proto encoding specification.
package bitlayout

import (
	"fmt"
	"go/constant"
	"go/token"
	"go/types"
	"strings"

	"golang.org/x/tools/go/ssa"
)

// Bit is one abstract bit.
type Bit struct {
	Kind  byte // '0', '1', 'i' (input), '?'
	Input string
	K     int
}

func (b Bit) String() string {
	switch b.Kind {
	case '0', '1':
		return string(b.Kind)
	case 'i':
		return fmt.Sprintf("%s[%d]", b.Input, b.K)
	}
	return "?"
}

// Vec is a 64-bit abstract value, bit 0 first.
type Vec [64]Bit

func Zero() Vec {
	var v Vec
	for i := range v {
		v[i] = Bit{Kind: '0'}
	}
	return v
}

func Top() Vec {
	var v Vec
	for i := range v {
		v[i] = Bit{Kind: '?'}
	}
	return v
}

// Input returns the vector of an input of the given width; bits from
// zeroFrom upwards are known to be zero (range assumption), the rest of the
// 64 bits are zero- or sign-extended.
func Input(name string, width int, signed bool, zeroFrom int) Vec {
	v := Zero()
	for i := 0; i < width; i++ {
		if i >= zeroFrom {
			v[i] = Bit{Kind: '0'}
		} else {
			v[i] = Bit{Kind: 'i', Input: name, K: i}
		}
	}
	if signed && width < 64 {
		for i := width; i < 64; i++ {
			v[i] = v[width-1]
		}
	}
	return v
}

func Const(u uint64) Vec {
	v := Zero()
	for i := 0; i < 64; i++ {
		if u>>uint(i)&1 == 1 {
			v[i] = Bit{Kind: '1'}
		}
	}
	return v
}

func and(a, b Bit) Bit {
	switch {
	case a.Kind == '0' || b.Kind == '0':
		return Bit{Kind: '0'}
	case a.Kind == '1':
		return b
	case b.Kind == '1':
		return a
	case a == b:
		return a
	}
	return Bit{Kind: '?'}
}

func or(a, b Bit) Bit {
	switch {
	case a.Kind == '1' || b.Kind == '1':
		return Bit{Kind: '1'}
	case a.Kind == '0':
		return b
	case b.Kind == '0':
		return a
	case a == b:
		return a
	}
	return Bit{Kind: '?'}
}

func xor(a, b Bit) Bit {
	switch {
	case a.Kind == '0':
		return b
	case b.Kind == '0':
		return a
	case a.Kind == '1' && b.Kind == '1':
		return Bit{Kind: '0'}
	case a == b && a.Kind == 'i':
		return Bit{Kind: '0'}
	}
	return Bit{Kind: '?'}
}

func not(a Bit) Bit {
	switch a.Kind {
	case '0':
		return Bit{Kind: '1'}
	case '1':
		return Bit{Kind: '0'}
	}
	return Bit{Kind: '?'}
}

func width(t types.Type) (int, bool) {
	b, ok := t.Underlying().(*types.Basic)
	if !ok {
		return 64, false
	}
	switch b.Kind() {
	case types.Int8:
		return 8, true
	case types.Uint8:
		return 8, false
	case types.Int16:
		return 16, true
	case types.Uint16:
		return 16, false
	case types.Int32:
		return 32, true
	case types.Uint32:
		return 32, false
	case types.Int64, types.Int:
		return 64, true
	case types.Uint64, types.Uint, types.Uintptr:
		return 64, false
	case types.Bool:
		return 1, false
	}
	return 64, false
}

// fit truncates v to the width of t and extends it to 64 bits per t's signedness.
func fit(v Vec, t types.Type) Vec {
	w, signed := width(t)
	out := v
	for i := w; i < 64; i++ {
		if signed {
			out[i] = v[w-1]
		} else {
			out[i] = Bit{Kind: '0'}
		}
	}
	return out
}

func constShift(v ssa.Value) (int, bool) {
	c, ok := v.(*ssa.Const)
	if !ok || c.Value == nil || c.Value.Kind() != constant.Int {
		if cv, ok := v.(*ssa.Convert); ok {
			return constShift(cv.X)
		}
		return 0, false
	}
	u, ok := constant.Uint64Val(c.Value)
	return int(u), ok
}

func pow2(v Vec) (int, bool) {
	n, k := 0, -1
	for i, b := range v {
		switch b.Kind {
		case '1':
			n++
			k = i
		case '0':
		default:
			return 0, false
		}
	}
	if n == 1 {
		return k, true
	}
	return 0, false
}

// Eval evaluates a loop-free pure function. inputs maps parameter names and
// "param.Field" names to abstract vectors. callees resolves calls of other
// pure functions (recursively evaluated). Branches are followed on both
// sides unless the taken side panics; all returned vectors (per result
// index) are joined bitwise (disagreeing bits become unknown).
type Evaluator struct {
	Inputs map[string]Vec
	Notes  []string
}

func (e *Evaluator) Func(f *ssa.Function, args []Vec) ([]Vec, error) {
	env := map[ssa.Value]Vec{}
	for i, p := range f.Params {
		if i < len(args) {
			env[p] = args[i]
		}
	}
	var results [][]Vec
	var walk func(b *ssa.BasicBlock, pred *ssa.BasicBlock, depth int) error
	walk = func(b *ssa.BasicBlock, pred *ssa.BasicBlock, depth int) error {
		if depth > 64 {
			return fmt.Errorf("too deep (loop?) in %s", f.Name())
		}
		for _, in := range b.Instrs {
			switch x := in.(type) {
			case *ssa.Phi:
				for i, pb := range b.Preds {
					if pb == pred {
						v, err := e.val(f, env, x.Edges[i])
						if err != nil {
							return err
						}
						env[x] = v
					}
				}
			case *ssa.If:
				// skip branches that end in panic
				for _, s := range b.Succs {
					if endsInPanic(s) {
						continue
					}
					if err := walk(s, b, depth+1); err != nil {
						return err
					}
				}
				return nil
			case *ssa.Jump:
				return walk(b.Succs[0], b, depth+1)
			case *ssa.Return:
				var rs []Vec
				for _, r := range x.Results {
					v, err := e.val(f, env, r)
					if err != nil {
						return err
					}
					rs = append(rs, fit(v, r.Type()))
				}
				results = append(results, rs)
				return nil
			case *ssa.Panic:
				return nil
			case ssa.Value:
				if _, isCall := x.(*ssa.Call); isCall {
					// evaluated lazily through val
					continue
				}
			}
		}
		return nil
	}
	if err := walk(f.Blocks[0], nil, 0); err != nil {
		return nil, err
	}
	if len(results) == 0 {
		return nil, fmt.Errorf("%s has no returning path", f.Name())
	}
	out := results[0]
	for _, rs := range results[1:] {
		for i := range out {
			for k := 0; k < 64; k++ {
				if out[i][k] != rs[i][k] {
					out[i][k] = Bit{Kind: '?'}
				}
			}
		}
	}
	return out, nil
}

// Value evaluates one SSA value of f (straight-line provenance) with the
// parameters bound to args.
func (e *Evaluator) Value(f *ssa.Function, args []Vec, v ssa.Value) (Vec, error) {
	env := map[ssa.Value]Vec{}
	for i, p := range f.Params {
		if i < len(args) {
			env[p] = args[i]
		}
	}
	out, err := e.val(f, env, v)
	if err != nil {
		return out, err
	}
	return fit(out, v.Type()), nil
}

func endsInPanic(b *ssa.BasicBlock) bool {
	for _, in := range b.Instrs {
		if _, ok := in.(*ssa.Panic); ok {
			return true
		}
	}
	return false
}

func (e *Evaluator) val(f *ssa.Function, env map[ssa.Value]Vec, v ssa.Value) (Vec, error) {
	if r, ok := env[v]; ok {
		return r, nil
	}
	var out Vec
	switch x := v.(type) {
	case *ssa.Const:
		if x.Value == nil {
			out = Zero()
			break
		}
		if x.Value.Kind() == constant.Int {
			if u, ok := constant.Uint64Val(x.Value); ok {
				out = Const(u)
				break
			}
			if i, ok := constant.Int64Val(x.Value); ok {
				out = Const(uint64(i))
				break
			}
		}
		return out, fmt.Errorf("unsupported constant %v", x)
	case *ssa.Parameter:
		if in, ok := e.Inputs[ParamName(x)]; ok {
			out = in
			break
		}
		return out, fmt.Errorf("no abstract input for parameter %s of %s", x.Name(), f.Name())
	case *ssa.Convert:
		a, err := e.val(f, env, x.X)
		if err != nil {
			return out, err
		}
		out = fit(fit(a, x.X.Type()), x.Type())
	case *ssa.ChangeType:
		a, err := e.val(f, env, x.X)
		if err != nil {
			return out, err
		}
		out = a
	case *ssa.Field:
		// field of a struct-typed parameter or of a struct returned by a call
		name := ""
		if p, ok := x.X.(*ssa.Parameter); ok {
			st := p.Type().Underlying().(*types.Struct)
			name = ParamName(p) + "." + st.Field(x.Field).Name()
		}
		if in, ok := e.Inputs[name]; ok {
			out = in
			break
		}
		return out, fmt.Errorf("no abstract input for %s", name)
	case *ssa.UnOp:
		if x.Op == token.MUL {
			// load of a spilled receiver/parameter field
			if fa, ok := x.X.(*ssa.FieldAddr); ok {
				if name := spilledField(fa); name != "" {
					if in, ok := e.Inputs[name]; ok {
						env[v] = in
						return in, nil
					}
					return out, fmt.Errorf("no abstract input for %s", name)
				}
			}
			return out, fmt.Errorf("unsupported load in %s", f.Name())
		}
		a, err := e.val(f, env, x.X)
		if err != nil {
			return out, err
		}
		switch x.Op {
		case token.XOR:
			for i := range a {
				out[i] = not(a[i])
			}
			out = fit(out, x.Type())
		case token.SUB:
			// -x on a 0/1 value: all ones or zero (used as a mask in packed)
			out = Top()
		case token.MUL:
			// load of a spilled receiver field: p.DataSize via FieldAddr on an Alloc holding the parameter
			if fa, ok := x.X.(*ssa.FieldAddr); ok {
				if name := spilledField(fa); name != "" {
					if in, ok := e.Inputs[name]; ok {
						return in, nil
					}
					return out, fmt.Errorf("no abstract input for %s", name)
				}
			}
			return out, fmt.Errorf("unsupported load in %s", f.Name())
		default:
			return out, fmt.Errorf("unsupported unary %s", x.Op)
		}
	case *ssa.BinOp:
		a, err := e.val(f, env, x.X)
		if err != nil {
			return out, err
		}
		b, err := e.val(f, env, x.Y)
		if err != nil {
			return out, err
		}
		w, signed := width(x.Type())
		switch x.Op {
		case token.AND:
			for i := range a {
				out[i] = and(a[i], b[i])
			}
		case token.OR:
			for i := range a {
				out[i] = or(a[i], b[i])
			}
		case token.XOR:
			for i := range a {
				out[i] = xor(a[i], b[i])
			}
		case token.AND_NOT:
			for i := range a {
				out[i] = and(a[i], not(b[i]))
			}
		case token.SHL:
			n, ok := constShift(x.Y)
			if !ok {
				if k, isC := pow2Const(b); isC {
					n, ok = k, true
				}
			}
			if !ok {
				out = Top()
				break
			}
			out = Zero()
			for i := 0; i+n < 64; i++ {
				out[i+n] = a[i]
			}
		case token.SHR:
			n, ok := constShift(x.Y)
			if !ok {
				out = Top()
				break
			}
			a = fit(a, x.X.Type())
			for i := 0; i < 64; i++ {
				if i+n < 64 {
					out[i] = a[i+n]
				} else if signed {
					out[i] = a[63]
				} else {
					out[i] = Bit{Kind: '0'}
				}
			}
			_ = w
		case token.MUL:
			if k, ok := pow2(b); ok {
				out = Zero()
				for i := 0; i+k < 64; i++ {
					out[i+k] = a[i]
				}
			} else if k, ok := pow2(a); ok {
				out = Zero()
				for i := 0; i+k < 64; i++ {
					out[i+k] = b[i]
				}
			} else {
				out = Top()
			}
		case token.QUO:
			if k, ok := pow2(b); ok && !signed {
				a = fit(a, x.X.Type())
				for i := 0; i < 64; i++ {
					if i+k < 64 {
						out[i] = a[i+k]
					} else {
						out[i] = Bit{Kind: '0'}
					}
				}
			} else if k, ok := pow2(b); ok && signed && a[63].Kind == '0' {
				for i := 0; i < 64; i++ {
					if i+k < 64 {
						out[i] = a[i+k]
					} else {
						out[i] = Bit{Kind: '0'}
					}
				}
			} else {
				out = Top()
			}
		case token.ADD:
			// no carries when the operands have no common possibly-one bit
			disjoint := true
			for i := range a {
				if a[i].Kind != '0' && b[i].Kind != '0' {
					disjoint = false
				}
			}
			if disjoint {
				for i := range a {
					out[i] = or(a[i], b[i])
				}
			} else {
				out = Top()
			}
		default:
			out = Top()
		}
		out = fit(out, x.Type())
	case *ssa.Call:
		callee := x.Call.StaticCallee()
		if callee == nil || callee.Blocks == nil {
			return out, fmt.Errorf("unsupported call %s", x)
		}
		var args []Vec
		sub := &Evaluator{Inputs: map[string]Vec{}}
		for i, a := range x.Call.Args {
			if _, isStruct := a.Type().Underlying().(*types.Struct); isStruct {
				// pass struct fields through by name
				src := ""
				switch p := a.(type) {
				case *ssa.Parameter:
					src = ParamName(p)
				case *ssa.UnOp:
					if al, ok := p.X.(*ssa.Alloc); ok && p.Op == token.MUL {
						src = spillName(al)
					}
				}
				if src != "" {
					st := a.Type().Underlying().(*types.Struct)
					for fi := 0; fi < st.NumFields(); fi++ {
						if in, ok := e.Inputs[src+"."+st.Field(fi).Name()]; ok {
							sub.Inputs[ParamName(callee.Params[i])+"."+st.Field(fi).Name()] = in
						}
					}
				}
				args = append(args, Top())
				continue
			}
			av, err := e.val(f, env, a)
			if err != nil {
				return out, err
			}
			args = append(args, av)
			sub.Inputs[ParamName(callee.Params[i])] = av
		}
		rs, err := sub.Func(callee, args)
		if err != nil {
			return out, err
		}
		out = rs[0]
	default:
		return out, fmt.Errorf("unsupported instruction %T in %s", v, f.Name())
	}
	env[v] = out
	return out, nil
}

func pow2Const(v Vec) (int, bool) { return 0, false }

func spilledField(fa *ssa.FieldAddr) string {
	al, ok := fa.X.(*ssa.Alloc)
	if !ok {
		return ""
	}
	st, ok := al.Type().Underlying().(*types.Pointer).Elem().Underlying().(*types.Struct)
	if !ok {
		return ""
	}
	return spillName(al) + "." + st.Field(fa.Field).Name()
}

// spillName names the local a parameter was spilled to by the parameter's
// (reference) name; any other local by its source name.
func spillName(al *ssa.Alloc) string {
	if f := al.Parent(); f != nil {
		for _, p := range f.Params {
			if p.Name() == al.Comment {
				return ParamName(p)
			}
		}
	}
	return al.Comment
}

// Spec describes expected bits: ranges of "dst bits [lo,hi) = src[srcLo...]"
// or constants; unspecified bits must be zero; "any" bits are not compared.
type Range struct {
	Lo, Hi int
	Src    string // input name, "0", "1", or "any"
	SrcLo  int
	Repeat bool // every dst bit equals src[SrcLo] (sign extension)
}

// Compare checks v against the ranges; bits not covered must be '0'.
func Compare(v Vec, spec []Range) []string {
	var errs []string
	covered := [64]bool{}
	for _, r := range spec {
		for i := r.Lo; i < r.Hi; i++ {
			covered[i] = true
			var want Bit
			switch r.Src {
			case "any":
				continue
			case "0":
				want = Bit{Kind: '0'}
			case "1":
				want = Bit{Kind: '1'}
			default:
				k := r.SrcLo + (i - r.Lo)
				if r.Repeat {
					k = r.SrcLo
				}
				want = Bit{Kind: 'i', Input: r.Src, K: k}
			}
			if v[i] != want {
				errs = append(errs, fmt.Sprintf("bit %d is %s, spec says %s", i, v[i], want))
			}
		}
	}
	for i := 0; i < 64; i++ {
		if !covered[i] && v[i].Kind != '0' {
			errs = append(errs, fmt.Sprintf("bit %d is %s, spec says 0", i, v[i]))
		}
	}
	if len(errs) > 6 {
		errs = append(errs[:6], fmt.Sprintf("... and %d more", len(errs)-6))
	}
	return errs
}

// Describe renders a vector compactly as runs.
func Describe(v Vec) string {
	var parts []string
	i := 0
	for i < 64 {
		j := i
		b := v[i]
		for j+1 < 64 && next(v[j], v[j+1]) {
			j++
		}
		switch b.Kind {
		case 'i':
			if j > i && v[j].K == b.K {
				parts = append(parts, fmt.Sprintf("[%d,%d)=%s[%d]*", i, j+1, b.Input, b.K))
			} else {
				parts = append(parts, fmt.Sprintf("[%d,%d)=%s[%d..%d]", i, j+1, b.Input, b.K, v[j].K))
			}
		case '0':
		default:
			parts = append(parts, fmt.Sprintf("[%d,%d)=%s", i, j+1, b))
		}
		i = j + 1
	}
	return strings.Join(parts, " ")
}

func next(a, b Bit) bool {
	if a.Kind != b.Kind {
		return false
	}
	if a.Kind == 'i' {
		return a.Input == b.Input && (b.K == a.K+1 || b.K == a.K)
	}
	return true
}

// ParamName names a parameter in the abstract inputs; the checker sets it to the
// reference name of the parameter, so that input tables written with parameter
// names keep resolving when a parameter is renamed.
var ParamName = func(p *ssa.Parameter) string { return p.Name() }
