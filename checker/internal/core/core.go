// Package core holds the loader (E1), the obligation/violation bookkeeping,
// known-findings matching and the evidence writer shared by all rules.
package core

import (
	"encoding/json"
	"fmt"
	"go/ast"
	"go/token"
	"go/types"
	"os"
	"path/filepath"
	"sort"
	"strings"
	"sync"
	"time"

	"golang.org/x/tools/go/packages"
	"golang.org/x/tools/go/ssa"
	"golang.org/x/tools/go/ssa/ssautil"
)

const ModPath = "capnproto.org/go/capnp/v3"

// sampleCap bounds the number of obligations per rule written to evidence samples.
var sampleCap = 6

// Prog is the loaded, type-checked repository.
type Prog struct {
	Dir    string
	Fset   *token.FileSet
	Pkgs   []*packages.Package
	ByPath map[string]*packages.Package
	Config string // description of build configuration

	ssaOnce sync.Once
	SSAProg *ssa.Program
	SSAPkgs []*ssa.Package

	declOnce sync.Once
	decls    map[*types.Func]*FuncUnit
}

// FuncUnit is a declared function with its body and package.
type FuncUnit struct {
	Pkg  *packages.Package
	Decl *ast.FuncDecl
	Obj  *types.Func
}

// RepoDir returns the directory analysed (VERIF_REPO overrides /repo).
func RepoDir() string {
	if d := os.Getenv("VERIF_REPO"); d != "" {
		return d
	}
	return "/repo"
}

// Load type-checks ./... of dir with the given extra environment and build flags.
func Load(dir string, env []string, flags []string) (*Prog, error) {
	cfg := &packages.Config{
		Mode:       packages.LoadAllSyntax,
		Dir:        dir,
		Tests:      false,
		BuildFlags: flags,
		Env: append(append(os.Environ(),
			"GOFLAGS=-mod=mod", "GOPROXY=off", "GOSUMDB=off", "GOTOOLCHAIN=local", "GOWORK=off"), env...),
	}
	pkgs, err := packages.Load(cfg, "./...")
	if err != nil {
		return nil, fmt.Errorf("load %s: %v", dir, err)
	}
	p := &Prog{Dir: dir, Pkgs: pkgs, ByPath: map[string]*packages.Package{}}
	p.Config = strings.Join(append(append([]string{}, env...), flags...), " ")
	if p.Config == "" {
		p.Config = "default"
	}
	var errs []string
	packages.Visit(pkgs, nil, func(pk *packages.Package) {
		if strings.HasPrefix(pk.PkgPath, ModPath) {
			for _, e := range pk.Errors {
				errs = append(errs, e.Error())
			}
		}
	})
	if len(errs) > 0 {
		return nil, fmt.Errorf("type-check errors in %s: %s", dir, strings.Join(errs, "; "))
	}
	for _, pk := range pkgs {
		p.ByPath[pk.PkgPath] = pk
		if p.Fset == nil {
			p.Fset = pk.Fset
		}
	}
	if len(pkgs) < 20 {
		return nil, fmt.Errorf("only %d packages loaded from %s (expected >= 20): build went blind", len(pkgs), dir)
	}
	p.resolveNames()
	return p, nil
}

// Pkg returns the package with path ModPath + "/" + rel ("" = root).
func (p *Prog) Pkg(rel string) *packages.Package {
	path := ModPath
	if rel != "" {
		path += "/" + rel
	}
	return p.ByPath[path]
}

// BuildSSA builds SSA form for all packages (once).
func (p *Prog) BuildSSA() {
	p.ssaOnce.Do(func() {
		prog, pkgs := ssautil.AllPackages(p.Pkgs, ssa.InstantiateGenerics)
		prog.Build()
		p.SSAProg = prog
		p.SSAPkgs = pkgs
	})
}

// SSAPkg returns the SSA package for rel.
func (p *Prog) SSAPkg(rel string) *ssa.Package {
	p.BuildSSA()
	pk := p.Pkg(rel)
	if pk == nil {
		return nil
	}
	return p.SSAProg.Package(pk.Types)
}

// Decls maps function objects to their declarations for repo packages.
func (p *Prog) Decls() map[*types.Func]*FuncUnit {
	p.declOnce.Do(func() {
		p.decls = map[*types.Func]*FuncUnit{}
		for _, pk := range p.Pkgs {
			for _, f := range pk.Syntax {
				for _, d := range f.Decls {
					fd, ok := d.(*ast.FuncDecl)
					if !ok {
						continue
					}
					if obj, ok := pk.TypesInfo.Defs[fd.Name].(*types.Func); ok {
						p.decls[obj] = &FuncUnit{Pkg: pk, Decl: fd, Obj: obj}
					}
				}
			}
		}
	})
	return p.decls
}

// Rel returns the repo-relative form of a position.
func (p *Prog) Rel(pos token.Pos) string {
	if !pos.IsValid() {
		return "?"
	}
	ps := p.Fset.Position(pos)
	f := ps.Filename
	if r, err := filepath.Rel(p.Dir, f); err == nil && !strings.HasPrefix(r, "..") {
		f = r
	}
	return fmt.Sprintf("%s:%d", f, ps.Line)
}

// FuncName renders pkg.(*T).M / pkg.F with the package path relative to the
// module. A function that was renamed since the reference tree answers with its
// reference name (see refnames.go).
func FuncName(f *types.Func) string {
	if f == nil {
		return "?"
	}
	if a, ok := aliasName(f); ok {
		return a
	}
	return rawFuncName(f)
}

// ---------------------------------------------------------------------------
// Obligations and reports

type Status string

const (
	OK        Status = "discharged"
	Violated  Status = "violated"
	Exempt    Status = "exempt"
	Undecided Status = "undecided"
)

type Obligation struct {
	Rule      string   `json:"rule"`
	Construct string   `json:"construct"`
	Pos       string   `json:"pos"`
	Status    Status   `json:"status"`
	Reason    string   `json:"reason"`
	Trace     []string `json:"trace,omitempty"`
}

type Report struct {
	Property string
	Tier     string
	mu       sync.Mutex
	Obs      []Obligation
	Floors   map[string]int // rule -> minimum instances
	Notes    []string
	Assume   []string
	Counters map[string]int
	Fatal    []string
}

func NewReport(prop, tier string) *Report {
	return &Report{Property: prop, Tier: tier, Floors: map[string]int{}, Counters: map[string]int{}}
}

func (r *Report) add(o Obligation) {
	r.mu.Lock()
	r.Obs = append(r.Obs, o)
	r.mu.Unlock()
}

func (r *Report) Ok(rule, construct, pos, reason string) {
	r.add(Obligation{Rule: rule, Construct: construct, Pos: pos, Status: OK, Reason: reason})
}
func (r *Report) Exempt(rule, construct, pos, reason string) {
	r.add(Obligation{Rule: rule, Construct: construct, Pos: pos, Status: Exempt, Reason: reason})
}
func (r *Report) Violation(rule, construct, pos, reason string, trace ...string) {
	r.add(Obligation{Rule: rule, Construct: construct, Pos: pos, Status: Violated, Reason: reason, Trace: trace})
}
func (r *Report) Undecided(rule, construct, pos, reason string, trace ...string) {
	r.add(Obligation{Rule: rule, Construct: construct, Pos: pos, Status: Undecided, Reason: reason, Trace: trace})
}

// Floor declares the minimum number of instances rule must match.
func (r *Report) Floor(rule string, n int) { r.Floors[rule] = n }
func (r *Report) Count(name string, n int) {
	r.mu.Lock()
	r.Counters[name] += n
	r.mu.Unlock()
}
func (r *Report) Note(format string, a ...interface{}) {
	r.Notes = append(r.Notes, fmt.Sprintf(format, a...))
}
func (r *Report) Assumption(s string) { r.Assume = append(r.Assume, s) }
func (r *Report) Fail(format string, a ...interface{}) {
	r.Fatal = append(r.Fatal, fmt.Sprintf(format, a...))
}

// ---------------------------------------------------------------------------
// Known findings

type Finding struct {
	Property  string `json:"property"`
	Rule      string `json:"rule"`
	Construct string `json:"construct"`
	What      string `json:"what"`
	Input     string `json:"input"`
	Status    string `json:"status"` // known | fixed
	Commit    string `json:"commit,omitempty"`
	ID        string `json:"id,omitempty"`
}

func LoadFindings(path string) ([]Finding, error) {
	b, err := os.ReadFile(path)
	if err != nil {
		if os.IsNotExist(err) {
			return nil, nil
		}
		return nil, err
	}
	var fs []Finding
	if err := json.Unmarshal(b, &fs); err != nil {
		return nil, err
	}
	return fs, nil
}

// ---------------------------------------------------------------------------
// Finish: print, write evidence, return exit code.

type ruleStat struct {
	Instances  int `json:"instances"`
	Discharged int `json:"discharged"`
	Exempt     int `json:"exempt"`
	Known      int `json:"known"`
	Violated   int `json:"violated"`
	Undecided  int `json:"undecided"`
	Floor      int `json:"floor"`
}

func sanitize(s string) string {
	var b strings.Builder
	for _, c := range s {
		switch {
		case c >= 'a' && c <= 'z', c >= 'A' && c <= 'Z', c >= '0' && c <= '9', c == '-', c == '_', c == '.':
			b.WriteRune(c)
		default:
			b.WriteByte('_')
		}
	}
	out := b.String()
	if len(out) > 120 {
		out = out[:120]
	}
	return out
}

// Finish evaluates the report. verifDir is /verif. Returns the process exit code.
func (r *Report) Finish(verifDir string, explanation string, configs []string, start time.Time, extra map[string]interface{}) int {
	findings, ferr := LoadFindings(filepath.Join(verifDir, "known_findings.json"))
	if ferr != nil {
		r.Fail("known_findings.json unreadable: %v", ferr)
	}
	sort.SliceStable(r.Obs, func(i, j int) bool {
		a, b := r.Obs[i], r.Obs[j]
		if a.Rule != b.Rule {
			return a.Rule < b.Rule
		}
		return a.Construct < b.Construct
	})
	// duplicate keys get an ordinal suffix so that every obligation has a unique key
	seen := map[string]int{}
	for i := range r.Obs {
		k := r.Obs[i].Rule + "|" + r.Obs[i].Construct
		seen[k]++
		if seen[k] > 1 {
			r.Obs[i].Construct = fmt.Sprintf("%s#%d", r.Obs[i].Construct, seen[k])
		}
	}
	stats := map[string]*ruleStat{}
	get := func(rule string) *ruleStat {
		s := stats[rule]
		if s == nil {
			s = &ruleStat{}
			stats[rule] = s
		}
		return s
	}
	outDir := filepath.Join(verifDir, "out", r.Property)
	os.RemoveAll(outDir)
	os.MkdirAll(outDir, 0o755)
	exit := 0
	nviol := 0
	var lines []string
	usedKnown := map[int]bool{}
	for i := range r.Obs {
		o := &r.Obs[i]
		s := get(o.Rule)
		s.Instances++
		switch o.Status {
		case OK:
			s.Discharged++
		case Exempt:
			s.Exempt++
		case Violated, Undecided:
			known := -1
			if o.Status == Violated {
				for fi, f := range findings {
					if f.Status == "known" && f.Property == r.Property && f.Rule == o.Rule && f.Construct == o.Construct {
						known = fi
						break
					}
				}
			}
			if known >= 0 {
				s.Known++
				usedKnown[known] = true
				lines = append(lines, fmt.Sprintf("KNOWN-FINDING: property=%s %s %s at %s: %s", r.Property, o.Rule, o.Construct, o.Pos, findings[known].What))
				continue
			}
			if o.Status == Violated {
				s.Violated++
			} else {
				s.Undecided++
			}
			nviol++
			exit = 1
			path := filepath.Join(outDir, sanitize(fmt.Sprintf("%s_%s", o.Rule, o.Construct))+".json")
			b, _ := json.MarshalIndent(map[string]interface{}{
				"property": r.Property, "rule": o.Rule, "construct": o.Construct, "pos": o.Pos,
				"status": o.Status, "reason": o.Reason, "trace": o.Trace, "repo": RepoDir(),
			}, "", " ")
			os.WriteFile(path, b, 0o644)
			lines = append(lines, fmt.Sprintf("  %s %s [%s] at %s: %s", o.Status, o.Rule, o.Construct, o.Pos, o.Reason))
			for _, t := range o.Trace {
				lines = append(lines, "      "+t)
			}
			lines = append(lines, fmt.Sprintf("VIOLATION property=%s replay=%s", r.Property, path))
		}
	}
	for rule, floor := range r.Floors {
		s := get(rule)
		// A floor guards against a rule going blind (matching nothing, or a
		// fraction of what was confirmed by hand), not against the instance
		// count shrinking by a site or two when call sites are merged into a
		// helper: the rule fails below 60% of the confirmed count.
		confirmed := floor
		floor = (confirmed*6 + 9) / 10
		if floor < 1 && confirmed > 0 {
			floor = 1
		}
		s.Floor = floor
		if s.Instances < floor {
			nviol++
			exit = 1
			path := filepath.Join(outDir, sanitize("floor_"+rule)+".json")
			b, _ := json.MarshalIndent(map[string]interface{}{
				"property": r.Property, "rule": rule, "status": "rule went blind",
				"reason": fmt.Sprintf("rule %s matched %d instances, floor is %d", rule, s.Instances, floor),
			}, "", " ")
			os.WriteFile(path, b, 0o644)
			lines = append(lines, fmt.Sprintf("  rule %s went blind: %d instances < floor %d", rule, s.Instances, floor))
			lines = append(lines, fmt.Sprintf("VIOLATION property=%s replay=%s", r.Property, path))
		}
	}
	for _, f := range r.Fatal {
		nviol++
		exit = 1
		path := filepath.Join(outDir, sanitize(fmt.Sprintf("fatal_%d", nviol))+".json")
		b, _ := json.MarshalIndent(map[string]interface{}{"property": r.Property, "status": "fatal", "reason": f}, "", " ")
		os.WriteFile(path, b, 0o644)
		lines = append(lines, "  fatal: "+f)
		lines = append(lines, fmt.Sprintf("VIOLATION property=%s replay=%s", r.Property, path))
	}

	// Evidence.
	total, discharged := 0, 0
	var rules []string
	for rule, s := range stats {
		rules = append(rules, rule)
		total += s.Instances
		discharged += s.Discharged + s.Exempt + s.Known
	}
	sort.Strings(rules)
	var samples []interface{}
	perRule := map[string]int{}
	for _, o := range r.Obs {
		if perRule[o.Rule] >= sampleCap {
			continue
		}
		perRule[o.Rule]++
		samples = append(samples, map[string]string{"rule": o.Rule, "construct": o.Construct, "pos": o.Pos, "status": string(o.Status), "reason": o.Reason})
	}
	var exempt []string
	for _, o := range r.Obs {
		if o.Status == Exempt {
			exempt = append(exempt, fmt.Sprintf("%s %s: %s", o.Rule, o.Construct, o.Reason))
		}
	}
	distinct := map[string]bool{}
	for _, o := range r.Obs {
		distinct[o.Rule+"|"+o.Construct] = true
	}
	cov := map[string]interface{}{
		"explanation":         explanation,
		"obligations":         total,
		"discharged":          discharged,
		"evaluations":         total,
		"distinct_nontrivial": len(distinct),
		"rule":                "one obligation per (rule, construct) instance found in the type-checked source of the repository; distinct = distinct (rule, construct) keys; all are non-trivial in that each names a concrete site that the rule had to classify",
		"samples":             samples,
		"per_rule":            stats,
		"rules":               rules,
		"configurations":      configs,
		"counters":            r.Counters,
		"exemptions":          exempt,
		"notes":               r.Notes,
		"exhaustive":          true,
		"checker_cmd":         "/verif/run.sh check " + r.Property + " " + r.Tier,
	}
	for k, v := range extra {
		cov[k] = v
	}
	seed := 0
	fmt.Sscanf(os.Getenv("VERIF_SEED"), "%d", &seed)
	ev := map[string]interface{}{
		"property_id": r.Property,
		"tier":        r.Tier,
		"seed":        seed,
		"level":       "other",
		"coverage":    cov,
		"assumptions": append([]string{"the Go type checker and golang.org/x/tools v0.29.0 (go/packages, go/cfg, go/ssa) are trusted", "seed is accepted and ignored: the analysis is deterministic"}, r.Assume...),
		"wall_s":      time.Since(start).Seconds(),
		"violations":  nviol,
	}
	if os.Getenv("VERIF_NO_EVIDENCE") == "" {
		os.MkdirAll(filepath.Join(verifDir, "evidence"), 0o755)
		b, _ := json.MarshalIndent(ev, "", " ")
		if err := os.WriteFile(filepath.Join(verifDir, "evidence", r.Property+".json"), append(b, '\n'), 0o644); err != nil {
			fmt.Println("cannot write evidence:", err)
			exit = 1
		}
	}

	fmt.Printf("== %s (%s): %d obligations over %d rules, %d discharged/exempt/known, %d violations, %.1fs\n",
		r.Property, r.Tier, total, len(rules), discharged, nviol, time.Since(start).Seconds())
	for _, rule := range rules {
		s := stats[rule]
		fmt.Printf("   %-10s instances=%d discharged=%d exempt=%d known=%d violated=%d undecided=%d floor=%d\n",
			rule, s.Instances, s.Discharged, s.Exempt, s.Known, s.Violated, s.Undecided, s.Floor)
	}
	for _, l := range lines {
		fmt.Println(l)
	}
	return exit
}

// ViolatedKeys lists rule|construct of every violated or undecided obligation
// and every fatal message (used to compare a mutated tree with the real one).
func (r *Report) ViolatedKeys() map[string]bool {
	r.mu.Lock()
	defer r.mu.Unlock()
	out := map[string]bool{}
	for _, o := range r.Obs {
		if o.Status == Violated || o.Status == Undecided {
			out[o.Rule+" | "+o.Construct] = true
		}
	}
	for _, f := range r.Fatal {
		out["fatal: "+f] = true
	}
	return out
}
