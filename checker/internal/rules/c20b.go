package rules

import (
	"fmt"

	"verifcheck/internal/ssaq"
)

// decodeEscape decodes one Cap'n Proto string-literal escape (without the
// quotes); ok is false if enc is not exactly one well-formed escape or raw byte.
func decodeEscape(enc []byte) (byte, bool) {
	if len(enc) == 1 && enc[0] != '\\' && enc[0] != '"' {
		return enc[0], true
	}
	if len(enc) < 2 || enc[0] != '\\' {
		return 0, false
	}
	named := map[byte]byte{'a': 7, 'b': 8, 'f': 12, 'n': 10, 'r': 13, 't': 9, 'v': 11, '\'': '\'', '"': '"', '\\': '\\'}
	if len(enc) == 2 {
		v, ok := named[enc[1]]
		return v, ok
	}
	if len(enc) == 4 && enc[1] == 'x' {
		hex := func(c byte) (byte, bool) {
			switch {
			case c >= '0' && c <= '9':
				return c - '0', true
			case c >= 'a' && c <= 'f':
				return c - 'a' + 10, true
			case c >= 'A' && c <= 'F':
				return c - 'A' + 10, true
			}
			return 0, false
		}
		h, ok1 := hex(enc[2])
		l, ok2 := hex(enc[3])
		return h<<4 | l, ok1 && ok2
	}
	return 0, false
}

// ruleEscapeMapping (C20-R1m): the image of every byte under strquote.Append,
// decided for all 256 byte values by constant folding over Append's SSA form
// (consteval.go; nothing is executed): Append(nil, {b}) is a quote, one
// encoding of b, a quote; the encoding is the byte itself exactly when
// needsEscape is false, and otherwise a well-formed escape (\a \b \f \n \r \t \v
// \' \" \\ or \x followed by exactly two hex digits) that decodes back to b; and
// a following byte is appended after it unchanged.
func ruleEscapeMapping(ctx *Ctx, rule string) {
	q := ssaq.For(ctx.Prog)
	r := ctx.Rep
	ap := q.Func("internal/strquote.Append")
	ne := q.Func("internal/strquote.needsEscape")
	if ap == nil || ne == nil {
		r.Fail("%s: strquote.Append / needsEscape not found", rule)
		return
	}
	pos := q.Pos(ap.Pos())
	key := "Append | every byte is rendered by an escape that denotes that byte"
	var bad []string
	for b := 0; b < 256; b++ {
		out, err := evalBytesFunc(ap, nil, []byte{byte(b)})
		if err != nil {
			r.Undecided(rule, key, pos, fmt.Sprintf("cannot fold Append for byte %#02x: %v", b, err))
			return
		}
		esc, err := evalBytePred(ne, byte(b))
		if err != nil {
			r.Undecided(rule, key, pos, fmt.Sprintf("cannot fold needsEscape for byte %#02x: %v", b, err))
			return
		}
		if len(out) < 3 || out[0] != '"' || out[len(out)-1] != '"' {
			bad = append(bad, fmt.Sprintf("%#02x -> %q (not a quoted literal)", b, out))
			continue
		}
		enc := out[1 : len(out)-1]
		dec, ok := decodeEscape(enc)
		switch {
		case !ok:
			bad = append(bad, fmt.Sprintf("%#02x -> %q (malformed escape)", b, enc))
		case dec != byte(b):
			bad = append(bad, fmt.Sprintf("%#02x -> %q (denotes %#02x)", b, enc, dec))
		case esc != (len(enc) > 1):
			bad = append(bad, fmt.Sprintf("%#02x -> %q (needsEscape is %v)", b, enc, esc))
		}
		// a following byte is not swallowed or altered
		out2, err := evalBytesFunc(ap, nil, []byte{byte(b), 'z'})
		if err == nil {
			want := append(append([]byte{'"'}, enc...), 'z', '"')
			if string(out2) != string(want) {
				bad = append(bad, fmt.Sprintf("{%#02x,'z'} -> %q, expected %q", b, out2, want))
			}
		}
	}
	if len(bad) == 0 {
		r.Ok(rule, key, pos, "for all 256 byte values Append emits the raw byte or a well-formed escape that decodes to it, and leaves the next byte intact")
		return
	}
	msg := bad[0]
	if len(bad) > 1 {
		msg += fmt.Sprintf(" (and %d more)", len(bad)-1)
	}
	r.Violation(rule, key, pos, "the literal does not denote the accessor's bytes: "+msg, bad...)
}
