package rules

import (
	"fmt"
	"go/ast"
	"go/token"
	"go/types"
	"sort"

	"verifcheck/internal/flow"
	"verifcheck/internal/locks"
	"verifcheck/internal/ssaq"
)

// guardedField says that a struct field may only be touched with a mutex of
// the given class held ("mu protects the fields below" comments).
type guardedField struct {
	pkg, typ, field string
	lock            string
}

var guardedFields = []guardedField{
	{"", "clientHook", "refs", "capnp.clientHook.mu"},
	{"", "clientHook", "calls", "capnp.clientHook.mu"},
	{"", "clientHook", "resolvedHook", "capnp.clientHook.mu"},
	{"", "Client", "h", "capnp.Client.mu"},
	{"", "Client", "released", "capnp.Client.mu"},
	{"", "Promise", "next", "capnp.Promise.mu"},
	{"", "Promise", "joined", "capnp.Promise.mu"},
	{"", "Promise", "signals", "capnp.Promise.mu"},
	{"", "Promise", "caller", "capnp.Promise.mu"},
	{"", "Promise", "ongoingCalls", "capnp.Promise.mu"},
	{"", "Promise", "callsStopped", "capnp.Promise.mu"},
	{"", "Promise", "clients", "capnp.Promise.mu"},
	{"", "Promise", "clientsRefs", "capnp.Promise.mu"},
	{"", "Promise", "releasedClients", "capnp.Promise.mu"},
	{"", "Promise", "result", "capnp.Promise.mu"},
	{"", "Promise", "err", "capnp.Promise.mu"},
	{"rpc", "Conn", "closed", "rpc.Conn.mu"},
	{"rpc", "Conn", "sendCond", "rpc.Conn.mu"},
	{"rpc", "Conn", "questions", "rpc.Conn.mu"},
	{"rpc", "Conn", "questionID", "rpc.Conn.mu"},
	{"rpc", "Conn", "answers", "rpc.Conn.mu"},
	{"rpc", "Conn", "exports", "rpc.Conn.mu"},
	{"rpc", "Conn", "exportID", "rpc.Conn.mu"},
	{"rpc", "Conn", "imports", "rpc.Conn.mu"},
	{"rpc", "Conn", "embargoes", "rpc.Conn.mu"},
	{"rpc", "Conn", "embargoID", "rpc.Conn.mu"},
	{"rpc", "answer", "flags", "rpc.Conn.mu"},
	{"rpc", "answer", "resultCapTable", "rpc.Conn.mu"},
	{"rpc", "answer", "exportRefs", "rpc.Conn.mu"},
	{"rpc", "answer", "pcall", "rpc.Conn.mu"},
	{"rpc", "question", "flags", "rpc.Conn.mu"},
	{"rpc", "question", "called", "rpc.Conn.mu"},
	{"rpc", "impent", "wc", "rpc.Conn.mu"},
	{"rpc", "impent", "wireRefs", "rpc.Conn.mu"},
	{"rpc", "impent", "generation", "rpc.Conn.mu"},
	{"rpc", "expent", "wireRefs", "rpc.Conn.mu"},
	{"server", "Server", "ongoing", "server.Server.mu"},
	{"server", "Server", "starting", "server.Server.mu"},
	{"server", "Server", "full", "server.Server.mu"},
	{"server", "Server", "drain", "server.Server.mu"},
	{"server", "answerQueue", "q", "server.answerQueue.mu"},
	{"server", "answerQueue", "bases", "server.answerQueue.mu"},
	{"server", "structReturner", "p", "server.structReturner.mu"},
	{"server", "structReturner", "alloced", "server.structReturner.mu"},
	{"server", "structReturner", "returned", "server.structReturner.mu"},
	{"server", "structReturner", "result", "server.structReturner.mu"},
	{"server", "structReturner", "err", "server.structReturner.mu"},
	{"server", "returnEmbargoer", "result", "server.returnEmbargoer.mu"},
	{"server", "returnEmbargoer", "err", "server.returnEmbargoer.mu"},
}

// guardedExempt: unit + field -> reason (each taken from a comment or from
// the happens-before edge that the code itself relies on).
var guardedExempt = map[string]string{
	"capnp.(*Promise).resolve | Promise.clients":              "comment in resolve: 'p.clients cannot be touched in the pending resolution state, so we have exclusive access to the variable'",
	"capnp.(*Promise).resolve | Promise.callsStopped":         "set by this goroutine under p.mu just before; only Fulfill/Reject/Join set it and they are mutually exclusive (isUnresolved panics); closers only close the channel, under p.mu",
	"capnp.finalizeClient | Client.released":                  "comment: 'Since there are no other references to c, then we don't have to acquire the mutex to read'",
	"rpc.(*Conn).shutdown | answer.resultCapTable":            "after tasks.Wait() shutdown is the only task running; the answers table was detached under Conn.mu",
	"rpc.(*answer).Return | answer.resultCapTable":            "filled before resultsReady is published under Conn.mu; readers test resultsReady first (field comment)",
	"rpc.(*importClient).Shutdown$1 | impent.wireRefs":        "the entry was deleted from Conn.imports in the same critical section that started this closure's sendMessage; no other goroutine can reach it",
	"server.(*Server).Shutdown | Server.drain":                "drain is assigned once, in this function under Server.mu (a second Shutdown panics); the later receive reads the same immutable channel value",
	"server.(*answerQueue).fulfill | answerQueue.bases":       "bases is allocated under aq.mu; its recv slots are written before close(ready) and read only after <-ready (channel happens-before)",
	"server.(queueCaller).PipelineRecv | answerQueue.bases":   "len(bases) was observed > 0 under aq.mu; bases is assigned once; the element is read only after <-b.ready",
	"server.(*returnEmbargoer).recv | returnEmbargoer.err":    "read after <-re.returned, which is closed after err is final (field comment)",
	"server.(*returnEmbargoer).recv | returnEmbargoer.result": "read after <-re.returned, which is closed after result is final (field comment)",
	"server.(*structReturner).Return | structReturner.p":      "assigned at most once under sr.mu by answer(), which tests sr.returned in the same critical section; Return sets returned under sr.mu first",
	"server.(*structReturner).Return | structReturner.result": "assigned at most once (AllocResults, under sr.mu) before Return per the Returner contract",
}

// ruleGuardedBy checks every access of the guarded fields selected by want.
func ruleGuardedBy(ctx *Ctx, rule string, want func(g guardedField) bool) {
	a := lockAnalysis(ctx)
	if a == nil {
		return
	}
	r := ctx.Rep
	fields := map[types.Object]guardedField{}
	for _, g := range guardedFields {
		if !want(g) {
			continue
		}
		pk := ctx.Prog.Pkg(g.pkg)
		if pk == nil {
			r.Fail("%s: package %q missing", rule, g.pkg)
			continue
		}
		f := locks.FieldOf(pk, g.typ, g.field)
		if f == nil {
			r.Fail("%s: anchor field %s.%s.%s no longer exists", rule, g.pkg, g.typ, g.field)
			continue
		}
		fields[f] = g
	}
	for _, u := range a.UnitsSorted() {
		info := u.Pkg.TypesInfo
		fresh := freshLocals(u, info)
		type acc struct {
			sel  *ast.SelectorExpr
			g    guardedField
			node ast.Node
		}
		var accs []acc
		ast.Inspect(u.Body, func(n ast.Node) bool {
			if _, ok := n.(*ast.FuncLit); ok {
				return false
			}
			sel, ok := n.(*ast.SelectorExpr)
			if !ok {
				return true
			}
			g, ok := fields[info.Uses[sel.Sel]]
			if !ok {
				return true
			}
			accs = append(accs, acc{sel: sel, g: g})
			return true
		})
		if len(accs) == 0 {
			continue
		}
		ordinal := map[string]int{}
		for _, ac := range accs {
			name := fmt.Sprintf("%s.%s", ac.g.typ, ac.g.field)
			key := fmt.Sprintf("%s | access %s", u.Name, name)
			ordinal[key]++
			if ordinal[key] > 1 {
				key = fmt.Sprintf("%s #%d", key, ordinal[key])
			}
			pos := ctx.Prog.Rel(ac.sel.Pos())
			if id, ok := ast.Unparen(ac.sel.X).(*ast.Ident); ok && fresh[info.ObjectOf(id)] {
				r.Exempt(rule, key, pos, "object was allocated in this function and is not yet published")
				continue
			}
			if why, ok := guardedExempt[fmt.Sprintf("%s | %s", u.Name, name)]; ok {
				r.Exempt(rule, key, pos, why)
				continue
			}
			// code moved out of an exempted function into a helper that did not
			// exist on the reference tree keeps the exemption
			if hf := ssaq.For(ctx.Prog).Func(u.Name); hf != nil {
				if why, ok := exemptViaOwners(ssaq.For(ctx.Prog), hf, guardedExempt, name); ok {
					r.Exempt(rule, key, pos, why+" (moved into a new helper reached only from there)")
					continue
				}
			}
			node := enclosingCFGNode(u, ac.sel)
			if node == nil {
				r.Exempt(rule, key, pos, "unreachable in the CFG")
				continue
			}
			c := a.Sem.ClassByName(ac.g.lock)
			if c < 0 {
				r.Fail("%s: lock class %s not found", rule, ac.g.lock)
				continue
			}
			// The state before the node; if the node itself is inside a statement that
			// first locks (e.g. none in this code base) this is conservative.
			var bad flow.Delta
			states := a.Abs.At(u, node)
			for _, d := range states {
				if d[c] < 1 {
					bad = d
					break
				}
			}
			if len(states) == 0 {
				r.Exempt(rule, key, pos, "function is never entered from an analysed entry point")
				continue
			}
			if bad != nil {
				var tr []string
				for _, en := range a.Abs.Entry[u] {
					for _, rel := range u.Sites[node] {
						if a.Eng.FmtDelta(en.Add(rel)) == a.Eng.FmtDelta(bad) {
							tr = append([]string{fmt.Sprintf("state at site: entry %s + local %s", a.Eng.FmtDelta(en), a.Eng.FmtDelta(rel))}, a.Abs.Path(a.Eng, u, en)...)
						}
					}
				}
				r.Violation(rule, key, pos, fmt.Sprintf("%s is documented as protected by %s but is accessed in a state where it is not held (%s)", name, ac.g.lock, a.Eng.FmtDelta(bad)), tr...)
				continue
			}
			r.Ok(rule, key, pos, fmt.Sprintf("%s held in all %d states", ac.g.lock, len(states)))
		}
	}
}

// freshLocals returns the local variables of u that are only ever assigned a
// freshly allocated object (&T{...}, new(T), T{...}).
func freshLocals(u *flow.Unit, info *types.Info) map[types.Object]bool {
	fresh := map[types.Object]bool{}
	bad := map[types.Object]bool{}
	isAlloc := func(x ast.Expr) bool {
		x = ast.Unparen(x)
		if ue, ok := x.(*ast.UnaryExpr); ok && ue.Op == token.AND {
			_, ok := ast.Unparen(ue.X).(*ast.CompositeLit)
			return ok
		}
		if _, ok := x.(*ast.CompositeLit); ok {
			return true
		}
		if c, ok := x.(*ast.CallExpr); ok {
			if id, ok := c.Fun.(*ast.Ident); ok && id.Name == "new" {
				return true
			}
		}
		return false
	}
	ast.Inspect(u.Body, func(n ast.Node) bool {
		as, ok := n.(*ast.AssignStmt)
		if !ok {
			return true
		}
		for i, l := range as.Lhs {
			id, ok := l.(*ast.Ident)
			if !ok {
				continue
			}
			o := info.ObjectOf(id)
			if o == nil {
				continue
			}
			if len(as.Lhs) == len(as.Rhs) && isAlloc(as.Rhs[i]) {
				fresh[o] = true
			} else {
				bad[o] = true
			}
		}
		return true
	})
	for o := range bad {
		delete(fresh, o)
	}
	return fresh
}

func sortedKeys(m map[string]string) []string {
	var ks []string
	for k := range m {
		ks = append(ks, k)
	}
	sort.Strings(ks)
	return ks
}
