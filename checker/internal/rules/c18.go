package rules

import (
	"strings"

	"verifcheck/internal/ssaq"
)

func init() {
	extraLemmaFuncs = append(extraLemmaFuncs, "capnp.canonicalPtr", "capnp.Canonicalize")
	Register(&Spec{
		ID:          "C18",
		Explanation: "Decides structural necessary conditions of canonicalisation: (R1) the data-only bulk-copy path of canonicalList is taken only for lists that are neither composite nor pointer-bearing, so composite lists always get a tag word and per-element truncation; (R2) every struct emitted (root, pointer fields, every composite-list element) is sized by canonicalStructSize of its source, and (R2e, on SSA values, not names) the element size handed to NewCompositeList is an accumulator every update of which stores a component of canonicalStructSize(src.Struct(i)) under accumulated < element, in a loop from 0 while i < src.Len(); (R5s) a window from Segment.slice is not used after a call that can allocate (the single output segment grows by copying); (R3) capabilities are rejected with an error and the output is the data of one fresh single-segment message; (R4) children are allocated in pre-order (a child is allocated by canonicalPtr after its parent and before the next sibling, then linked), and every error propagates. (R4e) no error test on a value already known to be nil whose branch handles another, untested error. (R4v) the values of canonicalPtr, Struct.Ptr and PointerList.At are used only where their error was tested; (R4t) a detected error is not lost. Does NOT decide byte-identity across layouts or idempotence as value-level facts.",
		Run:         runC18,
	})
}

var canonicalSpecs = []anchorSpec{
	{"capnp.canonicalList", "capnp.alloc", 1, []string{"p0", "allocSize(p1)"}, []string{"(1:listFlags & p1.flags) == 0:listFlags", "0:uint16 == p1.size.PointerCount"}, "bulk copy only for non-composite, pointer-free lists"},
	{"capnp.canonicalList", "builtin.copy", 1, []string{"p0.data[alloc(p0, allocSize(p1))#1:]", "p1.seg.data[p1.off:addSize(p1.off, allocSize(p1))#0]"}, []string{"(1:listFlags & p1.flags) == 0:listFlags", "alloc(p0, allocSize(p1))#2 == nil"}, "bulk copy reads exactly allocSize bytes from the list start"},
	{"capnp.canonicalList", "capnp.NewPointerList", 1, []string{"p0", "p1.length"}, []string{"(1:listFlags & p1.flags) == 0:listFlags"}, "pointer lists are rebuilt pointer by pointer"},
	{"capnp.canonicalList", "capnp.canonicalPtr", 1, []string{"p0", "At(complit, phi)#0"}, []string{"At(complit, phi)#1 == nil", "phi < Len(p1)"}, "each pointer-list element is canonicalised recursively"},
	{"capnp.canonicalList", "capnp.canonicalStructSize", 1, []string{"Struct(p1, phi)"}, []string{"(1:listFlags & p1.flags) != 0:listFlags", "phi < Len(p1)"}, "composite lists: canonical size of every element is taken"},
	{"capnp.canonicalList", "capnp.NewCompositeList", 1, []string{"p0", "§", "p1.length"}, []string{"(1:listFlags & p1.flags) != 0:listFlags"}, "composite list is re-created with a tag word and the accumulated element size (C18-R2e decides what that is)"},
	{"capnp.canonicalList", "capnp.fillCanonicalStruct", 1, []string{"Struct(NewCompositeList(p0, §, p1.length)#0, phi)", "Struct(p1, phi)"}, []string{"NewCompositeList(p0, §, p1.length)#1 == nil"}, "every element is filled from the element with the same index"},
	{"capnp.canonicalPtr", "capnp.NewStruct", 1, []string{"p0", "canonicalStructSize(Struct(p1))"}, []string{"0:int == ptrType(p1.flags)"}, "a struct child is allocated with its truncated size"},
	{"capnp.canonicalPtr", "capnp.fillCanonicalStruct", 1, []string{"NewStruct(p0, canonicalStructSize(Struct(p1)))#0", "Struct(p1)"}, []string{"NewStruct(p0, canonicalStructSize(Struct(p1)))#1 == nil"}, "the child is filled right after its allocation (pre-order)"},
	{"capnp.canonicalPtr", "capnp.newError", 1, nil, []string{"2:int == ptrType(p1.flags)"}, "interface pointers are rejected"},
	{"capnp.fillCanonicalStruct", "builtin.copy", 1, []string{"slice(p0.seg, p0.off, p0.size.DataSize)", "slice(p1.seg, p1.off, p1.size.DataSize)"}, nil, "data section copied, truncated to the canonical size"},
	{"capnp.fillCanonicalStruct", "capnp.canonicalPtr", 1, []string{"p0.seg", "Ptr(p1, phi)#0"}, []string{"Ptr(p1, phi)#1 == nil", "phi < p0.size.PointerCount"}, "child i is canonicalised into the destination segment before child i+1"},
	{"capnp.fillCanonicalStruct", "capnp.(Struct).SetPtr", 1, []string{"p0", "phi", "canonicalPtr(p0.seg, Ptr(p1, phi)#0)#0"}, []string{"canonicalPtr(p0.seg, Ptr(p1, phi)#0)#1 == nil"}, "the canonical child is linked into slot i"},
	{"capnp.Canonicalize", "capnp.NewMessage", 1, []string{"SingleSegment(nil)"}, nil, "output is one fresh single-segment message"},
	{"capnp.Canonicalize", "capnp.NewRootStruct", 1, []string{"NewMessage(SingleSegment(nil))#1", "canonicalStructSize(p0)"}, []string{"IsValid(p0)"}, "the root is allocated first with its truncated size"},
}

func runC18(ctx *Ctx) {
	ruleWrongErrorTested(ctx, "C18-R4e", func(n string) bool { return strings.Contains(n, "anonical") }, "capnp")
	ctx.Rep.Floor("C18-R4e", 8)
	ruleAnchorSpecs(ctx, "C18-R1", canonicalSpecs)
	ruleErrorsNotDropped(ctx, "C18-R4", []string{""}, func(caller string) bool {
		return caller == "capnp.Canonicalize" || caller == "capnp.canonicalPtr" || caller == "capnp.canonicalList" || caller == "capnp.fillCanonicalStruct"
	}, func(callee string) bool { return strings.HasPrefix(callee, "capnp.") }, map[string]string{
		"capnp.Canonicalize | NewMessage": "a fresh single-segment arena cannot fail (documented by the ignored error in the source)",
	})
	ctx.Rep.Floor("C18-R4", 10)
	ruleCanonicalResult(ctx, "C18-R3")
	if ctx.Primary {
		// besides the two canonicalisation functions: the byte extent the
		// data-only bulk copy takes from the source (allocSize: exactly the
		// list's content, no padding) and the resolution of far and double-far
		// pointers through which a multi-segment input is read (shared with
		// C05-R2 and C03-R2) — the canonical bytes must not depend on either
		ruleKernelLemmas(ctx, "C18-R2", []string{"capnp.canonicalPtr", "capnp.Canonicalize", "capnp.(List).allocSize", "capnp.(*Segment).resolveFarPointer"})
	}
	// a child that could not be canonicalised (a capability below it, a limit
	// reached) must fail the whole: the value of canonicalPtr, Ptr and At is
	// used only where their error was tested (shared with C01-R3)
	ruleCheckedResultsIn(ctx, "C18-R4v", func(n string) bool { return strings.Contains(n, "anonical") })
	ruleDetectedErrorNotLost(ctx, "C18-R4t", func(n string) bool { return strings.Contains(n, "anonical") }, detectedErrorExempt)
	ruleCanonicalElemSize(ctx, "C18-R2e")
	ruleNoSliceAcrossAlloc(ctx, "C18-R5s")
	// the truncation scan addresses words of the struct it measures: unchecked
	// address arithmetic only at the listed justified sites (shared with C01-R2)
	ruleUncheckedSites(ctx, "C18-R5u")
	r := ctx.Rep
	r.Floor("C18-R1", 15)
	r.Floor("C18-R3", 1)
	r.Floor("C18-R2e", 2)
}

// ruleCanonicalResult: Canonicalize returns seg.Data() of the fresh segment.
func ruleCanonicalResult(ctx *Ctx, rule string) {
	q := ssaq.For(ctx.Prog)
	r := ctx.Rep
	f := q.Func("capnp.Canonicalize")
	if f == nil {
		r.Fail("%s: Canonicalize not found", rule)
		return
	}
	lines, err := ssaq.Fingerprint(f)
	if err != nil {
		r.Undecided(rule, "Canonicalize | result is the data of the fresh segment", q.Pos(f.Pos()), err.Error())
		return
	}
	ok := false
	for _, l := range lines {
		if strings.Contains(l, "return (capnp.(*Segment).Data(capnp.NewMessage(capnp.SingleSegment(nil))#1), nil)") && strings.Contains(l, "capnp.fillCanonicalStruct(") {
			ok = true
		}
	}
	if ok {
		r.Ok(rule, "Canonicalize | result is the data of the fresh segment", q.Pos(f.Pos()), "returns seg.Data() of the single segment after filling the root")
	} else {
		r.Violation(rule, "Canonicalize | result is the data of the fresh segment", q.Pos(f.Pos()), "the success path no longer returns the bytes of the fresh single segment after fillCanonicalStruct")
	}
}
