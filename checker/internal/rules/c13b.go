package rules

import (
	"fmt"
	"go/token"
	"strings"

	"golang.org/x/tools/go/ssa"

	"verifcheck/internal/core"
	"verifcheck/internal/ssaq"
)

func isIOEOF(v ssa.Value) bool {
	u, ok := v.(*ssa.UnOp)
	if !ok || u.Op != token.MUL {
		return false
	}
	g, ok := u.X.(*ssa.Global)
	return ok && g.Name() == "EOF" && g.Pkg != nil && g.Pkg.Pkg.Path() == "io"
}

// ruleCountByteEOF (C13-R3e): in the streaming decoder the byte after a 0x00 or
// 0xff tag word is read with ReadByte. Its error may be latched into Reader.err
// or returned as it is only where it is known not to be io.EOF: a stream that
// ends exactly there is truncated and must surface as io.ErrUnexpectedEOF, not
// as a clean end of input (the one-shot decoder rejects the same bytes).
func ruleCountByteEOF(ctx *Ctx, rule string) {
	q := ssaq.For(ctx.Prog)
	r := ctx.Rep
	f := q.Func("internal/packed.(*Reader).ReadWord")
	if f == nil {
		r.Fail("%s: ReadWord not found", rule)
		return
	}
	n := 0
	// ReadWord and the helpers that did not exist on the reference tree it calls
	var blocks []*ssa.BasicBlock
	for _, fr := range ssaq.Frames(f) {
		blocks = append(blocks, fr.Fn.Blocks...)
	}
	for _, b := range blocks {
		for _, in := range b.Instrs {
			call, ok := in.(*ssa.Call)
			if !ok || ssaq.StaticCalleeName(call) != "bufio.(*Reader).ReadByte" {
				continue
			}
			var e ssa.Value
			for _, ref := range *call.Referrers() {
				if ex, isEx := ref.(*ssa.Extract); isEx && ex.Index == 1 {
					e = ex
				}
			}
			if e == nil || e.Referrers() == nil {
				continue
			}
			// every byte after the tag byte: the tag read is the one whose byte is
			// tested as a tag (compared with 0x00/0xff or bit-tested); a clean
			// io.EOF there is the end of the stream
			isTag := false
			for _, ref := range *call.Referrers() {
				if ex, isEx := ref.(*ssa.Extract); isEx && ex.Index == 0 {
					isTag = usedAsTag(ex, 0)
				}
			}
			if isTag {
				continue
			}
			// sinks: the error (or a phi that carries it) stored into Reader.err or returned
			type sinkAt struct {
				in    ssa.Instruction
				atoms []ssaq.Atom
			}
			var sinks []sinkAt
			isSink := func(ref ssa.Instruction, val ssa.Value) bool {
				switch x := ref.(type) {
				case *ssa.Store:
					if fa, isFA := x.Addr.(*ssa.FieldAddr); isFA && x.Val == val && ssaq.FieldVar(fa) != nil && core.FieldName(ssaq.FieldVar(fa)) == "err" {
						return true
					}
				case *ssa.Return:
					return true
				}
				return false
			}
			for _, ref := range *e.Referrers() {
				if isSink(ref, e) {
					sinks = append(sinks, sinkAt{ref, ssaq.Atoms(ssaq.Guards(ref.Block()))})
				}
				if phi, isPhi := ref.(*ssa.Phi); isPhi && phi.Referrers() != nil {
					for i, ed := range phi.Edges {
						if ed != e {
							continue
						}
						pred := phi.Block().Preds[i]
						atoms := ssaq.Atoms(ssaq.Guards(pred))
						if ifi, isIf := pred.Instrs[len(pred.Instrs)-1].(*ssa.If); isIf {
							atoms = append(atoms, ssaq.Atoms([]ssaq.Guard{{Cond: ifi.Cond, True: pred.Succs[0] == phi.Block()}})...)
						}
						for _, pref := range *phi.Referrers() {
							if isSink(pref, phi) {
								sinks = append(sinks, sinkAt{pref, atoms})
							}
						}
					}
				}
			}
			k := 0
			for _, sk := range sinks {
				ref := sk.in
				k++
				n++
				key := fmt.Sprintf("ReadWord | read #%d of a byte after the tag: its error is passed on only when it is not io.EOF (sink %d)", callOrdinal(f, call), k)
				pos := q.Pos(ssaq.InstrPos(ref))
				okNE := false
				for _, at := range sk.atoms {
					if at.Op == token.NEQ && ((at.X == e && isIOEOF(at.Y)) || (at.Y == e && isIOEOF(at.X))) {
						okNE = true
					}
				}
				if okNE {
					r.Ok(rule, key, pos, "dominated by err != io.EOF (io.EOF is replaced by io.ErrUnexpectedEOF on the other branch)")
				} else {
					r.Violation(rule, key, pos, "the error of the count-byte read is latched or returned without io.EOF having been excluded: a stream cut right after a 0x00/0xff word ends with a clean io.EOF instead of io.ErrUnexpectedEOF, and the truncation is swallowed")
				}
			}
		}
	}
	if n == 0 {
		r.Violation(rule, "ReadWord | count byte read: its error is passed on only when it is not io.EOF", q.Pos(f.Pos()), "no count-byte read whose error is latched or returned was found under a tag case")
	}
}

// rulePackNoAlias (C13-R6): Pack and Unpack append to dst while they are still
// reading src; the output of a run (tag byte, count byte) can get ahead of the
// input, so dst must not be a window on src's own array. Every call in the module
// passes a destination whose underlying slice value is not the source's.
func rulePackNoAlias(ctx *Ctx, rule string) {
	q := ssaq.For(ctx.Prog)
	r := ctx.Rep
	base := func(v ssa.Value) ssa.Value {
		for {
			switch x := v.(type) {
			case *ssa.Slice:
				v = x.X
				continue
			case *ssa.ChangeType:
				v = x.X
				continue
			}
			return v
		}
	}
	n := 0
	for _, f := range q.FuncsIn("", "internal/packed", "rpc", "encoding/text", "pogs", "schemas", "capnpc-go") {
		k := 0
		for _, b := range f.Blocks {
			for _, in := range b.Instrs {
				cn := ssaq.StaticCalleeName(in)
				if cn != "internal/packed.Pack" && cn != "internal/packed.Unpack" {
					continue
				}
				args := in.(ssa.CallInstruction).Common().Args
				if len(args) != 2 {
					continue
				}
				k++
				n++
				key := fmt.Sprintf("%s | %s #%d destination does not alias the source", ssaq.FuncName(f), cn[strings.LastIndex(cn, ".")+1:], k)
				pos := q.Pos(ssaq.InstrPos(in))
				if _, isNil := base(args[0]).(*ssa.Const); !isNil && base(args[0]) == base(args[1]) {
					r.Violation(rule, key, pos, "the destination "+ssaq.RenderValue(f, args[0])+" is a window on the source's own array: once the packed output of dense data gets ahead of the words already read (two bytes per literal run), the codec overwrites input it has not consumed yet and unpack(pack(x)) != x")
				} else {
					r.Ok(rule, key, pos, "destination and source are different slices")
				}
			}
		}
	}
	if n == 0 {
		r.Fail("%s: no call of packed.Pack/Unpack found", rule)
	}
}

// usedAsTag: the byte value is compared with 0x00/0xff or bit-tested (possibly
// after merging with the fast path's tag in a phi).
func usedAsTag(v ssa.Value, depth int) bool {
	if depth > 3 || v.Referrers() == nil {
		return false
	}
	for _, ref := range *v.Referrers() {
		switch x := ref.(type) {
		case *ssa.BinOp:
			switch x.Op {
			case token.EQL, token.NEQ:
				for _, o := range []ssa.Value{x.X, x.Y} {
					if k, ok := ssaq.ConstInt(o); ok && (k == 0 || k == 255) {
						return true
					}
				}
			case token.AND, token.SHR:
				return true
			}
		case *ssa.Phi:
			if usedAsTag(x, depth+1) {
				return true
			}
		}
	}
	return false
}

func containsAny(s string, subs ...string) bool {
	for _, x := range subs {
		if len(x) > 0 && len(s) >= len(x) {
			for i := 0; i+len(x) <= len(s); i++ {
				if s[i:i+len(x)] == x {
					return true
				}
			}
		}
	}
	return false
}

func callOrdinal(f *ssa.Function, c *ssa.Call) int {
	n := 0
	name := ssaq.StaticCalleeName(c)
	for _, b := range f.Blocks {
		for _, in := range b.Instrs {
			if cc, ok := in.(*ssa.Call); ok && ssaq.StaticCalleeName(cc) == name {
				n++
				if cc == c {
					return n
				}
			}
		}
	}
	return n
}
