package rules

import (
	"fmt"
	"go/constant"
	"go/token"
	"go/types"

	"golang.org/x/tools/go/ssa"
)

// A small constant-folding evaluator over SSA for pure byte-level functions
// (no heap other than local arrays and byte slices, no goroutines, no calls
// outside the given package). It is used to decide finite-domain questions — the
// image of every one of the 256 byte values under an escaping function — by
// folding constants over the function's SSA form. Nothing from the analysed
// repository is executed: the evaluator interprets the instructions itself and
// gives up (error) on anything it does not model.

type ceArr struct {
	elems []constant.Value // nil element = unset (zero)
}

type ceSlice struct {
	arr    *ceArr
	lo, hi int
}

type cePtr struct {
	arr *ceArr
	idx int
}

type ceEval struct {
	steps int
	depth int
}

func ceBytes(b []byte) ceSlice {
	a := &ceArr{elems: make([]constant.Value, len(b))}
	for i, x := range b {
		a.elems[i] = constant.MakeInt64(int64(x))
	}
	return ceSlice{a, 0, len(b)}
}

func (s ceSlice) bytes() ([]byte, error) {
	out := make([]byte, 0, s.hi-s.lo)
	for i := s.lo; i < s.hi; i++ {
		v := s.arr.elems[i]
		if v == nil {
			out = append(out, 0)
			continue
		}
		n, ok := constant.Int64Val(v)
		if !ok {
			return nil, fmt.Errorf("non-integer element")
		}
		out = append(out, byte(n))
	}
	return out, nil
}

func truncate(v constant.Value, t types.Type) constant.Value {
	b, ok := t.Underlying().(*types.Basic)
	if !ok || v.Kind() != constant.Int {
		return v
	}
	n, ok := constant.Int64Val(v)
	if !ok {
		return v
	}
	switch b.Kind() {
	case types.Uint8:
		return constant.MakeInt64(int64(uint8(n)))
	case types.Int8:
		return constant.MakeInt64(int64(int8(n)))
	case types.Uint16:
		return constant.MakeInt64(int64(uint16(n)))
	case types.Int16:
		return constant.MakeInt64(int64(int16(n)))
	case types.Uint32:
		return constant.MakeInt64(int64(uint32(n)))
	case types.Int32:
		return constant.MakeInt64(int64(int32(n)))
	}
	return v
}

// call evaluates f on the given arguments (constant.Value, ceSlice, ...).
func (e *ceEval) call(f *ssa.Function, args []interface{}) ([]interface{}, error) {
	if f == nil || len(f.Blocks) == 0 {
		return nil, fmt.Errorf("no body")
	}
	if e.depth > 6 {
		return nil, fmt.Errorf("call depth")
	}
	e.depth++
	defer func() { e.depth-- }()
	env := map[ssa.Value]interface{}{}
	for i, p := range f.Params {
		if i < len(args) {
			env[p] = args[i]
		}
	}
	var val func(v ssa.Value) (interface{}, error)
	num := func(v ssa.Value) (constant.Value, error) {
		x, err := val(v)
		if err != nil {
			return nil, err
		}
		c, ok := x.(constant.Value)
		if !ok {
			return nil, fmt.Errorf("not a scalar: %T", x)
		}
		return c, nil
	}
	val = func(v ssa.Value) (interface{}, error) {
		if x, ok := env[v]; ok {
			return x, nil
		}
		switch x := v.(type) {
		case *ssa.Const:
			if x.Value == nil {
				if _, isSlice := x.Type().Underlying().(*types.Slice); isSlice {
					return ceSlice{&ceArr{}, 0, 0}, nil
				}
				return nil, fmt.Errorf("nil constant of type %s", x.Type())
			}
			return x.Value, nil
		case *ssa.Global:
			// a package-level array that is written only by its initialiser
			arr, err := globalArray(x)
			if err != nil {
				return nil, err
			}
			env[v] = arr
			return arr, nil
		}
		return nil, fmt.Errorf("value %s (%T) used before it was computed", v.Name(), v)
	}
	blk := f.Blocks[0]
	var pred *ssa.BasicBlock
	for {
		// phis first, in parallel
		phis := map[ssa.Value]interface{}{}
		for _, in := range blk.Instrs {
			ph, ok := in.(*ssa.Phi)
			if !ok {
				break
			}
			for i, p := range blk.Preds {
				if p == pred {
					x, err := val(ph.Edges[i])
					if err != nil {
						return nil, err
					}
					phis[ph] = x
				}
			}
		}
		for k, x := range phis {
			env[k] = x
		}
		var next *ssa.BasicBlock
		for _, in := range blk.Instrs {
			e.steps++
			if e.steps > 200000 {
				return nil, fmt.Errorf("step budget exhausted")
			}
			switch x := in.(type) {
			case *ssa.Phi, *ssa.DebugRef:
			case *ssa.Alloc:
				at, ok := x.Type().Underlying().(*types.Pointer).Elem().Underlying().(*types.Array)
				if !ok {
					return nil, fmt.Errorf("allocation of %s", x.Type())
				}
				env[x] = &ceArr{elems: make([]constant.Value, at.Len())}
			case *ssa.IndexAddr:
				base, err := val(x.X)
				if err != nil {
					return nil, err
				}
				ic, err := num(x.Index)
				if err != nil {
					return nil, err
				}
				i, _ := constant.Int64Val(ic)
				switch bb := base.(type) {
				case *ceArr:
					if i < 0 || int(i) >= len(bb.elems) {
						return nil, fmt.Errorf("index %d out of range", i)
					}
					env[x] = cePtr{bb, int(i)}
				case ceSlice:
					if i < 0 || int(i) >= bb.hi-bb.lo {
						return nil, fmt.Errorf("index %d out of range", i)
					}
					env[x] = cePtr{bb.arr, bb.lo + int(i)}
				default:
					return nil, fmt.Errorf("index of %T", base)
				}
			case *ssa.Store:
				p, err := val(x.Addr)
				if err != nil {
					return nil, err
				}
				pp, ok := p.(cePtr)
				if !ok {
					return nil, fmt.Errorf("store through %T", p)
				}
				c, err := num(x.Val)
				if err != nil {
					return nil, err
				}
				pp.arr.elems[pp.idx] = c
			case *ssa.UnOp:
				switch x.Op {
				case token.MUL:
					p, err := val(x.X)
					if err != nil {
						return nil, err
					}
					pp, ok := p.(cePtr)
					if !ok {
						return nil, fmt.Errorf("load through %T", p)
					}
					c := pp.arr.elems[pp.idx]
					if c == nil {
						c = constant.MakeInt64(0)
					}
					env[x] = c
				case token.NOT:
					c, err := num(x.X)
					if err != nil {
						return nil, err
					}
					env[x] = constant.MakeBool(!constant.BoolVal(c))
				case token.SUB, token.XOR:
					c, err := num(x.X)
					if err != nil {
						return nil, err
					}
					env[x] = truncate(constant.UnaryOp(x.Op, c, 0), x.Type())
				default:
					return nil, fmt.Errorf("unary %s", x.Op)
				}
			case *ssa.BinOp:
				a, err := num(x.X)
				if err != nil {
					return nil, err
				}
				b, err := num(x.Y)
				if err != nil {
					return nil, err
				}
				switch x.Op {
				case token.EQL, token.NEQ, token.LSS, token.LEQ, token.GTR, token.GEQ:
					env[x] = constant.MakeBool(constant.Compare(a, x.Op, b))
				case token.SHL, token.SHR:
					s, _ := constant.Uint64Val(b)
					env[x] = truncate(constant.Shift(a, x.Op, uint(s)), x.Type())
				case token.QUO, token.REM:
					if constant.Sign(b) == 0 {
						return nil, fmt.Errorf("division by zero")
					}
					op := x.Op
					if op == token.QUO {
						op = token.QUO_ASSIGN // integer division
					}
					env[x] = truncate(constant.BinaryOp(a, op, b), x.Type())
				case token.ADD, token.SUB, token.MUL, token.AND, token.OR, token.XOR, token.AND_NOT:
					env[x] = truncate(constant.BinaryOp(a, x.Op, b), x.Type())
				default:
					return nil, fmt.Errorf("binary %s", x.Op)
				}
			case *ssa.Convert:
				c, err := num(x.X)
				if err != nil {
					return nil, err
				}
				env[x] = truncate(c, x.Type())
			case *ssa.ChangeType:
				c, err := val(x.X)
				if err != nil {
					return nil, err
				}
				env[x] = c
			case *ssa.Lookup:
				s, err := num(x.X)
				if err != nil {
					return nil, err
				}
				if s.Kind() != constant.String {
					return nil, fmt.Errorf("lookup in %s", x.X.Type())
				}
				ic, err := num(x.Index)
				if err != nil {
					return nil, err
				}
				i, _ := constant.Int64Val(ic)
				str := constant.StringVal(s)
				if i < 0 || int(i) >= len(str) {
					return nil, fmt.Errorf("string index %d out of range (len %d)", i, len(str))
				}
				env[x] = constant.MakeInt64(int64(str[i]))
			case *ssa.Index:
				s, err := num(x.X)
				if err != nil {
					return nil, err
				}
				if s.Kind() != constant.String {
					return nil, fmt.Errorf("index of %s", x.X.Type())
				}
				ic, err := num(x.Index)
				if err != nil {
					return nil, err
				}
				i, _ := constant.Int64Val(ic)
				str := constant.StringVal(s)
				if i < 0 || int(i) >= len(str) {
					return nil, fmt.Errorf("string index %d out of range (len %d)", i, len(str))
				}
				env[x] = constant.MakeInt64(int64(str[i]))
			case *ssa.Slice:
				base, err := val(x.X)
				if err != nil {
					return nil, err
				}
				var arr *ceArr
				lo0, hi0 := 0, 0
				switch bb := base.(type) {
				case *ceArr:
					arr, hi0 = bb, len(bb.elems)
				case ceSlice:
					arr, lo0, hi0 = bb.arr, bb.lo, bb.hi
				default:
					return nil, fmt.Errorf("slice of %T", base)
				}
				lo, hi := lo0, hi0
				if x.Low != nil {
					c, err := num(x.Low)
					if err != nil {
						return nil, err
					}
					n, _ := constant.Int64Val(c)
					lo = lo0 + int(n)
				}
				if x.High != nil {
					c, err := num(x.High)
					if err != nil {
						return nil, err
					}
					n, _ := constant.Int64Val(c)
					hi = lo0 + int(n)
				}
				if lo < lo0 || hi > len(arr.elems) || lo > hi {
					return nil, fmt.Errorf("slice bounds [%d:%d] out of range", lo-lo0, hi-lo0)
				}
				env[x] = ceSlice{arr, lo, hi}
			case *ssa.Call:
				if bi, ok := x.Call.Value.(*ssa.Builtin); ok {
					switch bi.Name() {
					case "len":
						a, err := val(x.Call.Args[0])
						if err != nil {
							return nil, err
						}
						switch aa := a.(type) {
						case ceSlice:
							env[x] = constant.MakeInt64(int64(aa.hi - aa.lo))
						case constant.Value:
							env[x] = constant.MakeInt64(int64(len(constant.StringVal(aa))))
						default:
							return nil, fmt.Errorf("len of %T", a)
						}
					case "append":
						a, err := val(x.Call.Args[0])
						if err != nil {
							return nil, err
						}
						dst, ok := a.(ceSlice)
						if !ok {
							return nil, fmt.Errorf("append to %T", a)
						}
						b, err := val(x.Call.Args[1])
						if err != nil {
							return nil, err
						}
						src, ok := b.(ceSlice)
						if !ok {
							return nil, fmt.Errorf("append of %T", b)
						}
						na := &ceArr{}
						na.elems = append(na.elems, dst.arr.elems[dst.lo:dst.hi]...)
						na.elems = append(na.elems, src.arr.elems[src.lo:src.hi]...)
						env[x] = ceSlice{na, 0, len(na.elems)}
					default:
						return nil, fmt.Errorf("builtin %s", bi.Name())
					}
					continue
				}
				callee := x.Call.StaticCallee()
				if callee == nil || callee.Pkg != f.Pkg {
					return nil, fmt.Errorf("call outside the package: %s", x.Call.Value.Name())
				}
				var as []interface{}
				for _, a := range x.Call.Args {
					v, err := val(a)
					if err != nil {
						return nil, err
					}
					as = append(as, v)
				}
				res, err := e.call(callee, as)
				if err != nil {
					return nil, err
				}
				if len(res) == 1 {
					env[x] = res[0]
				}
			case *ssa.If:
				c, err := num(x.Cond)
				if err != nil {
					return nil, err
				}
				if constant.BoolVal(c) {
					next = blk.Succs[0]
				} else {
					next = blk.Succs[1]
				}
			case *ssa.Jump:
				next = blk.Succs[0]
			case *ssa.Return:
				var out []interface{}
				for _, rv := range x.Results {
					v, err := val(rv)
					if err != nil {
						return nil, err
					}
					out = append(out, v)
				}
				return out, nil
			default:
				return nil, fmt.Errorf("instruction %T is not modelled", in)
			}
		}
		if next == nil {
			return nil, fmt.Errorf("fell off a block")
		}
		pred, blk = blk, next
	}
}

// evalBytesFunc evaluates f(buf, s) []byte for concrete byte slices.
func evalBytesFunc(f *ssa.Function, buf, s []byte) ([]byte, error) {
	e := &ceEval{}
	res, err := e.call(f, []interface{}{ceBytes(buf), ceBytes(s)})
	if err != nil {
		return nil, err
	}
	if len(res) != 1 {
		return nil, fmt.Errorf("unexpected result count")
	}
	sl, ok := res[0].(ceSlice)
	if !ok {
		return nil, fmt.Errorf("result is %T", res[0])
	}
	return sl.bytes()
}

// globalArray: the contents of a package-level array variable, read off the
// constant stores of the package initialiser — provided no other function of
// the package stores through it or lets its address escape (then it is a
// constant table in all but name).
func globalArray(g *ssa.Global) (*ceArr, error) {
	pt, ok := g.Type().(*types.Pointer)
	if !ok {
		return nil, fmt.Errorf("global %s is not addressable data", g.Name())
	}
	at, ok := pt.Elem().Underlying().(*types.Array)
	if !ok {
		return nil, fmt.Errorf("global %s is not an array", g.Name())
	}
	arr := &ceArr{elems: make([]constant.Value, at.Len())}
	if g.Pkg == nil {
		return nil, fmt.Errorf("global %s has no package", g.Name())
	}
	var fns []*ssa.Function
	var add func(f *ssa.Function)
	add = func(f *ssa.Function) {
		fns = append(fns, f)
		for _, a := range f.AnonFuncs {
			add(a)
		}
	}
	for _, m := range g.Pkg.Members {
		switch x := m.(type) {
		case *ssa.Function:
			add(x)
		case *ssa.Type:
			for _, t := range []types.Type{x.Type(), types.NewPointer(x.Type())} {
				ms := g.Pkg.Prog.MethodSets.MethodSet(t)
				for i := 0; i < ms.Len(); i++ {
					if f := g.Pkg.Prog.MethodValue(ms.At(i)); f != nil && f.Pkg == g.Pkg {
						add(f)
					}
				}
			}
		}
	}
	for _, f := range fns {
		isInit := f.Name() == "init" && f.Parent() == nil
		for _, b := range f.Blocks {
			for _, in := range b.Instrs {
				for _, op := range in.Operands(nil) {
					if *op != ssa.Value(g) {
						continue
					}
					switch x := in.(type) {
					case *ssa.IndexAddr:
						refs := x.Referrers()
						if refs == nil {
							continue
						}
						for _, r := range *refs {
							switch y := r.(type) {
							case *ssa.UnOp:
								// load
							case *ssa.DebugRef:
							case *ssa.Store:
								k, isConst := y.Val.(*ssa.Const)
								ic, isIdx := x.Index.(*ssa.Const)
								if !isInit || y.Addr != ssa.Value(x) || !isConst || k.Value == nil || !isIdx {
									return nil, fmt.Errorf("global %s is written outside its initialiser (in %s)", g.Name(), f.Name())
								}
								i, _ := constant.Int64Val(ic.Value)
								if i < 0 || i >= at.Len() {
									return nil, fmt.Errorf("initialiser of %s stores out of range", g.Name())
								}
								arr.elems[i] = k.Value
							default:
								return nil, fmt.Errorf("the address of an element of %s escapes in %s", g.Name(), f.Name())
							}
						}
					case *ssa.UnOp:
						// whole-array load
					case *ssa.DebugRef:
					default:
						return nil, fmt.Errorf("global %s is used by %T in %s", g.Name(), in, f.Name())
					}
				}
			}
		}
	}
	return arr, nil
}
