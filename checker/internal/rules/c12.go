package rules

import (
	"fmt"
	"go/ast"
	"go/token"
	"go/types"
	"strings"

	"golang.org/x/tools/go/ssa"

	"verifcheck/internal/flow"
	"verifcheck/internal/ssaq"
)

func init() {
	Register(&Spec{
		ID:          "C12",
		Explanation: "Decides structural necessary conditions of ordered, capped, exactly-once local delivery: (R1) lock balance in package server on every CFG path, guarded-by for the Server/answerQueue/structReturner/returnEmbargoer fields, no application code (Method.Impl, Returner, Shutdowner, ReleaseArgs) and no blocking under Server.mu; (R2) the delivery gate Server.starting, once set, is cleared and its channel closed on every path out of start; (R3) the statement that occupies a slot is reached from every acquisition of Server.mu only through a test of srv.drain, with a slot index obtained from nextID; (R4) the call goroutine clears its slot, wakes a waiting start and closes drain only when draining and empty; (R5) every function that receives a capnp.Recv consumes its Returner exactly once on every path, the call goroutine returns exactly once; (R6) the user's Shutdown runs only after the drain wait and a second Shutdown panics. (R2b) after the call goroutine is started, every case of the wait that precedes the release of the delivery gate receives from one of the call's own channels (ack, done). (R5c) base.recv of a draining answer queue is read only on paths that have received from the base's ready channel. (R7) the configured MaxConcurrentCalls is replaced only where it is < 1, and the slot table has exactly that many slots. (R8) the answer queue is settled before Returner.Return (shared with C11-R10). (R9) the base index that queueCaller.PipelineRecv hands out for the entry it has just queued is the index at which fulfill stores that entry's result. Does NOT decide ordering or the concurrency cap as numeric invariants over timings.",
		Run:         runC12,
	})
}

func serverScope(u *flow.Unit) bool { return strings.HasPrefix(u.Name, "server.") }

func runC12(ctx *Ctx) {
	ruleGateHeldUntilAckOrDone(ctx, "C12-R2b")
	ruleGateRetest(ctx, "C12-R2c")
	ruleLockBalance(ctx, "C12-R1", serverScope)
	ruleLockContracts(ctx, "C12-R1c", func(n string) bool { return strings.HasPrefix(n, "server.") })
	ruleGuardedBy(ctx, "C12-R1g", func(g guardedField) bool { return g.pkg == "server" })
	rulePolicy(ctx, "C12-R1p", serverScope, heldPolicy{
		noDynamic: []string{"server.Server.mu", "server.answerQueue.mu", "server.structReturner.mu", "server.returnEmbargoer.mu"},
		noBlock:   []string{"server.Server.mu"},
		noRelock:  []string{"server.Server.mu", "server.answerQueue.mu", "server.structReturner.mu", "server.returnEmbargoer.mu"},
	})
	ruleServerGate(ctx, "C12-R2")
	ruleServerAdmission(ctx, "C12-R3")
	ruleServerSlotRelease(ctx, "C12-R4")
	ruleRecvLinear(ctx, "C12-R5", func(n string) bool { return strings.HasPrefix(n, "server.") })
	ruleServerShutdown(ctx, "C12-R6")
	ruleQueueReady(ctx, "C12-R5b")
	ruleCapAsConfigured(ctx, "C12-R7")
	ruleBaseUsedAfterReady(ctx, "C12-R5c")
	ruleQueueSettledBeforeReturn(ctx, "C12-R8")
	ruleQueuedBasisMatchesDrain(ctx, "C12-R9")
	r := ctx.Rep
	r.Floor("C12-R5c", 1)
	r.Floor("C12-R9", 3)
	r.Floor("C12-R7", 2)
	r.Floor("C12-R5b", 1)
	r.Floor("C12-R1", 30)
	r.Floor("C12-R1c", 2)
	r.Floor("C12-R1g", 50)
	r.Floor("C12-R1p", 60)
	r.Floor("C12-R2", 3)
	r.Floor("C12-R3", 2)
	r.Floor("C12-R4", 5)
	r.Floor("C12-R5", 5)
	r.Floor("C12-R6", 2)
}

func ruleServerGate(ctx *Ctx, rule string) {
	a := lockAnalysis(ctx)
	if a == nil {
		return
	}
	starting := mustField(ctx, rule, "server", "Server", "starting")
	u := mustUnit(ctx, a, rule, "server.(*Server).start")
	if starting == nil || u == nil {
		return
	}
	info := u.Pkg.TypesInfo
	// the channel variable stored into srv.starting
	var chanObj interface{}
	isSet := func(m ast.Node) bool {
		as, ok := m.(*ast.AssignStmt)
		if !ok || len(as.Lhs) != 1 || fieldOfSel(info, as.Lhs[0]) != starting || isNil(as.Rhs[0]) {
			return false
		}
		if id, ok := ast.Unparen(as.Rhs[0]).(*ast.Ident); ok {
			chanObj = info.ObjectOf(id)
		}
		return true
	}
	isClear := func(m ast.Node) bool {
		as, ok := m.(*ast.AssignStmt)
		return ok && len(as.Lhs) == 1 && fieldOfSel(info, as.Lhs[0]) == starting && isNil(as.Rhs[0])
	}
	isCloseGate := func(m ast.Node) bool {
		c, ok := m.(*ast.CallExpr)
		if !ok || !isBuiltinCall(info, c, "close", nil) || len(c.Args) != 1 {
			return false
		}
		id, ok := ast.Unparen(c.Args[0]).(*ast.Ident)
		if !ok || chanObj == nil {
			return false
		}
		if info.ObjectOf(id) == chanObj {
			return true
		}
		// inside a helper that did not exist on the reference tree the gate
		// channel arrives as a parameter
		co, _ := chanObj.(types.Object)
		o := info.ObjectOf(id)
		return co != nil && o != nil && newHelperParams(a)[o] && types.AssignableTo(co.Type(), o.Type()) // the parameter may be send-only
	}
	sets := u.Find(isSet)
	if len(sets) == 0 {
		ctx.Rep.Fail("%s: start no longer sets srv.starting", rule)
		return
	}
	for i, p := range sets {
		node := p.B.Nodes[p.I]
		pathCheck(ctx, a, rule, fmt.Sprintf("start | gate #%d cleared on every path", i+1), u, p.After(), node.Pos(), isClear, nil,
			"srv.starting = nil: otherwise every later call waits for an acknowledgement that never comes")
		pathCheck(ctx, a, rule, fmt.Sprintf("start | gate #%d channel closed on every path", i+1), u, p.After(), node.Pos(), isCloseGate, nil,
			"close(starting): calls already waiting on the gate are never woken")
	}
	for i, p := range u.Find(isCloseGate) {
		noPathCheck(ctx, a, rule, fmt.Sprintf("start | close(starting) #%d at most once", i+1), u, p.After(), p.B.Nodes[p.I].Pos(), isCloseGate, nil,
			"a second close(starting) is reachable (panic)", "no second close reachable")
	}
}

func ruleServerAdmission(ctx *Ctx, rule string) {
	a := lockAnalysis(ctx)
	if a == nil {
		return
	}
	r := ctx.Rep
	ongoing := mustField(ctx, rule, "server", "Server", "ongoing")
	drain := mustField(ctx, rule, "server", "Server", "drain")
	u := mustUnit(ctx, a, rule, "server.(*Server).start")
	if ongoing == nil || drain == nil || u == nil {
		return
	}
	info := u.Pkg.TypesInfo
	cS := a.Sem.ClassByName("server.Server.mu")
	isAdmit := func(m ast.Node) bool {
		as, ok := m.(*ast.AssignStmt)
		if !ok || len(as.Lhs) != 1 {
			return false
		}
		ix, ok := ast.Unparen(as.Lhs[0]).(*ast.IndexExpr)
		if !ok || fieldOfSel(info, ix.X) != ongoing {
			return false
		}
		_, isLit := ast.Unparen(as.Rhs[0]).(*ast.CompositeLit)
		return isLit
	}
	isDrainTest := func(m ast.Node) bool {
		be, ok := m.(*ast.BinaryExpr)
		if !ok || (be.Op != token.NEQ && be.Op != token.EQL) {
			return false
		}
		return (fieldOfSel(info, be.X) == drain && isNil(be.Y)) || (fieldOfSel(info, be.Y) == drain && isNil(be.X))
	}
	isLock := func(m ast.Node) bool {
		c, ok := m.(*ast.CallExpr)
		return ok && calleeName(info, c) == "sync.(*Mutex).Lock" && a.Sem.ClassOf(fieldOfSelRecv(info, c)) == cS
	}
	admits := u.Find(isAdmit)
	if len(admits) == 0 {
		r.Fail("%s: the slot-occupying statement srv.ongoing[id] = cstate{...} was not found in start", rule)
		return
	}
	for i, p := range u.Find(isLock) {
		node := p.B.Nodes[p.I]
		noPathCheck(ctx, a, rule, fmt.Sprintf("start | admission after Lock #%d passes a drain test", i+1), u, p.After(), node.Pos(), isAdmit, isDrainTest,
			"a call can occupy a slot after (re)acquiring Server.mu without re-testing srv.drain: a call can start after Shutdown began draining",
			"every path from this acquisition of Server.mu to the admission tests srv.drain")
	}
	// the slot index comes from nextID (SSA provenance)
	q := ssaq.For(ctx.Prog)
	f := q.Func("server.(*Server).start")
	found := false
	for _, b := range frameBlocks(f) {
		for _, in := range b.Instrs {
			st, ok := in.(*ssa.Store)
			if !ok {
				continue
			}
			// ongoing[id].cancel = ... or ongoing[id] = ...
			var ia *ssa.IndexAddr
			switch ad := st.Addr.(type) {
			case *ssa.IndexAddr:
				ia = ad
			case *ssa.FieldAddr:
				ia, _ = ad.X.(*ssa.IndexAddr)
			}
			if ia == nil {
				continue
			}
			if fld, _ := ssaq.LoadedField(ia.X); fld != ongoing {
				continue
			}
			found = true
			okIdx := indexFromNextID(ia.Index, map[ssa.Value]bool{})
			key := "start | slot index comes from nextID()"
			if okIdx {
				r.Ok(rule, key, q.Pos(ssaq.InstrPos(in)), "every definition reaching the index is a result of srv.nextID()")
			} else {
				r.Violation(rule, key, q.Pos(ssaq.InstrPos(in)), "the slot index is not (only) a result of nextID(): an occupied slot may be overwritten, losing its cancel function and breaking the concurrency cap")
			}
		}
	}
	if !found {
		r.Fail("%s: no store to srv.ongoing[...] found in start (SSA)", rule)
	}
}

func indexFromNextID(v ssa.Value, seen map[ssa.Value]bool) bool {
	if seen[v] {
		return true
	}
	seen[v] = true
	switch x := v.(type) {
	case *ssa.Call:
		return ssaq.StaticCalleeName(x) == "server.(*Server).nextID"
	case *ssa.Phi:
		for _, e := range x.Edges {
			if !indexFromNextID(e, seen) {
				return false
			}
		}
		return true
	case *ssa.UnOp:
		if x.Op == token.MUL {
			// load of a captured/spilled variable: all stores must be nextID results
			if al, ok := x.X.(*ssa.Alloc); ok {
				n := 0
				for _, r := range *al.Referrers() {
					if st, ok := r.(*ssa.Store); ok && st.Addr == al {
						n++
						if !indexFromNextID(st.Val, seen) {
							return false
						}
					}
				}
				return n > 0
			}
		}
	}
	return false
}

func ruleServerSlotRelease(ctx *Ctx, rule string) {
	a := lockAnalysis(ctx)
	if a == nil {
		return
	}
	r := ctx.Rep
	ongoing := mustField(ctx, rule, "server", "Server", "ongoing")
	drain := mustField(ctx, rule, "server", "Server", "drain")
	full := mustField(ctx, rule, "server", "Server", "full")
	start := mustUnit(ctx, a, rule, "server.(*Server).start")
	if ongoing == nil || drain == nil || full == nil || start == nil {
		return
	}
	var g *flow.Unit
	for _, lu := range litChildren(a, start) {
		if lu.Kind == flow.KindGoLit {
			g = lu
		}
	}
	if g == nil {
		r.Fail("%s: the call goroutine (go func literal in start) was not found", rule)
		return
	}
	info := g.Pkg.TypesInfo
	isFree := func(m ast.Node) bool {
		as, ok := m.(*ast.AssignStmt)
		if !ok || len(as.Lhs) != 1 {
			return false
		}
		ix, ok := ast.Unparen(as.Lhs[0]).(*ast.IndexExpr)
		if !ok || fieldOfSel(info, ix.X) != ongoing {
			return false
		}
		cl, ok := ast.Unparen(as.Rhs[0]).(*ast.CompositeLit)
		return ok && len(cl.Elts) == 0
	}
	pathCheck(ctx, a, rule, "call goroutine | slot freed on every path", g, g.Entry(), g.Pos, isFree, nil, "srv.ongoing[id] = cstate{}: otherwise the slot stays occupied and the server eventually refuses all calls")
	isImpl := func(m ast.Node) bool {
		c, ok := m.(*ast.CallExpr)
		if !ok {
			return false
		}
		d := dynamicCallee(info, c)
		return strings.HasPrefix(d, "func value ") && strings.HasSuffix(d, ".Impl")
	}
	noPathCheck(ctx, a, rule, "call goroutine | slot freed only after the implementation returned", g, g.Entry(), g.Pos, isFree, isImpl,
		"the slot can be freed before the method implementation ran", "every path to the slot release passes the call of m.Impl")
	// close(done) on every path (start waits for ack or done)
	isCloseLocal := func(m ast.Node) bool {
		c, ok := m.(*ast.CallExpr)
		if !ok || !isBuiltinCall(info, c, "close", nil) || len(c.Args) != 1 {
			return false
		}
		// a channel held in a local of start (done), not a field of the server
		id, ok := ast.Unparen(c.Args[0]).(*ast.Ident)
		if !ok {
			return false
		}
		v, isVar := info.ObjectOf(id).(*types.Var)
		if !isVar || v.IsField() {
			return false
		}
		_, isChan := v.Type().Underlying().(*types.Chan)
		return isChan
	}
	pathCheck(ctx, a, rule, "call goroutine | close(done) on every path", g, g.Entry(), g.Pos, isCloseLocal, nil, "close(done): start would wait forever when the implementation never acks")
	// SSA guards of close(srv.drain) and close(srv.full) in the goroutine
	q := ssaq.For(ctx.Prog)
	var gf *ssa.Function
	for _, f := range q.FuncsIn("server") {
		if f.Parent() != nil && ssaq.FuncName(f.Parent()) == "server.(*Server).start" && f.Pos() == g.Lit.Pos() {
			gf = f
		}
	}
	if gf == nil {
		for _, f := range q.FuncsIn("server") {
			if f.Parent() != nil && ssaq.FuncName(f.Parent()) == "server.(*Server).start" && f.Syntax() == ast.Node(g.Lit) {
				gf = f
			}
		}
	}
	if gf == nil {
		r.Fail("%s: SSA function of the call goroutine not found", rule)
		return
	}
	sawDrain, sawFull := false, false
	// the goroutine's body and the helpers that did not exist on the reference
	// tree it calls (the guards of a close are then looked for where the close is)
	var gblocks []*ssa.BasicBlock
	for _, fr := range ssaq.Frames(gf) {
		gblocks = append(gblocks, fr.Fn.Blocks...)
	}
	for _, b := range gblocks {
		for _, in := range b.Instrs {
			cc, ok := ssaq.BuiltinCall(in, "close")
			if !ok || len(cc.Args) != 1 {
				continue
			}
			fld, base := ssaq.LoadedField(cc.Args[0])
			if fld == nil {
				continue
			}
			bp := ssaq.AccessPath(base)
			atoms := ssaq.Atoms(ssaq.Guards(b))
			cmps := ssaq.FieldCmps(atoms)
			pos := q.Pos(ssaq.InstrPos(in))
			switch fld {
			case drain:
				sawDrain = true
				nonNil, empty := false, false
				for _, c := range cmps {
					if c.Field == drain && c.Base == bp && c.IsNil && c.Op == token.NEQ {
						nonNil = true
					}
				}
				for _, at := range atoms {
					if at.Op == token.ILLEGAL && !at.True {
						if c, ok := at.Val.(*ssa.Call); ok && ssaq.StaticCalleeName(c) == "server.(*Server).hasOngoing" {
							empty = true
						}
					}
				}
				key := "call goroutine | close(srv.drain) only when draining and empty"
				if nonNil && empty {
					r.Ok(rule, key, pos, "dominated by srv.drain != nil && !srv.hasOngoing()")
				} else {
					r.Violation(rule, key, pos, fmt.Sprintf("drain is closed without both guards (drain != nil: %v, !hasOngoing(): %v): Shutdown would run the user's Shutdown while calls are still running, or close a nil channel", nonNil, empty))
				}
			case full:
				sawFull = true
				nonNil := false
				for _, c := range cmps {
					if c.Field == full && c.Base == bp && c.IsNil && c.Op == token.NEQ {
						nonNil = true
					}
				}
				key := "call goroutine | close(srv.full) only when a start is waiting"
				if nonNil {
					r.Ok(rule, key, pos, "dominated by srv.full != nil")
				} else {
					r.Violation(rule, key, pos, "close(srv.full) is not dominated by srv.full != nil (close of nil channel panics)")
				}
			}
		}
	}
	if !sawDrain {
		r.Violation(rule, "call goroutine | close(srv.drain) only when draining and empty", ctx.Prog.Rel(g.Pos), "the call goroutine never closes srv.drain: Shutdown would wait forever for running calls")
	}
	if !sawFull {
		r.Violation(rule, "call goroutine | close(srv.full) only when a start is waiting", ctx.Prog.Rel(g.Pos), "the call goroutine never wakes a start() waiting for a free slot")
	}
	// full is cleared after being closed
	isCloseFull := func(m ast.Node) bool { return isBuiltinCall(info, m, "close", full) }
	isClearFull := func(m ast.Node) bool {
		as, ok := m.(*ast.AssignStmt)
		return ok && len(as.Lhs) == 1 && fieldOfSel(info, as.Lhs[0]) == full && isNil(as.Rhs[0])
	}
	for _, p := range g.Find(isCloseFull) {
		pathCheck(ctx, a, rule, "call goroutine | srv.full cleared after close", g, p.After(), p.B.Nodes[p.I].Pos(), isClearFull, nil, "srv.full = nil (a later return would close it again)")
	}
}

func ruleServerShutdown(ctx *Ctx, rule string) {
	a := lockAnalysis(ctx)
	if a == nil {
		return
	}
	r := ctx.Rep
	drain := mustField(ctx, rule, "server", "Server", "drain")
	u := mustUnit(ctx, a, rule, "server.(*Server).Shutdown")
	if drain == nil || u == nil {
		return
	}
	info := u.Pkg.TypesInfo
	isUser := func(m ast.Node) bool { return isCallNamed(info, m, "server.(Shutdowner).Shutdown") }
	isDrained := func(m ast.Node) bool {
		return isRecvFromField(info, m, drain) || isBuiltinCall(info, m, "close", drain)
	}
	if unitHolding(a, u, isUser) == nil {
		r.Violation(rule, "Shutdown | user Shutdown is called", ctx.Prog.Rel(u.Pos), "Server.Shutdown no longer calls the Shutdowner")
	}
	noPathCheck(ctx, a, rule, "Shutdown | user Shutdown after drain", u, u.Entry(), u.Pos, isUser, isDrained,
		"the user's Shutdown can run without waiting for ongoing calls to drain (neither <-srv.drain nor the no-ongoing branch was passed)",
		"every path to the user's Shutdown passes <-srv.drain or the no-ongoing close(srv.drain)")
	// who may call the Shutdowner
	for _, un := range a.UnitsSorted() {
		if !serverScope(un) || un == u || onlyReachedFrom(ctx, un.Name, "server.(*Server).Shutdown") {
			continue // Shutdown itself, or a piece of it moved into a new helper
		}
		if len(un.Find(func(m ast.Node) bool { return isCallNamed(un.Pkg.TypesInfo, m, "server.(Shutdowner).Shutdown") })) > 0 {
			r.Violation(rule, un.Name+" | calls Shutdowner.Shutdown", ctx.Prog.Rel(un.Pos), "the user's Shutdown is called outside Server.Shutdown")
		}
	}
	// second Shutdown panics: the store drain = make(...) is dominated by drain == nil
	q := ssaq.For(ctx.Prog)
	f := q.Func("server.(*Server).Shutdown")
	found := false
	for _, b := range f.Blocks {
		for _, in := range b.Instrs {
			st, ok := in.(*ssa.Store)
			if !ok {
				continue
			}
			fa, ok := st.Addr.(*ssa.FieldAddr)
			if !ok || ssaq.FieldVar(fa) != drain {
				continue
			}
			found = true
			okc := false
			for _, c := range ssaq.FieldCmps(ssaq.Atoms(ssaq.Guards(b))) {
				if c.Field == drain && c.IsNil && c.Op == token.EQL {
					okc = true
				}
			}
			key := "Shutdown | drain set only when not yet shutting down"
			if okc {
				r.Ok(rule, key, q.Pos(ssaq.InstrPos(in)), "dominated by srv.drain == nil (the other edge panics)")
			} else {
				r.Violation(rule, key, q.Pos(ssaq.InstrPos(in)), "srv.drain is replaced without testing that Shutdown has not already started: a second Shutdown would run the user's Shutdown twice")
			}
		}
	}
	if !found {
		r.Fail("%s: Server.Shutdown no longer sets srv.drain", rule)
	}
}
