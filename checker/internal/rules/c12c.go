package rules

import (
	"fmt"
	"go/ast"
	"go/token"
	"strings"

	"verifcheck/internal/core"
	"verifcheck/internal/flow"
)

// ruleGateRetest (C12-R2c): Server.starting is a condition variable guarded by
// Server.mu. A caller that finds it taken releases the mutex, waits for the
// holder's signal and takes the mutex again — and then has to look at
// srv.starting AGAIN before it installs its own gate: several callers wake on
// the same signal, and only the first to re-acquire the mutex may proceed.
// On every path from an acquisition of srv.mu to "srv.starting = <new gate>"
// there is a test of srv.starting (against nil, directly or through a local
// copy taken after the acquisition).
//
// A helper that did not exist on the reference tree and returns with srv.mu
// re-acquired without such a test after its last acquisition counts as an
// acquisition at each of its calls.
func ruleGateRetest(ctx *Ctx, rule string) {
	a := lockAnalysis(ctx)
	if a == nil {
		return
	}
	r := ctx.Rep
	starting := mustField(ctx, rule, "server", "Server", "starting")
	mu := mustField(ctx, rule, "server", "Server", "mu")
	u := mustUnit(ctx, a, rule, "server.(*Server).start")
	if starting == nil || mu == nil || u == nil {
		return
	}
	isLock := func(un *flow.Unit) func(ast.Node) bool {
		info := un.Pkg.TypesInfo
		return func(m ast.Node) bool {
			c, ok := m.(*ast.CallExpr)
			if !ok || calleeName(info, c) != "sync.(*Mutex).Lock" {
				return false
			}
			sel, ok := ast.Unparen(c.Fun).(*ast.SelectorExpr)
			return ok && fieldOfSel(info, sel.X) == mu
		}
	}
	isTest := func(un *flow.Unit) func(ast.Node) bool {
		info := un.Pkg.TypesInfo
		return func(m ast.Node) bool {
			be, ok := m.(*ast.BinaryExpr)
			if !ok || (be.Op != token.EQL && be.Op != token.NEQ) {
				return false
			}
			return (isNil(be.Y) && fieldOrCopy(info, be.X) == starting) || (isNil(be.X) && fieldOrCopy(info, be.Y) == starting)
		}
	}
	isReturn := func(m ast.Node) bool { _, ok := m.(*ast.ReturnStmt); return ok }
	// new helpers that hand the mutex back re-acquired and untested
	dirty := map[string]bool{}
	for _, h := range a.UnitsSorted() {
		if h.Obj == nil || !core.IsNewFunc(h.Obj) || !strings.HasPrefix(h.Name, "server.") {
			continue
		}
		for _, p := range h.Find(isLock(h)) {
			if a.Eng.Reaches(h, p.After(), isReturn, isTest(h)).Found {
				dirty[h.Name] = true
			}
		}
	}
	info := u.Pkg.TypesInfo
	isSet := func(m ast.Node) bool {
		as, ok := m.(*ast.AssignStmt)
		return ok && len(as.Lhs) == 1 && len(as.Rhs) == 1 && fieldOfSel(info, as.Lhs[0]) == starting && !isNil(as.Rhs[0])
	}
	isDirtyCall := func(m ast.Node) bool {
		c, ok := m.(*ast.CallExpr)
		return ok && dirty[calleeName(info, c)]
	}
	var starts []flow.Point
	starts = append(starts, u.Find(isLock(u))...)
	starts = append(starts, u.Find(isDirtyCall)...)
	if len(u.Find(isSet)) == 0 {
		r.Fail("%s: start no longer installs a gate (srv.starting = ...)", rule)
		return
	}
	for i, p := range starts {
		node := p.B.Nodes[p.I]
		key := fmt.Sprintf("start | srv.starting re-tested after acquisition #%d of srv.mu before a new gate is installed", i+1)
		res := a.Eng.Reaches(u, p.After(), isSet, isTest(u))
		if res.Found {
			r.Violation(rule, key, ctx.Prog.Rel(node.Pos()), "after srv.mu is (re-)acquired here a new gate can be installed without looking at srv.starting again: two callers woken by the same signal both proceed, and calls are delivered before the previous one returned or acknowledged", res.Trace...)
		} else {
			r.Ok(rule, key, ctx.Prog.Rel(node.Pos()), "every path from this acquisition to the installation of a gate tests srv.starting")
		}
	}
	r.Floor(rule, 2)
}
