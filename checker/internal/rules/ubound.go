package rules

import (
	"fmt"
	"go/token"
	"go/types"
	"math"

	"golang.org/x/tools/go/ssa"

	"verifcheck/internal/ssaq"
)

// Upper bounds of integer SSA values: constants, + - * / by constants, min-like
// helpers (any static callee, through a per-return summary refined by the
// guards dominating each return), loop counters (phi of an initial value and
// phi+c under a dominating phi < E), refined at a program point by the
// dominating comparisons against bounded values. inf = unknown.
const ubInf = int64(math.MaxInt64 / 4)

type ubCtx struct {
	params   map[*ssa.Parameter]int64
	visiting map[ssa.Value]bool
	depth    int
	// at: the block from which the value is looked at; its dominating
	// comparisons refine the bound of every sub-expression (i/8 where i < n)
	at *ssa.BasicBlock
	// lens: bounds on the length of slice parameters (a callee summarised for
	// a call whose slice argument has a bounded length)
	lens map[*ssa.Parameter]int64
}

func ubAdd(a, b int64) int64 {
	if a >= ubInf || b >= ubInf {
		return ubInf
	}
	return a + b
}

// ubAt: upper bound of v as seen from block at (its dominating guards refine the bound).
func (c *ubCtx) ubAt(v ssa.Value, at *ssa.BasicBlock) int64 {
	old := c.at
	c.at = at
	b := c.ub(v)
	c.at = old
	if at == nil {
		return b
	}
	for _, a := range ssaq.Atoms(ssaq.Guards(at)) {
		var other ssa.Value
		strict := false
		scale := int64(1)
		lhs, rhs := a.X, a.Y
		if a.Op == token.GTR || a.Op == token.GEQ {
			lhs, rhs = a.Y, a.X
		}
		// v*k < E bounds v as well
		if m, ok := lhs.(*ssa.BinOp); ok && m.Op == token.MUL && lhs != v {
			if k, isC := ssaq.ConstInt(m.Y); isC && k > 0 && m.X == v {
				lhs, scale = v, k
			} else if k, isC := ssaq.ConstInt(m.X); isC && k > 0 && m.Y == v {
				lhs, scale = v, k
			}
		}
		switch {
		case (a.Op == token.LSS || a.Op == token.GTR) && lhs == v:
			other, strict = rhs, true
		case (a.Op == token.LEQ || a.Op == token.GEQ) && lhs == v:
			other = rhs
		default:
			continue
		}
		if c.visiting[other] {
			continue
		}
		o := c.ub(other)
		if o >= ubInf {
			continue
		}
		if strict {
			o--
		}
		if scale > 1 && o >= 0 {
			o /= scale
		}
		if o < b {
			b = o
		}
	}
	return b
}

func (c *ubCtx) ub(v ssa.Value) int64 {
	b := c.ubStruct(v)
	if c.at != nil && c.depth < 40 && !c.visiting[v] {
		if _, isConst := v.(*ssa.Const); !isConst {
			c.visiting[v] = true
			if g := c.guardBound(v, c.at); g < b {
				b = g
			}
			delete(c.visiting, v)
		}
	}
	return b
}

func (c *ubCtx) ubStruct(v ssa.Value) int64 {
	if c.depth > 60 {
		return ubInf
	}
	c.depth++
	defer func() { c.depth-- }()
	switch x := v.(type) {
	case *ssa.Const:
		if k, ok := ssaq.ConstInt(x); ok {
			return k
		}
	case *ssa.Parameter:
		if b, ok := c.params[x]; ok {
			return b
		}
	case *ssa.Convert:
		in := c.ub(x.X)
		if b, ok := x.X.Type().Underlying().(*types.Basic); ok {
			switch b.Kind() {
			case types.Uint8:
				if in > 255 {
					in = 255
				}
			case types.Uint16:
				if in > 65535 {
					in = 65535
				}
			}
		}
		return in
	case *ssa.ChangeType:
		return c.ub(x.X)
	case *ssa.BinOp:
		switch x.Op {
		case token.ADD:
			return ubAdd(c.ub(x.X), c.ub(x.Y))
		case token.SUB:
			if k, ok := ssaq.ConstInt(x.Y); ok && k >= 0 {
				a := c.ub(x.X)
				if a >= ubInf {
					return ubInf
				}
				return a - k
			}
		case token.MUL:
			a, b := c.ub(x.X), c.ub(x.Y)
			if a >= ubInf || b >= ubInf || a < 0 || b < 0 {
				return ubInf
			}
			if a != 0 && b > ubInf/a {
				return ubInf
			}
			return a * b
		case token.QUO:
			if k, ok := ssaq.ConstInt(x.Y); ok && k > 0 {
				a := c.ub(x.X)
				if a >= ubInf {
					return ubInf
				}
				return a / k
			}
		case token.AND:
			if k, ok := ssaq.ConstInt(x.Y); ok && k >= 0 {
				return k
			}
			if k, ok := ssaq.ConstInt(x.X); ok && k >= 0 {
				return k
			}
		case token.SHR:
			return c.ub(x.X)
		}
	case *ssa.Phi:
		if c.visiting[x] {
			return ubInf
		}
		c.visiting[x] = true
		defer delete(c.visiting, x)
		m := int64(math.MinInt64)
		for _, e := range x.Edges {
			var b int64
			if bo, ok := e.(*ssa.BinOp); ok && bo.Op == token.ADD && (bo.X == ssa.Value(x) || bo.Y == ssa.Value(x)) {
				step := bo.Y
				if bo.Y == ssa.Value(x) {
					step = bo.X
				}
				// the counter as seen where it is incremented: only the guards can bound it
				g := c.guardBound(x, bo.Block())
				b = ubAdd(g, c.ub(step))
			} else {
				b = c.ub(e)
			}
			if b > m {
				m = b
			}
		}
		return m
	case *ssa.Call:
		if bi, ok := x.Call.Value.(*ssa.Builtin); ok && bi.Name() == "len" && len(x.Call.Args) == 1 {
			return c.ubLen(x.Call.Args[0], x.Block(), 0)
		}
		if bi, ok := x.Call.Value.(*ssa.Builtin); ok && bi.Name() == "min" {
			m := ubInf
			for _, a := range x.Call.Args {
				if b := c.ub(a); b < m {
					m = b
				}
			}
			return m
		}
		if f := x.Call.StaticCallee(); f != nil && len(f.Blocks) > 0 && len(f.Blocks) < 40 && f.Signature.Results().Len() == 1 {
			sub := &ubCtx{params: map[*ssa.Parameter]int64{}, visiting: map[ssa.Value]bool{}, depth: c.depth}
			sub.lens = map[*ssa.Parameter]int64{}
			for i, p := range f.Params {
				if i < len(x.Call.Args) {
					if _, isSlice := p.Type().Underlying().(*types.Slice); isSlice {
						sub.lens[p] = c.ubLen(x.Call.Args[i], x.Block(), 0)
						continue
					}
					sub.params[p] = c.ub(x.Call.Args[i])
				}
			}
			m := int64(math.MinInt64)
			for _, b := range f.Blocks {
				if r, ok := b.Instrs[len(b.Instrs)-1].(*ssa.Return); ok {
					if k := sub.ubAt(r.Results[0], b); k > m {
						m = k
					}
				}
			}
			if m > math.MinInt64 {
				return m
			}
		}
	}
	return ubInf
}

// guardBound: bound of v at block at from the dominating comparisons alone.
func (c *ubCtx) guardBound(v ssa.Value, at *ssa.BasicBlock) int64 {
	b := ubInf
	for _, a := range ssaq.Atoms(ssaq.Guards(at)) {
		var other ssa.Value
		strict := false
		scale := int64(1)
		lhs, rhs := a.X, a.Y
		if a.Op == token.GTR || a.Op == token.GEQ {
			lhs, rhs = a.Y, a.X
		}
		// v*k < E bounds v as well
		if m, ok := lhs.(*ssa.BinOp); ok && m.Op == token.MUL && lhs != v {
			if k, isC := ssaq.ConstInt(m.Y); isC && k > 0 && m.X == v {
				lhs, scale = v, k
			} else if k, isC := ssaq.ConstInt(m.X); isC && k > 0 && m.Y == v {
				lhs, scale = v, k
			}
		}
		switch {
		case (a.Op == token.LSS || a.Op == token.GTR) && lhs == v:
			other, strict = rhs, true
		case (a.Op == token.LEQ || a.Op == token.GEQ) && lhs == v:
			other = rhs
		default:
			continue
		}
		if c.visiting[other] {
			continue
		}
		o := c.ub(other)
		if o >= ubInf {
			continue
		}
		if strict {
			o--
		}
		if scale > 1 && o >= 0 {
			o /= scale
		}
		if o < b {
			b = o
		}
	}
	return b
}

// ruleNarrowingFits: in the given functions every conversion of a wider integer
// to uint8 has an operand whose upper bound is at most 255 (a count byte cannot
// wrap).
func ruleNarrowingFits(ctx *Ctx, rule string, funcs []string) {
	q := ssaq.For(ctx.Prog)
	r := ctx.Rep
	for _, name := range funcs {
		f := q.Func(name)
		if f == nil {
			r.Fail("%s: %s not found", rule, name)
			continue
		}
		n := 0
		for _, b := range f.Blocks {
			for _, in := range b.Instrs {
				cv, ok := in.(*ssa.Convert)
				if !ok {
					continue
				}
				to, ok1 := cv.Type().Underlying().(*types.Basic)
				from, ok2 := cv.X.Type().Underlying().(*types.Basic)
				if !ok1 || !ok2 || to.Kind() != types.Uint8 || from.Info()&types.IsInteger == 0 || from.Kind() == types.Uint8 {
					continue
				}
				if _, isConst := cv.X.(*ssa.Const); isConst {
					continue
				}
				n++
				key := fmt.Sprintf("%s | byte(%s) #%d fits in a byte", name, ssaq.RenderValue(f, cv.X), n)
				pos := q.Pos(ssaq.InstrPos(cv))
				c := &ubCtx{params: map[*ssa.Parameter]int64{}, visiting: map[ssa.Value]bool{}}
				ub := c.ubAt(cv.X, cv.Block())
				switch {
				case ub <= 255:
					r.Ok(rule, key, pos, fmt.Sprintf("upper bound %d", ub))
				case ub >= ubInf:
					r.Violation(rule, key, pos, "no upper bound can be derived for the value converted to a byte: a run count above 255 wraps around and the decoder reads a different number of words than were written")
				default:
					r.Violation(rule, key, pos, fmt.Sprintf("the value converted to a byte can be as large as %d: the count byte wraps around (256 -> 0) while the encoder skips or emits that many words, so unpack(pack(x)) != x for long runs", ub))
				}
			}
		}
		if n == 0 {
			r.Fail("%s: no narrowing conversion to byte found in %s", rule, name)
		}
	}
}

// ubLen: an upper bound of len(x) as seen from block at: the high bound of a
// slice expression, the maximum over the edges of a phi (each edge seen from
// its predecessor, whose branch into the phi's block counts), or what the
// dominating comparisons say about a len(x) taken of this very value.
func (c *ubCtx) ubLen(x ssa.Value, at *ssa.BasicBlock, depth int) int64 {
	if depth > 6 {
		return ubInf
	}
	switch v := x.(type) {
	case *ssa.Slice:
		if v.High != nil {
			return c.ubAt(v.High, at)
		}
		return c.ubLen(v.X, at, depth+1)
	case *ssa.Phi:
		if c.visiting[v] {
			return ubInf
		}
		c.visiting[v] = true
		defer delete(c.visiting, v)
		m := int64(math.MinInt64)
		for i, e := range v.Edges {
			if b := c.ubLenOnEdge(e, v.Block().Preds[i], v.Block(), depth+1); b > m {
				m = b
			}
		}
		return m
	}
	b := c.lenGuards(x, ssaq.Atoms(ssaq.Guards(at)))
	if p, ok := x.(*ssa.Parameter); ok {
		if l, has := c.lens[p]; has && l < b {
			b = l
		}
	}
	return b
}

func (c *ubCtx) ubLenOnEdge(x ssa.Value, pred, to *ssa.BasicBlock, depth int) int64 {
	b := c.ubLen(x, pred, depth)
	if iff, ok := pred.Instrs[len(pred.Instrs)-1].(*ssa.If); ok && pred.Succs[0] != pred.Succs[1] {
		if g := c.lenGuards(x, ssaq.Atoms([]ssaq.Guard{{Cond: iff.Cond, True: pred.Succs[0] == to}})); g < b {
			b = g
		}
	}
	return b
}

// lenGuards: the bound the atoms give for a call len(x) of this value x.
func (c *ubCtx) lenGuards(x ssa.Value, atoms []ssaq.Atom) int64 {
	isLen := func(v ssa.Value) bool {
		call, ok := v.(*ssa.Call)
		if !ok || len(call.Call.Args) != 1 || call.Call.Args[0] != x {
			return false
		}
		bi, ok := call.Call.Value.(*ssa.Builtin)
		return ok && bi.Name() == "len"
	}
	b := ubInf
	for _, a := range atoms {
		lhs, rhs := a.X, a.Y
		if a.Op == token.GTR || a.Op == token.GEQ {
			lhs, rhs = a.Y, a.X
		}
		if lhs == nil || !isLen(lhs) {
			continue
		}
		strict := a.Op == token.LSS || a.Op == token.GTR
		if !strict && a.Op != token.LEQ && a.Op != token.GEQ {
			continue
		}
		o := c.ub(rhs)
		if o >= ubInf {
			continue
		}
		if strict {
			o--
		}
		if o < b {
			b = o
		}
	}
	return b
}
