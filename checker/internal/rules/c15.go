package rules

import (
	"fmt"
	"go/ast"
	"go/constant"
	"go/token"
	"go/types"
	"os"
	"path/filepath"
	"regexp"
	"sort"
	"strings"
	"text/template/parse"

	"golang.org/x/tools/go/ssa"

	"verifcheck/internal/ssaq"
)

var c15LemmaFuncs = []string{
	"capnpc-go.(structUintFieldParams).Offset", "capnpc-go.(structFloatFieldParams).Offset", "capnpc-go.(*node).DiscriminantOffset", "capnpc-go.intbits",
	"capnpc-go.intFieldDefaultMask", "capnpc-go.intValue", "capnpc-go.uintValue", "capnpc-go.(field).HasDiscriminant",
}

func init() {
	extraLemmaFuncs = append(extraLemmaFuncs, c15LemmaFuncs...)
	Register(&Spec{
		ID:          "C15",
		Explanation: "Checks the generator as a program, without running it: (R1) the template text actually compiled in (the string constant passed to Parse in templates.go, parsed with text/template/parse) has, in every field template, getters that start with the _checktag snippet, setters and New... functions that start with _settag and Has... functions from _hasfield; the three snippets test/write Uint16(.Node.DiscriminantOffset) against .Field.DiscriminantValue; data templates pass the same .Offset and .Bits to UintN and SetUintN and XOR .Default on both sides, bool and pointer templates pass .Field.Slot.Offset; every file under templates/ parses to the same tree as its embedded definition; (R2) the parameter code computes Offset = Slot.Offset * Bits/8, DiscriminantOffset*2 and the bit widths per type (normal forms); (R4) no map is ranged over in the generator (output order cannot depend on map iteration); (R5) no error is dropped in the generator and no function returns an error variable that is known nil after testing a different one; (R6) imports.reserve appends a spec to the import table only on control-flow edges that carry 'byName found no import of that name' (import names in the emitted file are unique); (R6i) importForNode omits the import only where the two nodes have the same import path. Does NOT decide that emitted code compiles nor that emitted bytes are right for a given schema.",
		Run:         runC15,
	})
}

func runC15(ctx *Ctx) {
	ruleTemplates(ctx, "C15-R1")
	if ctx.Primary {
		ruleKernelLemmas(ctx, "C15-R2", c15LemmaFuncs)
	}
	ruleNoMapRange(ctx, "C15-R4")
	ruleImportNamesUnique(ctx, "C15-R6")
	ruleImportOnlyOmittedForSamePath(ctx, "C15-R6i")
	ruleFloatMaskUnconditional(ctx, "C15-R7")
	ruleNoNarrowSchemaArithmetic(ctx, "C15-R8")
	ruleErrorsNotDropped(ctx, "C15-R5", []string{"capnpc-go"}, nil, func(callee string) bool {
		return strings.HasPrefix(callee, "capnpc-go.") || strings.HasPrefix(callee, "os.") || strings.HasPrefix(callee, "io.") || strings.HasPrefix(callee, "go/format.") || strings.Contains(callee, "template.(*Template).Execute")
	}, map[string]string{
		"capnpc-go.displayName | DisplayName":              "the display name is used only inside error messages and String(); an unreadable name yields an empty string there, no emitted code depends on it",
		"capnpc-go.(*node).shortDisplayName | DisplayName": "used only inside error messages (field %s.%s: ...); no emitted code depends on it",
	})
	ruleReturnsTestedError(ctx, "C15-R5r", "capnpc-go")
	r := ctx.Rep
	r.Floor("C15-R1", 40)
	r.Floor("C15-R2", 4)
	r.Floor("C15-R5", 30)
	r.Floor("C15-R5r", 5)
}

// embeddedTemplates returns the template text compiled into capnpc-go.
func embeddedTemplates(ctx *Ctx) (string, token.Pos, error) {
	pk := ctx.Prog.Pkg("capnpc-go")
	if pk == nil {
		return "", token.NoPos, fmt.Errorf("package capnpc-go not loaded")
	}
	var text string
	var pos token.Pos
	for _, f := range pk.Syntax {
		ast.Inspect(f, func(n ast.Node) bool {
			call, ok := n.(*ast.CallExpr)
			if !ok || len(call.Args) != 1 {
				return true
			}
			sel, ok := call.Fun.(*ast.SelectorExpr)
			if !ok || sel.Sel.Name != "Parse" {
				return true
			}
			if tv, ok := pk.TypesInfo.Types[call.Args[0]]; ok && tv.Value != nil && tv.Value.Kind() == constant.String {
				s := constant.StringVal(tv.Value)
				if strings.Contains(s, "{{define") && len(s) > len(text) {
					text = s
					pos = call.Pos()
				}
			}
			return true
		})
	}
	if text == "" {
		return "", token.NoPos, fmt.Errorf("no Parse(<string constant with {{define}}>) call found in capnpc-go")
	}
	return text, pos, nil
}

func parseTemplates(text string) (map[string]*parse.Tree, error) {
	t := parse.New("embedded")
	t.Mode = parse.SkipFuncCheck
	set := map[string]*parse.Tree{}
	if _, err := t.Parse(text, "", "", set); err != nil {
		return nil, err
	}
	return set, nil
}

var reFunc = regexp.MustCompile(`func \(s \{\{\.Node\.Name\}\}\) ([^(]*)\(`)

// flatten renders a template body with actions in canonical form.
func flatten(n parse.Node) string {
	if n == nil {
		return ""
	}
	return n.String()
}

func ruleTemplates(ctx *Ctx, rule string) {
	r := ctx.Rep
	text, pos, err := embeddedTemplates(ctx)
	if err != nil {
		r.Fail("%s: %v", rule, err)
		return
	}
	where := ctx.Prog.Rel(pos)
	set, err := parseTemplates(text)
	if err != nil {
		r.Fail("%s: embedded templates do not parse: %v", rule, err)
		return
	}
	r.Count("templates_parsed", len(set))
	// (a) snippets
	snippet := func(name string, must ...string) {
		tr := set[name]
		key := "template " + name + " | discriminant snippet"
		if tr == nil {
			r.Violation(rule, key, where, "template is missing")
			return
		}
		body := flatten(tr.Root)
		var missing []string
		for _, m := range must {
			if !strings.Contains(body, m) {
				missing = append(missing, m)
			}
		}
		if len(missing) == 0 {
			r.Ok(rule, key, where, "contains "+strings.Join(must, " ; "))
		} else {
			r.Violation(rule, key, where, "the snippet no longer contains "+strings.Join(missing, " ; ")+": union members are read or written without the discriminant being checked/set at the schema's position. Body: "+body)
		}
	}
	snippet("_checktag", "{{if .Field.HasDiscriminant}}", "s.Struct.Uint16({{.Node.DiscriminantOffset}}) != {{.Field.DiscriminantValue}}", "panic(")
	snippet("_settag", "{{if .Field.HasDiscriminant}}", "s.Struct.SetUint16({{.Node.DiscriminantOffset}}, {{.Field.DiscriminantValue}})")
	snippet("_hasfield", "{{if .Field.HasDiscriminant}}", "s.Struct.Uint16({{.Node.DiscriminantOffset}}) != {{.Field.DiscriminantValue}}", "return false", "return s.Struct.HasPtr({{.Field.Slot.Offset}})")
	// (b) every accessor function in a field template starts with the right snippet
	var names []string
	for n := range set {
		if strings.HasPrefix(n, "struct") && strings.HasSuffix(n, "Field") || n == "structGroup" {
			names = append(names, n)
		}
	}
	sort.Strings(names)
	for _, n := range names {
		body := flatten(set[n].Root)
		idxs := reFunc.FindAllStringSubmatchIndex(body, -1)
		for i, m := range idxs {
			fname := body[m[2]:m[3]]
			end := len(body)
			if i+1 < len(idxs) {
				end = idxs[i+1][0]
			}
			fn := body[m[0]:end]
			brace := strings.Index(fn, "{\n")
			rest := ""
			if brace >= 0 {
				rest = strings.TrimLeft(fn[brace+1:], " \t\n")
			} else if b2 := strings.Index(fn, ") {"); b2 >= 0 {
				rest = strings.TrimLeft(fn[strings.Index(fn[b2:], "{")+b2+1:], " \t\n")
			}
			kind := "getter"
			want := `{{template "_checktag" .}}`
			if strings.HasPrefix(fname, "Set") || strings.HasPrefix(fname, "New") {
				kind = "setter"
				want = `{{template "_settag" .}}`
			}
			key := fmt.Sprintf("template %s | %s %s starts with %s", n, kind, fname, want)
			if n == "structGroup" && kind == "getter" {
				r.Exempt(rule, key, where, "a group getter only re-types the struct; the group's own fields carry the discriminant checks")
				continue
			}
			if strings.HasPrefix(rest, want) {
				r.Ok(rule, key, where, "first action of the body")
			} else {
				first := rest
				if len(first) > 60 {
					first = first[:60]
				}
				r.Violation(rule, key, where, fmt.Sprintf("the generated %s %s does not begin with %s (it begins with %q): for a field inside a union the accessor would touch the slot of whichever member is active without checking/setting the discriminant", kind, fname, want, first))
			}
		}
		if len(idxs) == 0 && n != "structVoidField" {
			r.Violation(rule, "template "+n+" | defines accessors", where, "no accessor function found in the field template")
		}
	}
	// (b2) pointer-typed field templates emit the Has accessor from _hasfield
	for _, n := range []string{"structDataField", "structInterfaceField", "structListField", "structPointerField", "structStructField", "structTextField"} {
		key := "template " + n + " | Has accessor comes from _hasfield"
		if set[n] != nil && strings.Contains(flatten(set[n].Root), `{{template "_hasfield" .}}`) {
			r.Ok(rule, key, where, "includes _hasfield")
		} else {
			r.Violation(rule, key, where, "the pointer field template does not include _hasfield: Has... is missing or does not test the discriminant")
		}
	}
	// (c) offsets and widths inside the data templates
	type pair struct{ tmpl, get, set string }
	for _, p := range []pair{
		{"structUintField", "s.Struct.Uint{{.Bits}}({{.Offset}}){{with .Default}} ^ {{.}}{{end}}", "s.Struct.SetUint{{.Bits}}({{.Offset}}, v{{with .Default}}^{{.}}{{end}})"},
		{"structIntField", "s.Struct.Uint{{.Bits}}({{.Offset}}){{with .Default}} ^ {{.}}{{end}}", "s.Struct.SetUint{{.Bits}}({{.Offset}}, uint{{.Bits}}(v){{with .Default}}^{{.}}{{end}})"},
		{"structFloatField", "s.Struct.Uint{{.Bits}}({{.Offset}}){{with .Default}} ^ {{printf \"%#x\" .}}{{end}}", "s.Struct.SetUint{{.Bits}}({{.Offset}}, {{.G.Imports.Math}}.Float{{.Bits}}bits(v){{with .Default}}^{{printf \"%#x\" .}}{{end}})"},
		{"structBoolField", "{{if .Default}}!{{end}}s.Struct.Bit({{.Field.Slot.Offset}})", "s.Struct.SetBit({{.Field.Slot.Offset}}, {{if .Default}}!{{end}}v)"},
		{"structPointerField", "s.Struct.Ptr({{.Field.Slot.Offset}})", "s.Struct.SetPtr({{.Field.Slot.Offset}}, v)"},
		{"structStructField", "s.Struct.Ptr({{.Field.Slot.Offset}})", "s.Struct.SetPtr({{.Field.Slot.Offset}}, v.Struct.ToPtr())"},
		{"structListField", "s.Struct.Ptr({{.Field.Slot.Offset}})", "s.Struct.SetPtr({{.Field.Slot.Offset}}, v.List.ToPtr())"},
		{"structTextField", "s.Struct.Ptr({{.Field.Slot.Offset}})", "s.Struct.SetText({{.Field.Slot.Offset}}, v)"},
		{"structDataField", "s.Struct.Ptr({{.Field.Slot.Offset}})", "s.Struct.SetData({{.Field.Slot.Offset}}, v)"},
		{"structInterfaceField", "s.Struct.Ptr({{.Field.Slot.Offset}})", "s.Struct.SetPtr({{.Field.Slot.Offset}}, in.ToPtr())"},
	} {
		tr := set[p.tmpl]
		key := "template " + p.tmpl + " | getter and setter use the same slot, width and default"
		if tr == nil {
			r.Violation(rule, key, where, "template is missing")
			continue
		}
		body := flatten(tr.Root)
		g, s := strings.Contains(body, p.get), strings.Contains(body, p.set)
		if g && s {
			r.Ok(rule, key, where, "getter: "+p.get+" ; setter: "+p.set)
		} else {
			r.Violation(rule, key, where, fmt.Sprintf("expected getter expression %q (found: %v) and setter expression %q (found: %v): reader and writer of the field would disagree on offset, width or default mask", p.get, g, p.set, s))
		}
	}
	// (d) files on disk equal the embedded definitions
	dir := filepath.Join(ctx.Prog.Dir, "capnpc-go", "templates")
	ents, err := os.ReadDir(dir)
	if err != nil {
		r.Fail("%s: cannot read %s: %v", rule, dir, err)
		return
	}
	for _, e := range ents {
		if e.IsDir() {
			continue
		}
		b, err := os.ReadFile(filepath.Join(dir, e.Name()))
		if err != nil {
			r.Fail("%s: %v", rule, err)
			continue
		}
		key := "templates/" + e.Name() + " | equals the embedded definition"
		t := parse.New(e.Name())
		t.Mode = parse.SkipFuncCheck
		fs := map[string]*parse.Tree{}
		if _, err := t.Parse(string(b), "", "", fs); err != nil {
			r.Violation(rule, key, "capnpc-go/templates/"+e.Name(), "does not parse: "+err.Error())
			continue
		}
		emb := set[e.Name()]
		if emb == nil {
			r.Violation(rule, key, "capnpc-go/templates/"+e.Name(), "no embedded definition with this name: the compiled generator ignores this file")
			continue
		}
		if fs[e.Name()] != nil && fs[e.Name()].Root.String() == emb.Root.String() {
			r.Ok(rule, key, "capnpc-go/templates/"+e.Name(), "same parse tree")
		} else {
			r.Violation(rule, key, "capnpc-go/templates/"+e.Name(), "the file and the definition compiled into templates.go differ: go generate was not re-run, the generator does not do what the template file says")
		}
	}
}

func ruleNoMapRange(ctx *Ctx, rule string) {
	q := ssaq.For(ctx.Prog)
	r := ctx.Rep
	n := 0
	for _, f := range q.FuncsIn("capnpc-go") {
		for _, b := range f.Blocks {
			for _, in := range b.Instrs {
				rg, ok := in.(*ssa.Range)
				if !ok {
					continue
				}
				if _, isMap := rg.X.Type().Underlying().(*types.Map); !isMap {
					continue
				}
				n++
				r.Violation(rule, fmt.Sprintf("%s | range over map #%d", ssaq.FuncName(f), n), q.Pos(ssaq.InstrPos(in)), "the generator iterates over a map: unless the result is sorted afterwards, the same request can produce different output")
			}
		}
	}
	if n == 0 {
		r.Ok(rule, "capnpc-go | no map iteration", "capnpc-go", "no range over a map in the generator: emission order comes from slices (sorted node ids, ordered imports)")
	}
	// and no use of time, randomness or environment
	for _, f := range q.FuncsIn("capnpc-go") {
		for _, b := range f.Blocks {
			for _, in := range b.Instrs {
				cn := ssaq.StaticCalleeName(in)
				if strings.HasPrefix(cn, "time.Now") || strings.HasPrefix(cn, "math/rand.") || cn == "os.Getenv" || cn == "os.Environ" {
					r.Violation(rule, ssaq.FuncName(f)+" | calls "+cn, q.Pos(ssaq.InstrPos(in)), "generator output depends on "+cn)
				}
			}
		}
	}
}

// ruleReturnsTestedError: a function must not return an error value that is
// known to be nil on that path right after testing a different error non-nil.
func ruleReturnsTestedError(ctx *Ctx, rule, pkg string) {
	q := ssaq.For(ctx.Prog)
	r := ctx.Rep
	for _, f := range q.FuncsIn(pkg) {
		k := 0
		for _, b := range f.Blocks {
			for _, in := range b.Instrs {
				ret, ok := in.(*ssa.Return)
				if !ok || len(ret.Results) == 0 {
					continue
				}
				ev := ret.Results[len(ret.Results)-1]
				if !isErrorType(ev.Type()) || ssaq.IsNilConst(ev) {
					continue
				}
				// the innermost dominating guard
				gs := ssaq.Guards(b)
				if len(gs) == 0 {
					continue
				}
				k++
				key := fmt.Sprintf("%s | return #%d returns the error it tested", ssaq.FuncName(f), k)
				pos := q.Pos(ssaq.InstrPos(ret))
				knownNil := false
				for _, at := range ssaq.Atoms(gs) {
					if at.Op == token.EQL && ((at.X == ev && ssaq.IsNilConst(at.Y)) || (at.Y == ev && ssaq.IsNilConst(at.X))) {
						knownNil = true
					}
				}
				if knownNil {
					// which error was tested?
					tested := ""
					for _, at := range ssaq.Atoms(gs[:1]) {
						if at.Op == token.NEQ && ssaq.IsNilConst(at.Y) {
							tested = ssaq.AccessPath(at.X)
						}
					}
					r.Violation(rule, key, pos, fmt.Sprintf("the function returns %s, which is known to be nil on this path, right after finding %s != nil: the failure is reported as success", ssaq.AccessPath(ev), tested))
					continue
				}
				r.Ok(rule, key, pos, "the returned error is not a value known to be nil")
			}
		}
	}
}
