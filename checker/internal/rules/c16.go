package rules

import (
	"fmt"
	"sort"
	"strings"

	"golang.org/x/tools/go/ssa"

	"verifcheck/internal/ssaq"
)

func init() {
	Register(&Spec{
		ID:          "C16",
		Explanation: "Decides structural necessary conditions of deep copy on assignment: (R1) writePtr copies a struct into the destination message exactly when forceCopy is set, the source lives in another message, or the source is a list member (the three disjuncts lead to the allocation; the no-copy edge is the failure of all three), copies a list when forceCopy is set or the source lives in another message, and copyStruct always recurses with forceCopy = true; (R2) a capability pointer copied across messages is re-homed as NewInterface(dst, dst.msg.AddCap(client.AddRef())) only under 'different message'; (R3) copyStruct copies min(len) of the data sections and zeroes the rest of the destination, copies the common pointers, nulls the destination's extra pointers and ignores the source's extra ones; (R4) a copied list gets a fresh allocation of allocSize(), a copied composite tag word, element-wise copyStruct when elements hold pointers and a bulk copy otherwise, all with maxDepth on the fresh object. (R3n) the pointer copy in copyStruct is not skipped for a null source pointer; (R3w) the size of a struct copy passes through padToWord (the struct view of a primitive-list element has a data section shorter than a word); (R3c) no function other than copyStruct and fillCanonicalStruct copies bytes into a struct's data section (no second copy routine that leaves the pointer section alone); (R6r) every increment of clientHook.refs, in particular the one AddRef takes for the re-homed capability, is applied to the result of resolveHook. (R5e) in the deep-copy functions an error that was compared with nil is also passed on, and an error that was built has a use (no partial copy reported as success). Does NOT decide value equality of the copy or independence under later mutation.",
		Run:         runC16,
	})
}

var copySpecs = []anchorSpec{
	{"capnp.copyStruct", "builtin.copy", 1, []string{"slice(p0.seg, p0.off, p0.size.DataSize)", "slice(p1.seg, p1.off, p1.size.DataSize)"}, []string{"nil != p0.seg", "nil != p1.seg"}, "copies min(len(dst), len(src)) bytes of the data sections"},
	{"capnp.copyStruct", "capnp.(*Segment).readPtr", 1, []string{"p1.seg", "element(addSize(p1.off, p1.size.DataSize)#0, int32(phi), 8:Size)#0", "p1.depthLimit"}, []string{"phi < p0.size.PointerCount", "phi < p1.size.PointerCount"}, "reads pointer j of the source only while j is below both pointer counts"},
	{"capnp.copyStruct", "capnp.(*Segment).writePtr", 1, []string{"p0.seg", "element(addSize(p0.off, p0.size.DataSize)#0, int32(phi), 8:Size)#0", "readPtr(p1.seg, element(addSize(p1.off, p1.size.DataSize)#0, int32(phi), 8:Size)#0, p1.depthLimit)#0", "true:bool"}, []string{"nil == readPtr(p1.seg, element(addSize(p1.off, p1.size.DataSize)#0, int32(phi), 8:Size)#0, p1.depthLimit)#1"}, "writes the same slot j of the destination with forceCopy = true"},
	{"capnp.copyStruct", "capnp.(*Segment).writeRawPointer", 1, []string{"p0.seg", "element(addSize(p0.off, p0.size.DataSize)#0, int32(phi), 8:Size)#0", "0:rawPointer"}, []string{"phi < p0.size.PointerCount"}, "nulls the destination's pointers beyond the source's count"},
	{"capnp.(*Segment).writePtr", "capnp.alloc", 1, []string{"p0", "totalSize(dstSize)"}, []string{"!isZero(st.size)"}, "struct copy allocates the source's size (data section rounded up to whole words) in the destination"},
	{"capnp.(*Segment).writePtr", "capnp.copyStruct", 1, []string{"dst", "st"}, []string{"alloc(p0, totalSize(dstSize))#2 == nil"}, "struct copy goes through copyStruct"},
	{"capnp.(*Segment).writePtr", "capnp.alloc", 2, []string{"p0", "allocSize(l)"}, []string{"1:int == ptrType(p2.flags)"}, "list copy allocates allocSize() (tag word included)"},
	{"capnp.(*Segment).writePtr", "capnp.(*Segment).writeRawPointer", 3, []string{"alloc(p0, allocSize(l))#0", "alloc(p0, allocSize(l))#1", "readRawPointer(l.seg, (l.off - 8:address))"}, []string{"(1:listFlags & dst.flags) != 0:listFlags"}, "composite list copy starts with the source's tag word"},
	{"capnp.(*Segment).writePtr", "capnp.copyStruct", 2, []string{"Struct(dst, phi)", "Struct(l, phi)"}, []string{"(2:listFlags & dst.flags) == 0:listFlags", "0:uint16 != dst.size.PointerCount", "phi < Len(l)"}, "elements that hold pointers are copied one by one"},
	{"capnp.(*Segment).writePtr", "capnp.(*Client).AddRef", 1, []string{"Client(Interface(p2))"}, []string{"2:int == ptrType(p2.flags)", "p0.msg != p2.seg.msg"}, "capability copied across messages takes its own reference"},
	{"capnp.(*Segment).writePtr", "capnp.(*Message).AddCap", 1, []string{"p0.msg", "AddRef(Client(Interface(p2)))"}, []string{"p0.msg != p2.seg.msg"}, "the new reference is appended to the destination's capability table"},
	{"capnp.(*Segment).writePtr", "capnp.NewInterface", 1, []string{"p0", "AddCap(p0.msg, AddRef(Client(Interface(p2))))"}, []string{"p0.msg != p2.seg.msg"}, "the pointer written indexes the new table entry"},
}

func runC16(ctx *Ctx) {
	ruleCopySizeWordAligned(ctx, "C16-R3w")
	ruleCopyNullPointersToo(ctx, "C16-R3n")
	ruleCopyDecision(ctx, "C16-R1")
	ruleAnchorSpecs(ctx, "C16-R3", copySpecs)
	ruleCopyZeroFill(ctx, "C16-R3z")
	ruleStructCopySites(ctx, "C16-R3c")
	ruleRefsCountedOnResolvedHook(ctx, "C16-R6r")
	// a copy that fails half-way reports the failure (no partial copy passed
	// off as complete)
	ruleDetectedErrorNotLost(ctx, "C16-R5e", copyScope, detectedErrorExempt)
	r := ctx.Rep
	r.Floor("C16-R1", 2)
	r.Floor("C16-R3", 12)
}

// ruleCopyDecision: the disjuncts that lead to the copying allocations.
func ruleCopyDecision(ctx *Ctx, rule string) {
	q := ssaq.For(ctx.Prog)
	r := ctx.Rep
	f := q.Func("capnp.(*Segment).writePtr")
	if f == nil {
		r.Fail("%s: writePtr not found", rule)
		return
	}
	want := map[int][]string{
		1: {"(1:structFlags & st.flags) != 0:structFlags", "p0.msg != p2.seg.msg", "p3"},
		2: {"p0.msg != p2.seg.msg", "p3"},
	}
	seenCopy := map[int]bool{}
	defer func() {
		for ord, kind := range map[int]string{1: "struct", 2: "list"} {
			if !seenCopy[ord] {
				r.Violation(rule, fmt.Sprintf("writePtr | %s is copied iff forceCopy, other message%s", kind, map[int]string{1: " or list member", 2: ""}[ord]), q.Pos(f.Pos()), "writePtr has no allocation of the "+kind+"'s size in the destination: the copy decision cannot be located")
			}
		}
	}()
	for _, a := range ssaq.Anchors(f) {
		// the two copying allocations are told from the landing-pad ones by
		// what they allocate (a struct's or a list's size, not a constant)
		if a.Callee != "capnp.alloc" || len(a.Args) < 2 {
			continue
		}
		// an allocation moved into a helper that did not exist on the reference
		// tree: the decision is the one that leads to the helper's call
		site := a.Instr
		if site.Parent() != f {
			site = nil
			g := a.Instr.Parent()
			for _, fb := range f.Blocks {
				for _, fin := range fb.Instrs {
					if c, ok := fin.(*ssa.Call); ok && c.Call.StaticCallee() == g && ssaq.IsNew(g) {
						site = c
					}
				}
			}
			if site == nil {
				continue
			}
		}
		ord := 0
		switch {
		case strings.Contains(a.Args[1], "allocSize("):
			ord = 2
		case strings.Contains(a.Args[1], "totalSize("):
			ord = 1
		default:
			continue
		}
		seenCopy[ord] = true
		a.Ordinal = ord
		kind := map[int]string{1: "struct", 2: "list"}[a.Ordinal]
		key := fmt.Sprintf("writePtr | %s is copied iff forceCopy, other message%s", kind, map[int]string{1: " or list member", 2: ""}[a.Ordinal])
		// walk back from the allocation's block to the decision: the nearest ancestor block with several predecessors ending in Ifs
		b := site.Block()
		for len(b.Preds) == 1 {
			if _, isIf := b.Preds[0].Instrs[len(b.Preds[0].Instrs)-1].(*ssa.If); isIf && len(b.Preds[0].Succs) == 2 && b.Preds[0].Succs[0] == b && len(condsInto(f, b)) > 0 && len(b.Preds) > 1 {
				break
			}
			if len(condsInto(f, b)) >= 1 && len(b.Preds) == 1 {
				// single condition block: keep climbing only through unconditional jumps
				if _, isJump := b.Preds[0].Instrs[len(b.Preds[0].Instrs)-1].(*ssa.Jump); !isJump {
					break
				}
			}
			b = b.Preds[0]
		}
		got := condsInto(f, b)
		// the disjunction is compiled as a chain: collect the chain of true-edges into b
		w := append([]string{}, want[a.Ordinal]...)
		// disjuncts written with the source names of locals (st.flags) are
		// compared in the name-free rendering when the reference tree defines
		// those locals
		allFull := true
		for i := range w {
			wx, full := expandWant("capnp.(*Segment).writePtr", w[i])
			allFull = allFull && full
			if full {
				w[i] = wx
			}
		}
		named := append([]string{}, want[a.Ordinal]...)
		sort.Strings(named)
		gotNamed := append([]string{}, got...)
		sort.Strings(gotNamed)
		// a local that is only an identity on the reference tree (st is
		// "Struct#1"): the named comparison counts as well
		namedOK := weakWant(w) && strings.Join(gotNamed, " || ") == strings.Join(named, " || ")
		if allFull {
			got = condsIntoR(f, b)
		} else {
			w = named
		}
		sort.Strings(got)
		sort.Strings(w)
		pos := q.Pos(ssaq.InstrPos(a.Instr))
		if namedOK || strings.Join(got, " || ") == strings.Join(w, " || ") {
			r.Ok(rule, key, pos, "the copy is entered under: "+strings.Join(got, " || "))
		} else {
			r.Violation(rule, key, pos, fmt.Sprintf("the copy into the destination message is entered under [%s]; it must be entered under exactly [%s]: otherwise a pointer into another message or into a list element is stored without copying, or objects are copied needlessly", strings.Join(got, " || "), strings.Join(w, " || ")))
		}
	}
}

// condsInto lists the conditions of the true-edges entering b.
func condsInto(f *ssa.Function, b *ssa.BasicBlock) []string {
	var out []string
	for _, p := range b.Preds {
		if ifi, ok := p.Instrs[len(p.Instrs)-1].(*ssa.If); ok {
			for k, s := range p.Succs {
				if s == b {
					out = append(out, ssaq.RenderCond(f, ifi.Cond, k == 0))
				}
			}
		}
	}
	return out
}

// condsIntoR is condsInto with locals rendered by their definitions.
func condsIntoR(f *ssa.Function, b *ssa.BasicBlock) []string {
	var out []string
	for _, p := range b.Preds {
		if ifi, ok := p.Instrs[len(p.Instrs)-1].(*ssa.If); ok {
			for k, s := range p.Succs {
				if s == b {
					out = append(out, ssaq.RenderCondR(f, ifi.Cond, k == 0))
				}
			}
		}
	}
	return out
}

// ruleCopyZeroFill: the rest of the destination's data section is zeroed.
func ruleCopyZeroFill(ctx *Ctx, rule string) {
	q := ssaq.For(ctx.Prog)
	r := ctx.Rep
	f := q.Func("capnp.copyStruct")
	if f == nil {
		r.Fail("%s: copyStruct not found", rule)
		return
	}
	ok := false
	// copyStruct itself and the helpers that did not exist on the reference
	// tree it calls, seen in copyStruct's frame
	for _, fr := range ssaq.Frames(f) {
		for _, b := range fr.Fn.Blocks {
			for _, in := range b.Instrs {
				st, isStore := in.(*ssa.Store)
				if !isStore {
					continue
				}
				ia, isIA := st.Addr.(*ssa.IndexAddr)
				if !isIA {
					continue
				}
				if k, isC := ssaq.ConstInt(st.Val); isC && k == 0 {
					s := fr.Render(ia.X)
					if strings.HasPrefix(s, "slice(p0.seg, p0.off, p0.size.DataSize)[copy(") {
						ok = true
					}
				}
			}
		}
		// the same fill written as an index loop over the whole data section,
		// from the number of bytes copied to its length
		for _, zl := range findZeroLoops(fr.Fn) {
			if fr.Render(zl.x) == "slice(p0.seg, p0.off, p0.size.DataSize)" && zl.lo != nil &&
				strings.HasPrefix(fr.Render(zl.lo), "copy(slice(p0.seg, p0.off, p0.size.DataSize), ") && isLenOfValue(zl.hi, zl.x) {
				ok = true
			}
		}
	}
	key := "copyStruct | rest of the destination data section is zeroed"
	if ok {
		r.Ok(rule, key, q.Pos(f.Pos()), "dstData[copyCount:] is set to 0 byte by byte")
	} else {
		r.Violation(rule, key, q.Pos(f.Pos()), "the part of the destination's data section beyond the source's is not zeroed: stale field values survive a copy from an older-version struct")
	}
}
