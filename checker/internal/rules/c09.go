package rules

import (
	"fmt"
	"go/ast"
	"go/token"
	"go/types"
	"strings"

	"golang.org/x/tools/go/ssa"

	"verifcheck/internal/core"
	"verifcheck/internal/flow"
	"verifcheck/internal/locks"
	"verifcheck/internal/ssaq"
)

func init() {
	Register(&Spec{
		ID:          "C09",
		Explanation: "Decides structural necessary conditions of clean termination: (R1/R2) every function body in package rpc returns with the lock state it was entered with on every CFG path, except the five documented lock-transfer functions whose inferred summaries must equal the documented ones; (R3) every function with a 'caller must (not) be holding' comment is entered in exactly that state from every call path; (R4) no application-provided code, blocking operation or re-acquisition happens under Conn.mu (transitively through static calls), transport operations run under the sender lock and without Conn.mu; (R5) shutdown shape and task-group pairing; (R6) torn-write latch: single writer, checked before I/O, and the latch's guard is satisfiable by a value that can actually arrive; (R8) wake-ups happen on every path, at most once. (R9) answer.sendReturn returns an error only where finishReceived is established; no tasks.Done() is reachable after a call of shutdown in the same function (shutdown waits for the task group), and none after a deferred tasks.Done(); (R10) the reader goroutine of a stream codec is waited for only after the stream was closed; (R11) no implementation of Returner.Return reaches Conn.shutdown on its own goroutine: Return runs on the goroutine of an ongoing call of a local server, shutdown releases the clients the connection holds, and a server's Shutdown waits for its ongoing calls. Does NOT decide bounded time, goroutine exit under real schedulers or behaviour of user transports.",
		Run:         runC09,
	})
}

func rpcScope(u *flow.Unit) bool { return strings.HasPrefix(u.Name, "rpc.") }

func runC09(ctx *Ctx) {
	ruleLockBalance(ctx, "C09-R1", rpcScope)
	ruleLockContracts(ctx, "C09-R3", func(n string) bool { return strings.HasPrefix(n, "rpc.") })
	rulePolicy(ctx, "C09-R4", allUnits, defaultPolicy)
	ruleTransportOps(ctx, "C09-R4c")
	ruleShutdownShape(ctx, "C09-R5")
	ruleTaskPairing(ctx, "C09-R5t")
	ruleSendReturnErrorOnlyAfterFinish(ctx, "C09-R9")
	ruleLatch(ctx, "C09-R6")
	ruleLatchLive(ctx, "C09-R6c")
	ruleWakeups(ctx, "C09-R8")
	ruleReaderReapedAfterClose(ctx, "C09-R10")
	ruleNoShutdownOnCallGoroutine(ctx, "C09-R11")
	r := ctx.Rep
	r.Floor("C09-R10", 1)
	r.Floor("C09-R1", 120)
	r.Floor("C09-R3", 30)
	r.Floor("C09-R4", 300)
	r.Floor("C09-R4c", 25)
	r.Floor("C09-R5", 8)
	r.Floor("C09-R5t", 12)
	r.Floor("C09-R6", 4)
	r.Floor("C09-R6c", 1)
	r.Floor("C09-R8", 4)
	r.Assumption("lock identity is per class (struct field): unlocking a different instance of the same class is not detected")
	r.Assumption("results that are not the literal nil are treated as non-nil when a conditional lock summary is derived (tryLockSender, resolveHook)")
	r.Assumption("func values of type context.CancelFunc neither block nor call back")
}

// pathCheck reports a must-pass obligation.
func pathCheck(ctx *Ctx, a *locks.Analysis, rule, key string, u *flow.Unit, start flow.Point, at token.Pos, target, stop func(ast.Node) bool, what string) {
	res := a.Eng.ExitWithout(u, start, target, stop)
	if res.Found {
		ctx.Rep.Violation(rule, key, ctx.Prog.Rel(at), "a path reaches a return without "+what, res.Trace...)
	} else {
		ctx.Rep.Ok(rule, key, ctx.Prog.Rel(at), "every path to a return passes "+what)
	}
}

// noPathCheck reports a must-not-reach obligation.
func noPathCheck(ctx *Ctx, a *locks.Analysis, rule, key string, u *flow.Unit, start flow.Point, at token.Pos, target, blocker func(ast.Node) bool, bad, good string) {
	res := a.Eng.Reaches(u, start, target, blocker)
	if res.Found {
		ctx.Rep.Violation(rule, key, ctx.Prog.Rel(at), bad, res.Trace...)
	} else {
		ctx.Rep.Ok(rule, key, ctx.Prog.Rel(at), good)
	}
}

func ruleShutdownShape(ctx *Ctx, rule string) {
	a := lockAnalysis(ctx)
	if a == nil {
		return
	}
	u := mustUnit(ctx, a, rule, "rpc.(*Conn).shutdown")
	tasks := mustField(ctx, rule, "rpc", "Conn", "tasks")
	shut := mustField(ctx, rule, "rpc", "Conn", "shut")
	bgcancel := mustField(ctx, rule, "rpc", "Conn", "bgcancel")
	if u == nil || tasks == nil || shut == nil || bgcancel == nil {
		return
	}
	info := u.Pkg.TypesInfo
	isWait := func(n ast.Node) bool { return isMethodCallOnField(info, n, "sync.(*WaitGroup).Wait", tasks) }
	isClose := func(n ast.Node) bool { return isCallNamed(info, n, "rpc.(Transport).Close") }
	isCloseShut := func(n ast.Node) bool { return isBuiltinCall(info, n, "close", shut) }
	isBgCancel := func(n ast.Node) bool {
		c, ok := n.(*ast.CallExpr)
		return ok && fieldOfSel(info, c.Fun) == bgcancel
	}
	pathCheck(ctx, a, rule, "shutdown | transport.Close on every path", u, u.Entry(), u.Pos, isClose, nil, "calling c.transport.Close()")
	pathCheck(ctx, a, rule, "shutdown | tasks.Wait on every path", u, u.Entry(), u.Pos, isWait, nil, "waiting for c.tasks")
	pathCheck(ctx, a, rule, "shutdown | close(c.shut) on every path", u, u.Entry(), u.Pos, isCloseShut, nil, "closing (or deferring the close of) c.shut")
	noPathCheck(ctx, a, rule, "shutdown | bgcancel precedes tasks.Wait", u, u.Entry(), u.Pos, isWait, isBgCancel,
		"tasks.Wait() can be reached without cancelling the background context first: tasks blocked on bgctx never finish",
		"c.bgcancel() is passed on every path to c.tasks.Wait()")
	noPathCheck(ctx, a, rule, "shutdown | tasks.Wait precedes transport.Close", u, u.Entry(), u.Pos, isClose, isWait,
		"transport.Close() can be reached before tasks.Wait(): tasks may still use the transport",
		"c.tasks.Wait() is passed on every path to c.transport.Close()")
	// Table fields are cleared only after the wait.
	connT := ctx.Prog.Pkg("rpc").Types.Scope().Lookup("Conn")
	st, _ := connT.Type().Underlying().(*types.Struct)
	seenMu := false
	for i := 0; st != nil && i < st.NumFields(); i++ {
		f := st.Field(i)
		if f.Name() == "mu" {
			seenMu = true
			continue
		}
		if !seenMu {
			continue
		}
		switch f.Type().Underlying().(type) {
		case *types.Slice, *types.Map:
		default:
			continue
		}
		isClear := func(n ast.Node) bool {
			as, ok := n.(*ast.AssignStmt)
			if !ok || len(as.Lhs) != 1 || len(as.Rhs) != 1 {
				return false
			}
			return fieldOfSel(info, as.Lhs[0]) == f && isNil(as.Rhs[0])
		}
		pathCheck(ctx, a, rule, "shutdown | table "+f.Name()+" cleared on every path", u, u.Entry(), u.Pos, isClear, nil, "setting c."+f.Name()+" = nil")
		noPathCheck(ctx, a, rule, "shutdown | table "+f.Name()+" cleared after tasks.Wait", u, u.Entry(), u.Pos, isClear, isWait,
			"table c."+f.Name()+" is cleared before tasks.Wait(): running tasks would index a nil table",
			"c."+f.Name()+" is cleared only after c.tasks.Wait()")
	}
	// Who may call: transport.Close only from shutdown, RecvMessage only from receive.
	for _, un := range a.UnitsSorted() {
		if !rpcScope(un) {
			continue
		}
		ast.Inspect(un.Body, func(n ast.Node) bool {
			if _, ok := n.(*ast.FuncLit); ok {
				return false
			}
			if isCallNamed(un.Pkg.TypesInfo, n, "rpc.(Transport).Close") {
				key := un.Name + " | calls Transport.Close"
				if un.Name == "rpc.(*Conn).shutdown" {
					ctx.Rep.Ok(rule, key, ctx.Prog.Rel(n.Pos()), "only shutdown closes the transport")
				} else {
					ctx.Rep.Violation(rule, key, ctx.Prog.Rel(n.Pos()), "Transport.Close is called outside Conn.shutdown (documented: not safe concurrently with other transport operations)")
				}
			}
			if isCallNamed(un.Pkg.TypesInfo, n, "rpc.(Transport).RecvMessage") {
				key := un.Name + " | calls Transport.RecvMessage"
				if un.Name == "rpc.(*Conn).receive" {
					ctx.Rep.Ok(rule, key, ctx.Prog.Rel(n.Pos()), "only the receive goroutine receives")
				} else {
					ctx.Rep.Violation(rule, key, ctx.Prog.Rel(n.Pos()), "Transport.RecvMessage is called outside Conn.receive ('Only the receive goroutine can call RecvMessage')")
				}
			}
			return true
		})
	}
}

func isNil(x ast.Expr) bool {
	id, ok := ast.Unparen(x).(*ast.Ident)
	return ok && id.Name == "nil"
}

// ruleTaskPairing: every increment of Conn.tasks is matched by exactly the
// decrement the code documents.
func ruleTaskPairing(ctx *Ctx, rule string) {
	a := lockAnalysis(ctx)
	if a == nil {
		return
	}
	r := ctx.Rep
	tasks := mustField(ctx, rule, "rpc", "Conn", "tasks")
	pcalls := mustField(ctx, rule, "rpc", "answer", "pcalls")
	if tasks == nil || pcalls == nil {
		return
	}
	isDone := func(info *types.Info) func(ast.Node) bool {
		return func(n ast.Node) bool { return isMethodCallOnField(info, n, "sync.(*WaitGroup).Done", tasks) }
	}
	for _, u := range a.UnitsSorted() {
		if !rpcScope(u) {
			continue
		}
		info := u.Pkg.TypesInfo
		// (i) startTask: the started edge must pass tasks.Done (deferred or direct).
		n := 0
		for _, p := range u.Find(func(m ast.Node) bool { return isCallNamed(info, m, "rpc.(*Conn).startTask") }) {
			n++
			node := p.B.Nodes[p.I]
			key := fmt.Sprintf("%s | startTask #%d", u.Name, n)
			cond, ok := node.(ast.Expr)
			if !ok {
				r.Violation(rule, key, ctx.Prog.Rel(node.Pos()), "result of startTask() is not used as a branch condition: cannot pair it with tasks.Done")
				continue
			}
			t, f, ok := u.BranchEdges(cond)
			if !ok {
				r.Violation(rule, key, ctx.Prog.Rel(node.Pos()), "startTask() is not the condition of a branch")
				continue
			}
			started := t
			if ue, isNot := ast.Unparen(cond).(*ast.UnaryExpr); isNot && ue.Op == token.NOT {
				started = f
			}
			pathCheck(ctx, a, rule, key, u, started, node.Pos(), isDone(info), nil, "c.tasks.Done() (deferred or direct) after startTask() returned true")
		}
		// (ii) tasks.Add(1)
		n = 0
		for _, p := range u.Find(func(m ast.Node) bool { return isMethodCallOnField(info, m, "sync.(*WaitGroup).Add", tasks) }) {
			n++
			node := p.B.Nodes[p.I]
			key := fmt.Sprintf("%s | tasks.Add #%d", u.Name, n)
			pos := ctx.Prog.Rel(node.Pos())
			switch {
			case u.Name == "rpc.(*Conn).startTask":
				r.Ok(rule, key, pos, "startTask's own increment; paired at every call site by the startTask rule")
			case u.Name == "rpc.(*Conn).handleCall":
				// finished by answer.Return: the answer must be handed to the callee as Returner on every path.
				ansRet := func(m ast.Node) bool {
					kv, ok := m.(*ast.KeyValueExpr)
					if !ok {
						return false
					}
					k, ok := kv.Key.(*ast.Ident)
					if !ok || k.Name != "Returner" {
						return false
					}
					// the value handed over is the answer (a *rpc.answer), whatever the local is called
					pt, isPtr := info.TypeOf(kv.Value).(*types.Pointer)
					if !isPtr {
						return false
					}
					nt, isNamed := pt.Elem().(*types.Named)
					return isNamed && core.TypeRefName(nt.Obj()) == "answer"
				}
				pathCheck(ctx, a, rule, key, u, p.After(), node.Pos(), ansRet, nil, "a Recv carrying Returner: ans (whose Return calls tasks.Done, see the answer.Return obligation)")
			default:
				// must be followed by a go statement whose body defers tasks.Done
				goWithDone := func(m ast.Node) bool {
					g, ok := m.(*ast.GoStmt)
					if !ok {
						return false
					}
					lit, ok := g.Call.Fun.(*ast.FuncLit)
					if !ok {
						return false
					}
					lu := a.Eng.ByLit[lit]
					if lu == nil {
						return false
					}
					return !a.Eng.ExitWithout(lu, lu.Entry(), isDone(info), nil).Found
				}
				res := a.Eng.ExitWithout(u, p.After(), func(m ast.Node) bool {
					// GoStmt is itself a CFG node; Contains does not descend into literals, so test the node directly
					return goWithDone(m)
				}, nil)
				if res.Found {
					r.Violation(rule, key, pos, "tasks.Add(1) is not followed on every path by a goroutine that calls tasks.Done on all of its paths", res.Trace...)
				} else {
					r.Ok(rule, key, pos, "followed on every path by a go statement whose body reaches tasks.Done on all paths")
				}
			}
		}
	}
	// (iii) answer.Return: tasks.Done on every path, never twice, after pcalls.Wait.
	if u := mustUnit(ctx, a, rule, "rpc.(*answer).Return"); u != nil {
		info := u.Pkg.TypesInfo
		pathCheck(ctx, a, rule, "answer.Return | tasks.Done on every path", u, u.Entry(), u.Pos, isDone(info), nil, "ans.c.tasks.Done()")
		k := 0
		for _, p := range u.Find(isDone(info)) {
			k++
			noPathCheck(ctx, a, rule, fmt.Sprintf("answer.Return | tasks.Done #%d is the last", k), u, p.After(), p.B.Nodes[p.I].Pos(), isDone(info), nil,
				"a second tasks.Done() is reachable after this one: the task group would go negative (panic) or release Close early",
				"no further tasks.Done() is reachable")
		}
		isPWait := func(n ast.Node) bool { return isMethodCallOnField(info, n, "sync.(*WaitGroup).Wait", pcalls) }
		pathCheck(ctx, a, rule, "answer.Return | pcalls.Wait on every path", u, u.Entry(), u.Pos, isPWait, nil, "ans.pcalls.Wait() (Returner contract: wait for pipelined deliveries)")
	}
	// (iii-b) shutdown waits for the task group (tasks.Wait): a function that still
	// holds a task must have given it back (tasks.Done) BEFORE it calls shutdown,
	// otherwise shutdown waits for its own caller.
	for _, u := range a.UnitsSorted() {
		if !strings.HasPrefix(u.Name, "rpc.") {
			continue
		}
		info := u.Pkg.TypesInfo
		isShutdown := func(m ast.Node) bool { return isCallNamed(info, m, "rpc.(*Conn).shutdown") }
		k := 0
		for _, p := range a.Eng.FindThrough(u, isShutdown) {
			k++
			noPathCheck(ctx, a, rule, fmt.Sprintf("%s | shutdown #%d is not called while holding a task", u.Name, k), u, p.After(), p.B.Nodes[p.I].Pos(), isDone(info), nil,
				"tasks.Done() is reachable after the call of shutdown in the same function: shutdown blocks in tasks.Wait until every task is done, so it waits for the goroutine that is calling it (no Abort is sent, Done() never closes, Close hangs)",
				"no tasks.Done() follows the call of shutdown: the task was given back before")
		}
		// the same through a defer: a Done that was deferred before shutdown is
		// called runs only when the function returns, i.e. after shutdown
		isDeferredDone := func(m ast.Node) bool {
			d, ok := m.(*ast.DeferStmt)
			if !ok {
				return false
			}
			found := false
			ast.Inspect(d.Call, func(x ast.Node) bool {
				if x != nil && isDone(info)(x) {
					found = true
				}
				return !found
			})
			return found
		}
		k = 0
		for _, p := range u.Find(isDeferredDone) {
			k++
			noPathCheck(ctx, a, rule, fmt.Sprintf("%s | deferred tasks.Done #%d is not pending at a call of shutdown", u.Name, k), u, p.After(), p.B.Nodes[p.I].Pos(), isShutdown, nil,
				"shutdown can be called after tasks.Done() was deferred in the same function: the deferred Done runs only when the function returns, shutdown blocks in tasks.Wait until every task is done, so it waits for the goroutine that is calling it (no Abort is sent, Done() never closes, Close hangs)",
				"no call of shutdown is reachable after this defer")
		}
	}
	// (iv) pcalls.Add / Done in handleCall
	if u := mustUnit(ctx, a, rule, "rpc.(*Conn).handleCall"); u != nil {
		info := u.Pkg.TypesInfo
		isPDone := func(n ast.Node) bool { return isMethodCallOnField(info, n, "sync.(*WaitGroup).Done", pcalls) }
		k := 0
		for _, p := range u.Find(func(m ast.Node) bool { return isMethodCallOnField(info, m, "sync.(*WaitGroup).Add", pcalls) }) {
			k++
			pathCheck(ctx, a, rule, fmt.Sprintf("handleCall | pcalls.Add #%d paired", k), u, p.After(), p.B.Nodes[p.I].Pos(), isPDone, nil, "tgtAns.pcalls.Done()")
		}
		if k == 0 {
			r.Fail("%s: no pcalls.Add site found in handleCall", rule)
		}
	}
}

// ruleWakeups is C09-R8: the code path that sets question.flags |= finished
// closes finishMsgSend on every path (or waits for the other party that did),
// and at most once.
func ruleWakeups(ctx *Ctx, rule string) {
	a := lockAnalysis(ctx)
	if a == nil {
		return
	}
	r := ctx.Rep
	flags := mustField(ctx, rule, "rpc", "question", "flags")
	fms := mustField(ctx, rule, "rpc", "question", "finishMsgSend")
	finished := constObj(ctx.Prog.Pkg("rpc"), "finished")
	if flags == nil || fms == nil || finished == nil {
		if finished == nil {
			r.Fail("%s: anchor constant rpc.finished not found", rule)
		}
		return
	}
	sites := 0
	for _, u := range a.UnitsSorted() {
		if !rpcScope(u) {
			continue
		}
		info := u.Pkg.TypesInfo
		isSetFinished := func(n ast.Node) bool {
			as, ok := n.(*ast.AssignStmt)
			return ok && as.Tok == token.OR_ASSIGN && len(as.Lhs) == 1 && fieldOfSel(info, as.Lhs[0]) == flags && usesObj(info, as.Rhs[0], finished)
		}
		isClose := func(n ast.Node) bool { return isBuiltinCall(info, n, "close", fms) }
		isWaitOther := func(n ast.Node) bool { return isRecvFromField(info, n, fms) }
		for _, p := range u.Find(isSetFinished) {
			sites++
			node := p.B.Nodes[p.I]
			pathCheck(ctx, a, rule, u.Name+" | close(finishMsgSend) after flags |= finished", u, p.After(), node.Pos(), isClose, isWaitOther,
				"close(q.finishMsgSend) (or a wait for the party that closes it): a missed close blocks <-q.finishMsgSend, and with it the receive loop, forever")
		}
		k := 0
		for _, p := range u.Find(isClose) {
			k++
			noPathCheck(ctx, a, rule, fmt.Sprintf("%s | close(finishMsgSend) #%d at most once", u.Name, k), u, p.After(), p.B.Nodes[p.I].Pos(), isClose, nil,
				"a second close(q.finishMsgSend) is reachable after this one (close of closed channel panics)",
				"no second close is reachable")
		}
	}
	if sites < 2 {
		r.Fail("%s: expected the two sites that set question.flags |= finished (handleReturn, handleCancel), found %d", rule, sites)
	}
}

// ruleLatch is C09-R6 (a) and (b): the stream-broken latch transport.err has
// one writer (the send closure) and is consulted before every I/O operation.
func ruleLatch(ctx *Ctx, rule string) {
	a := lockAnalysis(ctx)
	if a == nil {
		return
	}
	r := ctx.Rep
	errF := mustField(ctx, rule, "rpc", "transport", "err")
	if errF == nil {
		return
	}
	sets := 0
	for _, u := range a.UnitsSorted() {
		if !rpcScope(u) {
			continue
		}
		info := u.Pkg.TypesInfo
		ast.Inspect(u.Body, func(n ast.Node) bool {
			if _, ok := n.(*ast.FuncLit); ok {
				return false
			}
			if isCallNamed(info, n, "rpc.(*errorValue).Set") {
				sets++
				key := u.Name + " | writes transport.err"
				if (u.Parent != nil && u.Parent.Name == "rpc.(*transport).NewMessage") || onlyReachedFrom(ctx, u.Name, "rpc.(*transport).NewMessage") {
					r.Ok(rule, key, ctx.Prog.Rel(n.Pos()), "the send closure is the only writer of the latch")
				} else {
					r.Violation(rule, key, ctx.Prog.Rel(n.Pos()), "transport.err is set outside the send closure of transport.NewMessage")
				}
			}
			return true
		})
	}
	if sets == 0 {
		r.Violation(rule, "transport.err | no writer", ctx.Prog.Rel(errF.Pos()), "nothing ever sets the stream-broken latch: after a torn write later frames would follow garbage")
	}
	// (b) Load is consulted before I/O.
	type site struct{ unit, io, ioName string }
	for _, s := range []site{
		{"rpc.(*transport).NewMessage", "capnp.NewMessage", "allocating the outgoing message"},
		{"rpc.(*transport).NewMessage$1", "rpc.(Codec).Encode", "encoding to the stream"},
		{"rpc.(*transport).RecvMessage", "rpc.(Codec).Decode", "decoding from the stream"},
	} {
		u := mustUnit(ctx, a, rule, s.unit)
		if u == nil {
			continue
		}
		info := u.Pkg.TypesInfo
		isIO := func(n ast.Node) bool { return isCallNamed(info, n, s.io) }
		// the I/O may have been moved into a helper that did not exist on the
		// reference tree: the guard is then looked for there
		if h := unitHolding(a, u, isIO); h != nil && h != u {
			u = h
			info = u.Pkg.TypesInfo
		}
		// The guard idiom: if err := s.err.Load(); err != nil { return ... }
		var guards []*ast.IfStmt
		ast.Inspect(u.Body, func(n ast.Node) bool {
			if _, ok := n.(*ast.FuncLit); ok {
				return false
			}
			ifs, ok := n.(*ast.IfStmt)
			if !ok || ifs.Init == nil {
				return true
			}
			as, ok := ifs.Init.(*ast.AssignStmt)
			if !ok || len(as.Rhs) != 1 || len(as.Lhs) != 1 || !isCallNamed(info, ast.Unparen(as.Rhs[0]), "rpc.(*errorValue).Load") {
				return true
			}
			be, ok := ast.Unparen(ifs.Cond).(*ast.BinaryExpr)
			if !ok || be.Op != token.NEQ || !isNil(be.Y) || types.ExprString(be.X) != types.ExprString(as.Lhs[0]) {
				return true
			}
			if len(ifs.Body.List) == 0 {
				return true
			}
			if _, ok := ifs.Body.List[len(ifs.Body.List)-1].(*ast.ReturnStmt); !ok {
				return true
			}
			guards = append(guards, ifs)
			return true
		})
		isGuard := func(n ast.Node) bool {
			// the guard's condition node ends the block; passing it on the false edge is
			// what reaching the I/O after it means, since the body returns.
			for _, g := range guards {
				if n == g.Cond {
					return true
				}
			}
			return false
		}
		key := s.unit + " | latch checked before " + s.io
		if len(u.Find(isIO)) == 0 {
			r.Fail("%s: anchor call %s not found in %s", rule, s.io, s.unit)
			continue
		}
		noPathCheck(ctx, a, rule, key, u, u.Entry(), u.Pos, isIO, isGuard,
			"I/O ("+s.ioName+") is reachable without testing the stream-broken latch (if err := s.err.Load(); err != nil { return })",
			"every path to the I/O passes the guard 'if err := s.err.Load(); err != nil { return ... }'")
	}
}

// ruleLatchLive is C09-R6(c): a type assertion that guards setting the
// stream-broken latch must be satisfiable: some value of the asserted concrete
// type must be able to flow (through returns, interface dispatch resolved by
// CHA, and the standard library's own code) to the asserted operand without
// being re-wrapped on the way.
func ruleLatchLive(ctx *Ctx, rule string) {
	q := ssaq.For(ctx.Prog)
	r := ctx.Rep
	n := 0
	for _, f := range q.FuncsIn("rpc") {
		for _, b := range f.Blocks {
			for _, in := range b.Instrs {
				call, ok := in.(*ssa.Call)
				if !ok || call.Common().StaticCallee() == nil || ssaq.FuncName(call.Common().StaticCallee()) != "rpc.(*errorValue).Set" {
					continue
				}
				n++
				key := fmt.Sprintf("%s | guard of errorValue.Set #%d", ssaq.FuncName(f), n)
				pos := q.Pos(ssaq.InstrPos(call))
				judged := false
				for _, g := range ssaq.Guards(b) {
					ex, ok := g.Cond.(*ssa.Extract)
					if !ok || ex.Index != 1 || !g.True {
						continue
					}
					ta, ok := ex.Tuple.(*ssa.TypeAssert)
					if !ok || !ta.CommaOk {
						continue
					}
					if _, isIface := ta.AssertedType.Underlying().(*types.Interface); isIface {
						continue
					}
					judged = true
					ts := q.DynTypes(ta.X, map[ssa.Value]bool{})
					switch {
					case ts.Has(ta.AssertedType):
						r.Ok(rule, key, pos, fmt.Sprintf("a %s value can reach the assertion; dynamic types of the operand: %s", types.TypeString(ta.AssertedType, nil), ts))
					case len(ts.Unknown) > 0:
						r.Ok(rule, key, pos, fmt.Sprintf("operand has sources that are not closed (%s): the assertion is not provably dead", ts))
					default:
						r.Violation(rule, key, pos, fmt.Sprintf("the latch is set only if the error is a %s, but the operand can only hold %s: every write error is re-wrapped before it gets here, so the stream-broken flag can never be set after a short write",
							types.TypeString(ta.AssertedType, nil), ts))
					}
				}
				if !judged {
					r.Ok(rule, key, pos, "the latch is not guarded by a concrete type assertion")
				}
			}
		}
	}
	if n == 0 {
		r.Violation(rule, "transport.err | no writer (SSA)", "rpc/transport.go", "no call of errorValue.Set found")
	}
}
