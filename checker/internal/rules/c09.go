package rules

import (
	"strings"

	"verifcheck/internal/flow"
)

func init() {
	Register(&Spec{
		ID: "C09",
		Explanation: "Decides structural necessary conditions of clean termination: (R1/R2) every function body in package rpc returns with the lock state it was entered with on every CFG path, except the five documented lock-transfer functions whose inferred summaries must equal the documented ones; (R3) every function with a 'caller must (not) be holding' comment is entered in exactly that state from every call path; (R4) no application-provided code, blocking operation or re-acquisition happens under Conn.mu, transport operations run under the sender lock and without Conn.mu; (R5) shutdown shape; (R6) torn-write latch liveness; (R8) wake-ups. Does NOT decide bounded time, goroutine exit under real schedulers or behaviour of user transports.",
		Run: runC09,
	})
}

func rpcScope(u *flow.Unit) bool { return strings.HasPrefix(u.Name, "rpc.") }

func runC09(ctx *Ctx) {
	ruleLockBalance(ctx, "C09-R1", rpcScope)
	ruleLockContracts(ctx, "C09-R3", func(n string) bool { return strings.HasPrefix(n, "rpc.") })
	rulePolicy(ctx, "C09-R4", allUnits, defaultPolicy)
	ruleTransportOps(ctx, "C09-R4c")
}
