package rules

import (
	"fmt"
	"go/ast"
	"strings"

	"golang.org/x/tools/go/ssa"

	"verifcheck/internal/ssaq"
)

// ruleCapAsConfigured (C12-R7): "at most MaxConcurrentCalls implementations run
// at once" is about the number the caller configured. server.New may replace
// it only when it is not a usable cap (< 1), and the slot table that start
// searches for a free slot is made with exactly that many slots:
//
//	(a) every store into Policy.MaxConcurrentCalls in package server (in New or
//	    in a helper that did not exist on the reference tree) is dominated by
//	    the condition MaxConcurrentCalls < 1 on the same policy;
//	(b) every slice stored into Server.ongoing is made with length
//	    policy.MaxConcurrentCalls.
func ruleCapAsConfigured(ctx *Ctx, rule string) {
	q := ssaq.For(ctx.Prog)
	r := ctx.Rep
	capF := mustField(ctx, rule, "server", "Policy", "MaxConcurrentCalls")
	ongoing := mustField(ctx, rule, "server", "Server", "ongoing")
	f := q.Func("server.New")
	if capF == nil || ongoing == nil || f == nil {
		if f == nil {
			r.Fail("%s: anchor server.New not found", rule)
		}
		return
	}
	stores, tables := 0, 0
	for _, fn := range q.FuncsIn("server") {
		var frs []*ssaq.Frame
		if fn == f {
			frs = ssaq.Frames(f)
		} else if !ssaq.IsNewHelper(fn) {
			frs = ssaq.Frames(fn)[:1]
		}
		for _, fr := range frs {
			for _, b := range fr.Fn.Blocks {
				for _, in := range b.Instrs {
					st, ok := in.(*ssa.Store)
					if !ok {
						continue
					}
					fa, ok := st.Addr.(*ssa.FieldAddr)
					if !ok {
						continue
					}
					switch ssaq.FieldVar(fa) {
					case capF:
						stores++
						key := fmt.Sprintf("%s | store #%d into Policy.MaxConcurrentCalls only replaces a cap < 1", ssaq.FuncName(fn), stores)
						// the policy is addressed as &x.policy through a helper's
						// pointer parameter and as x.policy in place: same object
						base := strings.ReplaceAll(fr.Render(fa.X), "&", "")
						want := base + ".MaxConcurrentCalls < 1:int"
						atoms := fr.Atoms(in)
						ok := false
						for _, a := range atoms {
							a = strings.ReplaceAll(a, "&", "")
							if a == want || a == base+".MaxConcurrentCalls <= 0:int" {
								ok = true
							}
						}
						if ok {
							r.Ok(rule, key, q.Pos(ssaq.InstrPos(in)), "dominated by "+want)
						} else {
							r.Violation(rule, key, q.Pos(ssaq.InstrPos(in)), "the configured MaxConcurrentCalls is overwritten where it is not known to be < 1 (established: "+strings.Join(atoms, " && ")+"): a caller that asks for a cap of 1 (serial execution) gets more concurrent calls than it allowed")
						}
					case ongoing:
						tables++
						key := fmt.Sprintf("%s | slot table #%d has MaxConcurrentCalls slots", ssaq.FuncName(fn), tables)
						ms, isMake := st.Val.(*ssa.MakeSlice)
						if !isMake {
							if k, isNil := st.Val.(*ssa.Const); isNil && k.IsNil() {
								r.Ok(rule, key, q.Pos(ssaq.InstrPos(in)), "nil table (no slot can be taken)")
								continue
							}
							r.Violation(rule, key, q.Pos(ssaq.InstrPos(in)), "Server.ongoing is assigned something other than a slice made with MaxConcurrentCalls slots: "+fr.Render(st.Val))
							continue
						}
						ln := fr.Render(ms.Len)
						if strings.HasSuffix(ln, ".MaxConcurrentCalls") {
							r.Ok(rule, key, q.Pos(ssaq.InstrPos(in)), "make(..., "+ln+")")
						} else {
							r.Violation(rule, key, q.Pos(ssaq.InstrPos(in)), "the slot table is made with "+ln+" slots, not with policy.MaxConcurrentCalls: start admits as many calls as there are slots")
						}
					}
				}
			}
		}
	}
	if stores == 0 || tables == 0 {
		r.Fail("%s: expected the default store into Policy.MaxConcurrentCalls and the make of Server.ongoing in server.New (stores %d, tables %d)", rule, stores, tables)
	}
}

// ruleBaseUsedAfterReady (C12-R5c): a base of a draining answer queue is usable
// only once its ready channel is closed — fulfill assigns bases[0].recv before
// it drains the queue and closes ready when the drain is over, so a caller that
// reads recv without having received from ready delivers its call to the
// resolved capability ahead of the calls still queued. Every read of base.recv
// in package server (a call through it or a copy into a local) is reached only
// through a receive from the ready channel.
func ruleBaseUsedAfterReady(ctx *Ctx, rule string) {
	a := lockAnalysis(ctx)
	if a == nil {
		return
	}
	r := ctx.Rep
	recvF := mustField(ctx, rule, "server", "base", "recv")
	readyF := mustField(ctx, rule, "server", "base", "ready")
	if recvF == nil || readyF == nil {
		return
	}
	n := 0
	for _, u := range a.UnitsSorted() {
		if !strings.HasPrefix(u.Name, "server.") {
			continue
		}
		info := u.Pkg.TypesInfo
		lhs := map[ast.Node]bool{}
		drainer := false
		ast.Inspect(u.Body, func(x ast.Node) bool {
			if as, ok := x.(*ast.AssignStmt); ok {
				for _, l := range as.Lhs {
					lhs[ast.Unparen(l)] = true
					if f := fieldOfSel(info, l); f == readyF || f == recvF {
						drainer = true
					}
				}
			}
			return true
		})
		// the function that installs the ready channel or the recv functions is
		// the one that drains the queue: it reads recv in queue order by construction
		if drainer {
			continue
		}
		isRead := func(m ast.Node) bool {
			sel, ok := m.(*ast.SelectorExpr)
			return ok && !lhs[sel] && fieldOfSel(info, sel) == recvF
		}
		isReady := func(m ast.Node) bool { return isRecvFromField(info, m, readyF) }
		k := 0
		for _, p := range u.Find(isRead) {
			k++
			n++
			nd := p.B.Nodes[p.I]
			key := fmt.Sprintf("%s | read #%d of base.recv only after <-ready", u.Name, k)
			// the path query starts at the entry: the read itself is the target
			res := a.Eng.Reaches(u, u.Entry(), func(m ast.Node) bool { return m == ast.Node(firstMatch(nd, isRead)) }, isReady)
			if res.Found {
				r.Violation(rule, key, ctx.Prog.Rel(nd.Pos()), "base.recv is read on a path that has not received from the base's ready channel: during a drain recv is already set while earlier queued calls are still being delivered, so this call overtakes them", res.Trace...)
			} else {
				r.Ok(rule, key, ctx.Prog.Rel(nd.Pos()), "every path to the read passes <-b.ready")
			}
		}
	}
	if n == 0 {
		r.Fail("%s: no read of base.recv found in package server", rule)
	}
}

// firstMatch returns the first sub-node of n that satisfies pred.
func firstMatch(n ast.Node, pred func(ast.Node) bool) ast.Node {
	var out ast.Node
	ast.Inspect(n, func(m ast.Node) bool {
		if out != nil || m == nil {
			return false
		}
		if _, ok := m.(*ast.FuncLit); ok {
			return false
		}
		if pred(m) {
			out = m
			return false
		}
		return true
	})
	return out
}
