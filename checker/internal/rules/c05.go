package rules

import (
	"fmt"
	"strings"

	"verifcheck/internal/bitlayout"
	"verifcheck/internal/ssaq"
)

var c05LemmaFuncs = []string{"capnp.(List).raw", "capnp.nearPointerOffset", "capnp.(List).allocSize", "capnp.bitListSize", "capnp.(Interface).value"}

func init() {
	extraLemmaFuncs = append(extraLemmaFuncs, c05LemmaFuncs...)
	Register(&Spec{
		ID:          "C05",
		Explanation: "Decides that the pointer-word encoders produce the bit layout of the encoding specification (R1, abstract interpretation over per-bit provenance: struct, list, interface, far, double-far pointers and withOffset) and that each decoder applied to each encoder returns the encoded argument bits (R1i, composition in the same domain); that List.raw, nearPointerOffset and allocSize have their confirmed normal forms (R2: composite count is length*words per element, bit lists use bit1List, element sizes 0/1/2/4/8 map to void/byte1/2/4/8); and that writePtr emits each pointer shape under the right condition and into the right segment (R3: zero-sized struct -> offset -1 without allocation; same segment -> near pointer; otherwise a one-word pad in the target's segment only under hasCapacity, else a two-word pad whose first word is a far pointer to the object and whose second word is the tag with zero offset; composite lists are addressed at their tag word). (R4) an address returned by alloc is used only with the segment returned by the same call (or under a dominating hasCapacity for the preferred segment). Allocation disjointness and the segment table are C04-R2/R3. (R5z, R5s) alloc zero-fills on every success path and decoded segments cannot grow into their neighbours (shared with C04-R2 and C14-R4). (R6d) Segment.data is replaced only by alloc/setSegment/Reset (shared with C01-R1); (R7) the Encoder's scratch slices start empty in every Encode (shared with C04-R7). Does NOT decide that an independent decoder reconstructs the written tree.",
		Run:         runC05,
	})
}

var encoderCases = []bitCase{
	{"capnp.rawStructPointer", []bitInput{{"off", 32, true, 64}, {"sz.DataSize", 32, false, 19}, {"sz.PointerCount", 16, false, 64}}, map[string][]bitlayout.Range{"": {
		{Lo: 2, Hi: 32, Src: "off", SrcLo: 0}, {Lo: 32, Hi: 48, Src: "sz.DataSize", SrcLo: 3}, {Lo: 48, Hi: 64, Src: "sz.PointerCount", SrcLo: 0}}}},
	{"capnp.rawListPointer", []bitInput{{"off", 32, true, 64}, {"listType", 64, true, 3}, {"length", 32, true, 29}}, map[string][]bitlayout.Range{"": {
		{Lo: 0, Hi: 1, Src: "1"}, {Lo: 2, Hi: 32, Src: "off", SrcLo: 0}, {Lo: 32, Hi: 35, Src: "listType", SrcLo: 0}, {Lo: 35, Hi: 64, Src: "length", SrcLo: 0}}}},
	{"capnp.rawInterfacePointer", []bitInput{{"capability", 32, false, 64}}, map[string][]bitlayout.Range{"": {
		{Lo: 0, Hi: 2, Src: "1"}, {Lo: 32, Hi: 64, Src: "capability", SrcLo: 0}}}},
	{"capnp.rawFarPointer", []bitInput{{"segID", 32, false, 64}, {"off", 32, false, 64}}, map[string][]bitlayout.Range{"": {
		{Lo: 1, Hi: 2, Src: "1"}, {Lo: 3, Hi: 32, Src: "off", SrcLo: 3}, {Lo: 32, Hi: 64, Src: "segID", SrcLo: 0}}}},
	{"capnp.rawDoubleFarPointer", []bitInput{{"segID", 32, false, 64}, {"off", 32, false, 64}}, map[string][]bitlayout.Range{"": {
		{Lo: 1, Hi: 3, Src: "1"}, {Lo: 3, Hi: 32, Src: "off", SrcLo: 3}, {Lo: 32, Hi: 64, Src: "segID", SrcLo: 0}}}},
}

// inverse pairs: decoder(encoder(args)) == the argument bits
type inversePair struct {
	enc, dec string
	field    string
	want     []bitlayout.Range
}

var inversePairs = []inversePair{
	{"capnp.rawStructPointer", "capnp.(rawPointer).offset", "", []bitlayout.Range{{Lo: 0, Hi: 30, Src: "off", SrcLo: 0}, {Lo: 30, Hi: 64, Src: "off", SrcLo: 29, Repeat: true}}},
	{"capnp.rawStructPointer", "capnp.(rawPointer).structSize", "DataSize", []bitlayout.Range{{Lo: 3, Hi: 19, Src: "sz.DataSize", SrcLo: 3}}},
	{"capnp.rawStructPointer", "capnp.(rawPointer).structSize", "PointerCount", []bitlayout.Range{{Lo: 0, Hi: 16, Src: "sz.PointerCount", SrcLo: 0}}},
	{"capnp.rawListPointer", "capnp.(rawPointer).offset", "", []bitlayout.Range{{Lo: 0, Hi: 30, Src: "off", SrcLo: 0}, {Lo: 30, Hi: 64, Src: "off", SrcLo: 29, Repeat: true}}},
	{"capnp.rawListPointer", "capnp.(rawPointer).listType", "", []bitlayout.Range{{Lo: 0, Hi: 3, Src: "listType", SrcLo: 0}}},
	{"capnp.rawListPointer", "capnp.(rawPointer).numListElements", "", []bitlayout.Range{{Lo: 0, Hi: 29, Src: "length", SrcLo: 0}}},
	{"capnp.rawInterfacePointer", "capnp.(rawPointer).capabilityIndex", "", []bitlayout.Range{{Lo: 0, Hi: 32, Src: "capability", SrcLo: 0}}},
	{"capnp.rawInterfacePointer", "capnp.(rawPointer).otherPointerType", "", nil},
	{"capnp.rawFarPointer", "capnp.(rawPointer).farAddress", "", []bitlayout.Range{{Lo: 3, Hi: 32, Src: "off", SrcLo: 3}}},
	{"capnp.rawFarPointer", "capnp.(rawPointer).farSegment", "", []bitlayout.Range{{Lo: 0, Hi: 32, Src: "segID", SrcLo: 0}}},
	{"capnp.rawDoubleFarPointer", "capnp.(rawPointer).farAddress", "", []bitlayout.Range{{Lo: 3, Hi: 32, Src: "off", SrcLo: 3}}},
	{"capnp.rawDoubleFarPointer", "capnp.(rawPointer).farSegment", "", []bitlayout.Range{{Lo: 0, Hi: 32, Src: "segID", SrcLo: 0}}},
}

var writePtrSpecs = []anchorSpec{
	{"capnp.(*Segment).writePtr", "capnp.(*Segment).writeRawPointer", 2, []string{"p0", "p1", "rawStructPointer(-1:pointerOffset, zero:ObjectSize)"}, []string{"isZero(st.size)"}, "zero-sized struct is encoded with offset -1 and no allocation"},
	{"capnp.(*Segment).writePtr", "capnp.(*Segment).writeRawPointer", 5, []string{"p0", "p1", "withOffset(phi, nearPointerOffset(p1, phi))"}, []string{"p0 == p2.seg"}, "same segment: near pointer relative to the pointer's own address"},
	{"capnp.(*Segment).writePtr", "capnp.alloc", 3, []string{"p2.seg", "8:Size"}, []string{"hasCapacity(p2.seg.data, 8:Size)", "p0 != p2.seg"}, "one-word landing pad goes into the target's segment, only when it has room"},
	{"capnp.(*Segment).writePtr", "capnp.(*Segment).writeRawPointer", 6, []string{"p2.seg", "alloc(p2.seg, 8:Size)#1", "withOffset(phi, nearPointerOffset(alloc(p2.seg, 8:Size)#1, phi))"}, []string{"hasCapacity(p2.seg.data, 8:Size)"}, "landing pad holds a near pointer relative to the pad"},
	{"capnp.(*Segment).writePtr", "capnp.(*Segment).writeRawPointer", 7, []string{"p0", "p1", "rawFarPointer(p2.seg.id, alloc(p2.seg, 8:Size)#1)"}, []string{"hasCapacity(p2.seg.data, 8:Size)"}, "far pointer names the target's segment and the pad address"},
	{"capnp.(*Segment).writePtr", "capnp.alloc", 4, []string{"p0", "16:Size"}, []string{"!hasCapacity(p2.seg.data, 8:Size)", "p0 != p2.seg"}, "two-word landing pad when the target segment is full"},
	{"capnp.(*Segment).writePtr", "capnp.(*Segment).writeRawPointer", 8, []string{"alloc(p0, 16:Size)#0", "alloc(p0, 16:Size)#1", "rawFarPointer(p2.seg.id, phi)"}, []string{"alloc(p0, 16:Size)#2 == nil"}, "first pad word is a far pointer to the object itself"},
	{"capnp.(*Segment).writePtr", "capnp.(*Segment).writeRawPointer", 9, []string{"alloc(p0, 16:Size)#0", "addSizeUnchecked(alloc(p0, 16:Size)#1, 8:Size)", "phi"}, []string{"alloc(p0, 16:Size)#2 == nil"}, "second pad word is the tag (zero offset) one word later"},
	{"capnp.(*Segment).writePtr", "capnp.(*Segment).writeRawPointer", 10, []string{"p0", "p1", "rawDoubleFarPointer(alloc(p0, 16:Size)#0.id, alloc(p0, 16:Size)#1)"}, nil, "double-far pointer names the pad's segment and address"},
	{"capnp.(*Segment).writePtr", "capnp.rawStructPointer", 2, []string{"0:pointerOffset", "st.size"}, nil, "struct tag carries the (possibly copied) struct's size with zero offset"},
}

func runC05(ctx *Ctx) {
	ruleAllocPairing(ctx, "C05-R4", "capnp")
	ctx.Rep.Floor("C05-R4", 10)
	ruleBitLayout(ctx, "C05-R1", encoderCases)
	ruleInverse(ctx, "C05-R1i")
	if ctx.Primary {
		ruleKernelLemmas(ctx, "C05-R2", c05LemmaFuncs)
	}
	ruleAnchorSpecs(ctx, "C05-R3", writePtrSpecs)
	ruleCompositeTagAddress(ctx, "C05-R3c")
	// "distinct objects occupy disjoint, initially zeroed storage": the zero
	// fill of alloc (C04-R2) and the capacity cap of decoded segments (C14-R4)
	// under this property's id
	ruleAllocLemma(ctx, "C05-R5z")
	ruleCappedSlices(ctx, "C05-R5s")
	// objects already handed out keep their place: Segment.data is replaced
	// only by alloc/setSegment/Reset, never cut back (shared with C01-R1)
	ruleDataConfinement(ctx, "C05-R6d")
	// the segment table describes exactly the segments that follow it: the
	// Encoder's scratch slices start empty in every Encode (shared with C04-R7)
	ruleEncoderScratchStartsEmpty(ctx, "C05-R7")
	r := ctx.Rep
	r.Floor("C05-R1", 5)
	r.Floor("C05-R1i", 12)
	r.Floor("C05-R2", 4)
	r.Floor("C05-R3", 10)
	r.Assumption("range assumptions of the bit analysis: DataSize < 2^19 (ObjectSize.isValid), list type < 8 (constants), list length < 2^29 (checked by the list constructors)")
}

func ruleInverse(ctx *Ctx, rule string) {
	q := ssaq.For(ctx.Prog)
	r := ctx.Rep
	encByName := map[string]bitCase{}
	for _, c := range encoderCases {
		encByName[c.fn] = c
	}
	for _, p := range inversePairs {
		key := fmt.Sprintf("%s(%s(..))", p.dec[strings.LastIndex(p.dec, ".")+1:], p.enc[strings.LastIndex(p.enc, ".")+1:])
		if p.field != "" {
			key += "." + p.field
		}
		encV, err := evalBits(q, encByName[p.enc])
		f := q.Func(p.dec)
		if err != nil || f == nil {
			r.Undecided(rule, key, "rawpointer.go", fmt.Sprintf("cannot evaluate: %v", err))
			continue
		}
		// decoder with p := encoder result
		dc := bitCase{fn: p.dec, inputs: []bitInput{rp}}
		got, err := evalBitsWith(q, dc, map[string]bitlayout.Vec{"p": encV[""]})
		pos := q.Pos(f.Pos())
		if err != nil {
			r.Undecided(rule, key, pos, "cannot evaluate: "+err.Error())
			continue
		}
		v := got[p.field]
		if errs := bitlayout.Compare(v, p.want); len(errs) > 0 {
			r.Violation(rule, key, pos, "decoding what the encoder produced does not give back the encoded argument: "+strings.Join(errs, "; ")+" (computed: "+bitlayout.Describe(v)+")")
		} else {
			r.Ok(rule, key, pos, "decoder∘encoder = "+bitlayout.Describe(v))
		}
	}
}

// ruleCompositeTagAddress: pointers to composite lists point at the tag word.
func ruleCompositeTagAddress(ctx *Ctx, rule string) {
	q := ssaq.For(ctx.Prog)
	r := ctx.Rep
	f := q.Func("capnp.(*Segment).writePtr")
	if f == nil {
		r.Fail("%s: writePtr not found", rule)
		return
	}
	lines := []string{}
	for _, a := range ssaq.Anchors(f) {
		_ = a
	}
	// srcAddr is a phi; one of its edges must be (l.off - 8) under the composite flag
	found := false
	for _, b := range frameBlocks(f) {
		for _, in := range b.Instrs {
			s := ""
			if v, ok := in.(interface{ Name() string }); ok {
				_ = v
			}
			if bo, ok := in.(interface{ String() string }); ok {
				s = bo.String()
			}
			if strings.Contains(s, " - 8:") {
				atoms := ssaq.DomAtoms(in)
				for _, a := range atoms {
					if strings.HasPrefix(a, "(1:listFlags & ") && strings.HasSuffix(a, "!= 0:listFlags") {
						found = true
					}
				}
				lines = append(lines, s)
			}
		}
	}
	key := "writePtr | composite list pointer addresses the tag word"
	if found {
		r.Ok(rule, key, q.Pos(f.Pos()), "srcAddr is moved back one word under flags&isCompositeList != 0")
	} else {
		r.Violation(rule, key, q.Pos(f.Pos()), "a pointer to a composite list is not adjusted to address the tag word: readers would take the first element for the tag")
	}
}
