package rules

import (
	"fmt"
	"go/token"

	"golang.org/x/tools/go/ssa"

	"verifcheck/internal/ssaq"
)

// ruleRefsCountedOnResolvedHook (C10-R6r, shared as C16-R6r): a reference is
// counted on the hook that stands at the end of the resolution chain. A
// Client (or WeakClient) may still point at a promise hook that has already
// been resolved; resolveHook advances it and hands the mutex over. An
// increment of clientHook.refs is therefore applied to
//
//	(a) the result of resolveHook itself, or
//	(b) x.h read after the store x.h = resolveHook(...), that store being the
//	    last store to x.h that dominates the read.
//
// An increment applied before the hook is advanced lands on the dead promise
// hook: the new handle (AddRef, the capability-table entry of a copied
// interface pointer) owns no reference to the real capability, which is shut
// down while the handle is still in use.
func ruleRefsCountedOnResolvedHook(ctx *Ctx, rule string) {
	q := ssaq.For(ctx.Prog)
	r := ctx.Rep
	refs := mustField(ctx, rule, "", "clientHook", "refs")
	if refs == nil {
		return
	}
	n := 0
	for _, f := range q.FuncsIn("") {
		k := 0
		for _, b := range f.Blocks {
			for _, in := range b.Instrs {
				st, ok := in.(*ssa.Store)
				if !ok {
					continue
				}
				fa, ok := st.Addr.(*ssa.FieldAddr)
				if !ok || ssaq.FieldVar(fa) != refs {
					continue
				}
				bo, ok := st.Val.(*ssa.BinOp)
				if !ok || bo.Op != token.ADD {
					continue // decrements and resets are C10-R3/R6
				}
				n++
				k++
				key := fmt.Sprintf("%s | refs increment #%d is applied to the resolved hook", ssaq.FuncName(f), k)
				pos := q.Pos(ssaq.InstrPos(in))
				hook := fa.X
				why := resolvedHookWhy(f, hook)
				if why != "" {
					r.Ok(rule, key, pos, why)
				} else {
					r.Violation(rule, key, pos, "clientHook.refs is incremented on "+ssaq.RenderValue(f, hook)+", which is not known to be the result of resolveHook: if the handle still points at a promise hook that has been resolved, the reference is counted on the dead hook and the real capability is shut down while the new handle still uses it")
				}
			}
		}
	}
	if n < 3 {
		r.Fail("%s: expected the increments of clientHook.refs in Client.AddRef, WeakClient.AddRef and ClientPromise.Fulfill, found %d", rule, n)
	}
}

// resolvedHookWhy: hook is the result of resolveHook, or x.h read after the
// store x.h = resolveHook(...), that store being the last store to x.h that
// dominates the read ("" otherwise).
func resolvedHookWhy(f *ssa.Function, hook ssa.Value) string {
	isResolve := func(v ssa.Value) bool {
		c, ok := v.(*ssa.Call)
		return ok && ssaq.StaticCalleeName(c) == "capnp.resolveHook"
	}
	if isResolve(hook) {
		return "the hook is the result of resolveHook"
	}
	ld, isLoad := hook.(*ssa.UnOp)
	if !isLoad || ld.Op != token.MUL {
		return ""
	}
	hfa, isField := ld.X.(*ssa.FieldAddr)
	if !isField {
		return ""
	}
	var last *ssa.Store
	for _, b2 := range f.Blocks {
		for _, in2 := range b2.Instrs {
			s2, ok := in2.(*ssa.Store)
			if !ok {
				continue
			}
			fa2, ok := s2.Addr.(*ssa.FieldAddr)
			if !ok || fa2.Field != hfa.Field || fa2.X != hfa.X || ssaq.FieldVar(fa2) != ssaq.FieldVar(hfa) {
				continue
			}
			if !ssaq.DominatesInstr(s2, ld) {
				continue
			}
			if last == nil || ssaq.DominatesInstr(last, s2) {
				last = s2
			}
		}
	}
	if last != nil && isResolve(last.Val) {
		return "the hook is read from " + ssaq.AccessPath(hfa.X) + "." + ssaq.FieldVar(hfa).Name() + " after it was set to the result of resolveHook"
	}
	return ""
}

// rulePeekReturnsResolvedHook (C17-R2p, shared as C10-R6p): Client.peek is
// what IsSame (and through it Equal) compares: the hook it returns is the one
// at the end of the resolution chain. A non-nil hook returned by peek is the
// result of resolveHook (or c.h read after c.h = resolveHook(...)); the hook
// read before the chain was advanced is the promise hook, which differs from
// the hook of another handle on the same capability.
func rulePeekReturnsResolvedHook(ctx *Ctx, rule string) {
	q := ssaq.For(ctx.Prog)
	r := ctx.Rep
	f := q.Func("capnp.(*Client).peek")
	if f == nil {
		r.Fail("%s: capnp.(*Client).peek not found", rule)
		return
	}
	n := 0
	for _, b := range f.Blocks {
		rt, ok := b.Instrs[len(b.Instrs)-1].(*ssa.Return)
		if !ok || len(rt.Results) == 0 || b.Comment == "recover" {
			continue
		}
		v := rt.Results[0]
		// a named result spilled by the deferred unlock: the value is the last
		// store into the result's cell in the returning block
		if ld, isLoad := v.(*ssa.UnOp); isLoad && ld.Op == token.MUL {
			if cell, isCell := ld.X.(*ssa.Alloc); isCell {
				for _, in := range b.Instrs {
					if st, isStore := in.(*ssa.Store); isStore && st.Addr == ssa.Value(cell) {
						v = st.Val
					}
				}
			}
		}
		if ssaq.IsNilConst(v) {
			continue
		}
		n++
		key := fmt.Sprintf("capnp.(*Client).peek | hook returned #%d is the resolved one", n)
		if why := resolvedHookWhy(f, v); why != "" {
			r.Ok(rule, key, q.Pos(rt.Pos()), why)
		} else {
			r.Violation(rule, key, q.Pos(f.Pos()), "peek returns "+ssaq.RenderValue(f, v)+", which is not known to be the result of resolveHook: on a client whose promise has been resolved, IsSame (and Equal on capabilities) compares the stale promise hook and answers false for two handles on the same capability")
		}
	}
	if n == 0 {
		r.Fail("%s: peek has no return of a non-nil hook", rule)
	}
}
