package rules

import (
	"fmt"
	"strings"

	"golang.org/x/tools/go/ssa"

	"verifcheck/internal/ssaq"
)

// Functions that may copy bytes into the data section of a struct with the
// builtin copy. Both also deal with the destination's pointer section (copy
// the source's pointers and null the rest; fill from the source).
var structDataCopyOwners = map[string]string{
	"capnp.copyStruct":          "the struct copy itself: data (with zero fill), then every pointer of the destination (C16-R3, R3z, R3n)",
	"capnp.fillCanonicalStruct": "fills a freshly allocated canonical struct: data, then every pointer (C18-R1)",
}

// ruleStructCopySites (C16-R3c): assigning a struct copies its data section and
// its pointer section, truncating or zero-extending each. The lemmas of C16-R3
// say that copyStruct does both; this rule says that nobody else copies a
// struct's data section on his own: a builtin copy whose destination is the
// window X.seg.slice(X.off, X.size.DataSize) of a struct X occurs only in the
// listed functions (or in code moved out of them into a new helper). A second
// copy routine — a "data only" fast path in a setter — leaves the destination's
// old pointers in place when it overwrites a used element.
func ruleStructCopySites(ctx *Ctx, rule string) {
	q := ssaq.For(ctx.Prog)
	r := ctx.Rep
	n := 0
	for _, f := range q.FuncsIn("") {
		k := 0
		for _, b := range f.Blocks {
			for _, in := range b.Instrs {
				c, ok := in.(*ssa.Call)
				if !ok {
					continue
				}
				bi, ok := c.Call.Value.(*ssa.Builtin)
				if !ok || bi.Name() != "copy" || len(c.Call.Args) != 2 {
					continue
				}
				if !isStructDataWindow(f, c.Call.Args[0]) {
					continue
				}
				n++
				k++
				name := ssaq.FuncName(f)
				key := fmt.Sprintf("%s | copy #%d into a struct's data section", name, k)
				pos := q.Pos(ssaq.InstrPos(in))
				if why, ok := structDataCopyOwners[name]; ok {
					r.Exempt(rule, key, pos, why)
					continue
				}
				if owner, ok := exemptViaOwners(q, f, prefixKeys(structDataCopyOwners, " | struct copy"), "struct copy"); ok {
					r.Exempt(rule, key, pos, "moved out of "+owner)
					continue
				}
				r.Violation(rule, key, pos, "bytes are copied into the data section of a struct outside copyStruct: the destination's pointer section is not part of this copy, so overwriting a used struct or list element this way keeps its old pointers (the copy is not equal to the source, and the zero-extension rule for the pointer section is not applied)")
			}
		}
	}
	if n < 2 {
		r.Fail("%s: expected the data copies of copyStruct and fillCanonicalStruct, found %d", rule, n)
	}
}

func prefixKeys(m map[string]string, suffix string) map[string]string {
	out := map[string]string{}
	for k, v := range m {
		out[k+suffix] = v
	}
	return out
}

// isStructDataWindow: v is X.seg.slice(X.off, X.size.DataSize), possibly
// re-sliced, for one struct X.
func isStructDataWindow(f *ssa.Function, v ssa.Value) bool {
	for {
		sl, ok := v.(*ssa.Slice)
		if !ok {
			break
		}
		v = sl.X
	}
	c, ok := v.(*ssa.Call)
	if !ok || ssaq.StaticCalleeName(c) != "capnp.(*Segment).slice" || len(c.Call.Args) != 3 {
		return false
	}
	off, sz := ssaq.RenderValueR(f, c.Call.Args[1]), ssaq.RenderValueR(f, c.Call.Args[2])
	return strings.HasSuffix(off, ".off") && strings.HasSuffix(sz, ".size.DataSize") &&
		strings.TrimSuffix(off, ".off") == strings.TrimSuffix(sz, ".size.DataSize")
}
