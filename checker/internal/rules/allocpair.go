package rules

import (
	"fmt"
	"go/types"

	"golang.org/x/tools/go/ssa"

	"verifcheck/internal/ssaq"
)

func isNamedType(t types.Type, name string) bool {
	if p, ok := t.Underlying().(*types.Pointer); ok {
		t = p.Elem()
	}
	n, ok := t.(*types.Named)
	return ok && n.Obj().Name() == name
}

// ruleAllocPairing: alloc returns a segment and an address inside THAT segment
// (the allocation may have spilled into another or a new segment). Every use of
// the address (or of an address computed from it) as an argument of a *Segment
// method, and every object built on it, must name the segment returned by the
// same call.
func ruleAllocPairing(ctx *Ctx, rule string, pkgs ...string) {
	q := ssaq.For(ctx.Prog)
	r := ctx.Rep
	n := 0
	for i, p := range pkgs {
		if p == "capnp" {
			pkgs[i] = "" // the module's root package
		}
	}
	for _, f := range q.FuncsIn(pkgs...) {
		k := 0
		for _, b := range f.Blocks {
			for _, in := range b.Instrs {
				call, ok := in.(*ssa.Call)
				if !ok || ssaq.StaticCalleeName(call) != "capnp.alloc" {
					continue
				}
				k++
				var seg, addr ssa.Value
				for _, ref := range *call.Referrers() {
					if ex, ok := ref.(*ssa.Extract); ok {
						switch ex.Index {
						case 0:
							seg = ex
						case 1:
							addr = ex
						}
					}
				}
				if addr == nil {
					continue // address unused
				}
				// alloc(S0, sz) under hasCapacity(S0.data, sz) stays in S0
				var sameSeg ssa.Value
				want := "hasCapacity(" + ssaq.RenderValue(f, call.Call.Args[0]) + ".data, " + ssaq.RenderValue(f, call.Call.Args[1]) + ")"
				for _, at := range ssaq.DomAtoms(call) {
					if at == want {
						sameSeg = call.Call.Args[0]
					}
				}
				if sameSeg == nil && ssaq.IsNew(f) {
					// a helper that did not exist on the reference tree: the
					// capacity test may lie in its callers; it must hold in the
					// frame of every call chain from a reference-tree function
					if owners, ok := q.Attributed(f); ok {
						inst, all := 0, true
						for _, on := range owners {
							g := q.Func(on)
							if g == nil {
								all = false
								continue
							}
							for _, a := range ssaq.Anchors(g) {
								if a.Instr != ssa.Instruction(call) || len(a.Args) < 2 {
									continue
								}
								inst++
								w2, found := "hasCapacity("+a.Args[0]+".data, "+a.Args[1]+")", false
								for _, at := range a.Atoms {
									if at == w2 {
										found = true
									}
								}
								all = all && found
							}
						}
						if inst > 0 && all {
							sameSeg = call.Call.Args[0]
						}
					}
				}
				exemptWhy := allocPairExempt[fmt.Sprintf("%s | alloc #%d", ssaq.FuncName(f), k)]
				// values derived from the address
				derived := map[ssa.Value]bool{addr: true}
				for changed := true; changed; {
					changed = false
					for _, b2 := range f.Blocks {
						for _, in2 := range b2.Instrs {
							v, isVal := in2.(ssa.Value)
							if !isVal || derived[v] {
								continue
							}
							switch x := in2.(type) {
							case *ssa.Call:
								if !isNamedType(firstResult(x.Type()), "address") {
									continue
								}
								for _, a := range x.Call.Args {
									if derived[a] {
										derived[v] = true
										changed = true
									}
								}
							case *ssa.Extract:
								if derived[x.Tuple] && isNamedType(x.Type(), "address") {
									derived[v] = true
									changed = true
								}
							case *ssa.BinOp:
								if (derived[x.X] || derived[x.Y]) && isNamedType(x.Type(), "address") {
									derived[v] = true
									changed = true
								}
							case *ssa.ChangeType:
								if derived[x.X] && isNamedType(x.Type(), "address") {
									derived[v] = true
									changed = true
								}
							}
						}
					}
				}
				// uses
				u := 0
				for _, b2 := range f.Blocks {
					for _, in2 := range b2.Instrs {
						switch x := in2.(type) {
						case ssa.CallInstruction:
							cal := x.Common().StaticCallee()
							if cal == nil || cal.Signature.Recv() == nil || !isNamedType(cal.Signature.Recv().Type(), "Segment") || len(x.Common().Args) < 2 {
								continue
							}
							uses := false
							for _, a := range x.Common().Args[1:] {
								if derived[a] {
									uses = true
								}
							}
							if !uses {
								continue
							}
							u++
							n++
							key := fmt.Sprintf("%s | alloc #%d: %s #%d on the allocated segment", ssaq.FuncName(f), k, cal.Name(), u)
							pos := q.Pos(ssaq.InstrPos(in2))
							if x.Common().Args[0] == seg && seg != nil {
								r.Ok(rule, key, pos, "receiver is the segment returned with the address")
							} else if sameSeg != nil && ssaq.RenderValue(f, x.Common().Args[0]) == ssaq.RenderValue(f, sameSeg) {
								r.Ok(rule, key, pos, "the allocation is dominated by "+want+": it cannot leave that segment, and the receiver is that segment")
							} else if exemptWhy != "" {
								r.Exempt(rule, key, pos, exemptWhy)
							} else {
								r.Violation(rule, key, pos, fmt.Sprintf("%s is applied to segment %s with an address that alloc returned for a possibly different segment: when the allocation spills into another segment the word is written to (or read from) the wrong segment", cal.Name(), ssaq.RenderValue(f, x.Common().Args[0])))
							}
						case *ssa.Store:
							fa, ok := x.Addr.(*ssa.FieldAddr)
							if !ok || !derived[x.Val] {
								continue
							}
							// sibling store of a *Segment into the same object
							var sib ssa.Value
							for _, b3 := range f.Blocks {
								for _, in3 := range b3.Instrs {
									if st, ok := in3.(*ssa.Store); ok {
										if fa2, ok := st.Addr.(*ssa.FieldAddr); ok && fa2.X == fa.X && fa2 != fa && isNamedType(st.Val.Type(), "Segment") {
											sib = st.Val
										}
									}
								}
							}
							if sib == nil {
								continue
							}
							u++
							n++
							key := fmt.Sprintf("%s | alloc #%d: object #%d built on the allocated segment", ssaq.FuncName(f), k, u)
							pos := q.Pos(ssaq.InstrPos(in2))
							if sib == seg && seg != nil {
								r.Ok(rule, key, pos, "seg field is the segment returned with the address")
							} else if sameSeg != nil && ssaq.RenderValue(f, sib) == ssaq.RenderValue(f, sameSeg) {
								r.Ok(rule, key, pos, "the allocation is dominated by "+want+": it cannot leave that segment")
							} else if exemptWhy != "" {
								r.Exempt(rule, key, pos, exemptWhy)
							} else {
								r.Violation(rule, key, pos, "an object is built from the allocated address and a segment other than the one alloc returned with it")
							}
						}
					}
				}
			}
		}
	}
	if n == 0 {
		r.Fail("%s: no use of an allocated address found", rule)
	}
}

// One named construct per line, with the reason the pairing holds there.
var allocPairExempt = map[string]string{
	"capnp.canonicalList | alloc #1": "the canonical output message is created by Canonicalize over SingleSegment(nil): its arena has exactly one segment, so alloc can only return dst",
}

func firstResult(t types.Type) types.Type {
	if tup, ok := t.(*types.Tuple); ok && tup.Len() > 0 {
		return tup.At(0).Type()
	}
	return t
}
