package rules

import (
	"golang.org/x/tools/go/ssa"

	"verifcheck/internal/ssaq"
)

// ruleExtractListAssigns (C19-R7): Extract fills a Go value that may already
// hold data (a struct decoded into repeatedly, a nested pointer that is
// reused). extractList therefore assigns its destination on every path that
// reports success — the zero slice for a null list, a new slice of the list's
// length otherwise; a success return that leaves the destination alone keeps
// the elements of the previous message, and the extracted value no longer
// agrees with what the accessors read. Every return of a nil error is
// dominated by a call val.Set(...) on the destination parameter (in
// extractList or in a new helper that is handed the destination).
func ruleExtractListAssigns(ctx *Ctx, rule string) {
	q := ssaq.For(ctx.Prog)
	r := ctx.Rep
	f := q.Func("pogs.(*extracter).extractList")
	if f == nil {
		r.Fail("%s: pogs.(*extracter).extractList not found", rule)
		return
	}
	if len(f.Params) < 2 {
		r.Fail("%s: extractList has no destination parameter", rule)
		return
	}
	val := f.Params[1]
	var sets []*ssa.BasicBlock
	for _, b := range f.Blocks {
		for _, in := range b.Instrs {
			c, ok := in.(*ssa.Call)
			if !ok || len(c.Call.Args) == 0 {
				continue
			}
			name := ssaq.StaticCalleeName(c)
			if name == "reflect.(Value).Set" && c.Call.Args[0] == ssa.Value(val) {
				sets = append(sets, b)
			}
			// a new helper that receives the destination and sets it on all paths
			if h := c.Call.StaticCallee(); h != nil && ssaq.IsNew(h) && len(h.Blocks) > 0 {
				for i, a := range c.Call.Args {
					if a != ssa.Value(val) || i >= len(h.Params) {
						continue
					}
					hp := h.Params[i]
					all := true
					for _, hb := range h.Blocks {
						if _, isRet := hb.Instrs[len(hb.Instrs)-1].(*ssa.Return); !isRet {
							continue
						}
						dom := false
						for _, sb := range h.Blocks {
							for _, sin := range sb.Instrs {
								if sc, ok := sin.(*ssa.Call); ok && ssaq.StaticCalleeName(sc) == "reflect.(Value).Set" && len(sc.Call.Args) > 0 && sc.Call.Args[0] == ssa.Value(hp) && (sb == hb || sb.Dominates(hb)) {
									dom = true
								}
							}
						}
						all = all && dom
					}
					if all {
						sets = append(sets, b)
					}
				}
			}
		}
	}
	key := "pogs.(*extracter).extractList | destination assigned on every success path"
	n := 0
	for _, b := range f.Blocks {
		rt, ok := b.Instrs[len(b.Instrs)-1].(*ssa.Return)
		if !ok || len(rt.Results) != 1 || !ssaq.IsNilConst(rt.Results[0]) {
			continue
		}
		n++
		dom := false
		for _, s := range sets {
			if s == b || s.Dominates(b) {
				dom = true
			}
		}
		if !dom {
			r.Violation(rule, key, q.Pos(rt.Pos()), "extractList reports success on a path that has not assigned the destination (no val.Set dominates this return): a null or empty list leaves the elements a reused destination held before, and the extracted value disagrees with the accessors")
			return
		}
	}
	if n == 0 {
		r.Fail("%s: extractList has no return of a nil error", rule)
		return
	}
	r.Ok(rule, key, q.Pos(f.Pos()), "every return of a nil error is dominated by val.Set(...)")
}
