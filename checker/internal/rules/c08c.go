package rules

import (
	"fmt"
	"go/token"
	"go/types"
	"sort"
	"strings"

	"golang.org/x/tools/go/ssa"

	"verifcheck/internal/ssaq"
)

// dispatch is a decision chain over a union discriminant (a value of a
// generated ..._Which type): the compiled form of "switch d { case A: .. case
// B: .. default: .. }" and equally of "if d == A {..return}; if d != B
// {..return}; ..". def is the block reached when d equals none of the tested
// members.
type dispatch struct {
	fn     *ssa.Function
	disc   string
	head   *ssa.BasicBlock
	consts map[string]bool
	def    *ssa.BasicBlock
}

// discTest: block b ends in a branch on "d == c" or "d != c" for a union
// discriminant d and a constant c; ne is the successor taken when d != c.
func discTest(fn *ssa.Function, b *ssa.BasicBlock) (disc, c string, ne *ssa.BasicBlock, ok bool) {
	if len(b.Instrs) == 0 {
		return
	}
	iff, isIf := b.Instrs[len(b.Instrs)-1].(*ssa.If)
	if !isIf {
		return
	}
	cmp, isBin := iff.Cond.(*ssa.BinOp)
	if !isBin || (cmp.Op != token.EQL && cmp.Op != token.NEQ) {
		return
	}
	v, k := cmp.X, cmp.Y
	if _, isConst := v.(*ssa.Const); isConst {
		v, k = k, v
	}
	kc, isConst := k.(*ssa.Const)
	if !isConst || kc.Value == nil {
		return
	}
	n, isNamed := v.Type().(*types.Named)
	if !isNamed || !strings.HasSuffix(n.Obj().Name(), "_Which") {
		return
	}
	ne = b.Succs[1]
	if cmp.Op == token.NEQ {
		ne = b.Succs[0]
	}
	return ssaq.RenderValue(fn, v), kc.Value.ExactString() + ":" + n.Obj().Name(), ne, true
}

// findDispatches lists the decision chains of fn and of the function literals
// inside it, in block order.
func findDispatches(fn *ssa.Function) []dispatch {
	var out []dispatch
	var visit func(f *ssa.Function)
	visit = func(f *ssa.Function) {
		cont := map[*ssa.BasicBlock]bool{} // blocks that continue a chain
		for _, b := range f.Blocks {
			if d, _, ne, ok := discTest(f, b); ok && len(ne.Preds) == 1 {
				if d2, _, _, ok2 := discTest(f, ne); ok2 && d2 == d {
					cont[ne] = true
				}
			}
		}
		for _, b := range f.Blocks {
			d, c, ne, ok := discTest(f, b)
			if !ok || cont[b] {
				continue
			}
			dp := dispatch{fn: f, disc: d, head: b, consts: map[string]bool{c: true}}
			for cont[ne] {
				_, c2, ne2, _ := discTest(f, ne)
				dp.consts[c2] = true
				ne = ne2
			}
			dp.def = ne
			out = append(out, dp)
		}
		for _, a := range f.AnonFuncs {
			visit(a)
		}
	}
	visit(fn)
	return out
}

// region: the blocks dominated by b.
func dominated(b *ssa.BasicBlock) []*ssa.BasicBlock {
	var out []*ssa.BasicBlock
	for _, x := range b.Parent().Blocks {
		if b == x || b.Dominates(x) {
			out = append(out, x)
		}
	}
	return out
}

// ruleDispatchDefaults is C08-R5. Every decision over a peer-controlled union
// discriminant in the listed functions sends an unknown member to code of its
// own (not to the code the known members share) that does not panic; receive's
// echoes the message as Unimplemented; and the members parseMessageTarget lets
// through all have a case in handleCall's dispatch, whose default panics.
func ruleDispatchDefaults(ctx *Ctx, rule string) {
	q := ssaq.For(ctx.Prog)
	r := ctx.Rep
	hasPanic := func(d dispatch) bool {
		for _, b := range dominated(d.def) {
			for _, in := range b.Instrs {
				if _, ok := in.(*ssa.Panic); ok {
					return true
				}
			}
		}
		return false
	}
	for _, name := range []string{"rpc.(*Conn).receive", "rpc.(*Conn).recvCap", "rpc.parseMessageTarget", "rpc.parseTransform", "rpc.(*Conn).parseReturn", "rpc.(*Conn).handleDisembargo"} {
		f := q.Func(name)
		if f == nil {
			r.Fail("%s: anchor %s not found", rule, name)
			continue
		}
		ds := findDispatches(f)
		if len(ds) == 0 {
			r.Fail("%s: no decision on a Which() discriminant in %s", rule, name)
			continue
		}
		for i, d := range ds {
			key := fmt.Sprintf("%s | dispatch switch #%d has a safe default", name, i+1)
			pos := q.Pos(ssaq.InstrPos(d.head.Instrs[len(d.head.Instrs)-1]))
			switch {
			case len(d.def.Preds) > 1:
				r.Violation(rule, key, pos, "the decision over a peer-controlled union discriminant has no default: an unknown member falls through silently into the code the known members share")
			case hasPanic(d):
				r.Violation(rule, key, pos, "the default of a decision over a peer-controlled union discriminant panics")
			case name == "rpc.(*Conn).receive":
				calls := false
				for _, b := range dominated(d.def) {
					for _, in := range b.Instrs {
						if ssaq.StaticCalleeName(in) == "rpc.(*Conn).handleUnknownMessage" {
							calls = true
						}
					}
				}
				if calls {
					r.Ok(rule, key, pos, "default reaches handleUnknownMessage (Unimplemented echo)")
				} else {
					r.Violation(rule, key, pos, "receive's default no longer echoes the message as Unimplemented")
				}
			default:
				r.Ok(rule, key, pos, "default present and does not panic")
			}
		}
	}
	// handleCall's target dispatch covers what parseMessageTarget accepts
	hc, pm := q.Func("rpc.(*Conn).handleCall"), q.Func("rpc.parseMessageTarget")
	if hc == nil || pm == nil {
		r.Fail("%s: handleCall or parseMessageTarget not found", rule)
		return
	}
	key := "handleCall | target switch covers parseMessageTarget's accepted members"
	var hd *dispatch
	for _, d := range findDispatches(hc) {
		d := d
		if hasPanic(d) {
			hd = &d
		}
	}
	pds := findDispatches(pm)
	if hd == nil {
		r.Ok(rule, key, q.Pos(hc.Pos()), "handleCall has no panicking default on the target discriminant")
	} else if len(pds) > 0 {
		var missing []string
		for k := range pds[0].consts {
			if !hd.consts[k] {
				missing = append(missing, k)
			}
		}
		sort.Strings(missing)
		pos := q.Pos(ssaq.InstrPos(hd.head.Instrs[len(hd.head.Instrs)-1]))
		if len(missing) == 0 {
			r.Ok(rule, key, pos, fmt.Sprintf("the %d members parseMessageTarget accepts all have a case; the panicking default is unreachable", len(pds[0].consts)))
		} else {
			r.Violation(rule, key, pos, "parseMessageTarget accepts target kinds that handleCall's switch sends to panic(\"unreachable\"): "+strings.Join(missing, ", "))
		}
	}
}
