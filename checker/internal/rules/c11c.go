package rules

import (
	"strings"

	"golang.org/x/tools/go/ssa"

	"verifcheck/internal/core"
	"verifcheck/internal/ssaq"
)

// ruleJoinedAlwaysClosed (C11-R6d): while Join waits (for in-flight calls of the
// joining promise, or for a parent that is itself resolving or joining) the
// promise is in the pending-join state, marked by the channel p.joined. Whoever
// waits on that channel is released only by close(p.joined). Join creates the
// channel in more than one place, so the close may depend on nothing but the
// channel being there: the conditions under which close(p.joined) runs, beyond
// those under which the join is committed (p.next = parent), mention only
// p.joined itself.
func ruleJoinedAlwaysClosed(ctx *Ctx, rule string) {
	q := ssaq.For(ctx.Prog)
	r := ctx.Rep
	f := q.Func("capnp.(*Promise).Join")
	if f == nil {
		r.Fail("%s: capnp.(*Promise).Join not found", rule)
		return
	}
	key := "Join | close(p.joined) depends only on p.joined being set"
	// the conditions under which the join is committed (p.next = parent)
	common := map[string]bool{}
	found := false
	for _, b := range frameBlocks(f) {
		for _, in := range b.Instrs {
			st, ok := in.(*ssa.Store)
			if !ok {
				continue
			}
			if fa, ok := st.Addr.(*ssa.FieldAddr); ok && ssaq.FieldVar(fa) != nil && core.FieldName(ssaq.FieldVar(fa)) == "next" {
				found = true
				for _, a := range ssaq.DomAtoms(in) {
					common[a] = true
				}
			}
		}
	}
	if !found {
		r.Violation(rule, key, q.Pos(f.Pos()), "Join no longer links the promise to its parent (p.next = parent)")
		return
	}
	n := 0
	for _, b := range frameBlocks(f) {
		for _, in := range b.Instrs {
			cc, ok := ssaq.BuiltinCall(in, "close")
			if !ok || len(cc.Args) != 1 {
				continue
			}
			fld, base := ssaq.LoadedField(cc.Args[0])
			if fld == nil || core.FieldName(fld) != "joined" {
				continue
			}
			if p, isParam := base.(*ssa.Parameter); !isParam || len(f.Params) == 0 || p != f.Params[0] {
				continue
			}
			n++
			var extra []string
			for _, a := range ssaq.DomAtoms(in) {
				if !common[a] && !strings.Contains(a, ".joined") {
					extra = append(extra, a)
				}
			}
			pos := q.Pos(ssaq.InstrPos(in))
			if len(extra) == 0 {
				r.Ok(rule, key, pos, "close(p.joined) runs whenever p.joined is set")
			} else {
				r.Violation(rule, key, pos, "close(p.joined) runs only under "+strings.Join(extra, " && ")+": when the channel was created on another path (waiting for a parent that is resolving or joining) it is never closed, and every later Client, PipelineSend, PipelineRecv or Join through this promise blocks forever")
			}
		}
	}
	if n == 0 {
		r.Violation(rule, key, q.Pos(f.Pos()), "Join never closes p.joined")
	}
}
