package rules

import (
	"fmt"

	"golang.org/x/tools/go/ssa"

	"verifcheck/internal/core"
	"verifcheck/internal/ssaq"
)

// ruleJoinMergesRows (C11-R6c): Join moves the joining promise's pipelined
// clients into the table of the promise it joins. Both may have handed out a
// client for the same path, so a row written into the target's table must
// extend the row that is already there (append(target.clients[path], ...)): an
// overwrite drops clients that are then never fulfilled nor released.
func ruleJoinMergesRows(ctx *Ctx, rule string) {
	q := ssaq.For(ctx.Prog)
	r := ctx.Rep
	f := q.Func("capnp.(*Promise).Join")
	if f == nil {
		r.Fail("%s: capnp.(*Promise).Join not found", rule)
		return
	}
	n := 0
	for _, b := range frameBlocks(f) {
		for _, in := range b.Instrs {
			mu, ok := in.(*ssa.MapUpdate)
			if !ok {
				continue
			}
			fld, base := ssaq.LoadedField(mu.Map)
			if fld == nil || core.FieldName(fld) != "clients" {
				continue
			}
			// only tables of a promise other than the receiver (the join target)
			if p, isParam := base.(*ssa.Parameter); isParam && len(f.Params) > 0 && p == f.Params[0] {
				continue
			}
			n++
			key := fmt.Sprintf("Join | row #%d written into the target's clients table extends the existing row", n)
			pos := q.Pos(ssaq.InstrPos(in))
			okAppend := false
			if call, isCall := mu.Value.(*ssa.Call); isCall {
				if bi, isB := call.Call.Value.(*ssa.Builtin); isB && bi.Name() == "append" && len(call.Call.Args) > 0 {
					if lk, isLk := call.Call.Args[0].(*ssa.Lookup); isLk {
						lf, lbase := ssaq.LoadedField(lk.X)
						if lf == fld && ssaq.AccessPath(lbase) == ssaq.AccessPath(base) && lk.Index == mu.Key {
							okAppend = true
						}
					}
				}
			}
			if okAppend {
				r.Ok(rule, key, pos, "append(target.clients[path], ...)")
			} else {
				r.Violation(rule, key, pos, "the row stored into the join target's clients table is not append(target.clients[path], ...): when both promises have handed out a pipelined client for the same path, the target's earlier clients are dropped from the table and are never fulfilled or released")
			}
		}
	}
	if n == 0 {
		r.Violation(rule, "Join | rows written into the target's clients table", q.Pos(f.Pos()), "Join no longer moves the joining promise's pipelined clients into the target's table")
	}
}
