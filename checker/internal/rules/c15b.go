package rules

import (
	"go/token"

	"golang.org/x/tools/go/ssa"

	"verifcheck/internal/core"
	"verifcheck/internal/ssaq"
)

// ruleImportNamesUnique (C15-R6): the generated file declares every import under
// its own name. imports.reserve may append a spec to the table only on a path on
// which the last lookup of that name (byName) found nothing: every control-flow
// edge into the block that appends carries "not found" of a byName result. A
// weaker condition (rename only when the other import is "used", ...) lets two
// specs share a name and the emitted import block does not compile.
func ruleImportNamesUnique(ctx *Ctx, rule string) {
	q := ssaq.For(ctx.Prog)
	r := ctx.Rep
	f := q.Func("capnpc-go.(*imports).reserve")
	if f == nil {
		r.Fail("%s: capnpc-go.(*imports).reserve not found", rule)
		return
	}
	key := "imports.reserve | a spec is appended only after byName found no import of that name"
	pos := q.Pos(f.Pos())
	founds := map[ssa.Value]bool{}
	for _, b := range frameBlocks(f) {
		for _, in := range b.Instrs {
			if c, ok := in.(*ssa.Call); ok && ssaq.StaticCalleeName(c) == "capnpc-go.(*imports).byName" && c.Referrers() != nil {
				for _, ref := range *c.Referrers() {
					if ex, isEx := ref.(*ssa.Extract); isEx && ex.Index == 1 {
						founds[ex] = true
					}
				}
			}
			// a predicate that did not exist on the reference tree and
			// returns, on every path, the "found" result of a byName lookup
			if c, ok := in.(*ssa.Call); ok {
				if g := c.Call.StaticCallee(); g != nil && ssaq.IsNew(g) && len(g.Blocks) > 0 {
					all, some := true, false
					for _, gb := range g.Blocks {
						ret, isRet := gb.Instrs[len(gb.Instrs)-1].(*ssa.Return)
						if !isRet {
							continue
						}
						ex, isEx := ret.Results[0].(*ssa.Extract)
						if len(ret.Results) != 1 || !isEx || ex.Index != 1 {
							all = false
							continue
						}
						if bc, isCall := ex.Tuple.(*ssa.Call); !isCall || ssaq.StaticCalleeName(bc) != "capnpc-go.(*imports).byName" {
							all = false
							continue
						}
						some = true
					}
					if all && some {
						founds[c] = true
					}
				}
			}
		}
	}
	var appendBlock *ssa.BasicBlock
	for _, b := range frameBlocks(f) {
		for _, in := range b.Instrs {
			c, ok := in.(*ssa.Call)
			if !ok {
				continue
			}
			if bi, isB := c.Call.Value.(*ssa.Builtin); isB && bi.Name() == "append" && len(c.Call.Args) > 0 {
				if fld, _ := ssaq.LoadedField(c.Call.Args[0]); fld != nil && core.FieldName(fld) == "specs" {
					appendBlock = b
					pos = q.Pos(ssaq.InstrPos(c))
				}
			}
		}
	}
	if appendBlock == nil || len(founds) == 0 {
		r.Violation(rule, key, pos, "reserve no longer looks the name up with byName before appending to the table")
		return
	}
	bad := 0
	for _, p := range appendBlock.Preds {
		atoms := ssaq.Atoms(ssaq.Guards(p))
		if ifi, isIf := p.Instrs[len(p.Instrs)-1].(*ssa.If); isIf {
			atoms = append(atoms, ssaq.Atoms([]ssaq.Guard{{Cond: ifi.Cond, True: p.Succs[0] == appendBlock}})...)
		}
		ok := false
		for _, at := range atoms {
			if at.Op == token.ILLEGAL && founds[at.Val] && !at.True {
				ok = true
			}
		}
		if !ok {
			bad++
		}
	}
	if bad == 0 {
		r.Ok(rule, key, pos, "every edge into the appending block carries !found of a byName lookup")
	} else {
		r.Violation(rule, key, pos, "the spec can be appended on a path on which byName found an import with the same name (the rename is skipped under a further condition): two imports share one name and the generated import block does not compile")
	}
}
