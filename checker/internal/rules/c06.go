package rules

import (
	"fmt"
	"go/ast"
	"go/token"
	"go/types"
	"strings"
	"verifcheck/internal/core"

	"golang.org/x/tools/go/ssa"

	"verifcheck/internal/flow"
	"verifcheck/internal/ssaq"
)

func init() {
	Register(&Spec{
		ID:          "C06",
		Explanation: "Decides the structural skeleton of exactly-once, arrival-order RPC delivery: (R1) the seven message handlers are called only from Conn.receive, receive only from the goroutine NewConn starts, and the calls that deliver to the application (RecvCall, PipelineRecv) are direct calls in handleCall, not behind go/defer/closures; (R2) on every path of handleCall/handleBootstrap from the insertion of the answer to a nil return exactly one of sendException / sendReturn / hand-over as Returner happens, and answer.Return sends exactly one of sendReturn/sendException; (R3) every function receiving a capnp.Recv consumes its Returner exactly once on every path; (R4) a question id is released only after finishSent is established or on the failure branch of the message that introduced the question; (R5) an answer id is inserted only after the table was tested for that id; (R6) the handlers keep the lock discipline (a leaked sender lock stops all later Returns). (R9) a base of the answer queue is marked ready only after the calls queued on it were handed over (shared with C12-R5b). (R10) every wake-up the receive loop waits for happens on every path, failure paths included (shared with C09-R8). Does NOT decide ordering across promise resolution, correctness of results or embargo semantics.",
		Run:         runC06,
	})
}

var rpcHandlers = []string{"handleBootstrap", "handleCall", "handleReturn", "handleFinish", "handleRelease", "handleDisembargo", "handleUnknownMessage"}

func runC06(ctx *Ctx) {
	ruleSingleDispatcher(ctx, "C06-R1")
	ruleAnswerDischarge(ctx, "C06-R2")
	ruleRecvLinear(ctx, "C06-R3", func(n string) bool { return strings.HasPrefix(n, "rpc.") })
	ruleQuestionIDReuse(ctx, "C06-R4")
	ruleAnswerIDValidation(ctx, "C06-R5")
	handlerScope := func(u *flow.Unit) bool {
		for _, h := range rpcHandlers {
			if strings.HasPrefix(u.Name, "rpc.(*Conn)."+h) {
				return true
			}
		}
		return strings.HasPrefix(u.Name, "rpc.(*Conn).receive") || strings.HasPrefix(u.Name, "rpc.(*answer).") || strings.HasPrefix(u.Name, "rpc.(*Conn).sendMessage")
	}
	ruleLockBalance(ctx, "C06-R6", handlerScope)
	ruleLockContracts(ctx, "C06-R6c", func(n string) bool { return strings.HasPrefix(n, "rpc.(*answer).") || n == "rpc.(*Conn).newReturn" })
	ruleMarkBeforeSend(ctx, "C06-R7")
	ruleStaleGuardedRead(ctx, "C06-R8", rpcScope)
	// calls pipelined on an unreturned answer of a local server keep their
	// order: a base of the answer queue is marked ready only after the calls
	// queued on it were handed over (shared with C12-R5b)
	ruleQueueReady(ctx, "C06-R9")
	// the single receive loop must not block for good on a wake-up that a
	// failure path forgot: every later message would go unanswered (shared
	// with C09-R8)
	ruleWakeups(ctx, "C06-R10")
	r := ctx.Rep
	r.Floor("C06-R1", 10)
	r.Floor("C06-R2", 6)
	r.Floor("C06-R3", 4)
	r.Floor("C06-R4", 6)
	r.Floor("C06-R5", 3)
	r.Floor("C06-R6", 15)
	r.Floor("C06-R7", 1)
	r.Floor("C06-R8", 3)
}

func ruleSingleDispatcher(ctx *Ctx, rule string) {
	a := lockAnalysis(ctx)
	if a == nil {
		return
	}
	r := ctx.Rep
	isHandler := map[string]bool{}
	for _, h := range rpcHandlers {
		isHandler["rpc.(*Conn)."+h] = true
		if mustUnit(ctx, a, rule, "rpc.(*Conn)."+h) == nil {
			return
		}
	}
	seenHandler := map[string]int{}
	receiveCallers := 0
	for _, u := range a.UnitsSorted() {
		for _, cs := range u.Calls {
			name := cs.Callee.Name
			switch {
			case isHandler[name]:
				seenHandler[name]++
				key := fmt.Sprintf("%s called from %s", name, u.Name)
				if u.Name == "rpc.(*Conn).receive" && cs.Kind == "call" {
					r.Ok(rule, key, ctx.Prog.Rel(cs.Call.Pos()), "direct call on the receive goroutine")
				} else {
					r.Violation(rule, key, ctx.Prog.Rel(cs.Call.Pos()), fmt.Sprintf("message handler is invoked outside the receive loop (%s in %s): messages would no longer be processed one at a time in arrival order", cs.Kind, u.Name))
				}
			case name == "rpc.(*Conn).receive":
				receiveCallers++
				key := fmt.Sprintf("rpc.(*Conn).receive called from %s", u.Name)
				if u.Kind == flow.KindGoLit && u.Parent != nil && u.Parent.Name == "rpc.NewConn" && cs.Kind == "call" {
					r.Ok(rule, key, ctx.Prog.Rel(cs.Call.Pos()), "the single receive goroutine started by NewConn")
				} else {
					r.Violation(rule, key, ctx.Prog.Rel(cs.Call.Pos()), "Conn.receive is started from somewhere other than the goroutine in NewConn: two receive loops would race on the inbound stream")
				}
			}
		}
	}
	for h := range isHandler {
		if seenHandler[h] == 0 {
			r.Violation(rule, h+" is dispatched", "rpc/rpc.go", "receive no longer calls "+h)
		}
	}
	if receiveCallers == 0 {
		r.Violation(rule, "rpc.(*Conn).receive is started", "rpc/rpc.go", "nothing starts the receive loop")
	}
	// function values of handlers must not be taken
	for _, u := range a.UnitsSorted() {
		if !rpcScope(u) {
			continue
		}
		info := u.Pkg.TypesInfo
		ast.Inspect(u.Body, func(n ast.Node) bool {
			if c, ok := n.(*ast.CallExpr); ok {
				for _, arg := range c.Args {
					if sel, ok := ast.Unparen(arg).(*ast.SelectorExpr); ok {
						if fn, ok := info.Uses[sel.Sel].(*types.Func); ok && isHandler["rpc.(*Conn)."+fn.Name()] {
							r.Violation(rule, u.Name+" | takes handler value "+fn.Name(), ctx.Prog.Rel(sel.Pos()), "a handler is passed around as a value: it can be invoked off the receive goroutine")
						}
					}
				}
			}
			return true
		})
	}
	// deliveries in handleCall are direct
	hc := mustUnit(ctx, a, rule, "rpc.(*Conn).handleCall")
	if hc == nil {
		return
	}
	info := hc.Pkg.TypesInfo
	deliveries := 0
	var inspect func(n ast.Node, ctxKind string)
	inspect = func(n ast.Node, ctxKind string) {
		ast.Inspect(n, func(m ast.Node) bool {
			switch x := m.(type) {
			case *ast.FuncLit:
				inspect(x.Body, "function literal")
				return false
			case *ast.GoStmt:
				inspect(x.Call, "go statement")
				return false
			case *ast.DeferStmt:
				inspect(x.Call, "defer statement")
				return false
			case *ast.CallExpr:
				nm := calleeName(info, x)
				if nm == "capnp.(*Client).RecvCall" || nm == "capnp.(PipelineCaller).PipelineRecv" {
					deliveries++
					key := fmt.Sprintf("handleCall | delivery #%d %s", deliveries, nm)
					if ctxKind == "" {
						r.Ok(rule, key, ctx.Prog.Rel(x.Pos()), "direct call on the receive goroutine: the next message is not read before delivery is acknowledged")
					} else {
						r.Violation(rule, key, ctx.Prog.Rel(x.Pos()), "the call is delivered inside a "+ctxKind+": later messages can overtake it (E-order is lost)")
					}
				}
			}
			return true
		})
	}
	inspect(hc.Body, "")
	if deliveries < 3 {
		r.Violation(rule, "handleCall | deliveries", ctx.Prog.Rel(hc.Pos), fmt.Sprintf("expected 3 delivery calls (import target, resolved promised answer, pipelined), found %d", deliveries))
	}
}

func ruleAnswerDischarge(ctx *Ctx, rule string) {
	a := lockAnalysis(ctx)
	if a == nil {
		return
	}
	r := ctx.Rep
	answers := mustField(ctx, rule, "rpc", "Conn", "answers")
	if answers == nil {
		return
	}
	for _, name := range []string{"rpc.(*Conn).handleCall", "rpc.(*Conn).handleBootstrap"} {
		u := mustUnit(ctx, a, rule, name)
		if u == nil {
			continue
		}
		info := u.Pkg.TypesInfo
		var ansObj types.Object
		isInsert := func(m ast.Node) bool {
			as, ok := m.(*ast.AssignStmt)
			if !ok || len(as.Lhs) != 1 {
				return false
			}
			ix, ok := ast.Unparen(as.Lhs[0]).(*ast.IndexExpr)
			if !ok || fieldOfSel(info, ix.X) != answers {
				return false
			}
			id, ok := ast.Unparen(as.Rhs[0]).(*ast.Ident)
			if !ok {
				return false // errorAnswer placeholder: already discharged by construction (flags returnSent)
			}
			ansObj = info.ObjectOf(id)
			return true
		}
		ins := u.Find(isInsert)
		if len(ins) != 1 {
			r.Fail("%s: expected exactly one 'c.answers[id] = ans' in %s, found %d", rule, name, len(ins))
			continue
		}
		isDischarge := func(m ast.Node) bool {
			switch x := m.(type) {
			case *ast.CallExpr:
				nm := calleeName(info, x)
				if nm == "rpc.(*answer).sendException" || nm == "rpc.(*answer).sendReturn" {
					if sel, ok := ast.Unparen(x.Fun).(*ast.SelectorExpr); ok {
						if id, ok := ast.Unparen(sel.X).(*ast.Ident); ok && info.ObjectOf(id) == ansObj {
							return true
						}
					}
				}
			case *ast.KeyValueExpr:
				if k, ok := x.Key.(*ast.Ident); ok && k.Name == "Returner" {
					if id, ok := ast.Unparen(x.Value).(*ast.Ident); ok && info.ObjectOf(id) == ansObj {
						return true
					}
				}
			}
			return false
		}
		isAbort := func(m ast.Node) bool {
			rs, ok := m.(*ast.ReturnStmt)
			return ok && len(rs.Results) == 1 && !isNil(rs.Results[0])
		}
		p := ins[0]
		short := strings.TrimPrefix(name, "rpc.(*Conn).")
		pathCheck(ctx, a, rule, short+" | answer discharged on every nil-return path", u, p.After(), p.B.Nodes[p.I].Pos(), isDischarge, isAbort,
			"sendException, sendReturn or the hand-over of the answer as Returner: the caller would never get a Return for this question")
		for i, d := range u.Find(isDischarge) {
			noPathCheck(ctx, a, rule, fmt.Sprintf("%s | discharge #%d is the only one on its path", short, i+1), u, d.After(), d.B.Nodes[d.I].Pos(), isDischarge, nil,
				"a second discharge of the same answer is reachable after this one: two Returns for one question",
				"no second discharge reachable")
		}
	}
	if u := mustUnit(ctx, a, rule, "rpc.(*answer).Return"); u != nil {
		info := u.Pkg.TypesInfo
		isSend := func(m ast.Node) bool {
			nm := ""
			if c, ok := m.(*ast.CallExpr); ok {
				nm = calleeName(info, c)
			}
			return nm == "rpc.(*answer).sendException" || nm == "rpc.(*answer).sendReturn"
		}
		pathCheck(ctx, a, rule, "answer.Return | sends on every path", u, u.Entry(), u.Pos, isSend, nil, "sendReturn or sendException")
		for i, d := range u.Find(isSend) {
			noPathCheck(ctx, a, rule, fmt.Sprintf("answer.Return | send #%d is the only one on its path", i+1), u, d.After(), d.B.Nodes[d.I].Pos(), isSend, nil,
				"both sendReturn and sendException can run for one answer ('Only one of sendReturn or sendException should be called')",
				"no second send reachable")
		}
	}
}

// ruleQuestionIDReuse is C06-R4.
func ruleQuestionIDReuse(ctx *Ctx, rule string) {
	q := ssaq.For(ctx.Prog)
	r := ctx.Rep
	qidF := mustField(ctx, rule, "rpc", "Conn", "questionID")
	flagsF := mustField(ctx, rule, "rpc", "question", "flags")
	if qidF == nil || flagsF == nil {
		return
	}
	fsC := constObj(ctx.Prog.Pkg("rpc"), "finishSent")
	if fsC == nil {
		r.Fail("%s: constant rpc.finishSent not found", rule)
		return
	}
	fsVal, _ := constValueInt(fsC)
	hasNewQuestion := func(f *ssa.Function) bool {
		for _, b := range f.Blocks {
			for _, in := range b.Instrs {
				if ssaq.StaticCalleeName(in) == "rpc.(*Conn).newQuestion" {
					return true
				}
			}
		}
		return false
	}
	// justify: why the id may be released at instruction in of f ("" = no reason found)
	var justify func(f *ssa.Function, in ssa.Instruction, depth int) string
	justify = func(f *ssa.Function, in ssa.Instruction, depth int) string {
		atoms := ssaq.Atoms(ssaq.Guards(in.Block()))
		// (a) dominated by flags&finishSent != 0
		for _, at := range atoms {
			if at.Op == token.NEQ {
				if bo, ok := at.X.(*ssa.BinOp); ok && bo.Op == token.AND {
					if fld, _ := ssaq.LoadedField(bo.X); fld == flagsF {
						if kk, ok := ssaq.ConstInt(bo.Y); ok && kk == fsVal {
							if z, ok := ssaq.ConstInt(at.Y); ok && z == 0 {
								return "dominated by q.flags&finishSent != 0"
							}
						}
					}
				}
			}
		}
		// (b) a dominating store flags |= finishSent
		for _, b2 := range f.Blocks {
			for _, in2 := range b2.Instrs {
				st, ok := in2.(*ssa.Store)
				if !ok {
					continue
				}
				fa2, ok := st.Addr.(*ssa.FieldAddr)
				if !ok || ssaq.FieldVar(fa2) != flagsF {
					continue
				}
				if bo, ok := st.Val.(*ssa.BinOp); ok && bo.Op == token.OR {
					if kk, ok := ssaq.ConstInt(bo.Y); ok && kk == fsVal && ssaq.DominatesInstr(st, in) {
						return "q.flags |= finishSent dominates (Finish was sent on this path)"
					}
				}
			}
		}
		// (c) failure branch of the message that introduced the question
		if hasNewQuestion(f) {
			for _, at := range atoms {
				if at.Op == token.NEQ && ssaq.IsNilConst(at.Y) && isErrorType(at.X.Type()) {
					return "failure branch (" + ssaq.AtomString(at) + ") of creating/sending the message that introduced this question: the peer never saw the id"
				}
			}
		}
		// (d) inside a helper that did not exist on the reference tree: every call site must be justified
		if obj, ok := f.Object().(*types.Func); ok && core.IsNewFunc(obj) && depth < 2 {
			edges := q.Callers(f)
			all := len(edges) > 0
			first := ""
			for _, e := range edges {
				w := ""
				if e.Site != nil {
					w = justify(e.Caller.Func, e.Site, depth+1)
				}
				if w == "" {
					all = false
				} else if first == "" {
					first = w
				}
			}
			if all {
				return fmt.Sprintf("in new helper %s; each of its %d call sites: %s", ssaq.FuncName(f), len(edges), first)
			}
		}
		return ""
	}
	n := 0
	for _, f := range q.FuncsIn("rpc") {
		k := 0
		for _, b := range f.Blocks {
			for _, in := range b.Instrs {
				if ssaq.StaticCalleeName(in) != "rpc.(*idgen).remove" {
					continue
				}
				call := in.(ssa.CallInstruction).Common()
				fa, ok := call.Args[0].(*ssa.FieldAddr)
				if !ok || ssaq.FieldVar(fa) != qidF {
					continue
				}
				n++
				k++
				key := fmt.Sprintf("%s | questionID.remove #%d", ssaq.FuncName(f), k)
				pos := q.Pos(ssaq.InstrPos(in))
				if why := justify(f, in, 0); why != "" {
					r.Ok(rule, key, pos, why)
				} else {
					r.Violation(rule, key, pos, "the question id is returned to the allocator although neither finishSent is established nor the introducing message failed: the id can be reused while the peer still holds the old question ("+ssaq.AtomsString(ssaq.Atoms(ssaq.Guards(b)))+")")
				}
			}
		}
	}
	if n == 0 {
		r.Fail("%s: no questionID.remove site found", rule)
	}
}

func isErrorType(t types.Type) bool {
	n, ok := t.(*types.Named)
	return ok && n.Obj().Pkg() == nil && n.Obj().Name() == "error"
}

func constValueInt(o types.Object) (int64, bool) {
	c, ok := o.(*types.Const)
	if !ok {
		return 0, false
	}
	s := c.Val().ExactString()
	var v int64
	_, err := fmt.Sscanf(s, "%d", &v)
	return v, err == nil
}

// ruleAnswerIDValidation is C06-R5.
func ruleAnswerIDValidation(ctx *Ctx, rule string) {
	q := ssaq.For(ctx.Prog)
	r := ctx.Rep
	answers := mustField(ctx, rule, "rpc", "Conn", "answers")
	if answers == nil {
		return
	}
	n := 0
	for _, f := range q.FuncsIn("rpc") {
		k := 0
		for _, b := range f.Blocks {
			for _, in := range b.Instrs {
				mu, ok := in.(*ssa.MapUpdate)
				if !ok {
					continue
				}
				if fld, _ := ssaq.LoadedField(mu.Map); fld != answers {
					continue
				}
				n++
				k++
				key := fmt.Sprintf("%s | c.answers[id] = ... #%d", ssaq.FuncName(f), k)
				ok2 := false
				for _, at := range ssaq.Atoms(ssaq.Guards(b)) {
					if at.Op != token.EQL {
						continue
					}
					x, y := at.X, at.Y
					if ssaq.IsNilConst(x) {
						x, y = y, x
					}
					if !ssaq.IsNilConst(y) {
						continue
					}
					if lk, isLookup := x.(*ssa.Lookup); isLookup {
						if fld, _ := ssaq.LoadedField(lk.X); fld == answers && ssaq.AccessPath(lk.Index) == ssaq.AccessPath(mu.Key) {
							ok2 = true
						}
					}
				}
				pos := q.Pos(ssaq.InstrPos(in))
				if ok2 {
					r.Ok(rule, key, pos, "dominated by c.answers[id] == nil for the same id")
				} else {
					r.Violation(rule, key, pos, "an answer is inserted without the table having been tested for that id: a reused question id would overwrite a live answer (its Return and Finish accounting are lost)")
				}
			}
		}
	}
	if n < 3 {
		r.Fail("%s: expected at least 3 insertions into Conn.answers, found %d", rule, n)
	}
}

// ruleMarkBeforeSend is C06-R7: a pipelined call records its transform in the
// target question ("Mark this transform as having been used for a call ASAP.
// q's Return could be received while q2 is being sent") before Conn.mu is
// released for the first time and before any transport operation.
func ruleMarkBeforeSend(ctx *Ctx, rule string) {
	a := lockAnalysis(ctx)
	if a == nil {
		return
	}
	u := mustUnit(ctx, a, rule, "rpc.(*question).PipelineSend")
	if u == nil {
		return
	}
	info := u.Pkg.TypesInfo
	cMu := a.Sem.ClassByName("rpc.Conn.mu")
	isMark := func(n ast.Node) bool { return isCallNamed(info, n, "rpc.(*question).mark") }
	isRelease := func(n ast.Node) bool {
		c, ok := n.(*ast.CallExpr)
		if !ok {
			return false
		}
		if isCallNamed(info, c, "rpc.(Transport).NewMessage") {
			return true
		}
		if calleeName(info, c) == "sync.(*Mutex).Unlock" && a.Sem.ClassOf(fieldOfSelRecv(info, c)) == cMu {
			// the unlock on the not-started early return does not publish anything
			return true
		}
		return false
	}
	if len(u.Find(isMark)) == 0 {
		ctx.Rep.Violation(rule, "PipelineSend | transform marked before Conn.mu is released", ctx.Prog.Rel(u.Pos), "PipelineSend no longer marks the transform as called: no embargo is set up for capabilities the pipelined call targets")
		return
	}
	// after startTask succeeded: the first release of Conn.mu / first transport op must come after mark
	var start flow.Point
	found := false
	for _, p := range u.Find(func(n ast.Node) bool { return isCallNamed(info, n, "rpc.(*Conn).startTask") }) {
		if cond, ok := p.B.Nodes[p.I].(ast.Expr); ok {
			if t, f, ok := u.BranchEdges(cond); ok {
				start = t
				if ue, isNot := ast.Unparen(cond).(*ast.UnaryExpr); isNot && ue.Op == token.NOT {
					start = f
				}
				found = true
			}
		}
	}
	if !found {
		start = u.Entry()
	}
	noPathCheck(ctx, a, rule, "PipelineSend | transform marked before Conn.mu is released", u, start, u.Pos, isRelease, isMark,
		"Conn.mu can be released (or the call message created) before the transform is marked as called: a Return for the target question handled in that window sets up no embargo, and a later call can overtake the pipelined one",
		"q.mark(transform) is passed on every path before Conn.mu is first released or a message is created")
}
