package rules

import (
	"golang.org/x/tools/go/ssa"

	"verifcheck/internal/ssaq"
)

// ruleAllocWordsZero (C13-R7): Unpack writes only the non-zero bytes of a
// tagged word and nothing at all for a run of zero words; it relies on
// allocWords handing out zeroed words. allocWords returns either a slice made
// afresh (make: zero beyond what is copied into it) or the caller's slice
// re-sliced into its spare capacity — and that spare capacity holds whatever
// the caller left there (Unpack(buf[:0], ...) on a reused buffer). On every
// return the result is one or the other, and the re-slice is dominated by a
// loop that sets every byte of p[len(p):target] to zero.
func ruleAllocWordsZero(ctx *Ctx, rule string) {
	q := ssaq.For(ctx.Prog)
	r := ctx.Rep
	f := q.Func("internal/packed.allocWords")
	if f == nil {
		r.Fail("%s: packed.allocWords not found", rule)
		return
	}
	key := "internal/packed.allocWords | words handed out are zero"
	pos := q.Pos(f.Pos())
	loops := findZeroLoops(f)
	isLenOf := func(v, x ssa.Value) bool { return isLenOfValue(v, x) }
	n := 0
	for _, b := range f.Blocks {
		rt, ok := b.Instrs[len(b.Instrs)-1].(*ssa.Return)
		if !ok || len(rt.Results) != 1 {
			continue
		}
		n++
		v := rt.Results[0]
		var high ssa.Value
		base := v
		for {
			sl, ok := base.(*ssa.Slice)
			if !ok {
				break
			}
			if sl.Low != nil {
				if k, isC := ssaq.ConstInt(sl.Low); !isC || k != 0 {
					break
				}
			}
			if high == nil {
				high = sl.High
			}
			base = sl.X
		}
		if _, fresh := base.(*ssa.MakeSlice); fresh {
			continue
		}
		covered := false
		if _, isParam := base.(*ssa.Parameter); isParam && high != nil {
			for _, zl := range loops {
				w, ok := zl.x.(*ssa.Slice)
				if !ok || !zl.full || w.X != base || w.Low == nil || !isLenOf(w.Low, base) || w.High == nil || stripConv(w.High) != stripConv(high) {
					continue
				}
				// the loop is entered on every path to this return, and left
				// only through its exit (the header dominates the return)
				if zl.head == b || zl.head.Dominates(b) {
					covered = true
				}
			}
		}
		if !covered {
			r.Violation(rule, key, q.Pos(rt.Pos()), "a return hands out "+ssaq.RenderValue(f, v)+", which is neither a slice made afresh nor the parameter re-sliced after a loop that zeroes p[len(p):target]: spare capacity of a reused destination keeps its old bytes, and Unpack leaves them where the packed stream says zero")
			return
		}
	}
	if n == 0 {
		r.Fail("%s: no return with one result found in allocWords", rule)
		return
	}
	r.Ok(rule, key, pos, "every return is a fresh make or p[:target] dominated by a zero loop over p[len(p):target]")
}
