package rules

import (
	"fmt"
	"go/token"
	"go/types"
	"strings"

	"golang.org/x/tools/go/ssa"

	"verifcheck/internal/ssaq"
)

// ruleFloatMaskUnconditional (C15-R7): the XOR mask of a float field is the bit
// pattern of its schema default. It must be taken for every default: a guard on
// the default's float VALUE (d != 0, d == 0, ...) skips negative zero, whose bit
// pattern is not zero. Every math.Float32bits/Float64bits call in defineField is
// free of dominating conditions on Float32()/Float64() of the default.
func ruleFloatMaskUnconditional(ctx *Ctx, rule string) {
	q := ssaq.For(ctx.Prog)
	r := ctx.Rep
	f := q.Func("capnpc-go.(*generator).defineField")
	if f == nil {
		r.Fail("%s: capnpc-go.(*generator).defineField not found", rule)
		return
	}
	n := 0
	for _, a := range ssaq.Anchors(f) {
		if a.Callee != "math.Float32bits" && a.Callee != "math.Float64bits" {
			continue
		}
		n++
		key := fmt.Sprintf("defineField | %s #%d: default mask taken for every default value", a.Callee, a.Ordinal)
		pos := q.Pos(ssaq.InstrPos(a.Instr))
		bad := ""
		for _, at := range a.Atoms {
			if strings.Contains(at, "Float32(") || strings.Contains(at, "Float64(") {
				bad = at
			}
		}
		if bad == "" {
			r.Ok(rule, key, pos, "no condition on the default's float value dominates the mask computation")
		} else {
			r.Violation(rule, key, pos, "the default's XOR mask is computed only under "+bad+": a default of -0.0 compares equal to zero but has a non-zero bit pattern, so its getter and setter are emitted without the mask and read/write the wrong value")
		}
	}
	if n == 0 {
		r.Violation(rule, "defineField | float default masks", q.Pos(f.Pos()), "defineField no longer computes float default masks with math.Float32bits/Float64bits")
	}
}

// ruleNoNarrowSchemaArithmetic (C15-R8): sizes and offsets taken from the schema
// (16- and 32-bit counts) are scaled to bytes or bits by the generator. The
// scaling must happen in a type that cannot wrap: no multiplication, shift or
// addition whose type is an 8- or 16-bit integer has an operand that comes from
// a schema accessor (DataWordCount()*8 in uint16 wraps at 8192 words).
func ruleNoNarrowSchemaArithmetic(ctx *Ctx, rule string) {
	q := ssaq.For(ctx.Prog)
	r := ctx.Rep
	n, bad := 0, 0
	for _, f := range q.FuncsIn("capnpc-go") {
		for _, b := range f.Blocks {
			for _, in := range b.Instrs {
				bo, ok := in.(*ssa.BinOp)
				if !ok || (bo.Op != token.MUL && bo.Op != token.SHL && bo.Op != token.ADD) {
					continue
				}
				bt, ok := bo.Type().Underlying().(*types.Basic)
				if !ok {
					continue
				}
				fromSchema := func(v ssa.Value) bool {
					c, ok := v.(*ssa.Call)
					return ok && strings.HasPrefix(ssaq.StaticCalleeName(c), "internal/schema.")
				}
				if !fromSchema(bo.X) && !fromSchema(bo.Y) {
					continue
				}
				n++
				switch bt.Kind() {
				case types.Uint8, types.Uint16, types.Int8, types.Int16:
					bad++
					r.Violation(rule, fmt.Sprintf("%s | %s in %s on a schema count", ssaq.FuncName(f), bo.Op, bt.Name()), q.Pos(ssaq.InstrPos(bo)),
						"a count taken from the schema ("+ssaq.RenderValue(f, bo)+") is scaled in a "+bt.Name()+": the result wraps for large structs (8192 data words * 8 = 0 in uint16) and the emitted size or offset disagrees with the schema")
				}
			}
		}
	}
	if bad == 0 {
		r.Ok(rule, "capnpc-go | schema counts are scaled in wide types", "capnpc-go", fmt.Sprintf("%d arithmetic operations on schema accessor results, none in an 8- or 16-bit type", n))
	}
}
