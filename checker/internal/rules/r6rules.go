package rules

import (
	"fmt"
	"go/ast"
	"go/types"
	"strings"

	"golang.org/x/tools/go/ssa"

	"verifcheck/internal/flow"
	"verifcheck/internal/locks"
	"verifcheck/internal/ssaq"
)

// Rules added after the sixth seeding round (failure, cancellation and
// second-time paths).

// unpackErrorSpecs (C13-R8): UnmarshalPacked hands the unpacked bytes to
// Unmarshal only where Unpack reported no error at all: Unpack zero-fills the
// words it has announced before it notices that the input ran out, so a
// tolerated io.ErrUnexpectedEOF turns a truncated message into a complete one
// with a zero tail.
var unpackErrorSpecs = []anchorSpec{
	{"capnp.UnmarshalPacked", "capnp.Unmarshal", 1, []string{"Unpack(nil, p0)#0"}, []string{"Unpack(nil, p0)#1 == nil"},
		"the unpacked bytes are decoded only when Unpack returned a nil error"},
}

// ruleReleaseDetachesHook (C10-R7): a released Client no longer refers to the
// hook: once Release has set c.released, every path to a return clears c.h
// (or has found it nil). A handle that keeps its hook after Release passes the
// nil tests of IsValid/startCall, reaches the hook after the last reference
// shut it down, and its finish closes the done channel a second time.
func ruleReleaseDetachesHook(ctx *Ctx, rule string) {
	a := lockAnalysis(ctx)
	if a == nil {
		return
	}
	rel := mustField(ctx, rule, "", "Client", "released")
	hf := mustField(ctx, rule, "", "Client", "h")
	if rel == nil || hf == nil {
		return
	}
	// Release itself or a function literal inside it (the locked section may be
	// written as a closure)
	total := 0
	for _, u := range a.UnitsSorted() {
		if u.Name != "capnp.(*Client).Release" && !strings.HasPrefix(u.Name, "capnp.(*Client).Release$") {
			continue
		}
		total += releaseDetachesIn(ctx, a, rule, u, rel, hf)
	}
	if total == 0 {
		ctx.Rep.Fail("%s: assignment c.released = true not found in Client.Release", rule)
	}
}

func releaseDetachesIn(ctx *Ctx, a *locks.Analysis, rule string, u *flow.Unit, rel, hf *types.Var) int {
	info := u.Pkg.TypesInfo
	isAssign := func(m ast.Node, fld interface{}, wantNil bool) bool {
		as, ok := m.(*ast.AssignStmt)
		if !ok || len(as.Lhs) != 1 || len(as.Rhs) != 1 {
			return false
		}
		if fieldOfSel(info, as.Lhs[0]) != fld {
			return false
		}
		return !wantNil || isNil(as.Rhs[0])
	}
	// after c.released = true the function tests c.h == nil once more (the
	// hook may have resolved to nothing): the obligation starts on the false
	// edge of that test; without such a test, right after the assignment
	n := 0
	for _, p := range u.Find(func(m ast.Node) bool { return isAssign(m, rel, false) }) {
		n++
		at := p.B.Nodes[p.I].Pos()
		start := p.After()
		for _, b := range u.CFG().Blocks {
			if !b.Live || len(b.Nodes) == 0 || len(b.Succs) != 2 {
				continue
			}
			cond, ok := b.Nodes[len(b.Nodes)-1].(*ast.BinaryExpr)
			if !ok || cond.Pos() < at || cond.Op.String() != "==" || fieldOfSel(info, cond.X) != hf || !isNil(cond.Y) {
				continue
			}
			if _, f, ok := u.BranchEdges(cond); ok {
				start = f
			}
		}
		key := fmt.Sprintf("capnp.(*Client).Release | c.h cleared on every path after c.released = true #%d", n)
		_ = u.Name
		res := a.Eng.ExitWithout(u, start, func(m ast.Node) bool { return isAssign(m, hf, true) }, nil)
		if res.Found {
			ctx.Rep.Violation(rule, key, ctx.Prog.Rel(at), "Release marks the handle released and can return without clearing c.h: the released handle still passes the nil tests, its calls reach a hook that the last reference may already have shut down, and their finish closes h.done again", res.Trace...)
		} else {
			ctx.Rep.Ok(rule, key, ctx.Prog.Rel(at), "every path to a return passes c.h = nil (or the test that found it nil)")
		}
	}
	return n
}

// ruleQueueSettledBeforeReturn (C11-R10, shared as C12-R8): the call goroutine
// of server.start settles the answer queue (fulfill or reject) before it calls
// Returner.Return. Return resolves the promise, and resolving waits for the
// pipelined calls in flight; a call parked on a full queue proceeds only when
// the queue is drained. Return first and drain afterwards is a cycle: the
// answer never resolves and the parked call never gets the result or the error.
func ruleQueueSettledBeforeReturn(ctx *Ctx, rule string) {
	a := lockAnalysis(ctx)
	if a == nil {
		return
	}
	n := 0
	for _, u := range a.UnitsSorted() {
		if !strings.HasPrefix(u.Name, "server.(*Server).start") {
			continue
		}
		info := u.Pkg.TypesInfo
		isReturn := func(m ast.Node) bool {
			c, ok := m.(*ast.CallExpr)
			return ok && strings.HasPrefix(dynamicCallee(info, c), "interface method capnp.(Returner).Return")
		}
		isSettle := func(m ast.Node) bool {
			return isCallNamed(info, m, "server.(*answerQueue).fulfill") || isCallNamed(info, m, "server.(*answerQueue).reject")
		}
		if len(u.Find(isReturn)) == 0 || len(a.Eng.FindThrough(u, isSettle)) == 0 {
			continue
		}
		n++
		key := u.Name + " | the answer queue is settled before Returner.Return"
		noPathCheck(ctx, a, rule, key, u, u.Entry(), u.Pos, isReturn, isSettle,
			"Returner.Return can be reached before the answer queue was fulfilled or rejected: Return resolves the promise and waits for pipelined calls in flight, a call parked on the full queue waits for the drain, and the drain starts only after Return — the answer never resolves",
			"aq.fulfill or aq.reject is passed on every path to Returner.Return")
	}
	if n == 0 {
		ctx.Rep.Fail("%s: the call goroutine of server.start (fulfill/reject and Returner.Return) was not found", rule)
	}
}

// ruleDetectedErrorNotLost: in the functions scope accepts (and in helpers that
// did not exist on the reference tree), an error that the code has detected is
// passed on:
//
//	(a) an error-typed result of a call that is compared with nil is also used
//	    for something else (returned, wrapped, stored, reported): a test
//	    "if err != nil { break }" on a variable that shadows the function's
//	    result leaves the function returning nil;
//	(b) the error built by annotate(...).errorf(...)/errorf/newError is used: an
//	    assignment to a shadowed variable is a dead store, the value has no use.
//
// Both are the shapes in which a failure of a deep copy, a comparison or a
// canonicalisation is turned into a success with a partial result.
func ruleDetectedErrorNotLost(ctx *Ctx, rule string, scope func(name string) bool, exempt map[string]string) {
	q := ssaq.For(ctx.Prog)
	r := ctx.Rep
	n := 0
	isErr := func(t types.Type) bool { return t != nil && t.String() == "error" }
	for _, f := range q.FuncsIn("", "pogs", "encoding/text") {
		name := ssaq.FuncName(f)
		if !scope(name) && !newHelperUnder(q, f, scope) {
			continue
		}
		ka, kb := 0, 0
		for _, b := range f.Blocks {
			for _, in := range b.Instrs {
				v, ok := in.(ssa.Value)
				if !ok || !isErr(v.Type()) || v.Referrers() == nil {
					continue
				}
				switch x := v.(type) {
				case *ssa.Extract:
					if _, isCall := x.Tuple.(*ssa.Call); !isCall {
						continue
					}
				case *ssa.Call:
				default:
					continue
				}
				// uses, looking through phis: a phi that is itself only compared
				// with nil is not a use
				tested, used := false, false
				seenV := map[ssa.Value]bool{}
				var scan func(x ssa.Value)
				scan = func(x ssa.Value) {
					if seenV[x] || x.Referrers() == nil {
						return
					}
					seenV[x] = true
					for _, ref := range *x.Referrers() {
						switch y := ref.(type) {
						case *ssa.DebugRef:
						case *ssa.BinOp:
							if ssaq.IsNilConst(y.X) || ssaq.IsNilConst(y.Y) {
								tested = true
							} else {
								used = true
							}
						case *ssa.Phi:
							scan(y)
						default:
							used = true
						}
					}
				}
				scan(v)
				pos := q.Pos(ssaq.InstrPos(in))
				if tested {
					ka++
					n++
					key := fmt.Sprintf("%s | tested error #%d is passed on", name, ka)
					if why, ok := exempt[fmt.Sprintf("%s | tested error #%d", name, ka)]; ok && !used {
						r.Exempt(rule, key, pos, why)
					} else if used {
						r.Ok(rule, key, pos, "the error is returned, wrapped or stored besides being tested")
					} else {
						r.Violation(rule, key, pos, "this error is compared with nil and then dropped: on the failure path the function goes on (or leaves a loop) and returns without it, so a partial result is reported as success")
					}
					continue
				}
				if c, isCall := v.(*ssa.Call); isCall && !used {
					cn := ssaq.StaticCalleeName(c)
					if strings.HasSuffix(cn, ".errorf") || strings.HasSuffix(cn, ".newError") || strings.HasSuffix(cn, "fmt.Errorf") || strings.HasSuffix(cn, "errors.New") {
						kb++
						n++
						key := fmt.Sprintf("%s | built error #%d is used", name, kb)
						r.Violation(rule, key, pos, "an error is built here and never used (assigned to a variable that shadows the function's result, or simply dropped): the function returns without it")
					}
				}
			}
		}
	}
	if n == 0 {
		r.Fail("%s: no tested error found in scope", rule)
	}
}

func copyScope(n string) bool {
	return n == "capnp.copyStruct" || n == "capnp.(*Segment).writePtr" || n == "capnp.(List).SetStruct" || n == "capnp.(Struct).CopyFrom"
}

var detectedErrorExempt = map[string]string{}

// newHelperUnder: f did not exist on the reference tree and some reference-tree
// function that scope accepts reaches it through calls of such new functions.
func newHelperUnder(q *ssaq.Q, f *ssa.Function, scope func(name string) bool) bool {
	if !ssaq.IsNew(f) {
		return false
	}
	seen := map[*ssa.Function]bool{f: true}
	stack := []*ssa.Function{f}
	for len(stack) > 0 {
		g := stack[len(stack)-1]
		stack = stack[:len(stack)-1]
		for _, e := range q.Callers(g) {
			c := e.Caller.Func
			for c.Parent() != nil {
				c = c.Parent()
			}
			if seen[c] {
				continue
			}
			seen[c] = true
			if ssaq.IsNew(c) {
				stack = append(stack, c)
				continue
			}
			if scope(ssaq.FuncName(c)) {
				return true
			}
		}
	}
	return false
}

// ruleEncoderScratchStartsEmpty (C04-R7, shared as C05-R7 and C14-R6): the
// Encoder keeps scratch slices between calls (bufs, hdrbuf, packbuf). Each
// Encode must build them from empty: in every method of Encoder, an append (or
// packed.Pack, appendUint32) onto a scratch field that continues from its
// current contents is dominated by one that starts from field[:0]. Truncating
// only after a successful write leaves the segments (or packed bytes) of a
// message whose write failed in the buffer, and the next message is framed
// around them.
func ruleEncoderScratchStartsEmpty(ctx *Ctx, rule string) {
	q := ssaq.For(ctx.Prog)
	r := ctx.Rep
	n := 0
	for _, f := range q.FuncsIn("") {
		name := ssaq.FuncName(f)
		if !strings.HasPrefix(name, "capnp.(*Encoder).") {
			continue
		}
		type site struct {
			st    *ssa.Store
			reset bool
		}
		byField := map[*types.Var][]site{}
		for _, b := range f.Blocks {
			for _, in := range b.Instrs {
				st, ok := in.(*ssa.Store)
				if !ok {
					continue
				}
				fa, ok := st.Addr.(*ssa.FieldAddr)
				if !ok {
					continue
				}
				if _, isRecv := fa.X.(*ssa.Parameter); !isRecv {
					continue
				}
				fld := ssaq.FieldVar(fa)
				if fld == nil {
					continue
				}
				if _, isSlice := fld.Type().Underlying().(*types.Slice); !isSlice {
					continue
				}
				// the value: append/Pack/appendUint32(first, ...) or a re-slice
				var first ssa.Value
				switch v := st.Val.(type) {
				case *ssa.Call:
					if len(v.Call.Args) == 0 {
						continue
					}
					cn := ssaq.StaticCalleeName(v)
					if bi, isB := v.Call.Value.(*ssa.Builtin); isB && bi.Name() == "append" {
						first = v.Call.Args[0]
					} else if cn == "internal/packed.Pack" || cn == "capnp.appendUint32" {
						first = v.Call.Args[0]
					} else {
						continue
					}
				case *ssa.Slice:
					first = v
				default:
					continue
				}
				// first is field[:0] (reset) or field (accumulate)?
				isField := func(x ssa.Value) bool { lf, _ := ssaq.LoadedField(x); return lf == fld }
				reset, acc := false, false
				if sl, ok := first.(*ssa.Slice); ok && isField(sl.X) {
					if k, isC := ssaq.ConstInt(sl.High); isC && k == 0 && sl.Low == nil {
						reset = true
					}
				} else if isField(first) {
					acc = true
				}
				if !reset && !acc {
					continue
				}
				byField[fld] = append(byField[fld], site{st, reset})
			}
		}
		for fld, sites := range byField {
			for _, s := range sites {
				if s.reset {
					continue
				}
				n++
				key := fmt.Sprintf("%s | scratch field %s continues only from an empty start", name, fld.Name())
				ok := false
				for _, t := range sites {
					if t.reset && ssaq.DominatesInstr(t.st, s.st) {
						ok = true
					}
				}
				if ok {
					r.Ok(rule, key, q.Pos(ssaq.InstrPos(s.st)), "dominated by an append onto "+fld.Name()+"[:0]")
				} else {
					r.Violation(rule, key, q.Pos(ssaq.InstrPos(s.st)), "e."+fld.Name()+" is extended from whatever it held before: after an Encode that failed (a write refused, a segment that could not be loaded) the buffer still holds that message's segments or packed bytes, and the next message is written with them inside its frame")
				}
			}
		}
	}
	if n == 0 {
		r.Fail("%s: no accumulating scratch buffer found in the methods of Encoder", rule)
	}
}
