package rules

import (
	"fmt"
	"go/token"
	"strings"

	"golang.org/x/tools/go/ssa"

	"verifcheck/internal/core"
	"verifcheck/internal/ssaq"
)

// ruleClearCapTableArg (C08-R2m): clearCapTable dereferences its message. The
// message of a received rpccp struct (Call, Return: the root of a received
// message) is never nil, but Ptr.Message() of a payload's content is nil when
// the peer sent a null content pointer. Every call of clearCapTable whose
// argument is the Message() of a capnp.Ptr must be dominated by IsValid of that
// pointer.
func ruleClearCapTableArg(ctx *Ctx, rule string) {
	q := ssaq.For(ctx.Prog)
	r := ctx.Rep
	n := 0
	for _, f := range q.FuncsIn("rpc") {
		k := 0
		for _, a := range ssaq.Anchors(f) {
			if a.Callee != "rpc.clearCapTable" || len(a.Args) != 1 {
				continue
			}
			k++
			n++
			key := fmt.Sprintf("%s | clearCapTable #%d gets a non-nil message", ssaq.FuncName(f), k)
			pos := q.Pos(ssaq.InstrPos(a.Instr))
			call := a.Instr.(ssa.CallInstruction).Common()
			arg := call.Args[0]
			mc, isCall := arg.(*ssa.Call)
			if isCall && ssaq.StaticCalleeName(mc) == "capnp.(Ptr).Message" {
				ptr := ssaq.RenderValue(mc.Parent(), mc.Call.Args[0])
				guarded := false
				for _, at := range a.Atoms {
					if at == "IsValid("+ptr+")" {
						guarded = true
					}
				}
				if !guarded {
					r.Violation(rule, key, pos, "the message is taken from the pointer "+ptr+" of a received payload, which is null when the peer sends a null content pointer: Ptr.Message() is then nil and clearCapTable dereferences it in the receive goroutine")
					continue
				}
			}
			r.Ok(rule, key, pos, "the argument is the message of a received struct (or of a pointer tested with IsValid): "+a.Args[0])
		}
	}
	if n == 0 {
		r.Fail("%s: no clearCapTable call found", rule)
	}
}

// ruleOwnEntryNotTarget (C08-R4s): handleCall inserts the answer it is creating
// into c.answers before it resolves the call's target. An entry looked up in
// that table afterwards may be this very answer (the peer chooses both ids); its
// pipeline caller is not set yet. The pipelined dispatch (an invoke on the
// looked-up entry's pcall) must be dominated by "the entry is not the answer
// created here".
func ruleOwnEntryNotTarget(ctx *Ctx, rule string) {
	q := ssaq.For(ctx.Prog)
	r := ctx.Rep
	f := q.Func("rpc.(*Conn).handleCall")
	if f == nil {
		r.Fail("%s: rpc.(*Conn).handleCall not found", rule)
		return
	}
	// the value stored into c.answers
	var own ssa.Value
	for _, b := range frameBlocks(f) {
		for _, in := range b.Instrs {
			if mu, ok := in.(*ssa.MapUpdate); ok {
				if fld, _ := ssaq.LoadedField(mu.Map); fld != nil && core.FieldName(fld) == "answers" {
					own = mu.Value
				}
			}
		}
	}
	key := "handleCall | the pipelined target is not the answer being created"
	if own == nil {
		r.Ok(rule, key, q.Pos(f.Pos()), "handleCall no longer inserts its answer before resolving the target")
		return
	}
	n, bad := 0, 0
	pos := q.Pos(f.Pos())
	for _, b := range frameBlocks(f) {
		for _, in := range b.Instrs {
			ci, ok := in.(ssa.CallInstruction)
			if !ok || !ci.Common().IsInvoke() {
				continue
			}
			// receiver: load of field pcall of a value looked up in c.answers
			fld, base := ssaq.LoadedField(ssaq.ResolveLocal(ci.Common().Value))
			if fld == nil || core.FieldName(fld) != "pcall" {
				continue
			}
			lk, isLk := base.(*ssa.Lookup)
			if !isLk {
				if ex, isEx := base.(*ssa.Extract); isEx {
					lk, isLk = ex.Tuple.(*ssa.Lookup)
				}
			}
			if !isLk {
				continue
			}
			if mf, _ := ssaq.LoadedField(lk.X); mf == nil || core.FieldName(mf) != "answers" {
				continue
			}
			n++
			okNE := false
			for _, at := range ssaq.Atoms(ssaq.Guards(b)) {
				if at.Op == token.NEQ && ((at.X == base && at.Y == own) || (at.Y == base && at.X == own)) {
					okNE = true
				}
			}
			if !okNE {
				bad++
				pos = q.Pos(ssaq.InstrPos(in))
			}
		}
	}
	switch {
	case n == 0:
		r.Violation(rule, key, pos, "no pipelined dispatch through the pcall of an entry of c.answers found in handleCall")
	case bad > 0:
		r.Violation(rule, key, pos, "the pipeline caller of an answer looked up in c.answers is invoked without the entry having been compared with the answer this handler just inserted ("+strings.TrimSpace(ssaq.RenderValue(f, own))+"): a Call whose promisedAnswer target is its own question id invokes a nil pipeline caller and crashes the receive loop")
	default:
		r.Ok(rule, key, pos, "dominated by target entry != the answer created by this call")
	}
}

// ruleSendReturnErrorOnlyAfterFinish (C08-R7b): handleBootstrap panics if
// answer.sendReturn returns an error, on the stated ground that a Bootstrap
// answer cannot have seen its Finish yet. That ground holds only while
// sendReturn returns a possibly non-nil error exclusively on paths where
// finishReceived is established (the error of destroy()). Any other error return
// (a transport failure passed up, ...) turns a peer- or network-triggered event
// into a process crash.
func ruleSendReturnErrorOnlyAfterFinish(ctx *Ctx, rule string) {
	q := ssaq.For(ctx.Prog)
	r := ctx.Rep
	f := q.Func("rpc.(*answer).sendReturn")
	if f == nil {
		r.Fail("%s: rpc.(*answer).sendReturn not found", rule)
		return
	}
	fin := constObj(ctx.Prog.Pkg("rpc"), "finishReceived")
	if fin == nil {
		r.Fail("%s: constant rpc.finishReceived not found", rule)
		return
	}
	fv, _ := constValueInt(fin)
	want := fmt.Sprintf("(%d:rpc.answerFlags & p0.flags) != 0:rpc.answerFlags", fv)
	n := 0
	for _, b := range frameBlocks(f) {
		ret, ok := b.Instrs[len(b.Instrs)-1].(*ssa.Return)
		if !ok || len(ret.Results) != 2 || ssaq.IsNilConst(ret.Results[1]) {
			continue
		}
		n++
		key := fmt.Sprintf("answer.sendReturn | error return #%d only after a Finish was received", n)
		pos := q.Pos(ssaq.InstrPos(ret))
		ok2 := false
		for _, at := range ssaq.DomAtoms(ret) {
			if at == want {
				ok2 = true
			}
		}
		if ok2 {
			r.Ok(rule, key, pos, "dominated by "+want)
		} else {
			r.Violation(rule, key, pos, "sendReturn can return an error on a path where finishReceived is not established: handleBootstrap panics on any error from sendReturn (\"Answer cannot possibly encounter a Finish\"), so a failed send of a Bootstrap's Return kills the process")
		}
	}
	if n == 0 {
		r.Ok(rule, "answer.sendReturn | error returns", q.Pos(f.Pos()), "sendReturn never returns a non-nil error")
	}
}
