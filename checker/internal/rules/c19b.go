package rules

import (
	"fmt"

	"golang.org/x/tools/go/ssa"

	"verifcheck/internal/core"
	"verifcheck/internal/ssaq"
)

// ruleEmbedQueueFIFO (C19-R6): embedded Go structs are mapped breadth-first so
// that, as documented, the least nested field wins when two fields carry the
// same schema name: visitField relies on shallower levels having been seen
// first. The work list structMap.embedQueue is therefore consumed from the
// front (element 0) and extended at the end (append).
func ruleEmbedQueueFIFO(ctx *Ctx, rule string) {
	q := ssaq.For(ctx.Prog)
	r := ctx.Rep
	n := 0
	for _, f := range q.FuncsIn("pogs") {
		k := 0
		for _, b := range f.Blocks {
			for _, in := range b.Instrs {
				var base, idx ssa.Value
				switch x := in.(type) {
				case *ssa.IndexAddr:
					base, idx = x.X, x.Index
				case *ssa.Index:
					base, idx = x.X, x.Index
				default:
					continue
				}
				fld, _ := ssaq.LoadedField(base)
				if fld == nil || core.FieldName(fld) != "embedQueue" {
					continue
				}
				k++
				n++
				key := fmt.Sprintf("%s | embedQueue element read #%d takes the front", ssaq.FuncName(f), k)
				pos := q.Pos(ssaq.InstrPos(in))
				if c, ok := ssaq.ConstInt(idx); ok && c == 0 {
					r.Ok(rule, key, pos, "embedQueue[0]: first in, first out (breadth-first over embedding levels)")
				} else {
					r.Violation(rule, key, pos, "the next embedded struct is taken from position "+ssaq.RenderValue(f, idx)+" of the work list, not from its front: embedding levels are no longer visited breadth-first, so a more deeply nested field can be recorded before a shallower one with the same schema name and the shallower (documented winner) is left unmapped")
				}
			}
		}
	}
	if n == 0 {
		r.Violation(rule, "pogs | embedQueue is consumed from the front", "pogs/fields.go", "no read of an element of structMap.embedQueue found")
	}
}
