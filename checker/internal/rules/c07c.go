package rules

import (
	"fmt"
	"go/ast"
	"go/types"
)

// ruleReleaseFuncOfSameQuestion (C07-R9): a call made through an import or a
// promised answer returns the answer of a new question together with the
// function that releases it. That function clears the Return message of *that*
// question — and with it the capability table whose entries hold the local
// references to imports received in the results; only when the last of them is
// dropped is the Release message sent. In every return (A, R) of package rpc
// where A is X.p.Answer() for a question X and R releases a question Y
// (a literal that calls Y.release(), or a method of Y that returns such a
// literal), X and Y are the same variable.
func ruleReleaseFuncOfSameQuestion(ctx *Ctx, rule string) {
	r := ctx.Rep
	pk := ctx.Prog.Pkg("rpc")
	if pk == nil {
		r.Fail("%s: package rpc not loaded", rule)
		return
	}
	info := pk.TypesInfo
	isQuestion := func(t types.Type) bool {
		if p, ok := t.(*types.Pointer); ok {
			t = p.Elem()
		}
		n, ok := t.(*types.Named)
		return ok && n.Obj().Name() == "question" && n.Obj().Pkg() == pk.Types
	}
	// bodies of the methods of question, to look through releaseFunc-style helpers
	methodBody := map[*types.Func]*ast.FuncDecl{}
	for _, file := range pk.Syntax {
		for _, d := range file.Decls {
			if fd, ok := d.(*ast.FuncDecl); ok && fd.Body != nil {
				if fn, ok := info.Defs[fd.Name].(*types.Func); ok {
					methodBody[fn] = fd
				}
			}
		}
	}
	n := 0
	for _, file := range pk.Syntax {
		for _, d := range file.Decls {
			fd, ok := d.(*ast.FuncDecl)
			if !ok || fd.Body == nil {
				continue
			}
			// single assignments of locals: name -> right-hand side
			def := map[types.Object]ast.Expr{}
			ast.Inspect(fd.Body, func(x ast.Node) bool {
				as, ok := x.(*ast.AssignStmt)
				if !ok || len(as.Lhs) != len(as.Rhs) {
					return true
				}
				for i, l := range as.Lhs {
					if id, ok := l.(*ast.Ident); ok {
						if o := info.Defs[id]; o != nil {
							def[o] = as.Rhs[i]
						}
					}
				}
				return true
			})
			var questionOfAnswer, questionOfRelease func(e ast.Expr, depth int) types.Object
			questionOfAnswer = func(e ast.Expr, depth int) types.Object {
				e = ast.Unparen(e)
				if depth > 3 {
					return nil
				}
				switch e := e.(type) {
				case *ast.Ident:
					if rhs, ok := def[info.Uses[e]]; ok {
						return questionOfAnswer(rhs, depth+1)
					}
				case *ast.CallExpr:
					sel, ok := ast.Unparen(e.Fun).(*ast.SelectorExpr)
					if !ok || sel.Sel.Name != "Answer" {
						return nil
					}
					psel, ok := ast.Unparen(sel.X).(*ast.SelectorExpr)
					if !ok {
						return nil
					}
					if id, ok := ast.Unparen(psel.X).(*ast.Ident); ok && isQuestion(info.TypeOf(id)) {
						return info.Uses[id]
					}
				}
				return nil
			}
			releasedIn := func(body ast.Node) types.Object {
				var out types.Object
				ast.Inspect(body, func(x ast.Node) bool {
					c, ok := x.(*ast.CallExpr)
					if !ok {
						return true
					}
					sel, ok := ast.Unparen(c.Fun).(*ast.SelectorExpr)
					if !ok || sel.Sel.Name != "release" {
						return true
					}
					if id, ok := ast.Unparen(sel.X).(*ast.Ident); ok && isQuestion(info.TypeOf(id)) {
						out = info.Uses[id]
					}
					return true
				})
				return out
			}
			questionOfRelease = func(e ast.Expr, depth int) types.Object {
				e = ast.Unparen(e)
				if depth > 3 {
					return nil
				}
				switch e := e.(type) {
				case *ast.Ident:
					if rhs, ok := def[info.Uses[e]]; ok {
						return questionOfRelease(rhs, depth+1)
					}
				case *ast.FuncLit:
					return releasedIn(e.Body)
				case *ast.CallExpr:
					// Y.helper() where helper is a method of question returning a
					// literal that releases its receiver
					sel, ok := ast.Unparen(e.Fun).(*ast.SelectorExpr)
					if !ok {
						return nil
					}
					id, ok := ast.Unparen(sel.X).(*ast.Ident)
					if !ok || !isQuestion(info.TypeOf(id)) {
						return nil
					}
					fn, _ := info.Uses[sel.Sel].(*types.Func)
					hd := methodBody[fn]
					if hd == nil || hd.Recv == nil || len(hd.Recv.List) != 1 || len(hd.Recv.List[0].Names) != 1 {
						return nil
					}
					recv := info.Defs[hd.Recv.List[0].Names[0]]
					releasesRecv := false
					ast.Inspect(hd.Body, func(x ast.Node) bool {
						if lit, ok := x.(*ast.FuncLit); ok && releasedIn(lit.Body) == recv && recv != nil {
							releasesRecv = true
						}
						return true
					})
					if releasesRecv {
						return info.Uses[id]
					}
				}
				return nil
			}
			k := 0
			ast.Inspect(fd.Body, func(x ast.Node) bool {
				rt, ok := x.(*ast.ReturnStmt)
				if !ok || len(rt.Results) != 2 {
					return true
				}
				qa, qr := questionOfAnswer(rt.Results[0], 0), questionOfRelease(rt.Results[1], 0)
				if qa == nil || qr == nil {
					return true
				}
				n++
				k++
				key := fmt.Sprintf("rpc.%s | return #%d: the release function releases the question whose answer is returned", fd.Name.Name, k)
				pos := ctx.Prog.Rel(rt.Pos())
				if qa == qr {
					r.Ok(rule, key, pos, "both are "+qa.Name())
				} else {
					r.Violation(rule, key, pos, "the answer returned is that of question "+qa.Name()+", the release function releases question "+qr.Name()+": the Return message of "+qa.Name()+" and its capability table are never cleared, so imports received in its results keep their local reference and no Release is ever sent for them (and "+qr.Name()+" loses its result capabilities early)")
				}
				return true
			})
		}
	}
	if n < 2 {
		r.Fail("%s: expected the returns of importClient.Send and question.PipelineSend that pair an answer with its release function, found %d", rule, n)
	}
}
