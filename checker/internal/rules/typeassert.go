package rules

import (
	"fmt"
	"go/token"
	"go/types"

	"golang.org/x/tools/go/ssa"

	"verifcheck/internal/ssaq"
)

// ruleAssertedPointerUse: the pointer obtained from `v, ok := x.(*T)` is nil
// when ok is false. Every dereference of v (field access, method call with v as
// receiver) must be dominated by ok being true (or by v != nil).
func ruleAssertedPointerUse(ctx *Ctx, rule string, pkgs ...string) {
	q := ssaq.For(ctx.Prog)
	r := ctx.Rep
	n := 0
	for _, f := range q.FuncsIn(pkgs...) {
		k := 0
		for _, b := range f.Blocks {
			for _, in := range b.Instrs {
				ta, ok := in.(*ssa.TypeAssert)
				if !ok || !ta.CommaOk {
					continue
				}
				if _, isPtr := ta.AssertedType.Underlying().(*types.Pointer); !isPtr {
					continue
				}
				var v, okv ssa.Value
				for _, ref := range *ta.Referrers() {
					if ex, isEx := ref.(*ssa.Extract); isEx {
						if ex.Index == 0 {
							v = ex
						} else {
							okv = ex
						}
					}
				}
				if v == nil || v.Referrers() == nil {
					continue
				}
				// the dereferences of v: direct ones, those of loads of a local the
				// value is spilled to (a variable captured by a closure), and, for a
				// closure that captures that local, the closure's creation (its body
				// dereferences the variable whenever it runs)
				type use struct{ at ssa.Instruction }
				var uses []ssa.Instruction
				isDeref := func(val ssa.Value, ref ssa.Instruction) bool {
					switch x := ref.(type) {
					case *ssa.FieldAddr:
						return x.X == val
					case *ssa.UnOp:
						return x.Op == token.MUL && x.X == val
					}
					return false
				}
				for _, ref := range *v.Referrers() {
					if isDeref(v, ref) {
						uses = append(uses, ref)
					}
					st, isStore := ref.(*ssa.Store)
					if !isStore || st.Val != v {
						continue
					}
					cell, isAlloc := st.Addr.(*ssa.Alloc)
					if !isAlloc {
						continue
					}
					for _, cref := range *cell.Referrers() {
						switch x := cref.(type) {
						case *ssa.UnOp:
							if x.Op == token.MUL && x.Referrers() != nil {
								for _, r2 := range *x.Referrers() {
									if isDeref(x, r2) {
										uses = append(uses, r2)
									}
								}
							}
						case *ssa.MakeClosure:
							fn, _ := x.Fn.(*ssa.Function)
							for bi, bnd := range x.Bindings {
								if bnd != ssa.Value(cell) || fn == nil || bi >= len(fn.FreeVars) {
									continue
								}
								fv := fn.FreeVars[bi]
								derefs := false
								for _, fr := range *fv.Referrers() {
									if ld, isLd := fr.(*ssa.UnOp); isLd && ld.Op == token.MUL && ld.Referrers() != nil {
										for _, r3 := range *ld.Referrers() {
											if isDeref(ld, r3) {
												derefs = true
											}
										}
									}
								}
								if derefs {
									uses = append(uses, x)
								}
							}
						}
					}
				}
				_ = use{}
				for _, ref := range uses {
					k++
					n++
					key := fmt.Sprintf("%s | %s asserted pointer dereference #%d", ssaq.FuncName(f), types.TypeString(ta.AssertedType, func(*types.Package) string { return "" }), k)
					pos := q.Pos(ssaq.InstrPos(ref))
					guarded := false
					for _, at := range ssaq.Atoms(ssaq.Guards(ref.Block())) {
						if at.Op == token.ILLEGAL && at.Val == okv && okv != nil && at.True {
							guarded = true
						}
						if at.Op == token.NEQ && ((at.X == v && ssaq.IsNilConst(at.Y)) || (at.Y == v && ssaq.IsNilConst(at.X))) {
							guarded = true
						}
					}
					if guarded {
						r.Ok(rule, key, pos, "dominated by the assertion's ok result (or a nil test)")
					} else {
						r.Violation(rule, key, pos, "the pointer produced by a comma-ok type assertion is dereferenced on a path where the assertion may have failed (ok not established): a capability or target of another kind, which the peer chooses, makes it nil and the dereference panics in the connection's goroutine")
					}
				}
			}
		}
	}
	if n == 0 {
		r.Fail("%s: no dereference of a comma-ok asserted pointer found", rule)
	}
}
