package rules

import (
	"go/token"

	"golang.org/x/tools/go/ssa"

	"verifcheck/internal/ssaq"
)

// ruleFullScan: fn(b []byte) bool answers true only after a byte-granular scan
// of the whole slice: the `return true` is dominated by the exit test
// i >= len(b) of a loop whose counter starts at the first element and advances
// by one, and inside that loop b[i] is compared with zero.
func ruleFullScan(ctx *Ctx, rule, fn string) {
	q := ssaq.For(ctx.Prog)
	r := ctx.Rep
	f := q.Func(fn)
	if f == nil {
		r.Fail("%s: %s not found", rule, fn)
		return
	}
	key := fn + " | true only after every byte was compared with zero"
	pos := q.Pos(f.Pos())
	if len(f.Params) != 1 {
		r.Violation(rule, key, pos, "unexpected signature")
		return
	}
	p0 := f.Params[0]
	isLenP0 := func(v ssa.Value) bool {
		c, ok := v.(*ssa.Call)
		if !ok {
			return false
		}
		b, ok := c.Call.Value.(*ssa.Builtin)
		return ok && b.Name() == "len" && len(c.Call.Args) == 1 && c.Call.Args[0] == ssa.Value(p0)
	}
	// unitCounter: v is a counter that visits 0,1,2,...: either phi(0, phi+1) or (phi(-1, phi+1))+1
	unitCounter := func(v ssa.Value) bool {
		isStep := func(e ssa.Value, phi *ssa.Phi) bool {
			bo, ok := e.(*ssa.BinOp)
			if !ok || bo.Op != token.ADD {
				return false
			}
			k, okc := ssaq.ConstInt(bo.Y)
			return bo.X == ssa.Value(phi) && okc && k == 1
		}
		if phi, ok := v.(*ssa.Phi); ok && len(phi.Edges) == 2 {
			for i := 0; i < 2; i++ {
				if k, okc := ssaq.ConstInt(phi.Edges[i]); okc && k == 0 && isStep(phi.Edges[1-i], phi) {
					return true
				}
			}
		}
		if bo, ok := v.(*ssa.BinOp); ok && bo.Op == token.ADD {
			if phi, ok := bo.X.(*ssa.Phi); ok && len(phi.Edges) == 2 {
				if k, okc := ssaq.ConstInt(bo.Y); okc && k == 1 {
					for i := 0; i < 2; i++ {
						if k0, okc := ssaq.ConstInt(phi.Edges[i]); okc && k0 == -1 && phi.Edges[1-i] == ssa.Value(bo) {
							return true
						}
					}
				}
			}
		}
		return false
	}
	nTrue, nOK := 0, 0
	for _, b := range f.Blocks {
		ret, ok := b.Instrs[len(b.Instrs)-1].(*ssa.Return)
		if !ok || len(ret.Results) != 1 {
			continue
		}
		if c, ok := ret.Results[0].(*ssa.Const); !ok || c.Value == nil || c.Value.String() != "true" {
			if _, isConst := ret.Results[0].(*ssa.Const); !isConst {
				nTrue++ // a computed result: not recognised
			}
			continue
		}
		nTrue++
		var counter ssa.Value
		for _, at := range ssaq.Atoms(ssaq.Guards(b)) {
			switch {
			case at.Op == token.GEQ && isLenP0(at.Y) && unitCounter(at.X):
				counter = at.X
			case at.Op == token.LEQ && isLenP0(at.X) && unitCounter(at.Y):
				counter = at.Y
			}
		}
		if counter == nil {
			continue
		}
		// b[counter] is compared with zero somewhere
		cmp := false
		for _, b2 := range f.Blocks {
			for _, in := range b2.Instrs {
				ia, ok := in.(*ssa.IndexAddr)
				if !ok || ia.X != ssa.Value(p0) || ia.Index != counter {
					continue
				}
				for _, ref := range *ia.Referrers() {
					ld, ok := ref.(*ssa.UnOp)
					if !ok || ld.Op != token.MUL {
						continue
					}
					for _, r2 := range *ld.Referrers() {
						if bo, ok := r2.(*ssa.BinOp); ok && (bo.Op == token.NEQ || bo.Op == token.EQL) {
							if k, okc := ssaq.ConstInt(bo.Y); okc && k == 0 {
								cmp = true
							}
						}
					}
				}
			}
		}
		if cmp {
			nOK++
		}
	}
	if nTrue > 0 && nTrue == nOK {
		r.Ok(rule, key, pos, "the only `return true` follows the exit of a loop i = 0,1,2,... < len(b) in which b[i] is compared with 0")
	} else {
		r.Violation(rule, key, pos, "a `true` result is not preceded by the exit test i >= len(b) of a loop that advances one byte at a time from the first byte and compares b[i] with zero: bytes can be skipped (trailing bytes of a section that is not a whole number of the stride), and Equal treats a non-zero tail as zero extension")
	}
}
