package rules

import (
	"fmt"
	"go/token"
	"go/types"
	"regexp"
	"sort"
	"strconv"
	"strings"
	"verifcheck/internal/core"

	"golang.org/x/tools/go/ssa"

	"verifcheck/internal/ssaq"
)

func init() {
	Register(&Spec{
		ID:           "C01",
		Explanation:  "Decides a discipline-based necessary condition of memory safety of the read path, exhaustively over sites: (R1) Segment.data is indexed or sliced only inside the small kernel (slice, alloc, the two list-copy sites) and replaced only by alloc/setSegment; (R2) calls of the ...Unchecked arithmetic helpers occur only at the listed justified sites; (R3) the ok/err companion of every checked helper (addSize, element, times, resolve, totalListSize, dataAddress, primitiveElem, regionInBounds, lookupSegment, Message.Segment, canRead ...) reaches a branch that dominates every use of the paired value, blank-ignored only at listed sites; (R4) every call of a raw segment accessor (slice, read/writeUintN, read/writeRawPointer) has an address whose provenance is one of the enumerated justified forms (dominating regionInBounds on the same segment with constant offset+width inside the region, dataAddress/primitiveElem with the companion tested and the width within the requested size, pointerAddress under i < PointerCount, bit offset under bitInData, an object's own off/size pair, a fresh allocation, or a pointer-slot parameter whose callers are then obliged); (R5) Struct/List/Ptr values with a segment are constructed only in the listed functions, and the three readers construct them under a dominating regionInBounds on the constructed offset; (R6) the arithmetic and bounds kernel has the normal form recorded when the lemma was confirmed; (R7) the explicit panics reachable from the read API are the enumerated programmer-error ones. (R5u) the element address of a list read with another element size: every feasible success path of primitiveElem for a composite list carries both size comparisons (shared with C03-R3). (R7o) address.addOffset only ever receives a schema field offset handed in by the caller, never a value computed from a list index; (R8) a constant-index call of a panicking element accessor inside the library is dominated by a length test of that list. (R9) every recursive reader of the deep-copy and traversal code passes on the depth limit of the object it reads (shared with C02-R6). (R10) the segment a reusing Decoder hands out is x[:len(x):len(x)] of the very slice the dominating io.ReadFull filled (segment bounds are the bytes read for this message, not the high-water mark of the buffer). Does NOT decide numeric correctness of extents beyond these guards, panics inside the standard library, memory growth or blocking readers.",
		ExtraConfigs: true,
		Run:          runC01,
	})
}

func runC01(ctx *Ctx) {
	ruleDataConfinement(ctx, "C01-R1")
	ruleUncheckedSites(ctx, "C01-R2")
	ruleCheckedResults(ctx, "C01-R3")
	ruleGuardedAccess(ctx, "C01-R4")
	ruleConstructionSites(ctx, "C01-R5")
	// the element address of a list read with another element size stays inside
	// the element: shared with C03-R3 (same obligations under this property's id)
	ruleUpgradeAddress(ctx, "C01-R5u")
	ruleElementIndexBounded(ctx, "C01-R8", "", "pogs", "encoding/text", "rpc", "server")
	ruleSchemaOffsetsOnly(ctx, "C01-R7o")
	// a deep copy out of a hostile message recurses on the source's depth limit
	// (shared with C02-R6 under this property's id)
	ruleReadPtrCallers(ctx, "C01-R9")
	ruleReuseArenaIsTheBufferRead(ctx, "C01-R10")
	if ctx.Primary {
		ruleKernelLemmas(ctx, "C01-R6", kernelLemmaFuncs)
	}
	rulePanicCensus(ctx, "C01-R7", readAPIRoots, capnpPanicTable, func(name string) bool {
		return strings.HasPrefix(name, "capnp.") || strings.HasPrefix(name, "internal/packed.")
	})
	r := ctx.Rep
	r.Floor("C01-R1", 8)
	r.Floor("C01-R2", 5)
	r.Floor("C01-R3", 40)
	r.Floor("C01-R4", 60)
	r.Floor("C01-R5", 20)
	if ctx.Primary {
		r.Floor("C01-R6", 30)
	}
	r.Floor("C01-R7", 15)
	r.Assumption("Struct, List and Ptr values carry the invariant 'off..off+size lies inside seg.data' established where they are constructed (R5); accesses through an object's own off/size rely on it")
}

// ---------------------------------------------------------------------------
// R1

var dataIndexers = map[string]string{
	"capnp.(*Segment).slice":    "the single choke point for byte access",
	"capnp.alloc":               "extends the segment inside its capacity and zero-fills the new region",
	"capnp.(*Segment).writePtr": "bulk copy of a validated data-only list into a fresh allocation",
	"capnp.canonicalList":       "bulk copy of a validated data-only list into a fresh allocation",
}
var dataWriters = map[string]string{
	"capnp.alloc":                 "grows the segment",
	"capnp.(*Message).setSegment": "installs arena data",
	"capnp.(*Message).Reset":      "clears the first segment",
}

func ruleDataConfinement(ctx *Ctx, rule string) {
	q := ssaq.For(ctx.Prog)
	r := ctx.Rep
	dataF := mustField(ctx, rule, "", "Segment", "data")
	if dataF == nil {
		return
	}
	for _, f := range q.FuncsIn("") {
		name := ssaq.FuncName(f)
		k := 0
		for _, b := range f.Blocks {
			for _, in := range b.Instrs {
				var base ssa.Value
				kind := ""
				switch x := in.(type) {
				case *ssa.Slice:
					base, kind = x.X, "slices"
				case *ssa.IndexAddr:
					base, kind = x.X, "indexes"
				case *ssa.Index:
					base, kind = x.X, "indexes"
				case *ssa.Store:
					if fa, ok := x.Addr.(*ssa.FieldAddr); ok && ssaq.FieldVar(fa) == dataF {
						k++
						key := fmt.Sprintf("%s | writes Segment.data #%d", name, k)
						if why, ok := dataWriters[name]; ok {
							r.Ok(rule, key, q.Pos(ssaq.InstrPos(in)), why)
						} else {
							r.Violation(rule, key, q.Pos(ssaq.InstrPos(in)), "Segment.data is replaced outside alloc/setSegment/Reset: objects already handed out keep offsets into the old bounds")
						}
					}
					continue
				default:
					continue
				}
				if fld, _ := ssaq.LoadedField(base); fld != dataF {
					continue
				}
				k++
				key := fmt.Sprintf("%s | %s Segment.data #%d", name, kind, k)
				if why, ok := dataIndexers[name]; ok {
					r.Ok(rule, key, q.Pos(ssaq.InstrPos(in)), why)
				} else {
					r.Violation(rule, key, q.Pos(ssaq.InstrPos(in)), "segment bytes are accessed directly instead of through Segment.slice and its bounds discipline")
				}
			}
		}
	}
}

// ---------------------------------------------------------------------------
// R2

var uncheckedSites = map[string]string{
	"capnp.(*Segment).slice | addSizeUnchecked":         "slice is the choke point; its callers are judged by R4",
	"capnp.(*Segment).writePtr | addSizeUnchecked":      "second word of a 16-byte landing pad just allocated",
	"capnp.NewCompositeList | addSizeUnchecked":         "first element of a freshly allocated wordSize+total region",
	"capnp.(BitList).At | addSizeUnchecked":             "byte i/8 of a bit list for an index already tested against its length (< 2^29): below the list's validated extent",
	"capnp.(BitList).Set | addSizeUnchecked":            "byte i/8 of a bit list for an index already tested against its length (< 2^29): below the list's validated extent",
	"capnp.newPrimitiveList | timesUnchecked":           "sz in [0,8], n in [0,1<<29) checked just above",
	"capnp.(rawPointer).structSize | timesUnchecked":    "wordSize * uint16 cannot overflow",
	"capnp.(rawPointer).totalListSize | timesUnchecked": "element size <= 8 and count < 1<<29",
}

func allListed(owners []string, short string) bool {
	for _, o := range owners {
		if _, ok := uncheckedSites[o+" | "+short]; !ok {
			return false
		}
	}
	return len(owners) > 0
}

func ruleUncheckedSites(ctx *Ctx, rule string) {
	q := ssaq.For(ctx.Prog)
	r := ctx.Rep
	for _, f := range q.FuncsIn("") {
		name := ssaq.FuncName(f)
		k := map[string]int{}
		for _, b := range f.Blocks {
			for _, in := range b.Instrs {
				cn := ssaq.StaticCalleeName(in)
				if !strings.HasSuffix(cn, "Unchecked") {
					continue
				}
				short := cn[strings.LastIndex(cn, ".")+1:]
				k[short]++
				key := fmt.Sprintf("%s | %s", name, short)
				full := key
				if k[short] > 1 {
					full = fmt.Sprintf("%s #%d", key, k[short])
				}
				if why, ok := uncheckedSites[key]; ok {
					r.Ok(rule, full, q.Pos(ssaq.InstrPos(in)), "listed justified site: "+why)
				} else if owners, ok := q.Attributed(f); ok && ssaq.IsNew(f) && allListed(owners, short) {
					r.Ok(rule, full, q.Pos(ssaq.InstrPos(in)), "listed justified site of "+strings.Join(owners, ", ")+", moved into a helper that did not exist on the reference tree")
				} else {
					r.Violation(rule, full, q.Pos(ssaq.InstrPos(in)), "an unchecked address/size helper is used at a site that has no recorded justification: wrap-around would go unnoticed")
				}
			}
		}
	}
}

// ---------------------------------------------------------------------------
// R3

// checked helpers: result index of the companion (bool ok or error).
var checkedHelpers = map[string]int{
	"capnp.(address).addSize":            1,
	"capnp.(address).element":            1,
	"capnp.(Size).times":                 1,
	"capnp.(pointerOffset).resolve":      1,
	"capnp.(rawPointer).totalListSize":   1,
	"capnp.(Struct).dataAddress":         1,
	"capnp.(List).primitiveElem":         1,
	"capnp.(*Segment).lookupSegment":     1,
	"capnp.(*Message).Segment":           1,
	"capnp.(*Segment).resolveFarPointer": 3,
	"capnp.(*Segment).readStructPtr":     1,
	"capnp.(*Segment).readListPtr":       1,
	"capnp.(*Segment).readPtr":           1,
	"capnp.(streamHeader).segmentSize":   1,
	"capnp.(streamHeader).totalSize":     1,
	// a pointer read that failed yields the null pointer: testing the value
	// (IsValid) before the error turns an unreadable field into an unset one
	"capnp.(Struct).Ptr":     1,
	"capnp.(PointerList).At": 1,
	"capnp.canonicalPtr":     1,
	// the segment an arena hands out is installed only when it did not refuse
	"capnp.(Arena).Allocate": 2,
}

// single-result predicates whose result must be branched on.
var checkedPredicates = map[string]bool{
	"capnp.(*Segment).regionInBounds": true,
	"capnp.(*Segment).inBounds":       true,
	"capnp.(*Message).canRead":        true,
	"capnp.(Struct).bitInData":        true,
	"capnp.hasCapacity":               true,
}

// ignoredCompanion lists the sites that may drop the companion.
var ignoredCompanion = map[string]string{
	"capnp.(Struct).pointerAddress | addSize": "'Struct already had bounds check': off+DataSize lies inside the validated struct",
	"capnp.(Struct).pointerAddress | element": "i < PointerCount is the callers' obligation (R4 pointerAddress form); the struct was validated",
	"capnp.copyStruct | addSize":              "pointer sections of two validated structs",
	"capnp.copyStruct | element":              "j < PointerCount of a validated struct",
	"capnp.(List).allocSize | times":          "'size has already been validated' when the list was read or created",
	"capnp.(*Segment).writePtr | addSize":     "'list was already validated': end of a validated list",
	"capnp.canonicalList | addSize":           "'list was already validated': end of a validated list",
	"capnp.Equal | times":                     "'both list bounds have been validated' and the lengths and sizes were compared equal",
	"capnp.(*Segment).writePtr | alloc":       "landing pad allocation is guarded by hasCapacity(src.seg.data, wordSize) on that branch",
	"capnp.Canonicalize | NewMessage":         "a fresh single-segment arena cannot fail",
	"capnp.Transform | readPtr":               "n/a",
}

func ruleCheckedResults(ctx *Ctx, rule string) { ruleCheckedResultsIn(ctx, rule, nil) }

// ruleCheckedResultsIn is ruleCheckedResults restricted to the functions scope
// accepts (and the helpers that did not exist on the reference tree): the same
// obligations under another property's id.
func ruleCheckedResultsIn(ctx *Ctx, rule string, scope func(name string) bool) {
	q := ssaq.For(ctx.Prog)
	r := ctx.Rep
	for _, f := range q.FuncsIn("", "encoding/text", "pogs") {
		name := ssaq.FuncName(f)
		if scope != nil && !scope(name) && !newHelperUnder(q, f, scope) {
			continue
		}
		count := map[string]int{}
		for _, b := range f.Blocks {
			for _, in := range b.Instrs {
				call, ok := in.(*ssa.Call)
				if !ok {
					continue
				}
				cn := ssaq.StaticCalleeName(call)
				if cn == "" {
					cn = ssaq.InvokeName(call) // capnp.(Arena).Allocate
				}
				short := cn[strings.LastIndex(cn, ".")+1:]
				if checkedPredicates[cn] {
					count[short]++
					key := fmt.Sprintf("%s | %s #%d is tested", name, short, count[short])
					if predicateUsed(call) {
						r.Ok(rule, key, q.Pos(ssaq.InstrPos(call)), "the result decides a branch (or is returned to a caller that is judged in turn)")
					} else {
						r.Violation(rule, key, q.Pos(ssaq.InstrPos(call)), "the result of the bounds/limit predicate is discarded: the check has no effect")
					}
					continue
				}
				ci, ok := checkedHelpers[cn]
				if !ok {
					continue
				}
				count[short]++
				key := fmt.Sprintf("%s | %s #%d", name, short, count[short])
				pos := q.Pos(ssaq.InstrPos(call))
				var comp *ssa.Extract
				var vals []*ssa.Extract
				for _, ref := range *call.Referrers() {
					if ex, ok := ref.(*ssa.Extract); ok {
						if ex.Index == ci {
							comp = ex
						} else {
							vals = append(vals, ex)
						}
					}
				}
				if comp == nil || len(*comp.Referrers()) == 0 {
					// companion ignored
					if why, ok := ignoredCompanion[fmt.Sprintf("%s | %s", name, short)]; ok {
						r.Exempt(rule, key, pos, "companion deliberately ignored: "+why)
					} else if len(vals) == 0 {
						r.Ok(rule, key, pos, "call used for its side effect only")
					} else if returnedWhole(call) {
						r.Ok(rule, key, pos, "both results are returned to the caller, which is judged in turn")
					} else {
						r.Violation(rule, key, pos, "the ok/err companion of "+short+" is ignored while its value is used: an overflowed or out-of-range result would be used as an address/size")
					}
					continue
				}
				// every use of a value result must be dominated by the companion's success edge,
				// or be a return together with the companion.
				bad := ""
				for _, v := range vals {
					for _, use := range *v.Referrers() {
						if _, isRet := use.(*ssa.Return); isRet {
							continue
						}
						if _, isDbg := use.(*ssa.DebugRef); isDbg {
							continue
						}
						if st, isStore := use.(*ssa.Store); isStore && st.Val == ssa.Value(v) {
							continue // spilled into a variable before the test; the test dominates the loads that matter
						}
						if !companionOK(use, comp) {
							bad = fmt.Sprintf("result #%d is used at %s on a path where the companion was not tested successful", v.Index, q.Pos(ssaq.InstrPos(use)))
						}
					}
				}
				if bad != "" {
					r.Violation(rule, key, pos, bad)
				} else {
					r.Ok(rule, key, pos, "every use of the value is dominated by the companion's success edge (or is returned with it)")
				}
			}
		}
	}
}

func predicateUsed(call *ssa.Call) bool {
	refs := call.Referrers()
	if refs == nil {
		return false
	}
	for _, ref := range *refs {
		switch x := ref.(type) {
		case *ssa.If, *ssa.Return, *ssa.Phi:
			return true
		case *ssa.UnOp:
			if x.Op == token.NOT {
				for _, r2 := range *x.Referrers() {
					switch r2.(type) {
					case *ssa.If, *ssa.Return, *ssa.Phi:
						return true
					}
				}
			}
		case *ssa.BinOp:
			return true
		}
	}
	return false
}

func returnedWhole(call *ssa.Call) bool {
	for _, ref := range *call.Referrers() {
		if _, ok := ref.(*ssa.Return); ok {
			return true
		}
	}
	return false
}

// companionOK: instruction use is dominated by an edge on which the companion
// (bool: true; error: == nil) holds.
func companionOK(use ssa.Instruction, comp *ssa.Extract) bool {
	isErr := isErrorType(comp.Type())
	for _, g := range ssaq.Guards(use.Block()) {
		for _, at := range ssaq.Atoms([]ssaq.Guard{g}) {
			if !isErr && at.Op == token.ILLEGAL && at.Val == ssa.Value(comp) && at.True {
				return true
			}
			if isErr && at.Op == token.EQL && ((at.X == ssa.Value(comp) && ssaq.IsNilConst(at.Y)) || (at.Y == ssa.Value(comp) && ssaq.IsNilConst(at.X))) {
				return true
			}
		}
	}
	// phi uses: judged at the predecessor edge
	if phi, ok := use.(*ssa.Phi); ok {
		okAll := true
		for i, e := range phi.Edges {
			if ex, isEx := e.(*ssa.Extract); isEx && ex.Tuple == comp.Tuple {
				pred := phi.Block().Preds[i]
				last := pred.Instrs[len(pred.Instrs)-1]
				edgeOK := companionOK(last, comp)
				if ifi, isIf := last.(*ssa.If); isIf && !edgeOK {
					// critical edge: the branch that ends pred decides the companion itself
					for k, succ := range pred.Succs {
						if succ == phi.Block() {
							for _, at := range ssaq.Atoms([]ssaq.Guard{{Cond: ifi.Cond, True: k == 0}}) {
								if at.Op == token.ILLEGAL && at.Val == ssa.Value(comp) && at.True {
									edgeOK = true
								}
								if at.Op == token.EQL && ((at.X == ssa.Value(comp) && ssaq.IsNilConst(at.Y)) || (at.Y == ssa.Value(comp) && ssaq.IsNilConst(at.X))) {
									edgeOK = true
								}
							}
						}
					}
				}
				if !edgeOK {
					okAll = false
				}
			}
		}
		return okAll
	}
	return false
}

// ---------------------------------------------------------------------------
// R4

var rawAccessors = map[string]int{ // callee -> width in bytes (0 = from argument)
	"capnp.(*Segment).slice":           0,
	"capnp.(*Segment).readUint8":       1,
	"capnp.(*Segment).readUint16":      2,
	"capnp.(*Segment).readUint32":      4,
	"capnp.(*Segment).readUint64":      8,
	"capnp.(*Segment).readRawPointer":  8,
	"capnp.(*Segment).writeUint8":      1,
	"capnp.(*Segment).writeUint16":     2,
	"capnp.(*Segment).writeUint32":     4,
	"capnp.(*Segment).writeUint64":     8,
	"capnp.(*Segment).writeRawPointer": 8,
}

// Functions whose address parameter is a pointer slot validated by callers.
var slotParamFuncs = map[string]int{ // function -> index of the address parameter
	"capnp.(*Segment).readPtr":           1,
	"capnp.(*Segment).resolveFarPointer": 1,
	"capnp.(*Segment).writePtr":          1,
	"capnp.(*Segment).readUint8":         1,
	"capnp.(*Segment).readUint16":        1,
	"capnp.(*Segment).readUint32":        1,
	"capnp.(*Segment).readUint64":        1,
	"capnp.(*Segment).readRawPointer":    1,
	"capnp.(*Segment).writeUint8":        1,
	"capnp.(*Segment).writeUint16":       1,
	"capnp.(*Segment).writeUint32":       1,
	"capnp.(*Segment).writeUint64":       1,
	"capnp.(*Segment).writeRawPointer":   1,
}

// Named justifications for sites that none of the generic forms covers, keyed by
// function, accessor and the rendered address (not by position or ordinal).
var accessExemptByContent = map[string]string{
	"capnp.copyStruct | writeRawPointer(element(addSize(p0.off, p0.size.DataSize)#0, int32(phi), 8:Size)#0)": "destination pointer j in [numSrcPtrs, numDstPtrs) of the destination struct",
	"capnp.canonicalStructSize | readRawPointer(pointerAddress(p0, uint16(phi)))":                            "pointerAddress(i) for i counting down from PointerCount-1 of a validated struct",
	"capnp.Equal | slice(l1.off)": "data-only lists with equal length and element size: sz = size*length of validated lists",
	"capnp.Equal | slice(l2.off)": "same extent as its sibling, equal length and element size were established above",
	"capnp.NewCompositeList | writeRawPointer(alloc(p0, (8:Size + times(totalSize(p1), p2)#0))#1)": "tag word at the start of the wordSize+total bytes just allocated",
	"capnp.(BitList).At | readUint8(addSizeUnchecked(p0.List.off, Size(offset(BitOffset(p1)))))":   "bit i < length of a bit list: byte i/8 < bitListSize(length), the extent validated by readListPtr",
	"capnp.(BitList).Set | slice(addSizeUnchecked(p0.List.off, Size(offset(BitOffset(p1)))))":      "bit i < length of a bit list allocated with bitListSize(length) bytes",
	"capnp.NewText | slice(l.List.off)":                                                               "len(v) bytes of the len(v)+1 bytes just allocated by NewUInt8List",
	"capnp.NewTextFromBytes | slice(l.List.off)":                                                      "len(v) bytes of the len(v)+1 bytes just allocated",
	"capnp.NewData | slice(l.List.off)":                                                               "len(v) bytes just allocated by NewUInt8List",
	"capnp.(*Segment).readListPtr | readRawPointer(resolve(offset(p2), p1)#0)":                        "tag word of a composite list: the region of totalListSize() = 8*(n+1) >= 8 bytes at this address was just checked",
	"capnp.(*Segment).writePtr | readRawPointer((l.off - 8:address))":                                 "l.off-8 is the tag word of a composite list that was validated together with its tag when it was read or created (flag isCompositeList)",
	"capnp.(*Segment).writePtr | writeRawPointer(alloc(p0, allocSize(l))#1)":                          "first word of the list just allocated with allocSize() bytes (includes the tag word)",
	"capnp.copyStruct | readPtr(element(addSize(p1.off, p1.size.DataSize)#0, int32(phi), 8:Size)#0)":  "source pointer j < numSrcPtrs of a validated struct (pointer section start + 8j)",
	"capnp.copyStruct | writePtr(element(addSize(p0.off, p0.size.DataSize)#0, int32(phi), 8:Size)#0)": "destination pointer j < numDstPtrs of a validated struct (pointer section start + 8j)",
}

// exemptByContent looks an access up in accessExemptByContent. A key whose
// address is written with the source names of locals (l1.off) is compared in
// the name-free form (expandWant / RenderValueR) when the reference tree
// defines those locals; otherwise literally.
func exemptByContent(fname, acc, addrNamed, addrResolved string) (string, bool) {
	if why, ok := exemptByContentAcc(fname, acc, addrNamed, addrResolved); ok {
		return why, true
	}
	// The justification of a pointer slot is about the eight bytes at the
	// address, not about the accessor: a slot that may be read with readPtr may
	// be read as a raw pointer word, and the other way round.
	slot := map[string]bool{"readPtr": true, "writePtr": true, "readRawPointer": true, "writeRawPointer": true}
	if slot[acc] {
		for other := range slot {
			if other == acc {
				continue
			}
			if why, ok := exemptByContentAcc(fname, other, addrNamed, addrResolved); ok {
				return why + " (the same pointer slot, accessed with " + acc + ")", true
			}
		}
	}
	return "", false
}

func exemptByContentAcc(fname, acc, addrNamed, addrResolved string) (string, bool) {
	pre := fname + " | " + acc + "("
	for k, why := range accessExemptByContent {
		if !strings.HasPrefix(k, pre) || !strings.HasSuffix(k, ")") {
			continue
		}
		inner := strings.TrimSuffix(strings.TrimPrefix(k, pre), ")")
		if alts, full := expandWantAlts(fname, inner); full {
			for _, wx := range alts {
				if wx == addrResolved {
					return why, true
				}
			}
			if weakWant(alts) && inner == addrNamed {
				return why, true
			}
		} else if inner == addrNamed {
			return why, true
		}
	}
	return "", false
}

func addrHead(a string) string {
	if i := strings.Index(a, "("); i > 0 {
		return a[:i]
	}
	return ""
}

func looseExempt(fname, acc, addr string) (string, bool) {
	h := addrHead(addr)
	if h == "" {
		return "", false
	}
	pre := fname + " | " + acc + "("
	for k, why := range accessExemptByContent {
		if strings.HasPrefix(k, pre) && addrHead(strings.TrimSuffix(strings.TrimPrefix(k, pre), ")")) == h {
			// the result selector (#0/#1) must agree as well
			if strings.HasSuffix(strings.TrimSuffix(k, ")"), "#1") != strings.HasSuffix(addr, "#1") {
				continue
			}
			return why, true
		}
	}
	return "", false
}

var reAlloc = regexp.MustCompile(`^(addSizeUnchecked\()?(alloc\(.*\))#1(?:, (\d+):Size\))?$`)
var reAllocArgs = regexp.MustCompile(`^alloc\((.*), (\d+):Size\)$`)
var reRegion = regexp.MustCompile(`^regionInBounds\((.*), (\d+):Size\)$`)

func ruleGuardedAccess(ctx *Ctx, rule string) {
	q := ssaq.For(ctx.Prog)
	r := ctx.Rep
	pending := map[string]bool{} // slot-parameter functions whose callers must be judged
	type site struct {
		f    *ssa.Function
		call ssa.CallInstruction
		name string
		ord  int
		seg  ssa.Value
		addr ssa.Value
		ai   int
		w    int64
		wArg ssa.Value
	}
	var sites []site
	// liftAccess judges an access inside a helper that did not exist on the
	// reference tree in the frame of each reference-tree function that reaches
	// it: ssaq.Anchors lists the access there with its arguments rendered in
	// the caller's frame and the atoms of the call chain added.
	liftAccess := func(s site) (string, bool) {
		if !ssaq.IsNew(s.f) {
			return "", false
		}
		owners, ok := q.Attributed(s.f)
		if !ok {
			return "", false
		}
		n := 0
		for _, on := range owners {
			g := q.Func(on)
			if g == nil {
				return "", false
			}
			for _, a := range ssaq.Anchors(g) {
				if a.Instr != ssa.Instruction(s.call) || s.ai >= len(a.Args) {
					continue
				}
				n++
				ws := ""
				if s.wArg != nil && len(a.Args) > 2 {
					ws = a.Args[2]
				}
				if _, ok := accessExemptByContent[fmt.Sprintf("%s | %s(%s)", on, s.name, a.Args[s.ai])]; ok {
					continue
				}
				if classifyAccessStr(a.Args[0], a.Args[s.ai], a.Atoms, s.w, ws) != "" {
					continue
				}
				if _, ok := looseExempt(on, s.name, a.Args[s.ai]); ok {
					continue
				}
				return "", false
			}
		}
		if n == 0 {
			return "", false
		}
		return "new helper: justified in the frame of every call chain from " + strings.Join(owners, ", "), true
	}
	collect := func(targets map[string]int, addrIdx func(string) int) {
		for _, f := range q.FuncsIn("") {
			count := map[string]int{}
			for _, b := range f.Blocks {
				for _, in := range b.Instrs {
					ci, ok := in.(ssa.CallInstruction)
					if !ok {
						continue
					}
					cn := ssaq.StaticCalleeName(in)
					if _, ok := targets[cn]; !ok {
						continue
					}
					short := cn[strings.LastIndex(cn, ".")+1:]
					count[short]++
					args := ci.Common().Args
					s := site{f: f, call: ci, name: short, ord: count[short], seg: args[0], addr: args[addrIdx(cn)], ai: addrIdx(cn), w: int64(rawAccessors[cn])}
					if cn == "capnp.(*Segment).slice" {
						s.wArg = args[2]
						if k, ok := ssaq.ConstInt(args[2]); ok {
							s.w = k
						} else {
							s.w = -1
						}
					}
					if _, isAcc := rawAccessors[cn]; !isAcc {
						s.w = 8 // pointer slot
					}
					sites = append(sites, s)
				}
			}
		}
	}
	collect(rawAccessors, func(string) int { return 1 })
	slotCallees := map[string]int{"capnp.(*Segment).readPtr": 1, "capnp.(*Segment).resolveFarPointer": 1, "capnp.(*Segment).writePtr": 1}
	slotParams := map[string]int{}
	for k, v := range slotParamFuncs {
		slotParams[k] = v
	}
	// A helper that did not exist on the reference tree and applies a raw
	// accessor (or a slot function) to one of its own address parameters is a
	// slot function itself: the obligation moves to its call sites.
	for round := 0; round < 2; round++ {
		for _, f := range q.FuncsIn("") {
			if !ssaq.IsNew(f) || f.Parent() != nil {
				continue
			}
			fname := ssaq.FuncName(f)
			for _, b := range f.Blocks {
				for _, in := range b.Instrs {
					ci, ok := in.(ssa.CallInstruction)
					if !ok {
						continue
					}
					cn := ssaq.StaticCalleeName(in)
					idx := -1
					if _, isAcc := rawAccessors[cn]; isAcc {
						idx = 1
					} else if i, isSlot := slotCallees[cn]; isSlot {
						idx = i
					}
					if idx < 0 || idx >= len(ci.Common().Args) {
						continue
					}
					if p, ok := ci.Common().Args[idx].(*ssa.Parameter); ok {
						for i, fp := range f.Params {
							if fp == p {
								slotParams[fname] = i
								slotCallees[fname] = i
							}
						}
					}
				}
			}
		}
	}
	collect(slotCallees, func(cn string) int { return slotCallees[cn] })

	for _, s := range sites {
		fname := ssaq.FuncName(s.f)
		key := fmt.Sprintf("%s | %s #%d", fname, s.name, s.ord)
		pos := q.Pos(ssaq.InstrPos(s.call))
		if why, ok := exemptByContent(fname, s.name, ssaq.RenderValue(s.f, s.addr), ssaq.RenderValueR(s.f, s.addr)); ok {
			r.Exempt(rule, key, pos, why)
			continue
		}
		why := classifyAccess(s.f, s.call, s.seg, s.addr, s.w, s.wArg)
		if strings.HasPrefix(why, "param:") {
			if _, ok := slotParams[fname]; ok {
				pending[fname] = true
				r.Ok(rule, key, pos, "address is this function's pointer-slot/address parameter: the obligation is discharged at every call site of "+fname)
				continue
			}
			why = ""
		}
		if why != "" {
			r.Ok(rule, key, pos, why)
		} else if lw, ok := looseExempt(fname, s.name, ssaq.RenderValue(s.f, s.addr)); ok {
			// the same accessor applied to an address built by the same function
			// (pointerAddress(...), element(...), alloc(...)#1) as a named
			// exemption: an index expression rewritten inside it (i -> n-1)
			// keeps the justification
			r.Exempt(rule, key, pos, lw+" (matched on the address constructor)")
		} else if lw, ok := liftAccess(s); ok {
			r.Ok(rule, key, pos, lw)
		} else {
			r.Violation(rule, key, pos, fmt.Sprintf("raw segment access %s(%s) has no recognised justification: address %s is not covered by a dominating bounds guard on this segment (guards: %s)",
				s.name, ssaq.RenderValue(s.f, s.seg), ssaq.RenderValue(s.f, s.addr), strings.Join(ssaq.DomAtoms(s.call), " && ")))
		}
	}
	// every slot-parameter function that was relied upon must have been collected as a callee
	for fn := range pending {
		if _, isAcc := rawAccessors[fn]; isAcc {
			continue
		}
		if _, ok := slotCallees[fn]; !ok {
			r.Fail("%s: %s relies on its callers but its call sites are not judged", rule, fn)
		}
	}
}

// classifyAccess returns the justification of an access of w bytes at addr in seg, or "".
func classifyAccess(f *ssa.Function, at ssa.Instruction, seg, addr ssa.Value, w int64, wArg ssa.Value) string {
	// parameter?
	if p, ok := addr.(*ssa.Parameter); ok {
		for i, fp := range f.Params {
			if fp == p {
				return fmt.Sprintf("param:%d", i)
			}
		}
	}
	ws := ""
	if wArg != nil {
		ws = ssaq.RenderValue(f, wArg)
	}
	return classifyAccessStr(ssaq.RenderValue(f, seg), ssaq.RenderValue(f, addr), ssaq.DomAtoms(at), w, ws)
}

// classifyAccessStr is classifyAccess on renderings: the segment, the address
// and the dominating atoms may come from the frame of a caller when the access
// lies in a helper that did not exist on the reference tree (ssaq.Anchors).
func classifyAccessStr(segS, addrS string, atoms []string, w int64, ws string) string {
	has := func(s string) bool {
		for _, a := range atoms {
			if a == s {
				return true
			}
		}
		return false
	}
	// J-region: regionInBounds(seg, A, K) with addr == A + c, c + w <= K
	for _, a := range atoms {
		m := reRegion.FindStringSubmatch(a)
		if m == nil {
			continue
		}
		inner := m[1]
		k, _ := strconv.ParseInt(m[2], 10, 64)
		if !strings.HasPrefix(inner, segS+", ") {
			continue
		}
		base := strings.TrimPrefix(inner, segS+", ")
		if w > 0 && addrS == base && w <= k {
			return fmt.Sprintf("inside the region [%s, +%d) of %s established by a dominating regionInBounds", base, k, segS)
		}
		// addSize(base, c)#0 with companion tested
		pre := "addSize(" + base + ", "
		if strings.HasPrefix(addrS, pre) && strings.HasSuffix(addrS, ":Size)#0") {
			cs := strings.TrimSuffix(strings.TrimPrefix(addrS, pre), ":Size)#0")
			if c, err := strconv.ParseInt(cs, 10, 64); err == nil && w > 0 && c+w <= k && has(strings.TrimSuffix(addrS, "#0")+"#1") {
				return fmt.Sprintf("offset %d width %d inside the region [%s, +%d) established by a dominating regionInBounds", c, w, base, k)
			}
		}
	}
	// J-alloc: inside a region just allocated (alloc zero-fills and extends the segment)
	if m := reAlloc.FindStringSubmatch(addrS); m != nil {
		allocCall, off := m[2], int64(0)
		if m[1] != "" {
			off, _ = strconv.ParseInt(m[3], 10, 64)
		}
		am := reAllocArgs.FindStringSubmatch(allocCall)
		if am != nil {
			k, _ := strconv.ParseInt(am[2], 10, 64)
			segOK := segS == allocCall+"#0" || (segS == am[1] && has("hasCapacity("+am[1]+".data, "+am[2]+":Size)"))
			if segOK && w > 0 && off+w <= k {
				return fmt.Sprintf("offset %d width %d inside the %d bytes just allocated by %s", off, w, k, allocCall)
			}
		}
	}
	// J-dataAddress
	if strings.HasPrefix(addrS, "dataAddress(") && strings.HasSuffix(addrS, ")#0") {
		callS := strings.TrimSuffix(addrS, "#0")
		if has(callS + "#1") {
			// width within the requested size: last argument of dataAddress
			args := strings.TrimSuffix(strings.TrimPrefix(callS, "dataAddress("), ")")
			parts := strings.Split(args, ", ")
			req := parts[len(parts)-1]
			if n, err := strconv.ParseInt(strings.TrimSuffix(req, ":Size"), 10, 64); err == nil && w > 0 && w <= n {
				if strings.HasPrefix(segS, parts[0]+".seg") || segS == parts[0]+".seg" {
					return fmt.Sprintf("address from dataAddress(.., %d) with ok tested; width %d", n, w)
				}
			}
		}
	}
	// J-primitiveElem
	if strings.HasPrefix(addrS, "primitiveElem(") && strings.HasSuffix(addrS, ")#0") {
		callS := strings.TrimSuffix(addrS, "#0")
		if has(callS+"#1 == nil") || has("nil == "+callS+"#1") {
			return "address from primitiveElem with err == nil tested (element index and element size validated there)"
		}
	}
	// J-pointerAddress under i < PointerCount
	if strings.HasPrefix(addrS, "pointerAddress(") {
		inner := strings.TrimSuffix(strings.TrimPrefix(addrS, "pointerAddress("), ")")
		parts := strings.SplitN(inner, ", ", 2)
		if len(parts) == 2 {
			obj, idx := parts[0], parts[1]
			if has(idx+" < "+obj+".size.PointerCount") && has("nil != "+obj+".seg") {
				return "pointerAddress(i) under i < PointerCount of a valid struct"
			}
		}
	}
	// J-bit
	if strings.HasPrefix(addrS, "addOffset(") {
		inner := strings.TrimSuffix(strings.TrimPrefix(addrS, "addOffset("), ")")
		parts := strings.SplitN(inner, ", ", 2)
		if len(parts) == 2 && strings.HasSuffix(parts[0], ".off") && strings.HasPrefix(parts[1], "offset(") {
			obj := strings.TrimSuffix(parts[0], ".off")
			bit := strings.TrimSuffix(strings.TrimPrefix(parts[1], "offset("), ")")
			if has("bitInData("+obj+", "+bit+")") && w == 1 {
				return "byte of bit n under bitInData(n)"
			}
		}
	}
	// J-objslice: slice(x.seg, x.off, x.size.DataSize)
	if w == -1 && ws != "" && strings.HasSuffix(addrS, ".off") {
		obj := strings.TrimSuffix(addrS, ".off")
		if segS == obj+".seg" && ws == obj+".size.DataSize" {
			return "an object's own data section (off, size.DataSize) under the construction invariant"
		}
		if segS == obj+".seg" && ws == "Size("+obj+".length)" {
			// one-byte list: requires isOneByteList on the pointer it was converted from
			for _, a := range atoms {
				if strings.HasPrefix(a, "isOneByteList(") {
					return "bytes of a one-byte list (off, length) under isOneByteList and the construction invariant"
				}
			}
		}
	}
	return ""
}

// ---------------------------------------------------------------------------
// R5

var constructors = map[string]string{
	"capnp.NewStruct":                "fresh allocation of sz.totalSize()",
	"capnp.(Struct).ToPtr":           "projection of an existing struct",
	"capnp.(Ptr).Struct":             "projection of an existing pointer",
	"capnp.(Ptr).List":               "projection of an existing pointer",
	"capnp.(Ptr).Interface":          "interface pointers carry no extent",
	"capnp.(List).ToPtr":             "projection of an existing list",
	"capnp.(List).Struct":            "element i < length of a validated list (element() checked)",
	"capnp.newPrimitiveList":         "fresh allocation of sz*n",
	"capnp.NewCompositeList":         "fresh allocation of wordSize+total",
	"capnp.NewBitList":               "fresh allocation of bitListSize(n)",
	"capnp.NewPointerList":           "fresh allocation of wordSize*n",
	"capnp.NewVoidList":              "zero-sized elements: no extent",
	"capnp.(*Segment).root":          "one pointer at offset 0 under regionInBounds(0, 8)",
	"capnp.(*Segment).readPtr":       "interface pointer: no extent",
	"capnp.(*Segment).readStructPtr": "under regionInBounds(addr, totalSize)",
	"capnp.(*Segment).readListPtr":   "under regionInBounds(addr, size) for each of the three shapes",
	"capnp.(*Segment).writePtr":      "copy destination: fresh allocation of the source's size",
	"capnp.canonicalList":            "copy destination: fresh allocation of allocSize()",
	"capnp.NewInterface":             "interface pointers carry no extent",
	"capnp.(Interface).ToPtr":        "interface pointers carry no extent",
}

var readerConstructors = map[string]bool{"capnp.(*Segment).readStructPtr": true, "capnp.(*Segment).readListPtr": true, "capnp.(*Segment).root": true}

// paramIndex: v is parameter number i of g (directly, or a load of the local
// the parameter was spilled to); -1 otherwise.
func paramIndex(g *ssa.Function, v ssa.Value) int {
	if u, ok := v.(*ssa.UnOp); ok && u.Op == token.MUL {
		if al, ok := u.X.(*ssa.Alloc); ok {
			for _, b := range g.Blocks {
				for _, in := range b.Instrs {
					if st, ok := in.(*ssa.Store); ok && st.Addr == al {
						if _, isParam := st.Val.(*ssa.Parameter); isParam && al.Comment == st.Val.Name() {
							v = st.Val
						}
					}
				}
			}
		}
	}
	for i, p := range g.Params {
		if ssa.Value(p) == v {
			return i
		}
	}
	return -1
}

// liftConstruction judges an object construction (segment segV, offset offV, at
// instruction at) inside the new helper g at g's call sites: every caller must
// be a listed constructor (or again a new helper), and where the caller is one
// of the readers the call must be dominated by regionInBounds on the segment
// and offset it passes. The empty string means justified.
func liftConstruction(q *ssaq.Q, g *ssa.Function, at ssa.Instruction, segV, offV ssa.Value, depth int) string {
	if depth > 3 {
		return "the chain of new helpers above it is too deep to follow"
	}
	guarded := func(fn *ssa.Function, in ssa.Instruction, seg, off ssa.Value) bool {
		if off == nil {
			return false
		}
		pre := "regionInBounds(" + ssaq.RenderValue(fn, seg) + ", " + ssaq.RenderValue(fn, off) + ", "
		for _, a := range ssaq.DomAtoms(in) {
			if strings.HasPrefix(a, pre) {
				return true
			}
		}
		return false
	}
	if guarded(g, at, segV, offV) {
		return ""
	}
	si, oi := paramIndex(g, segV), -1
	if offV != nil {
		oi = paramIndex(g, offV)
	}
	edges := q.Callers(g)
	if len(edges) == 0 {
		return "the helper has no caller that establishes the bounds"
	}
	for _, e := range edges {
		caller := e.Caller.Func
		for caller.Parent() != nil {
			caller = caller.Parent()
		}
		cn := ssaq.FuncName(caller)
		args := e.Site.Common().Args
		var seg2, off2 ssa.Value
		if si >= 0 && si < len(args) {
			seg2 = args[si]
		}
		if oi >= 0 && oi < len(args) {
			off2 = args[oi]
		}
		switch {
		case ssaq.IsNew(caller):
			if seg2 == nil {
				return "its segment is not handed in by the caller " + cn
			}
			if bad := liftConstruction(q, e.Caller.Func, e.Site, seg2, off2, depth+1); bad != "" {
				return bad
			}
		case readerConstructors[cn]:
			if seg2 == nil || off2 == nil || !guarded(e.Caller.Func, e.Site, seg2, off2) {
				return "the call in " + cn + " at " + q.Pos(e.Site.Pos()) + " is not dominated by regionInBounds on the segment and offset it passes"
			}
		default:
			if _, listed := constructors[cn]; !listed {
				return "it is reached from " + cn + ", which is not one of the functions that establish the in-bounds invariant"
			}
		}
	}
	return ""
}

func ruleConstructionSites(ctx *Ctx, rule string) {
	q := ssaq.For(ctx.Prog)
	r := ctx.Rep
	guardedTypes := map[string]bool{"Struct": true, "List": true, "Ptr": true}
	for _, f := range q.FuncsIn("") {
		name := ssaq.FuncName(f)
		k := 0
		for _, b := range f.Blocks {
			for _, in := range b.Instrs {
				st, ok := in.(*ssa.Store)
				if !ok {
					continue
				}
				fa, ok := st.Addr.(*ssa.FieldAddr)
				if !ok {
					continue
				}
				fld := ssaq.FieldVar(fa)
				if fld == nil || core.FieldName(fld) != "seg" {
					continue
				}
				owner := ""
				if p, ok := fa.X.Type().Underlying().(*types.Pointer); ok {
					if n, ok := p.Elem().(*types.Named); ok {
						owner = n.Obj().Name()
					}
				}
				if !guardedTypes[owner] || ssaq.IsNilConst(st.Val) {
					continue
				}
				k++
				key := fmt.Sprintf("%s | constructs %s #%d", name, owner, k)
				pos := q.Pos(ssaq.InstrPos(in))
				why, ok := constructors[name]
				if !ok && ssaq.IsNew(f) {
					// a helper that did not exist on the reference tree: the
					// construction is judged at the call sites, in the
					// reference-tree functions that reach it
					var offV ssa.Value
					for _, in2 := range b.Instrs {
						if st2, ok := in2.(*ssa.Store); ok {
							if fa2, ok := st2.Addr.(*ssa.FieldAddr); ok && fa2.X == fa.X && core.FieldName(ssaq.FieldVar(fa2)) == "off" {
								offV = st2.Val
							}
						}
					}
					if bad := liftConstruction(q, f, in, st.Val, offV, 0); bad != "" {
						r.Violation(rule, key, pos, "a "+owner+" with a segment is constructed in a new helper and "+bad+": accessors trust off/size of every such value")
					} else {
						r.Ok(rule, key, pos, "new helper; every call site lies in a listed constructor, under its bounds test where that constructor is a reader")
					}
					continue
				}
				if !ok {
					r.Violation(rule, key, pos, "a "+owner+" with a segment is constructed outside the functions that establish the in-bounds invariant: accessors trust off/size of every such value")
					continue
				}
				// readers: require the dominating regionInBounds on the constructed offset
				if name == "capnp.(*Segment).readStructPtr" || name == "capnp.(*Segment).readListPtr" || name == "capnp.(*Segment).root" {
					off := ""
					for _, in2 := range b.Instrs {
						if st2, ok := in2.(*ssa.Store); ok {
							if fa2, ok := st2.Addr.(*ssa.FieldAddr); ok && fa2.X == fa.X && core.FieldName(ssaq.FieldVar(fa2)) == "off" {
								off = ssaq.RenderValue(f, st2.Val)
							}
						}
					}
					if off == "" && name == "capnp.(*Segment).root" {
						off = "0:address"
					}
					segS := ssaq.RenderValue(f, st.Val)
					found := false
					for _, a := range ssaq.DomAtoms(in) {
						if strings.HasPrefix(a, "regionInBounds("+segS+", "+off+", ") {
							found = true
						}
					}
					if !found {
						r.Violation(rule, key, pos, fmt.Sprintf("the object is constructed at offset %s without a dominating regionInBounds(%s, %s, size): every later access through it is unchecked (guards: %s)", off, segS, off, strings.Join(ssaq.DomAtoms(in), " && ")))
						continue
					}
					r.Ok(rule, key, pos, "dominated by regionInBounds("+segS+", "+off+", ...)")
					continue
				}
				r.Ok(rule, key, pos, "listed constructor: "+why)
			}
		}
	}
}

// ---------------------------------------------------------------------------
// R6: kernel lemmas by normal form

var kernelLemmaFuncs = []string{
	"capnp.(address).addSize", "capnp.(address).addSizeUnchecked", "capnp.(address).element", "capnp.(address).addOffset",
	"capnp.(Size).times", "capnp.(Size).timesUnchecked", "capnp.(Size).padToWord", "capnp.maxAllocSize",
	"capnp.(pointerOffset).resolve", "capnp.bitListSize",
	"capnp.(ObjectSize).isValid", "capnp.(ObjectSize).pointerSize", "capnp.(ObjectSize).totalSize", "capnp.(ObjectSize).isOneByte",
	"capnp.(BitOffset).offset", "capnp.(BitOffset).mask",
	"capnp.(*Segment).inBounds", "capnp.(*Segment).regionInBounds", "capnp.(*Segment).slice",
	"capnp.(*Segment).readUint8", "capnp.(*Segment).readUint16", "capnp.(*Segment).readUint32", "capnp.(*Segment).readUint64", "capnp.(*Segment).readRawPointer",
	"capnp.(*Segment).root", "capnp.(*Segment).lookupSegment", "capnp.(*Segment).readStructPtr",
	"capnp.(Struct).Ptr", "capnp.(Struct).HasPtr", "capnp.(Struct).pointerAddress", "capnp.(Struct).bitInData", "capnp.(Struct).dataAddress",
	"capnp.(Struct).Bit", "capnp.(Struct).Uint8", "capnp.(Struct).Uint16", "capnp.(Struct).Uint32", "capnp.(Struct).Uint64",
	"capnp.(List).Len", "capnp.isOneByteList", "capnp.(Ptr).text", "capnp.(Ptr).DataDefault",
	"capnp.(*Message).Segment", "capnp.hasCapacity", "capnp.streamHeaderSize", "capnp.(streamHeader).maxSegment", "capnp.(streamHeader).segmentSize",
}

func ruleKernelLemmas(ctx *Ctx, rule string, funcs []string) {
	q := ssaq.For(ctx.Prog)
	r := ctx.Rep
	for _, name := range funcs {
		f := q.Func(name)
		if f == nil {
			r.Fail("%s: kernel function %s no longer exists", rule, name)
			continue
		}
		lines, err := ssaq.Fingerprint(f)
		key := name + " | normal form"
		pos := q.Pos(f.Pos())
		if err != nil {
			r.Undecided(rule, key, pos, "cannot compute the normal form: "+err.Error())
			continue
		}
		want, ok := kernelLemmas[name]
		if !ok {
			r.Undecided(rule, key, pos, "no confirmed normal form recorded for this kernel function; current: "+strings.Join(lines, " || "))
			continue
		}
		got := strings.Join(lines, "\n")
		if got == want {
			r.Ok(rule, key, pos, fmt.Sprintf("%d path(s) equal to the confirmed normal form", len(lines)))
		} else {
			r.Violation(rule, key, pos, "the bounds/arithmetic kernel function differs from the form under which its lemma was confirmed; re-confirm the lemma or restore the guard", diffLines(want, got)...)
		}
	}
}

func diffLines(want, got string) []string {
	w, g := strings.Split(want, "\n"), strings.Split(got, "\n")
	ws, gs := map[string]bool{}, map[string]bool{}
	for _, l := range w {
		ws[l] = true
	}
	for _, l := range g {
		gs[l] = true
	}
	var out []string
	for _, l := range w {
		if !gs[l] {
			out = append(out, "- confirmed: "+l)
		}
	}
	for _, l := range g {
		if !ws[l] {
			out = append(out, "+ current:   "+l)
		}
	}
	sort.Strings(out)
	return out
}

// ---------------------------------------------------------------------------
// R7

var readAPIRoots = []string{
	"capnp.Unmarshal", "capnp.UnmarshalPacked", "capnp.(*Decoder).Decode", "capnp.(*Message).Root", "capnp.(*Message).SetRoot",
	"capnp.Equal", "capnp.Canonicalize", "capnp.(Struct).Ptr", "capnp.(Struct).HasPtr", "capnp.(Struct).Bit",
	"capnp.(Struct).Uint8", "capnp.(Struct).Uint16", "capnp.(Struct).Uint32", "capnp.(Struct).Uint64", "capnp.(Struct).CopyFrom",
	"capnp.(Ptr).Text", "capnp.(Ptr).TextBytes", "capnp.(Ptr).Data", "capnp.(Ptr).Struct", "capnp.(Ptr).List", "capnp.(Ptr).Default",
	"capnp.(PointerList).At", "capnp.(TextList).At", "capnp.(TextList).BytesAt", "capnp.(DataList).At", "capnp.(BitList).At",
	"capnp.(UInt8List).At", "capnp.(UInt16List).At", "capnp.(UInt32List).At", "capnp.(UInt64List).At", "capnp.(List).Struct",
	"capnp.Transform", "internal/packed.Unpack", "internal/packed.(*Reader).Read",
}

var capnpPanicTable = map[string][]string{
	"capnp.(Struct).SetBit":            {"capnp: set field outside struct boundaries"},
	"capnp.(Struct).SetUint8":          {"capnp: set field outside struct boundaries"},
	"capnp.(Struct).SetUint16":         {"capnp: set field outside struct boundaries"},
	"capnp.(Struct).SetUint32":         {"capnp: set field outside struct boundaries"},
	"capnp.(Struct).SetUint64":         {"capnp: set field outside struct boundaries"},
	"internal/packed.Pack":             {"packed.Pack len(src) must be a multiple of 8"},
	"capnp.(address).addOffset":        {"data offset overflow"}, // offsets come from generated code / schema, < 1<<19
	"capnp.(ObjectSize).dataWordCount": {"data size not aligned by word"},
	"capnp.(rawPointer).elementSize":   {"elementSize not supposed to be called on composite or unknown list type"},
	"capnp.(List).raw":                 {"invalid list size"},
	"capnp.(List).primitiveElem":       {"list element out of bounds"},
	"capnp.(List).Struct":              {"list element out of bounds"},
	"capnp.(BitList).At":               {"list element out of bounds"},
	"capnp.(Struct).SetPtr":            {"capnp: set field outside struct boundaries"},
	"capnp.copyStruct":                 {"copy struct into invalid pointer"},
	"capnp.(*Segment).writePtr":        {"unreachable"},
	"capnp.Equal":                      {"unreachable"},
	"capnp.canonicalPtr":               {"unreachable"},
	"capnp.(*Client).IsSame":           {"IsSame on released client"},
	"capnp.(*Client).AddRef":           {"AddRef on released client"},
	"capnp.NewVoidList":                {"list length overflow"},
	"capnp.MustUnmarshalRoot":          {"<non-constant>"},
}
