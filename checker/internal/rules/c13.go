package rules

import (
	"fmt"
	"go/token"
	"go/types"
	"regexp"
	"strconv"
	"strings"
	"verifcheck/internal/core"

	"golang.org/x/tools/go/ssa"

	"verifcheck/internal/ssaq"
)

func init() {
	Register(&Spec{
		ID:           "C13",
		Explanation:  "Decides four structural clauses of the packed codec in internal/packed: (R1) in the one-shot decoder, the count returned by a copy from the remaining input into a destination sized from an input byte reaches a comparison (a short literal run is detected, as io.ReadFull does in the streaming sibling); (R2) the number of words passed to allocWords is the constant 1 or a single input byte, and Reader.zeroes/literal are set only from a single byte or decremented: output grows by at most 255 words per count byte; (R3) Pack, Unpack and Reader.ReadWord all dispatch on exactly the tags 0x00 and 0xff, and each place where a count byte or a tagged byte is missing yields (or latches) io.ErrUnexpectedEOF; (R4) every index into the input in Unpack and ReadWord is bounded by an interval analysis of the index against a dominating length test; (R1) also requires the copy count to be compared with a byte extent of the destination; (R3e) in the streaming decoder the error of every byte read after the tag byte is latched or returned only where it is known not to be io.EOF; (R5) every integer converted to a count byte in Pack has an upper bound of at most 255 (bounds through min, loop counters and division); (R7) allocWords hands out a fresh make or the caller's slice re-sliced after a loop that zeroes exactly the spare capacity it exposes (Unpack writes nothing for zero bytes). (R8) UnmarshalPacked decodes the unpacked bytes only under a nil error of Unpack. Does NOT decide unpack(pack(x)) = x, run-length limits as values, or equivalence of the two decoders.",
		ExtraConfigs: true,
		Run:          runC13,
	})
}

func runC13(ctx *Ctx) {
	ruleShortCopy(ctx, "C13-R1")
	ruleAmplification(ctx, "C13-R2")
	rulePackedSiblings(ctx, "C13-R3")
	ruleIndexBounds(ctx, "C13-R4", []string{"internal/packed.Unpack", "internal/packed.(*Reader).ReadWord"})
	ruleNarrowingFits(ctx, "C13-R5", []string{"internal/packed.Pack"})
	ruleCountByteEOF(ctx, "C13-R3e")
	rulePackNoAlias(ctx, "C13-R6")
	ruleAllocWordsZero(ctx, "C13-R7")
	ruleAnchorSpecs(ctx, "C13-R8", unpackErrorSpecs)
	r := ctx.Rep
	r.Floor("C13-R7", 1)
	r.Floor("C13-R5", 2)
	r.Floor("C13-R1", 1)
	r.Floor("C13-R2", 5)
	r.Floor("C13-R3", 7)
	r.Floor("C13-R4", 20)
}

func ruleShortCopy(ctx *Ctx, rule string) {
	q := ssaq.For(ctx.Prog)
	r := ctx.Rep
	f := q.Func("internal/packed.Unpack")
	if f == nil {
		r.Fail("%s: packed.Unpack not found", rule)
		return
	}
	n := 0
	for _, b := range frameBlocks(f) {
		for _, in := range b.Instrs {
			call, ok := in.(*ssa.Call)
			if !ok {
				continue
			}
			bi, ok := call.Call.Value.(*ssa.Builtin)
			if !ok || bi.Name() != "copy" {
				continue
			}
			// destination sized from input? (its length derives from allocWords(.., int(src[0])))
			dst := ssaq.RenderValue(f, call.Call.Args[0])
			if !strings.Contains(dst, "allocWords(") {
				continue
			}
			n++
			key := fmt.Sprintf("internal/packed.Unpack | copy #%d of a literal run is checked for shortness", n)
			compared := false
			unit := ""
			refs := call.Referrers()
			if refs != nil {
				for _, ref := range *refs {
					if bo, ok := ref.(*ssa.BinOp); ok {
						switch bo.Op {
						case token.LSS, token.LEQ, token.GTR, token.GEQ, token.EQL, token.NEQ:
							// copy counts bytes: the other operand must be a byte extent of the
							// grown destination (len(dst)-start, len(dst[start:])), not the
							// run's word count
							other := bo.Y
							if other == ssa.Value(call) {
								other = bo.X
							}
							if strings.Contains(ssaq.RenderValue(f, other), "len(allocWords(") {
								compared = true
							} else if runBytes(call.Call.Args[0], other) {
								// 8 * k where the destination is the k words
								// allocWords(.., k) has just appended
								compared = true
							} else {
								unit = ssaq.RenderValue(f, other)
							}
						}
					}
				}
			}
			pos := q.Pos(ssaq.InstrPos(call))
			if compared {
				r.Ok(rule, key, pos, "the number of bytes copied is compared with the size of the run")
			} else {
				why := "the count is never compared with the announced run length"
				if unit != "" {
					why = "the byte count is compared with " + unit + ", which is not the byte length of the run's destination (a word count?)"
				}
				r.Violation(rule, key, pos, "the literal run is copied from whatever input remains and "+why+": a truncated run is silently completed with zero bytes and accepted")
			}
		}
	}
	if n == 0 {
		r.Violation(rule, "internal/packed.Unpack | copy of a literal run is checked for shortness", q.Pos(f.Pos()), "no copy of a literal run found")
	}
}

// runBytes: dst is a window x[start:] on x = allocWords(old, k) whose start is
// the length of old, and v is k * 8 (the byte length of the k appended words).
func runBytes(dst, v ssa.Value) bool {
	sl, ok := dst.(*ssa.Slice)
	if !ok || sl.Low == nil {
		return false
	}
	ac, ok := sl.X.(*ssa.Call)
	if !ok || ssaq.StaticCalleeName(ac) != "internal/packed.allocWords" || len(ac.Call.Args) != 2 {
		return false
	}
	// start = len(old) taken before the append
	lc, ok := stripConv(sl.Low).(*ssa.Call)
	if !ok {
		return false
	}
	if bi, isB := lc.Call.Value.(*ssa.Builtin); !isB || bi.Name() != "len" || lc.Call.Args[0] != ac.Call.Args[0] {
		return false
	}
	mul, ok := stripConv(v).(*ssa.BinOp)
	if !ok || mul.Op != token.MUL {
		return false
	}
	k, w := mul.X, mul.Y
	if c, isC := ssaq.ConstInt(k); isC && c == 8 {
		k, w = w, k
	}
	c, isC := ssaq.ConstInt(w)
	return isC && c == 8 && stripConv(k) == stripConv(ac.Call.Args[1])
}

func ruleAmplification(ctx *Ctx, rule string) {
	q := ssaq.For(ctx.Prog)
	r := ctx.Rep
	isByte := func(v ssa.Value) bool {
		for {
			switch x := v.(type) {
			case *ssa.Convert:
				v = x.X
				continue
			case *ssa.ChangeType:
				v = x.X
				continue
			}
			break
		}
		b, ok := v.Type().Underlying().(*types.Basic)
		return ok && b.Kind() == types.Uint8
	}
	for _, f := range q.FuncsIn("internal/packed") {
		name := ssaq.FuncName(f)
		k := 0
		for _, b := range f.Blocks {
			for _, in := range b.Instrs {
				if ssaq.StaticCalleeName(in) == "internal/packed.allocWords" {
					k++
					arg := in.(ssa.CallInstruction).Common().Args[1]
					key := fmt.Sprintf("%s | allocWords #%d word count", name, k)
					pos := q.Pos(ssaq.InstrPos(in))
					if c, ok := ssaq.ConstInt(arg); ok && c <= 255 {
						r.Ok(rule, key, pos, fmt.Sprintf("constant %d", c))
					} else if isByte(arg) {
						r.Ok(rule, key, pos, "a single input byte (<= 255 words)")
					} else {
						r.Violation(rule, key, pos, "the output grows by "+ssaq.RenderValue(f, arg)+" words, which is not bounded by one input byte: decompression amplification beyond the packing spec")
					}
				}
				if st, ok := in.(*ssa.Store); ok {
					if fa, ok := st.Addr.(*ssa.FieldAddr); ok {
						fld := ssaq.FieldVar(fa)
						if fld != nil && (core.FieldName(fld) == "zeroes" || core.FieldName(fld) == "literal") && fld.Pkg() != nil && strings.HasSuffix(fld.Pkg().Path(), "internal/packed") {
							k++
							key := fmt.Sprintf("%s | Reader.%s = #%d", name, fld.Name(), k)
							pos := q.Pos(ssaq.InstrPos(in))
							dec := false
							if bo, ok := st.Val.(*ssa.BinOp); ok && bo.Op == token.SUB {
								if c, ok := ssaq.ConstInt(bo.Y); ok && c == 1 {
									if lf, _ := ssaq.LoadedField(bo.X); lf == fld {
										dec = true
									}
								}
							}
							// a helper that did not exist on the reference tree and
							// returns, on every path, one input byte or a constant
							// of at most 255
							viaHelper := false
							if hc, isCall := st.Val.(*ssa.Call); isCall {
								if g := hc.Call.StaticCallee(); g != nil && ssaq.IsNew(g) && len(g.Blocks) > 0 {
									viaHelper = true
									for _, hb := range g.Blocks {
										if ret, isRet := hb.Instrs[len(hb.Instrs)-1].(*ssa.Return); isRet {
											if len(ret.Results) != 1 {
												viaHelper = false
												continue
											}
											c, isC := ssaq.ConstInt(ret.Results[0])
											if !(isC && c >= 0 && c <= 255) && !isByte(ret.Results[0]) {
												viaHelper = false
											}
										}
									}
								}
							}
							if dec || isByte(st.Val) || viaHelper {
								r.Ok(rule, key, pos, "set from one input byte or decremented")
							} else {
								r.Violation(rule, key, pos, "the pending run length is set to "+ssaq.RenderValue(f, st.Val)+", not to a single input byte")
							}
						}
					}
				}
			}
		}
	}
}

func rulePackedSiblings(ctx *Ctx, rule string) {
	q := ssaq.For(ctx.Prog)
	r := ctx.Rep
	for _, name := range []string{"internal/packed.Pack", "internal/packed.Unpack", "internal/packed.(*Reader).ReadWord"} {
		f := q.Func(name)
		if f == nil {
			r.Fail("%s: %s not found", rule, name)
			continue
		}
		// the tag dispatch: comparisons of a byte value with constants
		consts := map[int64]bool{}
		for _, b := range f.Blocks {
			for _, in := range b.Instrs {
				bo, ok := in.(*ssa.BinOp)
				if !ok || (bo.Op != token.EQL && bo.Op != token.NEQ) {
					continue // tag == K (switch case) or tag != K (guard clause)
				}
				if bt, ok := bo.X.Type().Underlying().(*types.Basic); !ok || bt.Kind() != types.Uint8 {
					continue
				}
				// only comparisons that decide a branch directly (switch cases)
				isCase := false
				for _, ref := range *bo.Referrers() {
					if _, ok := ref.(*ssa.If); ok {
						isCase = true
					}
				}
				if !isCase {
					continue
				}
				if c, ok := ssaq.ConstInt(bo.Y); ok {
					consts[c] = true
				}
				if c, ok := ssaq.ConstInt(bo.X); ok {
					consts[c] = true
				}
			}
		}
		key := name + " | dispatches on the tags 0x00 and 0xff"
		if consts[0] && consts[255] && len(consts) == 2 {
			r.Ok(rule, key, q.Pos(f.Pos()), "exactly the two special tags of the packing spec")
		} else {
			var got []string
			for c := range consts {
				got = append(got, fmt.Sprintf("%#x", c))
			}
			r.Violation(rule, key, q.Pos(f.Pos()), "the special-tag dispatch differs from the packing spec (0x00: zero run, 0xff: literal run); cases found: "+strings.Join(got, ", "))
		}
	}
	// Missing bytes are reported as ErrUnexpectedEOF.
	// every run whose length comes from the input (a zero run, a literal run, or
	// one call serving both) is allocated only after the count byte was found
	// to be present
	if uf := q.Func("internal/packed.Unpack"); uf != nil {
		runs := 0
		for _, a := range ssaq.Anchors(uf) {
			if a.Callee != "internal/packed.allocWords" || len(a.Args) < 2 || strings.HasSuffix(a.Args[1], ":int") {
				continue // constant word count
			}
			runs++
			key := fmt.Sprintf("internal/packed.Unpack | allocWords #%d: count byte present before it is read", a.Ordinal)
			pos := q.Pos(ssaq.InstrPos(a.Instr))
			ok := false
			for _, at := range a.Atoms {
				if matchPattern(at, "0:int != len(§)") || matchPattern(at, "0:int < len(§)") {
					ok = true
				}
			}
			switch {
			case !matchPattern(a.Args[1], "int(§[0:int])"):
				r.Violation(rule, key, pos, "the run length "+a.Args[1]+" is not the single count byte that follows the tag")
			case !ok:
				r.Violation(rule, key, pos, "the count byte is read without a dominating test that the input is not exhausted: a stream cut after a 0x00/0xff tag is not reported as io.ErrUnexpectedEOF (established: "+strings.Join(a.Atoms, " && ")+")")
			default:
				r.Ok(rule, key, pos, "allocated after the test that the count byte is present")
			}
		}
		if runs == 0 {
			r.Violation(rule, "internal/packed.Unpack | runs sized from a count byte", q.Pos(uf.Pos()), "Unpack no longer sizes any run from a count byte")
		}
	}
	for _, name := range []string{"internal/packed.Unpack", "internal/packed.(*Reader).ReadWord"} {
		f := q.Func(name)
		if f == nil {
			continue
		}
		// every return under 'len(src) == 0' in a tag case / every latch must carry ErrUnexpectedEOF
		eof, unexpected := 0, 0
		for _, b := range f.Blocks {
			for _, in := range b.Instrs {
				var v ssa.Value
				switch x := in.(type) {
				case *ssa.Return:
					if len(x.Results) > 0 {
						v = x.Results[len(x.Results)-1]
					}
				case *ssa.Store:
					if fa, ok := x.Addr.(*ssa.FieldAddr); ok && ssaq.FieldVar(fa) != nil && core.FieldName(ssaq.FieldVar(fa)) == "err" {
						v = x.Val
					}
				}
				if v == nil {
					continue
				}
				count := func(val ssa.Value) {
					if u, ok := val.(*ssa.UnOp); ok && u.Op == token.MUL {
						if g, ok := u.X.(*ssa.Global); ok {
							switch g.Name() {
							case "ErrUnexpectedEOF":
								unexpected++
							case "EOF":
								eof++
							}
						}
					}
				}
				if phi, ok := v.(*ssa.Phi); ok {
					for _, e := range phi.Edges {
						count(e)
					}
				} else {
					count(v)
				}
			}
		}
		key := name + " | truncation is io.ErrUnexpectedEOF"
		// (the number of such paths depends on how the two tag arms share code:
		// at least one per decoder must exist, and none may yield io.EOF)
		want := 2
		if strings.HasSuffix(name, "ReadWord") {
			want = 1
		}
		if unexpected >= want && eof == 0 {
			r.Ok(rule, key, q.Pos(f.Pos()), fmt.Sprintf("%d truncation paths return or latch io.ErrUnexpectedEOF; none yields io.EOF explicitly", unexpected))
		} else {
			r.Violation(rule, key, q.Pos(f.Pos()), fmt.Sprintf("expected at least %d truncation paths yielding io.ErrUnexpectedEOF and none yielding io.EOF; found %d and %d: a cut stream would be taken for a clean end or accepted", want, unexpected, eof))
		}
	}
}

var reLenGE = regexp.MustCompile(`^(\d+):int <= len\((.*)\)$`)
var reLenLT = regexp.MustCompile(`^len\((.*)\) < (\d+):int$`)

// maxOf computes an upper bound of an integer value by interval reasoning on
// straight-line code: constants, sums, conversions, x&c, x>>k&1, phis of those.
func maxOf(v ssa.Value, depth int) (int64, bool) {
	if depth > 40 {
		return 0, false
	}
	switch x := v.(type) {
	case *ssa.Const:
		return ssaq.ConstInt(x)
	case *ssa.Convert:
		if m, ok := maxOf(x.X, depth+1); ok {
			return m, true
		}
		if b, ok := x.X.Type().Underlying().(*types.Basic); ok && b.Kind() == types.Uint8 {
			return 255, true
		}
		return 0, false
	case *ssa.BinOp:
		switch x.Op {
		case token.ADD:
			a, ok1 := maxOf(x.X, depth+1)
			b, ok2 := maxOf(x.Y, depth+1)
			return a + b, ok1 && ok2
		case token.AND:
			if c, ok := ssaq.ConstInt(x.Y); ok {
				return c, true
			}
			if c, ok := ssaq.ConstInt(x.X); ok {
				return c, true
			}
		case token.MUL:
			a, ok1 := maxOf(x.X, depth+1)
			b, ok2 := maxOf(x.Y, depth+1)
			return a * b, ok1 && ok2
		}
	case *ssa.Phi:
		var m int64
		for _, e := range x.Edges {
			if e == ssa.Value(x) {
				continue
			}
			k, ok := maxOf(e, depth+1)
			if !ok {
				return 0, false
			}
			if k > m {
				m = k
			}
		}
		return m, true
	}
	return 0, false
}

// Named justifications for indexes whose bound needs more than the interval rule.
var indexExempt = map[string]string{}

// ruleIndexBounds: every index/slice of a byte slice in the given functions is
// within a length established by a dominating test (or is a range index).
func ruleIndexBounds(ctx *Ctx, rule string, funcs []string) {
	q := ssaq.For(ctx.Prog)
	r := ctx.Rep
	for _, name := range funcs {
		f := q.Func(name)
		if f == nil {
			r.Fail("%s: %s not found", rule, name)
			continue
		}
		k := 0
		for _, b := range f.Blocks {
			for _, in := range b.Instrs {
				var base, idx ssa.Value
				switch x := in.(type) {
				case *ssa.IndexAddr:
					base, idx = x.X, x.Index
				case *ssa.Index:
					base, idx = x.X, x.Index
				default:
					continue
				}
				// fixed-size arrays are bounds-checked statically by the compiler when the index is constant
				bt := base.Type().Underlying()
				if p, ok := bt.(*types.Pointer); ok {
					bt = p.Elem().Underlying()
				}
				k++
				key := fmt.Sprintf("%s | index #%d %s[%s]", name, k, ssaq.RenderValue(f, base), ssaq.RenderValue(f, idx))
				if len(key) > 150 {
					key = key[:150]
				}
				pos := q.Pos(ssaq.InstrPos(in))
				if why, ok := indexExempt[fmt.Sprintf("%s | index #%d", name, k)]; ok {
					r.Exempt(rule, key, pos, why)
					continue
				}
				if arr, ok := bt.(*types.Array); ok {
					if m, ok := maxOf(idx, 0); ok && m < arr.Len() {
						r.Ok(rule, key, pos, fmt.Sprintf("array of %d, index <= %d", arr.Len(), m))
						continue
					}
				}
				// range index
				if isRangeIndex(idx) {
					r.Ok(rule, key, pos, "index of a range loop over the same slice or a counted loop below its length")
					continue
				}
				m, okM := maxOf(idx, 0)
				if !okM {
					m, okM = loopCounterMax(idx, in)
				}
				baseS := ssaq.RenderValue(f, base)
				idxS := ssaq.RenderValue(f, idx)
				direct := false
				for _, a := range ssaq.DomAtoms(in) {
					if a == idxS+" < len("+baseS+")" {
						direct = true
					}
				}
				if direct {
					r.Ok(rule, key, pos, "dominated by index < len(slice) for this very index and slice")
					continue
				}
				minLen := int64(-1)
				for _, a := range ssaq.DomAtoms(in) {
					if mm := reLenGE.FindStringSubmatch(a); mm != nil && mm[2] == baseS {
						if v, _ := strconv.ParseInt(mm[1], 10, 64); v > minLen {
							minLen = v
						}
					}
					if a == "0:int != len("+baseS+")" || a == "0:int < len("+baseS+")" {
						if minLen < 1 {
							minLen = 1
						}
					}
				}
				// slices produced with a known length: allocWords result sub-slice of one word, make([]byte, n), Peek(n) after Buffered() >= n
				if minLen < 0 {
					minLen = knownLen(f, base, in)
				}
				if okM && minLen > m {
					r.Ok(rule, key, pos, fmt.Sprintf("index <= %d and len >= %d established on every path", m, minLen))
				} else {
					r.Violation(rule, key, pos, fmt.Sprintf("cannot bound the index (max %d, known: %v) below the slice length (known minimum %d): a crafted or truncated input can index out of range (guards: %s)", m, okM, minLen, strings.Join(ssaq.DomAtoms(in), " && ")))
				}
			}
		}
	}
}

// loopCounterMax: idx is the counter of "for i := c; i < K; i++" (K constant),
// used at an instruction inside the loop body: its value is at most K-1.
func loopCounterMax(idx ssa.Value, at ssa.Instruction) (int64, bool) {
	phi, ok := stripConv(idx).(*ssa.Phi)
	if !ok || len(phi.Edges) != 2 {
		return 0, false
	}
	step, init := false, false
	for _, e := range phi.Edges {
		if bo, isBin := e.(*ssa.BinOp); isBin && bo.Op == token.ADD && bo.X == ssa.Value(phi) {
			if c, isC := ssaq.ConstInt(bo.Y); isC && c == 1 {
				step = true
				continue
			}
		}
		if c, isC := ssaq.ConstInt(e); isC && c >= 0 {
			init = true
		}
	}
	head := phi.Block()
	iff, isIf := head.Instrs[len(head.Instrs)-1].(*ssa.If)
	if !step || !init || !isIf {
		return 0, false
	}
	lo, hi, ok := strictLess(iff.Cond, true)
	if !ok || lo != ssa.Value(phi) {
		return 0, false
	}
	k, isC := ssaq.ConstInt(hi)
	if !isC || !(head.Succs[0] == at.Block() || head.Succs[0].Dominates(at.Block())) {
		return 0, false
	}
	return k - 1, true
}

func isRangeIndex(idx ssa.Value) bool {
	switch x := idx.(type) {
	case *ssa.Phi:
		return strings.HasPrefix(x.Comment, "rangeindex") // the compiler's own index of "for i := range s"
	case *ssa.Extract:
		_, ok := x.Tuple.(*ssa.Next)
		return ok
	case *ssa.Convert:
		return isRangeIndex(x.X)
	}
	return false
}

// knownLen: minimum length of a slice value from its construction.
func knownLen(f *ssa.Function, base ssa.Value, at ssa.Instruction) int64 {
	switch x := base.(type) {
	case *ssa.Slice:
		// s[lo:hi] with constant distance, or array[:] of fixed size
		if x.Low != nil && x.High != nil {
			lo, hi := ssaq.RenderValue(f, x.Low), ssaq.RenderValue(f, x.High)
			if strings.HasPrefix(hi, "("+lo+" + ") || strings.HasPrefix(hi, "(8:int + "+lo) {
				return 8
			}
			if strings.HasSuffix(hi, " + "+lo+")") {
				return 8
			}
		}
		if x.Low == nil && x.High != nil {
			if c, ok := ssaq.ConstInt(x.High); ok {
				return c
			}
		}
		t := x.X.Type().Underlying()
		if p, ok := t.(*types.Pointer); ok {
			if arr, ok := p.Elem().Underlying().(*types.Array); ok && x.High == nil {
				return arr.Len()
			}
		}
	case *ssa.Extract:
		// b, _ := r.rd.Peek(n) dominated by !(Buffered() < n)
		if call, ok := x.Tuple.(*ssa.Call); ok && x.Index == 0 {
			if callee := call.Call.StaticCallee(); callee != nil && callee.Name() == "Peek" {
				if n, ok := ssaq.ConstInt(call.Call.Args[1]); ok {
					for _, a := range ssaq.DomAtoms(at) {
						if strings.HasPrefix(a, fmt.Sprintf("%d:int <= Buffered(", n)) {
							return n
						}
					}
				}
			}
		}
	}
	return -1
}
