package rules

import (
	"fmt"
	"go/ast"
	"go/types"
	"sort"
	"strings"
	"sync"

	"golang.org/x/tools/go/packages"

	"verifcheck/internal/core"
	"verifcheck/internal/flow"
)

// linearSem tracks, per variable of type capnp.Recv (parameters and the
// variables that closures capture), how many times its Returner has been
// consumed: r.Reject(..), r.Return(), r.Returner.Return(..), r (or
// r.Returner) passed on in a call, a go statement, a composite literal or an
// assignment. r.Args, r.Method, r.ReleaseArgs and r.AllocResults do not consume.
type linearSem struct {
	recvType types.Type
	classes  map[types.Object]int
	names    []string
	objs     []types.Object
	lits     map[*ast.FuncLit]bool // literals whose body consumes: capturing them consumes
	info     map[*types.Info]bool
}

func (s *linearSem) class(o types.Object) int {
	if id, ok := s.classes[o]; ok {
		return id
	}
	id := len(s.names)
	s.classes[o] = id
	s.objs = append(s.objs, o)
	s.names = append(s.names, "recv:"+o.Name())
	return id
}
func (s *linearSem) ClassName(c int) string {
	if c < len(s.names) {
		return s.names[c]
	}
	return fmt.Sprintf("class%d", c)
}
func (s *linearSem) Call(info *types.Info, call *ast.CallExpr) ([]flow.Effect, bool) {
	return nil, false
}
func (s *linearSem) Assign(info *types.Info, lhs, rhs ast.Expr) []flow.Effect { return nil }
func (s *linearSem) NoReturn(info *types.Info, call *ast.CallExpr) bool       { return false }

func (s *linearSem) isRecvVar(info *types.Info, id *ast.Ident) types.Object {
	o := info.Uses[id]
	v, ok := o.(*types.Var)
	if !ok || v.IsField() {
		return nil
	}
	if !types.Identical(v.Type(), s.recvType) {
		return nil
	}
	return v
}

// consumptions lists the Recv variables whose returner is consumed by node n.
// Function literals are not entered, except that a literal whose body
// consumes r consumes r where it is created (go/defer/stored closure).
func (s *linearSem) consumptions(info *types.Info, n ast.Node) map[types.Object]int {
	out := map[types.Object]int{}
	nonConsuming := map[string]bool{"Args": true, "Method": true, "ReleaseArgs": true, "AllocResults": true}
	var walk func(n ast.Node)
	walk = func(n ast.Node) {
		ast.Inspect(n, func(m ast.Node) bool {
			switch x := m.(type) {
			case *ast.FuncLit:
				for o, k := range s.litConsumes(info, x) {
					if k > 0 {
						out[o]++
					}
				}
				return false
			case *ast.SelectorExpr:
				if id, ok := ast.Unparen(x.X).(*ast.Ident); ok {
					if o := s.isRecvVar(info, id); o != nil {
						if !nonConsuming[x.Sel.Name] {
							out[o]++ // r.Reject, r.Return, r.Returner
						}
						return false
					}
				}
			case *ast.CallExpr:
				// r.Returner.AllocResults(..) does not consume
				if sel, ok := ast.Unparen(x.Fun).(*ast.SelectorExpr); ok && sel.Sel.Name == "AllocResults" {
					for _, a := range x.Args {
						walk(a)
					}
					return false
				}
				// r.Returner passed where the parameter type cannot Return (e.g. an
				// interface with AllocResults only) does not hand over the duty to return.
				if sig, ok := info.TypeOf(x.Fun).(*types.Signature); ok {
					walk(x.Fun)
					for i, a := range x.Args {
						if sel, ok := ast.Unparen(a).(*ast.SelectorExpr); ok && sel.Sel.Name == "Returner" && i < sig.Params().Len() {
							if id, ok := ast.Unparen(sel.X).(*ast.Ident); ok && s.isRecvVar(info, id) != nil {
								pt := sig.Params().At(i).Type()
								if m, _, _ := types.LookupFieldOrMethod(pt, true, nil, "Return"); m == nil {
									continue
								}
							}
						}
						walk(a)
					}
					return false
				}
			case *ast.Ident:
				if o := s.isRecvVar(info, x); o != nil {
					out[o]++ // r used as a value: passed on or stored
				}
			}
			return true
		})
	}
	walk(n)
	return out
}

func (s *linearSem) litConsumes(info *types.Info, lit *ast.FuncLit) map[types.Object]int {
	out := map[types.Object]int{}
	for _, st := range lit.Body.List {
		for o, k := range s.consumptions(info, st) {
			out[o] += k
		}
	}
	// only captured variables count (not the literal's own parameters)
	for o := range out {
		if o.Pos() >= lit.Pos() && o.Pos() < lit.End() {
			delete(out, o)
		}
	}
	return out
}

func (s *linearSem) Node(info *types.Info, n ast.Node) []flow.Effect {
	// Declarations of the variable itself (parameters) are not nodes; an
	// assignment that defines a Recv variable (r := capnp.Recv{...}) is not a
	// consumption of that variable.
	var effs []flow.Effect
	cons := s.consumptions(info, n)
	if as, ok := n.(*ast.AssignStmt); ok {
		for _, l := range as.Lhs {
			if id, ok := l.(*ast.Ident); ok {
				if o := info.ObjectOf(id); o != nil {
					delete(cons, o)
				}
			}
		}
	}
	var objs []types.Object
	for o := range cons {
		objs = append(objs, o)
	}
	sort.Slice(objs, func(i, j int) bool { return objs[i].Pos() < objs[j].Pos() })
	for _, o := range objs {
		effs = append(effs, flow.Effect{C: s.class(o), N: 1}) // one consumption per statement
	}
	return effs
}

var (
	linMu    sync.Mutex
	linCache = map[*core.Prog]*linearResult{}
)

type linearResult struct {
	sem *linearSem
	eng *flow.Engine
}

func linearAnalysis(ctx *Ctx) *linearResult {
	linMu.Lock()
	defer linMu.Unlock()
	if r := linCache[ctx.Prog]; r != nil {
		return r
	}
	capnpPkg := ctx.Prog.Pkg("")
	obj := capnpPkg.Types.Scope().Lookup("Recv")
	if obj == nil {
		ctx.Rep.Fail("anchor type capnp.Recv not found")
		return nil
	}
	sem := &linearSem{recvType: obj.Type(), classes: map[types.Object]int{}}
	var pkgs []*packages.Package
	for _, rel := range []string{"", "rpc", "server"} {
		pkgs = append(pkgs, ctx.Prog.Pkg(rel))
	}
	eng := flow.NewEngine(sem, pkgs)
	eng.MaxCount = 3
	eng.NoSummaries = true
	eng.Run()
	res := &linearResult{sem: sem, eng: eng}
	linCache[ctx.Prog] = res
	return res
}

// Units whose loop-based delivery is judged by a dedicated sub-rule.
var linearLoopUnits = map[string]string{}

// ruleRecvLinear: every unit that has a capnp.Recv parameter, or captures one
// and consumes it on some path, consumes its Returner exactly once on every
// path to a return.
func ruleRecvLinear(ctx *Ctx, rule string, scope func(unitName string) bool) {
	lr := linearAnalysis(ctx)
	if lr == nil {
		return
	}
	r := ctx.Rep
	us := append([]*flow.Unit{}, lr.eng.Units...)
	sort.Slice(us, func(i, j int) bool { return us[i].Pos < us[j].Pos })
	for _, u := range us {
		if !scope(u.Name) {
			continue
		}
		info := u.Pkg.TypesInfo
		// tracked variables: own parameters of type Recv, and captured Recv variables
		// for which some exit has a non-zero count.
		tracked := map[types.Object]string{}
		if u.Type.Params != nil {
			for _, fl := range u.Type.Params.List {
				for _, nm := range fl.Names {
					if o := info.Defs[nm]; o != nil && types.Identical(o.Type(), lr.sem.recvType) && nm.Name != "_" {
						tracked[o] = "parameter " + nm.Name
					}
				}
			}
		}
		for _, x := range u.Exits {
			for c, v := range x.D {
				if v != 0 && c < len(lr.sem.objs) {
					o := lr.sem.objs[c]
					if _, own := tracked[o]; !own && !(o.Pos() >= u.Body.Pos() && o.Pos() < u.Body.End()) {
						tracked[o] = "captured " + o.Name()
					}
				}
			}
		}
		for o, what := range tracked {
			c := lr.sem.class(o)
			key := fmt.Sprintf("%s | %s consumed exactly once", u.Name, what)
			pos := ctx.Prog.Rel(u.Pos)
			if len(u.Overflow) > 0 {
				r.Violation(rule, key, pos, "the Returner can be consumed an unbounded number of times (a consumption inside a loop): "+strings.Join(u.Overflow, "; "))
				continue
			}
			bad := false
			for _, x := range u.Exits {
				if x.D[c] != 1 {
					bad = true
					r.Violation(rule, key, ctx.Prog.Rel(x.Pos), fmt.Sprintf("on this path the call's Returner is consumed %d time(s) (Reject/Return/passed on/stored); Returner.Return 'must be called once'", x.D[c]), x.Trace...)
					break
				}
			}
			if !bad {
				r.Ok(rule, key, pos, fmt.Sprintf("consumed exactly once on each of %d exits", len(u.Exits)))
			}
		}
	}
}
