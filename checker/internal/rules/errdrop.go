package rules

import (
	"fmt"
	"go/token"
	"go/types"
	"strings"

	"golang.org/x/tools/go/ssa"

	"verifcheck/internal/ssaq"
)

// ruleErrorsNotDropped: in the functions of the given packages (optionally
// filtered), every call of a callee selected by want whose last result is an
// error must use that error (test it, return it, pass it on). exempt lists
// "caller | callee" pairs with a reason.
func ruleErrorsNotDropped(ctx *Ctx, rule string, pkgs []string, callerOK func(string) bool, want func(callee string) bool, exempt map[string]string) {
	q := ssaq.For(ctx.Prog)
	r := ctx.Rep
	n := 0
	for _, f := range q.FuncsIn(pkgs...) {
		name := ssaq.FuncName(f)
		if callerOK != nil && !callerOK(name) {
			continue
		}
		count := map[string]int{}
		for _, b := range f.Blocks {
			for _, in := range b.Instrs {
				ci, ok := in.(ssa.CallInstruction)
				if !ok {
					continue
				}
				cn := ssaq.StaticCalleeName(in)
				if cn == "" && ci.Common().IsInvoke() {
					cn = ssaq.InvokeName(in)
				}
				if cn == "" || !want(cn) {
					continue
				}
				sig := ci.Common().Signature()
				nres := sig.Results().Len()
				if nres == 0 || !isErrorType(sig.Results().At(nres-1).Type()) {
					continue
				}
				n++
				short := cn[strings.LastIndex(cn, ".")+1:]
				count[short]++
				key := fmt.Sprintf("%s | error of %s #%d", name, short, count[short])
				pos := q.Pos(ssaq.InstrPos(in))
				if why, ok := exempt[name+" | "+short]; ok {
					r.Exempt(rule, key, pos, why)
					continue
				}
				used := false
				v, isVal := in.(ssa.Value)
				if !isVal {
					// go/defer
					r.Violation(rule, key, pos, "the call is deferred or started as a goroutine: its error cannot be observed")
					continue
				}
				refs := v.Referrers()
				if refs != nil {
					for _, ref := range *refs {
						if nres == 1 {
							if _, isDbg := ref.(*ssa.DebugRef); !isDbg {
								used = true
							}
							continue
						}
						if ex, ok := ref.(*ssa.Extract); ok && ex.Index == nres-1 {
							for _, r2 := range *ex.Referrers() {
								if _, isDbg := r2.(*ssa.DebugRef); !isDbg {
									used = true
								}
							}
						}
						if _, ok := ref.(*ssa.Return); ok {
							used = true
						}
					}
				}
				if used {
					r.Ok(rule, key, pos, "the error is used")
				} else {
					r.Violation(rule, key, pos, "the error returned by "+cn+" is dropped: a failure (limit reached, allocation failed, unknown schema node) goes unnoticed and partial output is presented as complete")
				}
			}
		}
	}
	if n == 0 {
		r.Fail("%s: no call matched the dropped-error rule", rule)
	}
}

var _ = types.Universe

// flowsIntoXor: v (possibly through conversions) is an operand of an XOR.
func flowsIntoXor(v ssa.Value, depth int) bool {
	if depth > 3 || v.Referrers() == nil {
		return false
	}
	for _, ref := range *v.Referrers() {
		switch x := ref.(type) {
		case *ssa.BinOp:
			if x.Op == token.XOR {
				return true
			}
		case *ssa.Convert:
			if flowsIntoXor(x, depth+1) {
				return true
			}
		case *ssa.ChangeType:
			if flowsIntoXor(x, depth+1) {
				return true
			}
		}
	}
	return false
}
