package rules

import (
	"go/ast"
	"go/token"
	"go/types"
)

// ruleGateHeldUntilAckOrDone (C12-R2b): once the call goroutine is started, the
// delivery gate (Server.starting) is released only after the call acknowledged
// delivery or finished: every path from the go statement to `srv.starting = nil`
// passes a receive from one of the call's own channels (a local channel
// variable: ack, done). A path that gets there on some other event (the
// context's Done, a timer) lets the next call start while this one is still
// running without having acknowledged.
func ruleGateHeldUntilAckOrDone(ctx *Ctx, rule string) {
	a := lockAnalysis(ctx)
	if a == nil {
		return
	}
	starting := mustField(ctx, rule, "server", "Server", "starting")
	u := mustUnit(ctx, a, rule, "server.(*Server).start")
	if starting == nil || u == nil {
		return
	}
	info := u.Pkg.TypesInfo
	isGo := func(m ast.Node) bool { _, ok := m.(*ast.GoStmt); return ok }
	isClear := func(m ast.Node) bool {
		as, ok := m.(*ast.AssignStmt)
		return ok && len(as.Lhs) == 1 && fieldOfSel(info, as.Lhs[0]) == starting && isNil(as.Rhs[0])
	}
	isOwnRecv := func(m ast.Node) bool {
		ue, ok := m.(*ast.UnaryExpr)
		if !ok || ue.Op != token.ARROW {
			return false
		}
		id, ok := ast.Unparen(ue.X).(*ast.Ident)
		if !ok {
			return false
		}
		v, ok := info.ObjectOf(id).(*types.Var)
		if !ok || v.IsField() {
			return false
		}
		_, isChan := v.Type().Underlying().(*types.Chan)
		return isChan
	}
	_ = isGo
	_ = isClear
	key := "start | gate released only after the call acknowledged or finished"
	// (go/cfg evaluates the channel operands of all cases in the select's header
	// block, so the cases are told apart on the syntax tree.)
	var goPos token.Pos
	ast.Inspect(u.Body, func(m ast.Node) bool {
		if _, ok := m.(*ast.FuncLit); ok {
			return false
		}
		if g, ok := m.(*ast.GoStmt); ok {
			goPos = g.Pos()
		}
		return true
	})
	if !goPos.IsValid() {
		ctx.Rep.Violation(rule, key, ctx.Prog.Rel(u.Pos), "start no longer runs the call in its own goroutine")
		return
	}
	n, bad := 0, ""
	ast.Inspect(u.Body, func(m ast.Node) bool {
		if _, ok := m.(*ast.FuncLit); ok {
			return false
		}
		sel, ok := m.(*ast.SelectStmt)
		if !ok || sel.Pos() < goPos {
			return true
		}
		for _, c := range sel.Body.List {
			cc := c.(*ast.CommClause)
			n++
			okc := false
			switch x := cc.Comm.(type) {
			case *ast.ExprStmt:
				okc = isOwnRecv(ast.Unparen(x.X))
			case *ast.AssignStmt:
				if len(x.Rhs) == 1 {
					okc = isOwnRecv(ast.Unparen(x.Rhs[0]))
				}
			}
			if !okc {
				if cc.Comm == nil {
					bad = "default"
				} else {
					bad = types.ExprString(commExpr(cc.Comm))
				}
			}
		}
		return true
	})
	pos := ctx.Prog.Rel(goPos)
	switch {
	case n == 0:
		ctx.Rep.Violation(rule, key, pos, "after starting the call goroutine, start no longer waits for the call's ack or completion before it releases the gate")
	case bad != "":
		ctx.Rep.Violation(rule, key, pos, "the wait that precedes the release of the delivery gate can also end on "+bad+", which is not one of the call's own channels (ack, done): the next call is admitted while this one is still running and has not acknowledged delivery, so calls reach the capability out of order")
	default:
		ctx.Rep.Ok(rule, key, pos, "every case of the wait after the go statement receives from a local channel of the call (ack or done)")
	}
}

func commExpr(s ast.Stmt) ast.Expr {
	switch x := s.(type) {
	case *ast.ExprStmt:
		return x.X
	case *ast.AssignStmt:
		if len(x.Rhs) == 1 {
			return x.Rhs[0]
		}
	case *ast.SendStmt:
		return x.Chan
	}
	return &ast.Ident{Name: "?"}
}
