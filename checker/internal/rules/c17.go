package rules

import (
	"fmt"
	"strings"

	"golang.org/x/tools/go/ssa"

	"verifcheck/internal/ssaq"
)

func init() {
	extraLemmaFuncs = append(extraLemmaFuncs, "capnp.(*Client).IsSame")
	Register(&Spec{
		ID:          "C17",
		Explanation: "Decides necessary conditions of Equal being the documented structural equality: (R1) a byte extent of a list computed as element size * length is used only where the list is known not to be a bit list (bit lists have element size zero and need bitListSize or bitwise comparison); (R2) coverage of the cases: structs compare the common data prefix and require the longer tail to be zero on either side, compare the common pointers recursively and require the extra pointers of either side to be null; lists require equal lengths, compare bit lists bit by bit under both bit-list flags, use the bytewise fast path only for non-bit, pointer-free lists of equal element size, and otherwise compare elements as structs; interfaces end in Client.IsSame; (R3) the error of every recursive call is propagated. (R2z) isZeroFilled answers true only after a byte-granular scan of the whole slice; (R2i) a result of Equal depends on two capability indexes being equal only where the two pointers are known to be in the same message. (R2s) Client.IsSame has its confirmed normal form (identity of the resolved hooks only); (R2p) the hook Client.peek hands to IsSame is the result of resolveHook, not the hook read before the resolution chain was advanced; (R4n) the deep copy that a value must be equal to overwrites every common pointer slot, whether or not the source pointer is null. (R3v) in Equal the value of Struct.Ptr is used only where its error was tested; (R3e) a detected error is not lost in Equal or in the deep copy. Does NOT decide iff-correctness, reflexivity or symmetry as value-level facts.",
		Run:         runC17,
	})
}

var equalSpecs = []anchorSpec{
	{"capnp.Equal", "capnp.isZeroFilled", 1, []string{"slice(s2.seg, s2.off, s2.size.DataSize)[len(slice(s1.seg, s1.off, s1.size.DataSize)):]"},
		[]string{"len(slice(s1.seg, s1.off, s1.size.DataSize)) < len(slice(s2.seg, s2.off, s2.size.DataSize))"}, "longer second struct: its extra data must be zero"},
	{"capnp.Equal", "capnp.isZeroFilled", 2, []string{"slice(s1.seg, s1.off, s1.size.DataSize)[len(slice(s2.seg, s2.off, s2.size.DataSize)):]"},
		[]string{"len(slice(s2.seg, s2.off, s2.size.DataSize)) < len(slice(s1.seg, s1.off, s1.size.DataSize))"}, "longer first struct: its extra data must be zero"},
	{"capnp.Equal", "bytes.Equal", 1, []string{"slice(s1.seg, s1.off, s1.size.DataSize)", "slice(s2.seg, s2.off, s2.size.DataSize)[:len(slice(s1.seg, s1.off, s1.size.DataSize))]"}, nil, "common data prefix compared (first shorter)"},
	{"capnp.Equal", "bytes.Equal", 2, []string{"slice(s1.seg, s1.off, s1.size.DataSize)[:len(slice(s2.seg, s2.off, s2.size.DataSize))]", "slice(s2.seg, s2.off, s2.size.DataSize)"}, nil, "common data prefix compared (second shorter)"},
	{"capnp.Equal", "bytes.Equal", 3, []string{"slice(s1.seg, s1.off, s1.size.DataSize)", "slice(s2.seg, s2.off, s2.size.DataSize)"}, nil, "equal-sized data sections compared whole"},
	{"capnp.Equal", "capnp.Equal", 1, []string{"Ptr(s1, uint16(phi))#0", "Ptr(s2, uint16(phi))#0"}, []string{"Ptr(s1, uint16(phi))#1 == nil", "Ptr(s2, uint16(phi))#1 == nil"}, "common pointers compared recursively"},
	{"capnp.Equal", "capnp.(Struct).HasPtr", 1, []string{"s1", "uint16(phi)"}, []string{"phi < int(s1.size.PointerCount)"}, "extra pointers of the first struct must be null"},
	{"capnp.Equal", "capnp.(Struct).HasPtr", 2, []string{"s2", "uint16(phi)"}, []string{"phi < int(s2.size.PointerCount)"}, "extra pointers of the second struct must be null"},
	{"capnp.Equal", "capnp.(BitList).At", 1, []string{"b1", "phi"}, []string{"(2:listFlags & l1.flags) != 0:listFlags", "(2:listFlags & l2.flags) != 0:listFlags", "Len(l1) == Len(l2)"}, "bit lists compared bit by bit, only bit list against bit list"},
	{"capnp.Equal", "capnp.(BitList).At", 2, []string{"b2", "phi"}, []string{"(2:listFlags & l1.flags) != 0:listFlags", "(2:listFlags & l2.flags) != 0:listFlags"}, "bit lists compared bit by bit (second operand)"},
	{"capnp.Equal", "bytes.Equal", 4, []string{"slice(l1.seg, l1.off, times(totalSize(l1.size), l1.length)#0)", "slice(l2.seg, l2.off, times(totalSize(l1.size), l1.length)#0)"},
		[]string{"(2:listFlags & l1.flags) == 0:listFlags", "(2:listFlags & l2.flags) == 0:listFlags", "0:uint16 == l1.size.PointerCount", "0:uint16 == l2.size.PointerCount", "Len(l1) == Len(l2)", "l1.size.DataSize == l2.size.DataSize"},
		"bytewise fast path only for non-bit, pointer-free lists of equal length and element size"},
	{"capnp.Equal", "capnp.Equal", 2, []string{"ToPtr(Struct(l1, phi))", "ToPtr(Struct(l2, phi))"}, []string{"Len(l1) == Len(l2)", "phi < Len(l1)"}, "other lists compared element-wise as structs"},
	{"capnp.Equal", "capnp.(*Client).IsSame", 1, []string{"Client(Interface(p0))", "Client(Interface(p1))"}, []string{"2:int == ptrType(p0.flags)"}, "capabilities compared by identity"},
}

func runC17(ctx *Ctx) {
	if ctx.Primary {
		ruleKernelLemmas(ctx, "C17-R2s", []string{"capnp.(*Client).IsSame"})
	}
	ruleIfaceIndexSameMessage(ctx, "C17-R2i")
	ruleFullScan(ctx, "C17-R2z", "capnp.isZeroFilled")
	ruleBitListExtent(ctx, "C17-R1")
	ruleAnchorSpecs(ctx, "C17-R2", equalSpecs)
	ruleRecursiveErrors(ctx, "C17-R3", "capnp.Equal")
	ruleEqualEntry(ctx, "C17-R2e")
	rulePeekReturnsResolvedHook(ctx, "C17-R2p")
	// "a value always equals its deep copy": the copy overwrites every common
	// pointer slot, null ones included (shared with C16-R3n)
	ruleCopyNullPointersToo(ctx, "C17-R4n")
	ruleCheckedResultsIn(ctx, "C17-R3v", func(n string) bool { return n == "capnp.Equal" })
	// "a value equals its deep copy": the copy either completes or fails
	ruleDetectedErrorNotLost(ctx, "C17-R3e", func(n string) bool { return n == "capnp.Equal" || copyScope(n) }, detectedErrorExempt)
	r := ctx.Rep
	r.Floor("C17-R1", 2)
	r.Floor("C17-R2", 13)
	r.Floor("C17-R3", 2)
}

// ruleBitListExtent is C17-R1.
func ruleBitListExtent(ctx *Ctx, rule string) {
	q := ssaq.For(ctx.Prog)
	r := ctx.Rep
	exempt := map[string]string{
		"capnp.(List).readSize": "readSize over-charges bit lists (element size 0 is charged as one word per element): conservative for the traversal limit",
	}
	n := 0
	for _, f := range q.FuncsIn("") {
		name := ssaq.FuncName(f)
		k := 0
		for _, a := range ssaq.Anchors(f) {
			if a.Callee != "capnp.(Size).times" || len(a.Args) != 2 {
				continue
			}
			if !strings.HasPrefix(a.Args[0], "totalSize(") || !strings.HasSuffix(a.Args[1], ".length") {
				continue
			}
			obj := strings.TrimSuffix(a.Args[1], ".length")
			if a.Args[0] != "totalSize("+obj+".size)" {
				continue
			}
			n++
			k++
			key := fmt.Sprintf("%s | byte extent of list %s #%d", name, obj, k)
			pos := q.Pos(ssaq.InstrPos(a.Instr))
			if why, ok := exempt[name]; ok {
				r.Exempt(rule, key, pos, why)
				continue
			}
			okFlag := false
			for _, at := range a.Atoms {
				if at == "(2:listFlags & "+obj+".flags) == 0:listFlags" {
					okFlag = true
				}
			}
			if okFlag {
				r.Ok(rule, key, pos, "computed only where the list is known not to be a bit list")
			} else {
				r.Violation(rule, key, pos, "element size * length is used as the byte extent of a list that may be a bit list (element size 0): the extent is 0 bytes, so different bit lists look identical and nothing is copied")
			}
		}
	}
	if n == 0 {
		r.Fail("%s: no size*length extent found", rule)
	}
}

// ruleRecursiveErrors: the error result of every recursive call is tested and returned.
func ruleRecursiveErrors(ctx *Ctx, rule, fn string) {
	q := ssaq.For(ctx.Prog)
	r := ctx.Rep
	f := q.Func(fn)
	if f == nil {
		r.Fail("%s: %s not found", rule, fn)
		return
	}
	k := 0
	for _, b := range f.Blocks {
		for _, in := range b.Instrs {
			call, ok := in.(*ssa.Call)
			if !ok || ssaq.StaticCalleeName(call) != fn {
				continue
			}
			k++
			key := fmt.Sprintf("%s | recursive call #%d propagates its error", fn, k)
			used := false
			for _, ref := range *call.Referrers() {
				if ex, ok := ref.(*ssa.Extract); ok && isErrorType(ex.Type()) && len(*ex.Referrers()) > 0 {
					for _, r2 := range *ex.Referrers() {
						switch r2.(type) {
						case *ssa.Return, *ssa.BinOp, *ssa.Phi, *ssa.Call:
							used = true
						}
					}
				}
			}
			if used {
				r.Ok(rule, key, q.Pos(ssaq.InstrPos(call)), "error result is tested/returned")
			} else {
				r.Violation(rule, key, q.Pos(ssaq.InstrPos(call)), "the error of the recursive call is dropped: a depth/traversal-limit failure below would be reported as 'equal' or 'not equal'")
			}
		}
	}
	if k == 0 {
		r.Fail("%s: no recursive call in %s", rule, fn)
	}
}

// ruleEqualEntry: null and type dispatch at the top of Equal. Each clause is a
// constant result returned under a set of conditions; a return satisfies the
// clause when its dominating conditions (or, for a return reached through
// "a || b", the conditions of one entering edge) include them. Conditions
// written with the source names of locals are compared in the name-free form.
func ruleEqualEntry(ctx *Ctx, rule string) {
	q := ssaq.For(ctx.Prog)
	r := ctx.Rep
	const fn = "capnp.Equal"
	f := q.Func(fn)
	if f == nil {
		return
	}
	type retInfo struct {
		val             string
		named, resolved map[string]bool
	}
	var rets []retInfo
	add := func(val string, named, resolved []string) {
		ri := retInfo{val: val, named: map[string]bool{}, resolved: map[string]bool{}}
		for _, a := range named {
			ri.named[a] = true
		}
		for _, a := range resolved {
			ri.resolved[a] = true
		}
		rets = append(rets, ri)
	}
	for _, b := range f.Blocks {
		for _, in := range b.Instrs {
			ret, ok := in.(*ssa.Return)
			if !ok || len(ret.Results) != 2 {
				continue
			}
			c, isC := ret.Results[0].(*ssa.Const)
			if !isC || c.Value == nil {
				continue
			}
			dn, dr := ssaq.DomAtoms(ret), ssaq.DomAtomsR(ret)
			add(c.Value.String(), dn, dr)
			// a return reached through `a || b`: the conditions of each entering edge
			for _, p := range b.Preds {
				if ifi, ok := p.Instrs[len(p.Instrs)-1].(*ssa.If); ok {
					for k, s := range p.Succs {
						if s == b {
							add(c.Value.String(),
								append(append([]string{}, ssaq.DomAtoms(ifi)...), strings.Split(ssaq.RenderCond(f, ifi.Cond, k == 0), " && ")...),
								append(append([]string{}, ssaq.DomAtomsR(ifi)...), strings.Split(ssaq.RenderCondR(f, ifi.Cond, k == 0), " && ")...))
						}
					}
				}
			}
		}
	}
	type clause struct {
		what, val string
		atoms     []string
	}
	for _, cl := range []clause{
		{"null equals null", "true", []string{"!IsValid(p0)", "!IsValid(p1)"}},
		{"different pointer kinds differ", "false", []string{"IsValid(p0)", "IsValid(p1)", "ptrType(p0.flags) != ptrType(p1.flags)"}},
		{"lists of different length differ", "false", []string{"1:int == ptrType(p0.flags)", "IsValid(p0)", "IsValid(p1)", "Len(l1) != Len(l2)", "ptrType(p0.flags) == ptrType(p1.flags)"}},
	} {
		key := fn + " | " + cl.what
		found := false
		for _, ri := range rets {
			if ri.val != cl.val {
				continue
			}
			all := true
			for _, a := range cl.atoms {
				if wx, full := expandWant(fn, a); full {
					all = all && ri.resolved[wx]
				} else {
					all = all && ri.named[a]
				}
			}
			if all {
				found = true
			}
		}
		w := cl.val + " <= " + strings.Join(cl.atoms, " && ")
		if found {
			r.Ok(rule, key, q.Pos(f.Pos()), w)
		} else {
			r.Violation(rule, key, q.Pos(f.Pos()), "no return of the form "+w)
		}
	}
	// null vs non-null
	nn := false
	for _, ri := range rets {
		if ri.val == "false" && (ri.named["!IsValid(p0)"] || ri.named["!IsValid(p1)"]) {
			nn = true
		}
	}
	if nn {
		r.Ok(rule, "capnp.Equal | null differs from non-null", q.Pos(f.Pos()), "a false return under exactly one invalid pointer")
	} else {
		r.Violation(rule, "capnp.Equal | null differs from non-null", q.Pos(f.Pos()), "no false return for null against non-null")
	}
}
