package rules

import (
	"fmt"
	"go/ast"
	"go/token"
	"go/types"
	"path/filepath"
	"sort"
	"strings"
	"sync"

	"golang.org/x/tools/go/types/typeutil"

	"verifcheck/internal/core"
	"verifcheck/internal/flow"
	"verifcheck/internal/locks"
)

var (
	lockMu    sync.Mutex
	lockCache = map[*core.Prog]*locks.Analysis{}
)

func lockAnalysis(ctx *Ctx) *locks.Analysis {
	lockMu.Lock()
	defer lockMu.Unlock()
	if a := lockCache[ctx.Prog]; a != nil {
		return a
	}
	a, err := locks.Run(ctx.Prog)
	if err != nil {
		ctx.Rep.Fail("lock analysis: %v", err)
		return nil
	}
	lockCache[ctx.Prog] = a
	for _, rel := range []string{"", "rpc", "server"} {
		if pk := ctx.Prog.Pkg(rel); pk != nil {
			registerFieldCopies(pk)
		}
	}
	return a
}

// unitFile returns the repo-relative file of a unit.
func unitFile(ctx *Ctx, u *flow.Unit) string {
	f := ctx.Prog.Fset.Position(u.Pos).Filename
	if r, err := filepath.Rel(ctx.Prog.Dir, f); err == nil {
		return r
	}
	return f
}

// fileScope builds a unit filter from repo-relative file names.
func fileScope(ctx *Ctx, files ...string) func(*flow.Unit) bool {
	set := map[string]bool{}
	for _, f := range files {
		set[f] = true
	}
	return func(u *flow.Unit) bool { return set[unitFile(ctx, u)] }
}

func allUnits(*flow.Unit) bool { return true }

// Functions that are documented to change the lock state for their caller.
// Everything else must return with the locks it was entered with.
var lockTransferContracts = map[string]string{
	"rpc.(*Conn).shutdown":      "all=>{rpc.Conn.mu-1}",
	"rpc.(*Conn).tryLockSender": "cond[0] nil=>{rpc.Conn.sendCond+1} nonnil=>{}",
	"rpc.(*Conn).lockSender":    "all=>{rpc.Conn.sendCond+1}",
	"rpc.(*Conn).unlockSender":  "all=>{rpc.Conn.sendCond-1}",
	"capnp.resolveHook":         "cond[0] nil=>{capnp.clientHook.mu-1} nonnil=>{}",
}

func summaryString(a *locks.Analysis, s *flow.Summary) string {
	if s.CondIdx >= 0 {
		return fmt.Sprintf("cond[%d] nil=>%s nonnil=>%s", s.CondIdx, a.Eng.FmtDelta(s.Nil), a.Eng.FmtDelta(s.NonNil))
	}
	return "all=>" + a.Eng.FmtDelta(s.All)
}

// exitKey names an exit by the text of its return statement and its ordinal
// among the textually identical returns of the unit.
func exitKey(ctx *Ctx, u *flow.Unit, pos token.Pos) string {
	var rets []*ast.ReturnStmt
	ast.Inspect(u.Body, func(n ast.Node) bool {
		switch x := n.(type) {
		case *ast.FuncLit:
			return false
		case *ast.ReturnStmt:
			rets = append(rets, x)
		}
		return true
	})
	text := func(r *ast.ReturnStmt) string {
		var parts []string
		for _, e := range r.Results {
			parts = append(parts, types.ExprString(e))
		}
		s := "return " + strings.Join(parts, ", ")
		if len(s) > 70 {
			s = s[:70]
		}
		return s
	}
	for _, r := range rets {
		if r.Pos() == pos {
			t := text(r)
			ord := 0
			for _, r2 := range rets {
				if r2.Pos() <= pos && text(r2) == t {
					ord++
				}
			}
			return fmt.Sprintf("%s #%d", t, ord)
		}
	}
	return "end of function"
}

// ruleLockBalance is C09-R1/R2: every unit in scope returns with a lock state
// that is the same on all exits (or a function of one result's nil-ness, for
// the documented transfer functions), and entry points leave nothing held.
func ruleLockBalance(ctx *Ctx, rule string, scope func(*flow.Unit) bool) {
	a := lockAnalysis(ctx)
	if a == nil {
		return
	}
	r := ctx.Rep
	for _, u := range a.UnitsSorted() {
		if !scope(u) {
			continue
		}
		pos := ctx.Prog.Rel(u.Pos)
		for _, o := range u.Overflow {
			r.Undecided(rule, u.Name+" state-space", pos, "lock-state analysis did not converge: "+o)
		}
		s := u.Summary
		if s.Bad {
			// report each minority exit
			maj := s.All.Key()
			reported := map[string]bool{}
			for _, x := range u.Exits {
				if x.D.Key() == maj {
					continue
				}
				key := fmt.Sprintf("%s | %s | leaves %s", u.Name, exitKey(ctx, u, x.Pos), a.Eng.FmtDelta(x.D))
				if reported[key] {
					continue
				}
				reported[key] = true
				r.Violation(rule, key, ctx.Prog.Rel(x.Pos),
					fmt.Sprintf("return paths disagree on the lock state (%s); this exit leaves %s relative to entry, the others %s",
						s.BadWhy, a.Eng.FmtDelta(x.D), a.Eng.FmtDelta(s.All)), x.Trace...)
			}
			continue
		}
		want, isTransfer := lockTransferContracts[u.Name]
		got := summaryString(a, s)
		switch {
		case isTransfer:
			if got == want {
				r.Ok(rule, u.Name+" transfer", pos, "documented lock transfer "+got)
			} else {
				r.Violation(rule, u.Name+" transfer", pos, fmt.Sprintf("documented lock transfer is %q, code does %q", want, got))
			}
		case (s.CondIdx >= 0 || len(s.All) > 0) && u.Obj != nil && core.IsNewFunc(u.Obj):
			// a helper that did not exist on the reference tree: its net effect is
			// its summary, which is applied at each of its call sites, where the
			// balance of the calling function is judged
			r.Ok(rule, u.Name, pos, "new helper with net lock effect "+got+": accounted for at its call sites through its summary")
		case len(s.All) > 0 && s.CondIdx < 0 && (u.Kind == flow.KindDeferLit || u.Kind == flow.KindCallLit) && u.Parent != nil:
			// a function literal that its parent runs at a fixed point (deferred,
			// or called in place): its net effect is applied there, and the
			// parent's own balance is what is judged
			r.Ok(rule, u.Name, pos, "literal run by its parent ("+u.Parent.Name+") with net lock effect "+got+": accounted for in the parent through its summary")
		case s.CondIdx >= 0 || len(s.All) > 0:
			tr := []string{}
			if len(u.Exits) > 0 {
				tr = u.Exits[0].Trace
			}
			r.Violation(rule, u.Name+" | undocumented transfer "+got, pos,
				"function returns with a different lock state than it was entered with, and is not one of the documented transfer functions: "+got, tr...)
		default:
			r.Ok(rule, u.Name, pos, fmt.Sprintf("all %d exits restore the entry lock state", len(u.Exits)))
		}
	}
	for name := range lockTransferContracts {
		found := false
		for _, u := range a.Eng.Units {
			if u.Name == name {
				found = true
			}
		}
		if !found {
			r.Fail("%s: anchor %s (documented lock-transfer function) no longer exists", rule, name)
		}
	}
	r.Count("lock_classes", a.Sem.NumClasses())
	r.Count("units_analysed", len(a.Eng.Units))
	r.Count("cfg_states", a.Eng.States)
	r.Count("summary_rounds", a.Eng.Rounds)
}

// Requirement on the entry state of a function, from its "caller must (not)
// be holding" comment.
type lockReq struct {
	held []string
	free []string
}

var lockEntryContracts = map[string]lockReq{
	"capnp.(*Promise).isUnresolved":        {held: []string{"capnp.Promise.mu"}},
	"capnp.(*Promise).isPendingResolution": {held: []string{"capnp.Promise.mu"}},
	"capnp.(*Promise).isPendingJoin":       {held: []string{"capnp.Promise.mu"}},
	"capnp.(*Promise).isResolved":          {held: []string{"capnp.Promise.mu"}},
	"capnp.(*Promise).isJoined":            {held: []string{"capnp.Promise.mu"}},
	"capnp.(*Promise).resolution":          {held: []string{"capnp.Promise.mu"}},
	"capnp.(*Promise).resolve":             {held: []string{"capnp.Promise.mu"}},
	"capnp.(*Client).startCall":            {free: []string{"capnp.Client.mu"}},
	"capnp.resolveHook":                    {held: []string{"capnp.clientHook.mu"}},
	"capnp.(*Message).segment":             {held: []string{"capnp.Message.mu"}},
	"capnp.(*Message).setSegment":          {held: []string{"capnp.Message.mu"}},
	"capnp.(*Message).allocSegment":        {free: []string{"capnp.Message.mu"}},
	"rpc.(*Conn).newReturn":                {held: []string{"rpc.Conn.sendCond"}, free: []string{"rpc.Conn.mu"}},
	"rpc.(*answer).setPipelineCaller":      {free: []string{"rpc.Conn.mu", "rpc.Conn.sendCond"}},
	"rpc.(*answer).Return":                 {free: []string{"rpc.Conn.mu", "rpc.Conn.sendCond"}},
	"rpc.(*answer).sendReturn":             {held: []string{"rpc.Conn.mu", "rpc.Conn.sendCond"}},
	"rpc.(*answer).sendException":          {held: []string{"rpc.Conn.mu", "rpc.Conn.sendCond"}},
	"rpc.(*answer).destroy":                {held: []string{"rpc.Conn.mu"}},
	"rpc.(*Conn).releaseExport":            {held: []string{"rpc.Conn.mu"}},
	"rpc.(*Conn).sendCap":                  {held: []string{"rpc.Conn.mu"}},
	"rpc.(*Conn).fillPayloadCapTable":      {held: []string{"rpc.Conn.mu"}},
	"rpc.extractCapTable":                  {free: []string{"rpc.Conn.mu", "rpc.Conn.sendCond", "capnp.Promise.mu", "capnp.Client.mu", "capnp.clientHook.mu"}},
	"rpc.(*Conn).embargo":                  {held: []string{"rpc.Conn.mu"}},
	"rpc.(*Conn).addImport":                {held: []string{"rpc.Conn.mu"}},
	"rpc.(*Conn).newImportCallMessage":     {free: []string{"rpc.Conn.mu", "rpc.Conn.sendCond"}},
	"rpc.(*Conn).newQuestion":              {held: []string{"rpc.Conn.mu"}},
	"rpc.(*question).handleCancel":         {free: []string{"rpc.Conn.mu", "rpc.Conn.sendCond"}},
	"rpc.(*Conn).newPipelineCallMessage":   {free: []string{"rpc.Conn.mu", "rpc.Conn.sendCond"}},
	"rpc.(*question).mark":                 {held: []string{"rpc.Conn.mu"}},
	"rpc.(*Conn).shutdown":                 {held: []string{"rpc.Conn.mu"}},
	"rpc.(*Conn).recvCap":                  {held: []string{"rpc.Conn.mu"}},
	"rpc.(*Conn).recvPayload":              {held: []string{"rpc.Conn.mu"}},
	"rpc.(*Conn).startTask":                {held: []string{"rpc.Conn.mu"}},
	"rpc.(*Conn).sendMessage":              {held: []string{"rpc.Conn.mu"}, free: []string{"rpc.Conn.sendCond"}},
	"rpc.(*Conn).tryLockSender":            {held: []string{"rpc.Conn.mu"}, free: []string{"rpc.Conn.sendCond"}},
	"rpc.(*Conn).lockSender":               {held: []string{"rpc.Conn.mu"}, free: []string{"rpc.Conn.sendCond"}},
	"rpc.(*Conn).unlockSender":             {held: []string{"rpc.Conn.mu", "rpc.Conn.sendCond"}},
	"server.(*Server).nextID":              {held: []string{"server.Server.mu"}},
	"server.(*Server).hasOngoing":          {held: []string{"server.Server.mu"}},
}

// ruleLockContracts is C09-R3: every call site provides what the callee's
// "caller must (not) be holding" comment states (table frozen from the
// comments), checked on the absolute lock states propagated from entry points.
func ruleLockContracts(ctx *Ctx, rule string, scope func(name string) bool) {
	a := lockAnalysis(ctx)
	if a == nil {
		return
	}
	r := ctx.Rep
	byName := map[string]*flow.Unit{}
	for _, u := range a.Eng.Units {
		byName[u.Name] = u
	}
	var names []string
	for n := range lockEntryContracts {
		if scope(n) {
			names = append(names, n)
		}
	}
	sort.Strings(names)
	for _, name := range names {
		req := lockEntryContracts[name]
		u := byName[name]
		if u == nil {
			r.Fail("%s: anchor %s (function with a documented lock contract) no longer exists", rule, name)
			continue
		}
		ents := a.Abs.Entry[u]
		check := func(class string, wantHeld bool) {
			c := a.Sem.ClassByName(class)
			key := fmt.Sprintf("%s entered with %s %s", name, class, map[bool]string{true: "held", false: "free"}[wantHeld])
			if c < 0 {
				r.Fail("%s: lock class %s not found", rule, class)
				return
			}
			for _, d := range ents {
				if (d[c] >= 1) != wantHeld {
					r.Violation(rule, key, ctx.Prog.Rel(u.Pos),
						fmt.Sprintf("contract: %s must be %s on entry, but it can be entered with %s", class,
							map[bool]string{true: "held", false: "free"}[wantHeld], a.Eng.FmtDelta(d)),
						a.Abs.Path(a.Eng, u, d)...)
					return
				}
			}
			r.Ok(rule, key, ctx.Prog.Rel(u.Pos), fmt.Sprintf("holds in all %d entry states", len(ents)))
		}
		for _, c := range req.held {
			check(c, true)
		}
		for _, c := range req.free {
			check(c, false)
		}
	}
}

// ---------------------------------------------------------------------------
// Policy: what may not happen while a mutex is held.

type heldPolicy struct {
	// noDynamic: classes under which no application-provided code may run.
	noDynamic []string
	// noBlock: classes under which nothing may block.
	noBlock []string
	// noRelock: classes that must not be acquired while already held.
	noRelock []string
}

var defaultPolicy = heldPolicy{
	noDynamic: []string{"rpc.Conn.mu", "server.Server.mu", "capnp.Promise.mu", "capnp.Client.mu", "capnp.clientHook.mu",
		"server.answerQueue.mu", "server.structReturner.mu", "server.returnEmbargoer.mu"},
	noBlock:  []string{"rpc.Conn.mu", "server.Server.mu"},
	noRelock: []string{"rpc.Conn.mu", "server.Server.mu", "capnp.Client.mu", "capnp.Message.mu", "server.answerQueue.mu", "server.structReturner.mu", "server.returnEmbargoer.mu", "rpc.Conn.sendCond"},
}

// isModuleInterfaceMethod reports whether fn is a method of an interface
// declared in the repository.
func isModuleInterfaceMethod(fn *types.Func) bool {
	sig, ok := fn.Type().(*types.Signature)
	if !ok || sig.Recv() == nil {
		return false
	}
	if _, ok := sig.Recv().Type().Underlying().(*types.Interface); !ok {
		return false
	}
	return fn.Pkg() != nil && strings.HasPrefix(fn.Pkg().Path(), core.ModPath)
}

// dynamicCallee classifies a call as application-provided code. It returns a
// description, or "" when the callee is static, a builtin or a conversion.
func dynamicCallee(info *types.Info, call *ast.CallExpr) string {
	fun := ast.Unparen(call.Fun)
	if tv, ok := info.Types[fun]; ok && tv.IsType() {
		return "" // conversion
	}
	switch f := fun.(type) {
	case *ast.Ident:
		if _, ok := info.Uses[f].(*types.Builtin); ok {
			return ""
		}
	case *ast.FuncLit:
		return ""
	}
	callee := typeutil.Callee(info, call)
	switch fn := callee.(type) {
	case *types.Func:
		if isModuleInterfaceMethod(fn) {
			return "interface method " + core.FuncName(fn)
		}
		return ""
	case *types.Builtin:
		return ""
	}
	// call of a func-typed value
	t := info.TypeOf(fun)
	if t == nil {
		return ""
	}
	if n, ok := t.(*types.Named); ok && n.Obj().Pkg() != nil && n.Obj().Pkg().Path() == "context" && n.Obj().Name() == "CancelFunc" {
		return "" // context.CancelFunc: does not block or call back (documented use under mu)
	}
	if _, ok := t.Underlying().(*types.Signature); ok {
		if id, ok := fun.(*ast.Ident); ok && neverAssignedHook(info, id) {
			return "" // an unexported package-level hook that nothing in the module sets: always nil, the call is dead
		}
		return "func value " + types.ExprString(fun)
	}
	return ""
}

// hookProg is the program whose sources neverAssignedHook scans (set by the
// rules that classify dynamic calls).
var hookProg *core.Prog
var hookAssigned map[*types.Var]bool

// neverAssignedHook: id names an unexported package-level variable of func
// type declared without a value and never assigned (nor address-taken) in any
// non-test source of the module — or a local whose only definition copies
// such a variable. Such a hook is nil in every build of the library (tests can
// set it), so a call through it is dead code; it is not application-provided.
func neverAssignedHook(info *types.Info, id *ast.Ident) bool {
	if hookProg == nil {
		return false
	}
	if hookAssigned == nil {
		hookAssigned = map[*types.Var]bool{}
		for _, pk := range hookProg.ByPath {
			if pk.TypesInfo == nil {
				continue
			}
			pinfo := pk.TypesInfo
			mark := func(e ast.Expr) {
				if x, ok := ast.Unparen(e).(*ast.Ident); ok {
					if v, ok := pinfo.Uses[x].(*types.Var); ok {
						hookAssigned[v] = true
					}
				}
			}
			for _, file := range pk.Syntax {
				ast.Inspect(file, func(n ast.Node) bool {
					switch n := n.(type) {
					case *ast.AssignStmt:
						for _, l := range n.Lhs {
							mark(l)
						}
					case *ast.UnaryExpr:
						if n.Op == token.AND {
							mark(n.X)
						}
					case *ast.ValueSpec:
						if len(n.Values) > 0 {
							for _, nm := range n.Names {
								if v, ok := pinfo.Defs[nm].(*types.Var); ok {
									hookAssigned[v] = true
								}
							}
						}
					}
					return true
				})
			}
		}
	}
	v, ok := info.Uses[id].(*types.Var)
	if !ok {
		return false
	}
	isHook := func(v *types.Var) bool {
		return v.Pkg() != nil && v.Parent() == v.Pkg().Scope() && !v.Exported() && !hookAssigned[v] && strings.HasPrefix(v.Pkg().Path(), core.ModPath)
	}
	if isHook(v) {
		return true
	}
	// a local defined once as a copy of such a variable: hook := pkgHook
	if v.Parent() != nil && v.Pkg() != nil && v.Parent() != v.Pkg().Scope() {
		var src *types.Var
		defs := 0
		for _, pk := range hookProg.ByPath {
			if pk.Types != v.Pkg() {
				continue
			}
			for _, file := range pk.Syntax {
				if file.Pos() > v.Pos() || v.Pos() > file.End() {
					continue
				}
				ast.Inspect(file, func(n ast.Node) bool {
					as, ok := n.(*ast.AssignStmt)
					if !ok || len(as.Lhs) != len(as.Rhs) {
						return true
					}
					for i, l := range as.Lhs {
						lid, ok := l.(*ast.Ident)
						if !ok {
							continue
						}
						if pk.TypesInfo.Defs[lid] == v || pk.TypesInfo.Uses[lid] == v {
							defs++
							if rid, ok := ast.Unparen(as.Rhs[i]).(*ast.Ident); ok {
								src, _ = pk.TypesInfo.Uses[rid].(*types.Var)
							}
						}
					}
					return true
				})
			}
		}
		return defs == 1 && src != nil && isHook(src)
	}
	return false
}

// Named exemptions for dynamic calls under a lock.
var dynamicExempt = map[string]string{
	"interface method rpc.(ErrorReporter).ReportError": "documented: ReportError should be quick to return and should not use the Conn",
	"interface method capnp.(Arena).":                  "Arena is the message's memory provider (documented to be fast); it is called under Message.mu by design and does not call back into RPC state",
}

// policyExempt lists individual (site, mutex, acquirer) triples that are
// accepted, each with the reason taken from the code.
var policyExempt = map[string]string{
	"capnp.(*Future).Client | blocking receive (*Promise).joined | under rpc.Conn.mu taken in rpc.(*Conn).Bootstrap":   "Bootstrap calls q.p.Answer().Client() on the promise newQuestion created in the same critical section: it is unresolved and unpublished, so only the non-blocking isUnresolved branch can run",
	"capnp.(*Future).Client | blocking receive (*Promise).resolved | under rpc.Conn.mu taken in rpc.(*Conn).Bootstrap": "same: the promise is unresolved and unpublished (created by newQuestion under the same hold of Conn.mu)",
}

func rulePolicy(ctx *Ctx, rule string, scope func(*flow.Unit) bool, pol heldPolicy) {
	a := lockAnalysis(ctx)
	if a == nil {
		return
	}
	r := ctx.Rep
	if hookProg != ctx.Prog {
		hookProg, hookAssigned = ctx.Prog, nil
	}
	classIDs := func(names []string) []int {
		var out []int
		for _, n := range names {
			c := a.Sem.ClassByName(n)
			if c < 0 {
				r.Fail("%s: lock class %s not found", rule, n)
				continue
			}
			out = append(out, c)
		}
		return out
	}
	noDyn, noBlock, noRelock := classIDs(pol.noDynamic), classIDs(pol.noBlock), classIDs(pol.noRelock)

	type hit struct {
		d   flow.Delta
		c   int
		acq *flow.Unit
	}
	// heldAmong lists one hit per (class, acquirer) pair for which some
	// absolute state at n has the class held.
	heldAmong := func(u *flow.Unit, n ast.Node, classes []int) []hit {
		var hits []hit
		seen := map[string]bool{}
		for _, d := range a.Abs.At(u, n) {
			for _, c := range classes {
				if d[c] > 0 {
					acq := a.Eng.Acquirer(d, c)
					k := fmt.Sprintf("%d/%v", c, acq)
					if !seen[k] {
						seen[k] = true
						hits = append(hits, hit{d, c, acq})
					}
				}
			}
		}
		return hits
	}
	explain := func(u *flow.Unit, n ast.Node, bad flow.Delta) []string {
		for _, en := range a.Abs.Entry[u] {
			for _, rel := range u.Sites[n] {
				if a.Eng.FmtDelta(en.Add(rel)) == a.Eng.FmtDelta(bad) && sameAcq(a, en, bad) {
					tr := []string{fmt.Sprintf("state at site: entry %s + local %s", a.Eng.FmtDelta(en), a.Eng.FmtDelta(rel))}
					return append(tr, a.Abs.Path(a.Eng, u, en)...)
				}
			}
		}
		return nil
	}
	// judge emits the obligations of one site.
	judge := func(u *flow.Unit, n ast.Node, at ast.Node, key string, classes []int, msg string) {
		pos := ctx.Prog.Rel(at.Pos())
		if _, ok := u.Sites[n]; !ok {
			r.Exempt(rule, key, pos, "unreachable in the CFG")
			return
		}
		hits := heldAmong(u, n, classes)
		if len(hits) == 0 {
			r.Ok(rule, key, pos, fmt.Sprintf("none of the protected mutexes is held in any of the %d absolute states", len(a.Abs.At(u, n))))
			return
		}
		for _, h := range hits {
			acq := "?"
			if h.acq != nil {
				acq = h.acq.Name
			}
			k := fmt.Sprintf("%s | under %s taken in %s", key, a.Sem.ClassName(h.c), acq)
			if why, ok := policyExempt[k]; ok {
				r.Exempt(rule, k, pos, why)
				continue
			}
			r.Violation(rule, k, pos, fmt.Sprintf(msg, a.Sem.ClassName(h.c), a.Eng.FmtDelta(h.d)), explain(u, n, h.d)...)
		}
	}

	for _, u := range a.UnitsSorted() {
		if !scope(u) {
			continue
		}
		info := u.Pkg.TypesInfo
		ordinal := map[string]int{}
		mkKey := func(kind, what string) string {
			k := fmt.Sprintf("%s | %s %s", u.Name, kind, what)
			ordinal[k]++
			if ordinal[k] > 1 {
				return fmt.Sprintf("%s #%d", k, ordinal[k])
			}
			return k
		}
		commJudged := map[ast.Node]bool{}
		visit := func(n ast.Node) bool {
			switch x := n.(type) {
			case *ast.FuncLit:
				return false
			case *ast.SelectStmt:
				hasDefault := false
				var first ast.Node
				for _, c := range x.Body.List {
					cc := c.(*ast.CommClause)
					if cc.Comm == nil {
						hasDefault = true
					} else {
						if first == nil {
							first = cc.Comm
						}
						ast.Inspect(cc.Comm, func(m ast.Node) bool {
							commJudged[m] = true
							return true
						})
					}
				}
				if !hasDefault && first != nil {
					judge(u, first, x, mkKey("blocking", "select"), noBlock, "select without default may block while %s is held (%s)")
				}
			case *ast.UnaryExpr:
				if x.Op == token.ARROW && !commJudged[x] {
					key := mkKey("blocking", "receive "+canonExpr(u, x.X, 0))
					stmt := enclosingCFGNode(u, x)
					if stmt == nil {
						r.Exempt(rule, key, ctx.Prog.Rel(x.Pos()), "unreachable in the CFG")
					} else {
						judge(u, stmt, x, key, noBlock, "channel receive may block while %s is held (%s)")
					}
				}
			case *ast.CallExpr:
				if _, has := u.Sites[x]; !has {
					return true // unreachable, or argument of a go statement
				}
				if fn, ok := typeutil.Callee(info, x).(*types.Func); ok && fn.Pkg() != nil && fn.Pkg().Path() == "sync" && fn.Name() == "Wait" {
					judge(u, x, x, mkKey("blocking", types.ExprString(x.Fun)), noBlock, "Wait may block while %s is held (%s)")
				}
				if obj, delta, ok := locks.MutexOp(info, x); ok {
					c := a.Sem.ClassOf(obj)
					if delta > 0 {
						for _, nc := range noRelock {
							if nc == c {
								judge(u, x, x, mkKey("lock", a.Sem.ClassName(c)), []int{c}, "%s is acquired while it may already be held (%s): self-deadlock")
							}
						}
					} else {
						key := mkKey("unlock", a.Sem.ClassName(c))
						var bad flow.Delta
						for _, d := range a.Abs.At(u, x) {
							if d[c] <= 0 {
								bad = d
								break
							}
						}
						if bad != nil {
							r.Violation(rule, key, ctx.Prog.Rel(x.Pos()),
								fmt.Sprintf("%s is released in a state where it is not held (%s)", a.Sem.ClassName(c), a.Eng.FmtDelta(bad)), explain(u, x, bad)...)
						} else {
							r.Ok(rule, key, ctx.Prog.Rel(x.Pos()), "held in every state at this release")
						}
					}
				}
				if what := dynamicCallee(info, x); what != "" {
					key := mkKey("dynamic", what)
					exempted := false
					for prefix, why := range dynamicExempt {
						if strings.HasPrefix(what, prefix) {
							r.Exempt(rule, key, ctx.Prog.Rel(x.Pos()), why)
							exempted = true
							break
						}
					}
					if !exempted {
						judge(u, x, x, key, noDyn, "application-provided code may run while %s is held (%s)")
					}
				}
			}
			return true
		}
		ast.Inspect(u.Body, visit)
	}
}

// enclosingCFGNode finds the CFG node (statement or expression recorded in
// Sites) that contains x.
func enclosingCFGNode(u *flow.Unit, x ast.Node) ast.Node {
	var best ast.Node
	for n := range u.Sites {
		if _, isCall := n.(*ast.CallExpr); isCall {
			continue
		}
		if n.Pos() <= x.Pos() && x.End() <= n.End() {
			if best == nil || (n.End()-n.Pos()) < (best.End()-best.Pos()) {
				best = n
			}
		}
	}
	return best
}

// sameAcq: the acquirer tags carried by entry state en are all present in bad.
func sameAcq(a *locks.Analysis, en, bad flow.Delta) bool {
	for c := 0; c < a.Sem.NumClasses(); c++ {
		if ua := a.Eng.Acquirer(en, c); ua != nil && a.Eng.Acquirer(bad, c) != ua {
			return false
		}
	}
	return true
}

// ruleTransportOps is C09-R4c: creating, sending and releasing outbound
// transport messages requires the sender lock and forbids Conn.mu
// (rpc.go header comment, answer.sendMsg/releaseMsg field comments).
func ruleTransportOps(ctx *Ctx, rule string) {
	a := lockAnalysis(ctx)
	if a == nil {
		return
	}
	r := ctx.Rep
	cMu, cSend := a.Sem.ClassByName("rpc.Conn.mu"), a.Sem.ClassByName("rpc.Conn.sendCond")
	if cMu < 0 || cSend < 0 {
		r.Fail("%s: lock classes rpc.Conn.mu / rpc.Conn.sendCond not found", rule)
		return
	}
	rpcPkg := ctx.Prog.Pkg("rpc")
	sendMsgF, releaseMsgF := locks.FieldOf(rpcPkg, "answer", "sendMsg"), locks.FieldOf(rpcPkg, "answer", "releaseMsg")
	if sendMsgF == nil || releaseMsgF == nil {
		r.Fail("%s: anchor fields rpc.answer.sendMsg/releaseMsg not found", rule)
		return
	}
	isProducer := func(info *types.Info, call *ast.CallExpr) bool {
		fn, _ := typeutil.Callee(info, call).(*types.Func)
		if fn == nil {
			return false
		}
		n := core.FuncName(fn)
		return n == "rpc.(Transport).NewMessage" || n == "rpc.(*Conn).newReturn"
	}
	for _, u := range a.UnitsSorted() {
		if !strings.HasPrefix(u.Name, "rpc.") {
			continue
		}
		info := u.Pkg.TypesInfo
		// variables bound to results 1 and 2 of a producer call, in this unit or an enclosing one
		msgFuncs := map[types.Object]string{}
		for p := u; p != nil; p = p.Parent {
			ast.Inspect(p.Body, func(n ast.Node) bool {
				as, ok := n.(*ast.AssignStmt)
				if !ok || len(as.Rhs) != 1 || len(as.Lhs) != 4 {
					return true
				}
				call, ok := ast.Unparen(as.Rhs[0]).(*ast.CallExpr)
				if !ok || !isProducer(info, call) {
					return true
				}
				for i, role := range map[int]string{1: "send", 2: "release"} {
					if id, ok := as.Lhs[i].(*ast.Ident); ok && id.Name != "_" {
						if o := info.ObjectOf(id); o != nil {
							msgFuncs[o] = role
						}
					}
				}
				return true
			})
		}
		ordinal := map[string]int{}
		ast.Inspect(u.Body, func(n ast.Node) bool {
			if _, ok := n.(*ast.FuncLit); ok {
				return false
			}
			call, ok := n.(*ast.CallExpr)
			if !ok {
				return true
			}
			what := ""
			if fn, _ := typeutil.Callee(info, call).(*types.Func); fn != nil && core.FuncName(fn) == "rpc.(Transport).NewMessage" {
				what = "Transport.NewMessage"
			} else if id, ok := ast.Unparen(call.Fun).(*ast.Ident); ok {
				if role, ok := msgFuncs[info.ObjectOf(id)]; ok {
					what = role + " " + id.Name
				}
			} else if sel, ok := ast.Unparen(call.Fun).(*ast.SelectorExpr); ok {
				if o := info.Uses[sel.Sel]; o == sendMsgF {
					what = "answer.sendMsg"
				} else if o == releaseMsgF {
					what = "answer.releaseMsg"
				}
			}
			if what == "" {
				return true
			}
			key := fmt.Sprintf("%s | transport op %s", u.Name, what)
			ordinal[key]++
			if ordinal[key] > 1 {
				key = fmt.Sprintf("%s #%d", key, ordinal[key])
			}
			pos := ctx.Prog.Rel(call.Pos())
			states := a.Abs.At(u, call)
			if len(states) == 0 {
				r.Exempt(rule, key, pos, "unreachable in the CFG")
				return true
			}
			for _, d := range states {
				if d[cMu] > 0 {
					r.Violation(rule, key, pos, fmt.Sprintf("transport operation while rpc.Conn.mu may be held (%s)", a.Eng.FmtDelta(d)))
					return true
				}
			}
			if u.Name == "rpc.(*Conn).shutdown" || onlyReachedFrom(ctx, u.Name, "rpc.(*Conn).shutdown") {
				r.Exempt(rule, key, pos, "shutdown runs these after tasks.Wait(): 'shutdown is now the only task running, no need to acquire sender lock'; Conn.mu is not held")
				return true
			}
			for _, d := range states {
				if d[cSend] < 1 {
					r.Violation(rule, key, pos, fmt.Sprintf("transport operation without the sender lock (%s)", a.Eng.FmtDelta(d)))
					return true
				}
			}
			r.Ok(rule, key, pos, fmt.Sprintf("sender lock held and Conn.mu free in all %d states", len(states)))
			return true
		})
	}
}
