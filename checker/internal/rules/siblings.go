package rules

import (
	"fmt"
	"go/token"
	"regexp"
	"sort"
	"strconv"
	"strings"

	"golang.org/x/tools/go/ssa"

	"verifcheck/internal/ssaq"
)

// Schema type table from the encoding spec: schema.Type.Which ordinal ->
// accessor family and size in bytes (0 = bit, -1 = pointer slot).
type typeRow struct {
	name  string
	bytes int // 0 bit, -1 pointer, -2 void
}

var schemaTypeTable = map[int]typeRow{
	0: {"void", -2}, 1: {"bool", 0}, 2: {"int8", 1}, 3: {"int16", 2}, 4: {"int32", 4}, 5: {"int64", 8},
	6: {"uint8", 1}, 7: {"uint16", 2}, 8: {"uint32", 4}, 9: {"uint64", 8}, 10: {"float32", 4}, 11: {"float64", 8},
	12: {"text", -1}, 13: {"data", -1}, 14: {"list", -1}, 15: {"enum", 2}, 16: {"struct", -1}, 17: {"interface", -1}, 18: {"anyPointer", -1},
}

var reTypeCase = regexp.MustCompile(`^(\d+):schema\.Type_Which == Which\(`)
var reScaled = regexp.MustCompile(`^DataOffset\(\((\d+):uint32 \* (.*)\)\)$`)

// ruleSiblingTable: in every schema-driven field walker, each struct accessor
// call sits under the type case whose width and offset scale the schema type
// table prescribes.
func ruleSiblingTable(ctx *Ctx, rule string, funcs []string) {
	q := ssaq.For(ctx.Prog)
	r := ctx.Rep
	for _, name := range funcs {
		f := q.Func(name)
		if f == nil {
			r.Fail("%s: %s not found", rule, name)
			continue
		}
		seen := map[int]bool{}
		for _, a := range ssaq.Anchors(f) {
			if !strings.HasPrefix(a.Callee, "capnp.(Struct).") {
				continue
			}
			acc := strings.TrimPrefix(a.Callee, "capnp.(Struct).")
			width := -3
			switch {
			case acc == "Bit" || acc == "SetBit":
				width = 0
			case strings.HasPrefix(acc, "Uint") || strings.HasPrefix(acc, "SetUint"):
				n, _ := strconv.Atoi(strings.TrimPrefix(strings.TrimPrefix(acc, "Set"), "Uint"))
				width = n / 8
			case acc == "Ptr" || acc == "SetPtr" || acc == "HasPtr" || acc == "SetText" || acc == "SetNewText" || acc == "SetData" || acc == "SetTextFromBytes":
				width = -1
			default:
				continue
			}
			typ := -1
			for _, at := range a.Atoms {
				if m := reTypeCase.FindStringSubmatch(at); m != nil {
					typ, _ = strconv.Atoi(m[1])
				}
			}
			if typ < 0 {
				// accessor outside the type switch (e.g. the discriminant read): not a field access by type
				continue
			}
			seen[typ] = true
			row := schemaTypeTable[typ]
			key := fmt.Sprintf("%s | case %s uses %s #%d", name, row.name, acc, a.Ordinal)
			pos := q.Pos(ssaq.InstrPos(a.Instr))
			off := ""
			if len(a.Args) > 1 {
				off = a.Args[1]
			}
			scale := 1
			inner := off
			if m := reScaled.FindStringSubmatch(off); m != nil {
				scale, _ = strconv.Atoi(m[1])
				inner = m[2]
			}
			wantScale := row.bytes
			if row.bytes <= 0 {
				wantScale = 1
			}
			okOffset := strings.Contains(inner, "Offset(Slot(")
			switch {
			case width != row.bytes:
				r.Violation(rule, key, pos, fmt.Sprintf("schema type %s occupies %s but is accessed with %s: the field is read/written with the wrong width", row.name, sizeName(row.bytes), acc))
			case scale != wantScale:
				r.Violation(rule, key, pos, fmt.Sprintf("schema type %s has its slot offset in units of %d byte(s) but the accessor is given offset*%d (%s): a neighbouring field is accessed", row.name, wantScale, scale, off))
			case !okOffset:
				r.Violation(rule, key, pos, "the accessor's offset does not derive from the field's Slot().Offset(): "+off)
			default:
				r.Ok(rule, key, pos, fmt.Sprintf("%s with slot offset * %d", acc, scale))
			}
		}
		// every data/pointer type must have been seen (coverage of the switch)
		var missing []string
		for t, row := range schemaTypeTable {
			if row.bytes == -2 || t == 18 || t == 17 {
				continue
			}
			if !seen[t] {
				missing = append(missing, row.name)
			}
		}
		sort.Strings(missing)
		key := name + " | every schema type has an accessor case"
		if len(missing) == 0 {
			r.Ok(rule, key, q.Pos(f.Pos()), "all data and pointer types are handled by a case with a struct accessor")
		} else {
			r.Violation(rule, key, q.Pos(f.Pos()), "no accessor found for schema type(s) "+strings.Join(missing, ", ")+": fields of these types are not read/written")
		}
	}
}

func sizeName(b int) string {
	switch b {
	case 0:
		return "one bit"
	case -1:
		return "a pointer slot"
	case -2:
		return "nothing"
	}
	return fmt.Sprintf("%d byte(s)", b)
}

// ruleDefaultXor: data fields are combined with the schema default by XOR in
// every walker (bool: inequality).
func ruleDefaultXor(ctx *Ctx, rule string, funcs []string) {
	q := ssaq.For(ctx.Prog)
	r := ctx.Rep
	for _, name := range funcs {
		f := q.Func(name)
		if f == nil {
			continue
		}
		// every UintN accessor result must flow into an XOR (getter side) ; every SetUintN value must be an XOR (setter side)
		n, ok := 0, 0
		for _, b := range f.Blocks {
			for _, in := range b.Instrs {
				call, isCall := in.(*ssa.Call)
				if !isCall {
					continue
				}
				cn := ssaq.StaticCalleeName(call)
				if strings.HasPrefix(cn, "capnp.(Struct).Uint") {
					typ := -1
					for _, at := range ssaq.DomAtoms(call) {
						if m := reTypeCase.FindStringSubmatch(at); m != nil {
							typ, _ = strconv.Atoi(m[1])
						}
					}
					if typ < 0 {
						continue
					}
					n++
					if flowsIntoXor(call, 0) {
						ok++
					}
				}
				if strings.HasPrefix(cn, "capnp.(Struct).SetUint") {
					typ := -1
					for _, at := range ssaq.DomAtoms(call) {
						if m := reTypeCase.FindStringSubmatch(at); m != nil {
							typ, _ = strconv.Atoi(m[1])
						}
					}
					if typ < 0 {
						continue
					}
					n++
					v := call.Call.Args[2]
					for {
						if cv, isCv := v.(*ssa.Convert); isCv {
							v = cv.X
							continue
						}
						break
					}
					if bo, isBO := v.(*ssa.BinOp); isBO && bo.Op == token.XOR {
						ok++
					}
				}
			}
		}
		key := name + " | data fields are XORed with the schema default"
		if n > 0 && ok == n {
			r.Ok(rule, key, q.Pos(f.Pos()), fmt.Sprintf("all %d integer/float/enum accesses combine the stored bits with the default by XOR", n))
		} else {
			r.Violation(rule, key, q.Pos(f.Pos()), fmt.Sprintf("%d of %d integer/float/enum accesses do not XOR the stored bits with the schema default: fields with a non-zero default read or write the wrong value", n-ok, n))
		}
	}
}

// ruleUnionGuard: the field access (or group recursion) in a schema walker is
// reachable from the read of the field's discriminant value only through an
// edge that establishes dv == noDiscriminant or dv == the struct's discriminant.
func ruleUnionGuard(ctx *Ctx, rule string, fn string, fieldCalls []string) {
	q := ssaq.For(ctx.Prog)
	r := ctx.Rep
	f := q.Func(fn)
	if f == nil {
		r.Fail("%s: %s not found", rule, fn)
		return
	}
	var dv *ssa.Call
	for _, b := range f.Blocks {
		for _, in := range b.Instrs {
			if c, ok := in.(*ssa.Call); ok && strings.HasSuffix(ssaq.StaticCalleeName(c), "schema.(Field).DiscriminantValue") {
				dv = c
			}
		}
	}
	key := fn + " | field access only for the active union member"
	if dv == nil {
		r.Violation(rule, key, q.Pos(f.Pos()), "the walker never reads the field's discriminant value: members of inactive union variants are read/written")
		return
	}
	// loop header: a block dominating dv's block that has a back edge
	var header *ssa.BasicBlock
	for h := dv.Block(); h != nil; h = h.Idom() {
		for _, p := range h.Preds {
			if h.Dominates(p) {
				header = h
			}
		}
		if header != nil {
			break
		}
	}
	// isPass: the edge k out of block p establishes dv == X. cut: the edge cannot
	// be taken at all when p was entered from pred (the condition is a phi — the
	// value of "a && b" — that is a constant on that entry). A condition that is
	// such a phi is judged by the value it has on the entry edge.
	edge := func(p, pred *ssa.BasicBlock, k int) (pass, cut bool) {
		ifi, ok := p.Instrs[len(p.Instrs)-1].(*ssa.If)
		if !ok {
			return false, false
		}
		cond := ifi.Cond
		if phi, isPhi := cond.(*ssa.Phi); isPhi && phi.Block() == p && pred != nil {
			for i, pp := range p.Preds {
				if pp == pred {
					cond = phi.Edges[i]
				}
			}
			if c, isConst := cond.(*ssa.Const); isConst && c.Value != nil {
				if (c.Value.String() == "true") != (k == 0) {
					return false, true
				}
				return false, false
			}
		}
		for _, at := range ssaq.Atoms([]ssaq.Guard{{Cond: cond, True: k == 0}}) {
			if at.Op == token.EQL && (at.X == ssa.Value(dv) || at.Y == ssa.Value(dv)) {
				return true, false
			}
		}
		return false, false
	}
	isField := func(b *ssa.BasicBlock) string {
		for _, in := range b.Instrs {
			cn := ssaq.StaticCalleeName(in)
			for _, fc := range fieldCalls {
				if cn == fc {
					return cn
				}
			}
		}
		return ""
	}
	type state struct{ b, pred *ssa.BasicBlock }
	seen := map[state]bool{{dv.Block(), nil}: true}
	stack := []state{{dv.Block(), nil}}
	bad := ""
	for len(stack) > 0 && bad == "" {
		st := stack[len(stack)-1]
		stack = stack[:len(stack)-1]
		b := st.b
		for k, s := range b.Succs {
			pass, cut := edge(b, st.pred, k)
			if pass || cut || s == header || seen[state{s, b}] {
				continue
			}
			seen[state{s, b}] = true
			if fc := isField(s); fc != "" {
				bad = fc
				break
			}
			stack = append(stack, state{s, b})
		}
	}
	// and the guarded calls must exist at all
	exists := false
	for _, b := range f.Blocks {
		if isField(b) != "" {
			exists = true
		}
	}
	switch {
	case !exists:
		r.Violation(rule, key, q.Pos(f.Pos()), "no field access call found in the walker")
	case bad != "":
		r.Violation(rule, key, q.Pos(ssaq.InstrPos(dv)), "the call of "+bad+" is reachable without establishing that the field's discriminant value is noDiscriminant or equals the struct's discriminant: fields outside the active union member are read or written")
	default:
		r.Ok(rule, key, q.Pos(ssaq.InstrPos(dv)), "every path from the discriminant read to a field access passes dv == noDiscriminant or dv == discriminant")
	}
}
