package rules

import (
	"fmt"
	"go/ast"
	"go/token"
	"go/types"
	"strings"

	"golang.org/x/tools/go/ssa"

	"verifcheck/internal/ssaq"
)

func init() {
	Register(&Spec{
		ID:          "C07",
		Explanation: "Decides ownership and layering conditions of RPC reference counting: (R1) the wire reference counts and table slots have exactly the writers the design names (expent.wireRefs: sendCap/releaseExport; impent.*: addImport; exports[i] = nil: releaseExport; whole tables: NewConn/shutdown); (R2) a table entry is tested non-nil before it is used; (R3) the Release message carries the wireRefs of the entry looked up in the same critical section, and the entry is deleted only after the generation test; (R4) every client obtained from AddRef() in package rpc is released on all paths, stored, returned or handed to a callee that takes ownership; (R5) shutdown releases the bootstrap client, every export, every answer's result caps, lifts every embargo and clears every table; (R6) releaseResultCaps is recorded only when the Finish message says so and exports are released by destroy only under that flag; (R9) the release function returned with a question's answer releases that same question (its Return message holds the references to the imports in the results). Does NOT decide the numeric balance of counts over histories nor GC-leak reports.",
		Run:         runC07,
	})
}

func runC07(ctx *Ctx) {
	ruleRefWriters(ctx, "C07-R1")
	ruleTableEntryNil(ctx, "C07-R2", "rpc")
	ruleReleaseMessage(ctx, "C07-R3")
	ruleImportRemovedInSameSection(ctx, "C07-R3b")
	ruleAddRefOwnership(ctx, "C07-R4")
	ruleTeardown(ctx, "C07-R5")
	ruleFinishAccounting(ctx, "C07-R6")
	ruleCountingPaths(ctx, "C07-R7")
	// an answer is destroyed (and the exports its results refer to released)
	// when both its Return was sent and its Finish received: the decision must
	// not be taken on a snapshot of answer.flags from before Conn.mu was
	// released (shared with C06-R8)
	ruleStaleGuardedRead(ctx, "C07-R8s", rpcScope)
	ruleReleaseFuncOfSameQuestion(ctx, "C07-R9")
	r := ctx.Rep
	r.Floor("C07-R9", 2)
	r.Floor("C07-R1", 8)
	r.Floor("C07-R2", 15)
	r.Floor("C07-R3", 3)
	r.Floor("C07-R4", 5)
	r.Floor("C07-R5", 8)
	r.Floor("C07-R6", 2)
	r.Floor("C07-R7", 2)
}

func ruleRefWriters(ctx *Ctx, rule string) {
	q := ssaq.For(ctx.Prog)
	r := ctx.Rep
	type spec struct {
		typ, field string
		allowed    []string
	}
	specs := []spec{
		{"expent", "wireRefs", []string{"rpc.(*Conn).sendCap", "rpc.(*Conn).releaseExport"}},
		{"expent", "client", []string{"rpc.(*Conn).sendCap"}},
		{"impent", "wireRefs", []string{"rpc.(*Conn).addImport"}},
		{"impent", "generation", []string{"rpc.(*Conn).addImport"}},
		{"impent", "wc", []string{"rpc.(*Conn).addImport"}},
		{"Conn", "questions", []string{"rpc.(*Conn).newQuestion", "rpc.(*Conn).shutdown"}},
		{"Conn", "answers", []string{"rpc.NewConn", "rpc.(*Conn).shutdown"}},
		{"Conn", "exports", []string{"rpc.(*Conn).sendCap", "rpc.(*Conn).shutdown"}},
		{"Conn", "imports", []string{"rpc.NewConn", "rpc.(*Conn).shutdown"}},
		{"Conn", "embargoes", []string{"rpc.(*Conn).embargo", "rpc.(*Conn).shutdown"}},
	}
	fields := map[*types.Var]spec{}
	for _, s := range specs {
		if f := mustField(ctx, rule, "rpc", s.typ, s.field); f != nil {
			fields[f] = s
		}
	}
	exportsF := mustField(ctx, rule, "rpc", "Conn", "exports")
	counts := map[*types.Var]int{}
	for _, f := range q.FuncsIn("rpc") {
		name := ssaq.FuncName(f)
		k := 0
		for _, b := range frameBlocks(f) {
			for _, in := range b.Instrs {
				st, ok := in.(*ssa.Store)
				if !ok {
					continue
				}
				if fa, ok := st.Addr.(*ssa.FieldAddr); ok {
					fld := ssaq.FieldVar(fa)
					s, ok := fields[fld]
					if !ok {
						continue
					}
					counts[fld]++
					k++
					key := fmt.Sprintf("%s | writes %s.%s #%d", name, s.typ, s.field, k)
					// a write inside a helper that did not exist on the reference tree is
					// attributed to the reference-tree functions that call the helper
					allowed := false
					if owners, ok := q.Attributed(f); ok {
						allowed = true
						for _, o := range owners {
							found := false
							for _, a := range s.allowed {
								if a == o {
									found = true
								}
							}
							if !found {
								allowed = false
							}
						}
					}
					pos := q.Pos(ssaq.InstrPos(in))
					if allowed {
						r.Ok(rule, key, pos, "one of the designated writers: "+strings.Join(s.allowed, ", "))
					} else {
						r.Violation(rule, key, pos, fmt.Sprintf("%s.%s is written outside its designated writers (%s): the reference accounting has a second author", s.typ, s.field, strings.Join(s.allowed, ", ")))
					}
				}
				// c.exports[i] = nil
				if ia, ok := st.Addr.(*ssa.IndexAddr); ok && ssaq.IsNilConst(st.Val) {
					if fld, _ := ssaq.LoadedField(ia.X); fld == exportsF && fld != nil {
						k++
						key := fmt.Sprintf("%s | clears an export slot #%d", name, k)
						if name == "rpc.(*Conn).releaseExport" {
							r.Ok(rule, key, q.Pos(ssaq.InstrPos(in)), "only releaseExport drops an export, when count == wireRefs")
						} else {
							r.Violation(rule, key, q.Pos(ssaq.InstrPos(in)), "an export slot is cleared outside releaseExport: the export is dropped without its wire references reaching zero")
						}
					}
				}
			}
		}
	}
	for fld, s := range fields {
		if counts[fld] == 0 {
			r.Violation(rule, fmt.Sprintf("%s.%s has a writer", s.typ, s.field), "rpc", fmt.Sprintf("no store to %s.%s found: the count is never maintained", s.typ, s.field))
		}
	}
	// releaseExport: the slot is cleared only when count == wireRefs; decrement otherwise under count < wireRefs
	if f := q.Func("rpc.(*Conn).releaseExport"); f != nil {
		wr := mustField(ctx, rule, "rpc", "expent", "wireRefs")
		for _, b := range frameBlocks(f) {
			for _, in := range b.Instrs {
				st, ok := in.(*ssa.Store)
				if !ok {
					continue
				}
				atoms := ssaq.Atoms(ssaq.Guards(b))
				if ia, ok := st.Addr.(*ssa.IndexAddr); ok && ssaq.IsNilConst(st.Val) {
					if fld, _ := ssaq.LoadedField(ia.X); fld == exportsF {
						eq := false
						le, ge := false, false // count <= wireRefs, count >= wireRefs
						for _, at := range atoms {
							fx, _ := ssaq.LoadedField(at.X)
							fy, _ := ssaq.LoadedField(at.Y)
							switch {
							case at.Op == token.EQL && (fx == wr || fy == wr):
								eq = true
							case (at.Op == token.LEQ && fy == wr) || (at.Op == token.GEQ && fx == wr):
								le = true
							case (at.Op == token.GEQ && fy == wr) || (at.Op == token.LEQ && fx == wr):
								ge = true
							}
						}
						if le && ge {
							eq = true // guard clauses: !(count > w) && !(count < w)
						}
						key := "rpc.(*Conn).releaseExport | slot cleared only when count == wireRefs"
						if eq {
							r.Ok(rule, key, q.Pos(ssaq.InstrPos(in)), "dominated by count == ent.wireRefs")
						} else {
							r.Violation(rule, key, q.Pos(ssaq.InstrPos(in)), "the export is dropped without the guard count == ent.wireRefs ("+ssaq.AtomsString(atoms)+")")
						}
					}
				}
				if fa, ok := st.Addr.(*ssa.FieldAddr); ok && ssaq.FieldVar(fa) == wr {
					// ent.wireRefs -= count must not underflow: dominated by !(count > wireRefs) and count != wireRefs
					noUnder := false
					for _, at := range atoms {
						fx, _ := ssaq.LoadedField(at.X)
						fy, _ := ssaq.LoadedField(at.Y)
						if (at.Op == token.LEQ && fy == wr) || (at.Op == token.GEQ && fx == wr) || (at.Op == token.LSS && fy == wr) || (at.Op == token.GTR && fx == wr) {
							noUnder = true
						}
					}
					key := "rpc.(*Conn).releaseExport | decrement cannot underflow"
					if noUnder {
						r.Ok(rule, key, q.Pos(ssaq.InstrPos(in)), "dominated by count <= ent.wireRefs")
					} else {
						r.Violation(rule, key, q.Pos(ssaq.InstrPos(in)), "ent.wireRefs -= count is not dominated by count <= ent.wireRefs: a peer releasing too many references wraps the unsigned count ("+ssaq.AtomsString(atoms)+")")
					}
				}
			}
		}
	}
}

func ruleReleaseMessage(ctx *Ctx, rule string) {
	q := ssaq.For(ctx.Prog)
	r := ctx.Rep
	imports := mustField(ctx, rule, "rpc", "Conn", "imports")
	wr := mustField(ctx, rule, "rpc", "impent", "wireRefs")
	gen := mustField(ctx, rule, "rpc", "impent", "generation")
	f := q.Func("rpc.(*importClient).Shutdown")
	if imports == nil || wr == nil || gen == nil || f == nil {
		if f == nil {
			r.Fail("%s: anchor rpc.(*importClient).Shutdown not found", rule)
		}
		return
	}
	// delete(c.imports, id) dominated by generation equality
	foundDelete := false
	for _, b := range frameBlocks(f) {
		for _, in := range b.Instrs {
			cc, ok := ssaq.BuiltinCall(in, "delete")
			if !ok {
				continue
			}
			if fld, _ := ssaq.LoadedField(cc.Args[0]); fld != imports {
				continue
			}
			foundDelete = true
			okGen := false
			for _, at := range ssaq.Atoms(ssaq.Guards(b)) {
				if at.Op == token.EQL {
					fx, _ := ssaq.LoadedField(at.X)
					fy, _ := ssaq.LoadedField(at.Y)
					if (fx == gen) != (fy == gen) || (fx != nil && fy != nil && fx.Name() == "generation" && fy.Name() == "generation") {
						okGen = true
					}
				}
			}
			key := "importClient.Shutdown | entry deleted only after the generation test"
			if okGen {
				r.Ok(rule, key, q.Pos(ssaq.InstrPos(in)), "dominated by ic.generation == ent.generation")
			} else {
				r.Violation(rule, key, q.Pos(ssaq.InstrPos(in)), "the import entry is deleted (and a Release sent) without the generation test: a client created concurrently for the same import loses its table entry")
			}
		}
	}
	if !foundDelete {
		r.Violation(rule, "importClient.Shutdown | entry deleted only after the generation test", q.Pos(f.Pos()), "Shutdown no longer deletes the import entry: the import leaks and later references are double counted")
	}
	// SetReferenceCount argument derives from wireRefs of the looked-up entry
	found := false
	check := func(fn *ssa.Function) {
		for _, b := range fn.Blocks {
			for _, in := range b.Instrs {
				if !strings.HasSuffix(ssaq.StaticCalleeName(in), ".SetReferenceCount") {
					continue
				}
				found = true
				arg := stripConv(in.(ssa.CallInstruction).Common().Args[1])
				// the count may be read into a local (or a captured variable) first
				arg = stripConv(ssaq.ResolveLocal(arg))
				fld, _ := ssaq.LoadedField(arg)
				key := "importClient.Shutdown | Release.referenceCount = ent.wireRefs"
				if fld == wr {
					r.Ok(rule, key, q.Pos(ssaq.InstrPos(in)), "the count sent is a load of impent.wireRefs")
				} else {
					r.Violation(rule, key, q.Pos(ssaq.InstrPos(in)), "the Release message does not carry the entry's wireRefs ("+ssaq.AccessPath(arg)+"): the peer's export count will not reach zero, or will underflow")
				}
			}
		}
	}
	check(f)
	for _, an := range f.AnonFuncs {
		check(an)
	}
	if !found {
		r.Violation(rule, "importClient.Shutdown | Release.referenceCount = ent.wireRefs", q.Pos(f.Pos()), "no SetReferenceCount call: the Release message carries no count")
	}
	// addImport: wireRefs++ on the existing-entry path and wireRefs: 1 on the new path
	if af := q.Func("rpc.(*Conn).addImport"); af != nil {
		inc, one := false, false
		for _, b := range frameBlocks(af) {
			for _, in := range b.Instrs {
				st, ok := in.(*ssa.Store)
				if !ok {
					continue
				}
				fa, ok := st.Addr.(*ssa.FieldAddr)
				if !ok || ssaq.FieldVar(fa) != wr {
					continue
				}
				if bo, ok := st.Val.(*ssa.BinOp); ok && bo.Op == token.ADD {
					if k, ok := ssaq.ConstInt(bo.Y); ok && k == 1 {
						inc = true
					}
				}
				if k, ok := ssaq.ConstInt(st.Val); ok && k == 1 {
					one = true
				}
			}
		}
		key := "addImport | every received descriptor counts one wire reference"
		if inc && one {
			r.Ok(rule, key, q.Pos(af.Pos()), "wireRefs++ for a known import, wireRefs: 1 for a new one")
		} else {
			r.Violation(rule, key, q.Pos(af.Pos()), fmt.Sprintf("addImport no longer counts each received reference exactly once (increment present: %v, initial 1 present: %v)", inc, one))
		}
	}
}

// Callees that take ownership of a *capnp.Client argument.
var stealsClient = map[string]bool{
	"rpc.(*answer).setBootstrap": true,
	"capnp.(*Message).AddCap":    true,
}

func ruleAddRefOwnership(ctx *Ctx, rule string) {
	a := lockAnalysis(ctx)
	if a == nil {
		return
	}
	r := ctx.Rep
	n := 0
	for _, u := range a.UnitsSorted() {
		if !rpcScope(u) {
			continue
		}
		info := u.Pkg.TypesInfo
		isAddRef := func(m ast.Node) bool {
			c, ok := m.(*ast.CallExpr)
			return ok && calleeName(info, c) == "capnp.(*Client).AddRef"
		}
		// parent map for context classification
		parents := map[ast.Node]ast.Node{}
		var stack []ast.Node
		ast.Inspect(u.Body, func(m ast.Node) bool {
			if m == nil {
				stack = stack[:len(stack)-1]
				return true
			}
			if len(stack) > 0 {
				parents[m] = stack[len(stack)-1]
			}
			stack = append(stack, m)
			return true
		})
		k := 0
		ast.Inspect(u.Body, func(m ast.Node) bool {
			if _, ok := m.(*ast.FuncLit); ok {
				return false
			}
			if !isAddRef(m) {
				return true
			}
			n++
			k++
			key := fmt.Sprintf("%s | AddRef() #%d", u.Name, k)
			pos := ctx.Prog.Rel(m.Pos())
			par := parents[m]
			for {
				if pe, ok := par.(*ast.ParenExpr); ok {
					par = parents[pe]
					continue
				}
				break
			}
			switch p := par.(type) {
			case *ast.ReturnStmt:
				r.Ok(rule, key, pos, "returned: the caller owns the reference")
			case *ast.KeyValueExpr, *ast.CompositeLit:
				r.Ok(rule, key, pos, "stored in a composite literal: the containing object owns the reference")
			case *ast.CallExpr:
				nm := calleeName(info, p)
				if stealsClient[nm] {
					r.Ok(rule, key, pos, "passed to "+nm+", which takes ownership")
				} else {
					r.Violation(rule, key, pos, "the new reference is passed to "+nm+", which is not known to take ownership: it is never released")
				}
			case *ast.AssignStmt:
				// local variable: all paths must release, return, store or hand it on
				var obj types.Object
				for i, rhs := range p.Rhs {
					if ast.Unparen(rhs) == m && i < len(p.Lhs) {
						if id, ok := p.Lhs[i].(*ast.Ident); ok {
							obj = info.ObjectOf(id)
						} else {
							r.Ok(rule, key, pos, "stored: "+types.ExprString(p.Lhs[i]))
							return true
						}
					}
				}
				if obj == nil {
					r.Undecided(rule, key, pos, "cannot find the variable the new reference is bound to")
					return true
				}
				isDisposal := func(x ast.Node) bool {
					switch y := x.(type) {
					case *ast.CallExpr:
						if sel, ok := ast.Unparen(y.Fun).(*ast.SelectorExpr); ok {
							if id, ok := ast.Unparen(sel.X).(*ast.Ident); ok && info.ObjectOf(id) == obj && sel.Sel.Name == "Release" {
								return true
							}
						}
						if stealsClient[calleeName(info, y)] {
							for _, arg := range y.Args {
								if id, ok := ast.Unparen(arg).(*ast.Ident); ok && info.ObjectOf(id) == obj {
									return true
								}
							}
						}
					case *ast.ReturnStmt:
						for _, res := range y.Results {
							if id, ok := ast.Unparen(res).(*ast.Ident); ok && info.ObjectOf(id) == obj {
								return true
							}
						}
					case *ast.KeyValueExpr:
						if id, ok := ast.Unparen(y.Value).(*ast.Ident); ok && info.ObjectOf(id) == obj {
							return true
						}
					}
					return false
				}
				pts := u.Find(func(x ast.Node) bool { return x == ast.Node(p) })
				if len(pts) == 0 {
					r.Exempt(rule, key, pos, "unreachable in the CFG")
					return true
				}
				pathCheck(ctx, a, rule, key, u, pts[0].After(), m.Pos(), isDisposal, nil, obj.Name()+".Release() (or returning/storing/handing over "+obj.Name()+"): the reference leaks on some path")
			default:
				r.Undecided(rule, key, pos, fmt.Sprintf("unrecognised use of an AddRef() result (%T)", par))
			}
			return true
		})
	}
	if n == 0 {
		r.Fail("%s: no AddRef() call found in package rpc", rule)
	}
	// recvPayload's error path releases the clients already materialised
	if u := mustUnit(ctx, a, rule, "rpc.(*Conn).recvPayload"); u != nil {
		info := u.Pkg.TypesInfo
		isRecvCap := func(m ast.Node) bool { return isCallNamed(info, m, "rpc.(*Conn).recvCap") }
		pts := u.Find(isRecvCap)
		if len(pts) == 0 {
			r.Fail("%s: recvPayload no longer calls recvCap", rule)
		} else {
			// on the err != nil branch after recvCap, a release of mtab[:i] must precede the return
			// ... or the clients are handed to the message's capability table,
			// which the handlers clear before they release the message (below)
			isRelease := func(m ast.Node) bool {
				if isCallNamed(info, m, "rpc.(releaseList).release") {
					return true
				}
				as, ok := m.(*ast.AssignStmt)
				if !ok || len(as.Lhs) != 1 {
					return false
				}
				sel, ok := ast.Unparen(as.Lhs[0]).(*ast.SelectorExpr)
				return ok && sel.Sel.Name == "CapTable"
			}
			isErrReturn := func(m ast.Node) bool {
				rs, ok := m.(*ast.ReturnStmt)
				return ok && len(rs.Results) == 3 && !isNil(rs.Results[2])
			}
			noPathCheck(ctx, a, rule, "recvPayload | materialised clients released on the error path", u, pts[0].After(), pts[0].B.Nodes[pts[0].I].Pos(), isErrReturn, isRelease,
				"recvPayload can return an error after materialising clients without releasing them: imports/exports leak a reference per malformed message",
				"every error return after recvCap passes releaseList(...).release() or stores the clients in the message's CapTable")
		}
	}
	// The handlers clear a received message's capability table before they
	// release the message (transport contract; also what disposes of the
	// clients recvPayload left in the table on its error path).
	for _, h := range []struct{ fn, parse, param string }{
		{"rpc.(*Conn).handleCall", "rpc.(*Conn).parseCall", "releaseCall"},
		{"rpc.(*Conn).handleReturn", "rpc.(*Conn).parseReturn", "releaseRet"},
	} {
		top := mustUnit(ctx, a, rule, h.fn)
		if top == nil {
			continue
		}
		relObj := paramByRefName(top, h.param)
		if relObj == nil {
			r.Fail("%s: %s has no parameter %s", rule, h.fn, h.param)
			continue
		}
		for _, u := range a.Eng.Units {
			if u != top && !strings.HasPrefix(u.Name, h.fn+"$") {
				continue
			}
			info := u.Pkg.TypesInfo
			isRel := func(m ast.Node) bool {
				call, ok := m.(*ast.CallExpr)
				if !ok {
					return false
				}
				id, ok := ast.Unparen(call.Fun).(*ast.Ident)
				return ok && info.ObjectOf(id) == relObj
			}
			isClear := func(m ast.Node) bool { return isCallNamed(info, m, "rpc.clearCapTable") }
			if len(u.Find(isRel)) == 0 {
				continue
			}
			start := u.Entry()
			pos := u.Pos
			if u == top {
				pts := u.Find(func(m ast.Node) bool { return isCallNamed(info, m, h.parse) })
				if len(pts) == 0 {
					r.Fail("%s: %s no longer calls %s", rule, h.fn, h.parse)
					continue
				}
				start = pts[0].After()
			}
			noPathCheck(ctx, a, rule, u.Name+" | capability table cleared before "+h.param+"()", u, start, pos, isRel, isClear,
				"the received message is released on a path that did not clear its capability table after "+h.parse+" filled it: the clients in the table (including those recvPayload leaves there when a later descriptor is invalid) are leaked or released by the transport at an arbitrary point",
				"every "+h.param+"() after "+h.parse+" is preceded by clearCapTable")
		}
	}
}

func ruleTeardown(ctx *Ctx, rule string) {
	a := lockAnalysis(ctx)
	if a == nil {
		return
	}
	r := ctx.Rep
	u := mustUnit(ctx, a, rule, "rpc.(*Conn).shutdown")
	bootstrap := mustField(ctx, rule, "rpc", "Conn", "bootstrap")
	if u == nil || bootstrap == nil {
		return
	}
	info := u.Pkg.TypesInfo
	isBootRelease := func(m ast.Node) bool {
		c, ok := m.(*ast.CallExpr)
		if !ok || calleeName(info, c) != "capnp.(*Client).Release" {
			return false
		}
		sel, ok := ast.Unparen(c.Fun).(*ast.SelectorExpr)
		return ok && fieldOfSel(info, sel.X) == bootstrap
	}
	pathCheck(ctx, a, rule, "shutdown | bootstrap client released on every path", u, u.Entry(), u.Pos, isBootRelease, nil, "c.bootstrap.Release() (NewConn stole this reference)")
	// loops: range over the detached table must contain the release call
	type loopSpec struct{ table, call, what string }
	for _, ls := range []loopSpec{
		{"exports", "capnp.(*Client).Release", "every export's client is released"},
		{"embargoes", "rpc.(*embargo).lift", "every embargo is lifted"},
		{"answers", "rpc.(releaseList).release", "every answer's result capabilities are released"},
	} {
		tf := mustField(ctx, rule, "rpc", "Conn", ls.table)
		if tf == nil {
			continue
		}
		// local variable that received c.<table>
		var local types.Object
		ast.Inspect(u.Body, func(m ast.Node) bool {
			if as, ok := m.(*ast.AssignStmt); ok && len(as.Lhs) == 1 && len(as.Rhs) == 1 && fieldOfSel(info, as.Rhs[0]) == tf {
				if id, ok := as.Lhs[0].(*ast.Ident); ok {
					local = info.ObjectOf(id)
				}
			}
			return true
		})
		key := "shutdown | " + ls.what
		ok := false
		var where ast.Node = u.Body
		ast.Inspect(u.Body, func(m ast.Node) bool {
			rs, isRange := m.(*ast.RangeStmt)
			if !isRange {
				return true
			}
			overLocal := false
			if id, isID := ast.Unparen(rs.X).(*ast.Ident); isID && local != nil && info.ObjectOf(id) == local {
				overLocal = true
			}
			if fieldOfSel(info, rs.X) == tf {
				overLocal = true
			}
			if !overLocal {
				return true
			}
			ast.Inspect(rs.Body, func(x ast.Node) bool {
				if c, isCall := x.(*ast.CallExpr); isCall && calleeName(info, c) == ls.call {
					ok = true
					where = c
				}
				return true
			})
			return true
		})
		if ok {
			r.Ok(rule, key, ctx.Prog.Rel(where.Pos()), "a range over the detached "+ls.table+" table calls "+ls.call)
		} else {
			r.Violation(rule, key, ctx.Prog.Rel(u.Pos), "shutdown has no loop over c."+ls.table+" that calls "+ls.call+": after Close these capabilities are never released")
		}
	}
	// table fields cleared: shared with C09-R5 (run here under this rule id for the clears only)
	connT := ctx.Prog.Pkg("rpc").Types.Scope().Lookup("Conn")
	st, _ := connT.Type().Underlying().(*types.Struct)
	seenMu := false
	for i := 0; st != nil && i < st.NumFields(); i++ {
		f := st.Field(i)
		if f.Name() == "mu" {
			seenMu = true
			continue
		}
		if !seenMu {
			continue
		}
		switch f.Type().Underlying().(type) {
		case *types.Slice, *types.Map:
		default:
			continue
		}
		isClear := func(n ast.Node) bool {
			as, ok := n.(*ast.AssignStmt)
			return ok && len(as.Lhs) == 1 && len(as.Rhs) == 1 && fieldOfSel(info, as.Lhs[0]) == f && isNil(as.Rhs[0])
		}
		pathCheck(ctx, a, rule, "shutdown | table "+f.Name()+" cleared on every path", u, u.Entry(), u.Pos, isClear, nil, "c."+f.Name()+" = nil")
	}
}

func ruleFinishAccounting(ctx *Ctx, rule string) {
	q := ssaq.For(ctx.Prog)
	r := ctx.Rep
	flagC := constObj(ctx.Prog.Pkg("rpc"), "releaseResultCapsFlag")
	flagsF := mustField(ctx, rule, "rpc", "answer", "flags")
	if flagC == nil || flagsF == nil {
		if flagC == nil {
			r.Fail("%s: constant rpc.releaseResultCapsFlag not found", rule)
		}
		return
	}
	fv, _ := constValueInt(flagC)
	if f := q.Func("rpc.(*Conn).handleFinish"); f == nil {
		r.Fail("%s: anchor handleFinish not found", rule)
	} else {
		found := false
		for _, b := range frameBlocks(f) {
			for _, in := range b.Instrs {
				st, ok := in.(*ssa.Store)
				if !ok {
					continue
				}
				fa, ok := st.Addr.(*ssa.FieldAddr)
				if !ok || ssaq.FieldVar(fa) != flagsF {
					continue
				}
				// where the flag bit can come from: an OR with a constant that
				// contains it, directly or through a local that collects the
				// flags first (a phi); each origin is judged in the block in
				// which the bit is added
				var origins []*ssa.BasicBlock
				var collect func(v ssa.Value, at *ssa.BasicBlock, depth int)
				collect = func(v ssa.Value, at *ssa.BasicBlock, depth int) {
					if depth > 4 {
						return
					}
					switch x := v.(type) {
					case *ssa.Const:
						if k, ok := ssaq.ConstInt(x); ok && k&fv != 0 {
							origins = append(origins, at)
						}
					case *ssa.BinOp:
						if x.Op == token.OR {
							collect(x.X, x.Block(), depth+1)
							collect(x.Y, x.Block(), depth+1)
						}
					case *ssa.Phi:
						for i, e := range x.Edges {
							collect(e, x.Block().Preds[i], depth+1)
						}
					case *ssa.Convert:
						collect(x.X, at, depth+1)
					case *ssa.ChangeType:
						collect(x.X, at, depth+1)
					}
				}
				collect(st.Val, b, 0)
				if len(origins) == 0 {
					continue
				}
				found = true
				okp := true
				for _, ob := range origins {
					one := false
					for _, at := range ssaq.Atoms(ssaq.Guards(ob)) {
						if at.Op == token.ILLEGAL && at.True {
							if p, ok := at.Val.(*ssa.Parameter); ok && ssaq.ParamRefName(p) == "releaseResultCaps" {
								one = true
							}
						}
					}
					okp = okp && one
				}
				key := "handleFinish | releaseResultCapsFlag set only when the Finish says so"
				if okp {
					r.Ok(rule, key, q.Pos(ssaq.InstrPos(in)), "dominated by the releaseResultCaps parameter being true")
				} else {
					r.Violation(rule, key, q.Pos(ssaq.InstrPos(in)), "the flag is set regardless of Finish.releaseResultCaps: exports the peer still counts are released")
				}
			}
		}
		if !found {
			r.Violation(rule, "handleFinish | releaseResultCapsFlag set only when the Finish says so", q.Pos(f.Pos()), "handleFinish never records releaseResultCaps: exports referenced by results are never released")
		}
	}
	if f := q.Func("rpc.(*answer).destroy"); f == nil {
		r.Fail("%s: anchor answer.destroy not found", rule)
	} else {
		found := false
		for _, b := range frameBlocks(f) {
			for _, in := range b.Instrs {
				if ssaq.StaticCalleeName(in) != "rpc.(*Conn).releaseExports" {
					continue
				}
				found = true
				okf := false
				for _, at := range ssaq.Atoms(ssaq.Guards(b)) {
					if at.Op == token.NEQ {
						if bo, ok := at.X.(*ssa.BinOp); ok && bo.Op == token.AND {
							if fld, _ := ssaq.LoadedField(bo.X); fld == flagsF {
								if k, ok := ssaq.ConstInt(bo.Y); ok && k == fv {
									okf = true
								}
							}
						}
					}
				}
				key := "answer.destroy | exports released only under releaseResultCapsFlag"
				if okf {
					r.Ok(rule, key, q.Pos(ssaq.InstrPos(in)), "dominated by flags&releaseResultCapsFlag != 0")
				} else {
					r.Violation(rule, key, q.Pos(ssaq.InstrPos(in)), "destroy releases the result's export references without the peer having asked for it (releaseResultCapsFlag not tested)")
				}
			}
		}
		if !found {
			r.Violation(rule, "answer.destroy | exports released only under releaseResultCapsFlag", q.Pos(f.Pos()), "destroy never releases export references")
		}
	}
}

// ruleCountingPaths is C07-R7: (a) every path through addImport that hands
// out a client counts the received wire reference; (b) every path through
// handleFinish that leaves the answer in the table consults the message's
// releaseResultCaps.
func ruleCountingPaths(ctx *Ctx, rule string) {
	a := lockAnalysis(ctx)
	if a == nil {
		return
	}
	wr := mustField(ctx, rule, "rpc", "impent", "wireRefs")
	if u := mustUnit(ctx, a, rule, "rpc.(*Conn).addImport"); u != nil && wr != nil {
		info := u.Pkg.TypesInfo
		isCount := func(n ast.Node) bool {
			switch x := n.(type) {
			case *ast.IncDecStmt:
				return x.Tok == token.INC && fieldOfSel(info, x.X) == wr
			case *ast.KeyValueExpr:
				if k, ok := x.Key.(*ast.Ident); ok && info.Uses[k] == types.Object(wr) {
					return true
				}
			}
			return false
		}
		pathCheck(ctx, a, rule, "addImport | every returned client counted one wire reference", u, u.Entry(), u.Pos, isCount, nil,
			"ent.wireRefs++ (or wireRefs: 1 for a new entry): a received descriptor that is not counted makes the eventual Release too small and the peer leaks the export")
	}
	if u := mustUnit(ctx, a, rule, "rpc.(*Conn).handleFinish"); u != nil {
		info := u.Pkg.TypesInfo
		param := paramByRefName(u, "releaseResultCaps")
		if param == nil {
			ctx.Rep.Fail("%s: handleFinish has no releaseResultCaps parameter", rule)
			return
		}
		isTest := func(n ast.Node) bool {
			id, ok := n.(*ast.Ident)
			return ok && info.Uses[id] == param
		}
		isProtocolError := func(n ast.Node) bool {
			rs, ok := n.(*ast.ReturnStmt)
			return ok && len(rs.Results) == 1 && !isNil(rs.Results[0])
		}
		pathCheck(ctx, a, rule, "handleFinish | releaseResultCaps consulted on every accepted Finish", u, u.Entry(), u.Pos, isTest, isProtocolError,
			"a test of releaseResultCaps: a Finish that arrives before the Return must still record that the peer gave up the result capabilities")
	}
}
