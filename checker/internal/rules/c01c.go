package rules

import (
	"golang.org/x/tools/go/ssa"

	"verifcheck/internal/ssaq"
)

// ruleReuseArenaIsTheBufferRead (C01-R10): with ReuseBuffer, Decode hands out
// a single-segment message whose segment 0 is the decoder's own buffer. The
// bounds of every later pointer are checked against the length of that slice
// (regionInBounds), so the slice must be exactly the bytes read for this
// message: the value stored into Decoder.arena is x[:len(x):len(x)] where x is
// the slice the dominating io.ReadFull filled completely. A buffer that is
// only grown (its length still that of an earlier, larger message) lets an
// out-of-range pointer of the new message pass the bounds test and read the
// previous message's bytes.
func ruleReuseArenaIsTheBufferRead(ctx *Ctx, rule string) {
	q := ssaq.For(ctx.Prog)
	r := ctx.Rep
	arena := mustField(ctx, rule, "", "Decoder", "arena")
	f := q.Func("capnp.(*Decoder).Decode")
	if arena == nil || f == nil {
		if f == nil {
			r.Fail("%s: capnp.(*Decoder).Decode not found", rule)
		}
		return
	}
	key := "capnp.(*Decoder).Decode | the reused single-segment arena is exactly the buffer that was read"
	n := 0
	for _, fr := range ssaq.FramesR(f) {
		for _, b := range fr.Fn.Blocks {
			for _, in := range b.Instrs {
				st, ok := in.(*ssa.Store)
				if !ok {
					continue
				}
				fa, ok := st.Addr.(*ssa.FieldAddr)
				if !ok || ssaq.FieldVar(fa) != arena {
					continue
				}
				n++
				pos := q.Pos(ssaq.InstrPos(in))
				v := st.Val
				if cv, ok := v.(*ssa.ChangeType); ok {
					v = cv.X
				}
				sl, ok := v.(*ssa.Slice)
				if !ok {
					r.Violation(rule, key, pos, "Decoder.arena is assigned "+fr.Render(st.Val)+", not a slice x[:len(x):len(x)] of the buffer read")
					continue
				}
				buf := fr.Render(sl.X)
				if sl.Low != nil || sl.High == nil || fr.Render(sl.High) != "len("+buf+")" {
					r.Violation(rule, key, pos, "Decoder.arena is assigned "+fr.Render(st.Val)+": its length is not the length of the buffer "+buf)
					continue
				}
				// the last io.ReadFull that dominates the store fills buf
				var last *ssa.Call
				for _, b2 := range fr.Fn.Blocks {
					for _, in2 := range b2.Instrs {
						c, ok := in2.(*ssa.Call)
						if !ok || ssaq.StaticCalleeName(c) != "io.ReadFull" || len(c.Call.Args) != 2 || !ssaq.DominatesInstr(c, st) {
							continue
						}
						if last == nil || ssaq.DominatesInstr(last, c) {
							last = c
						}
					}
				}
				if last == nil {
					r.Violation(rule, key, pos, "no io.ReadFull dominates the assignment of Decoder.arena")
					continue
				}
				if got := fr.Render(last.Call.Args[1]); got != buf {
					r.Violation(rule, key, pos, "the segment handed out is "+buf+" at its full length, but the bytes of this message were read into "+got+": the segment's length is not the size the header declared, so pointers beyond the message pass the bounds test and read stale bytes of an earlier message")
					continue
				}
				r.Ok(rule, key, pos, "arena = "+buf+"[:len:len] and io.ReadFull filled "+buf)
			}
		}
	}
	if n == 0 {
		r.Fail("%s: no assignment of Decoder.arena found in Decode", rule)
	}
}
