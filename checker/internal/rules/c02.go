package rules

import (
	"fmt"
	"go/token"
	"go/types"
	"strings"
	"verifcheck/internal/core"

	"golang.org/x/tools/go/ssa"

	"verifcheck/internal/ssaq"
)

func init() {
	extraLemmaFuncs = append(extraLemmaFuncs, "capnp.(List).readSize", "capnp.(Struct).readSize", "capnp.(*Message).depthLimit", "capnp.(*Message).initReadLimit")
	Register(&Spec{
		ID:           "C02",
		Explanation:  "Decides structural necessary conditions of the traversal and depth bounds: (R1) readPtr is the only function that obtains objects from readStructPtr/readListPtr, and every struct or list it returns is dominated by the true edge of canRead(x.readSize()) for that same object; (R2) readSize charges a zero-sized element as one word and saturates on overflow, canRead updates the budget with a compare-and-swap retry loop and saturates at 0 (normal forms / structure); (R3) Message.rlimit is only touched through sync/atomic; (R4) every value stored into a depthLimit field is inherited unchanged, maxDepth in a builder, the message limit at the root, or X-1 under a dominating proof that X != 0 (and readPtr fails for struct/list when depthLimit == 0); (R6) every caller of readPtr passes the depthLimit of the object whose pointer slot it reads. (R5) every recursive group of the library's own consumers of message objects (Equal, writePtr/copyStruct, canonicalisation, text marshalling, pogs extract/insert) reaches Segment.readPtr, where the depth limit is tested and decremented. (R7) Message.Reset re-arms the traversal budget on every path (shared with C14-R5). Does NOT decide the numeric accounting equation, the bound under real concurrent schedules beyond atomicity, or stack sizes; recursion of consumers is not analysed (stated in DESIGN).",
		ExtraConfigs: true,
		Run:          runC02,
	})
}

func runC02(ctx *Ctx) {
	ruleRecursionChargesDepth(ctx, "C02-R5")
	ruleChargeOnRead(ctx, "C02-R1")
	if ctx.Primary {
		ruleKernelLemmas(ctx, "C02-R2", []string{"capnp.(List).readSize", "capnp.(Struct).readSize", "capnp.(*Message).depthLimit", "capnp.(*Message).initReadLimit"})
	}
	ruleCanRead(ctx, "C02-R2c")
	ruleAtomicOnly(ctx, "C02-R3")
	ruleDepthSites(ctx, "C02-R4")
	ruleReadPtrCallers(ctx, "C02-R6")
	// a reused Message starts its next message with the configured budget:
	// Reset re-arms rlimit on every path (shared with C14-R5)
	ruleResetComplete(ctx, "C02-R7", "capnp", "Message", "Reset", []string{"CapTable", "Arena"})
	r := ctx.Rep
	r.Floor("C02-R1", 4)
	r.Floor("C02-R2c", 3)
	r.Floor("C02-R3", 4)
	r.Floor("C02-R4", 15)
	r.Floor("C02-R6", 6)
}

func ruleChargeOnRead(ctx *Ctx, rule string) {
	q := ssaq.For(ctx.Prog)
	r := ctx.Rep
	// who may call the two readers
	for _, f := range q.FuncsIn("", "encoding/text", "pogs", "rpc", "server") {
		for _, b := range frameBlocks(f) {
			for _, in := range b.Instrs {
				cn := ssaq.StaticCalleeName(in)
				if cn == "capnp.(*Segment).readStructPtr" || cn == "capnp.(*Segment).readListPtr" {
					key := fmt.Sprintf("%s | calls %s", ssaq.FuncName(f), cn[strings.LastIndex(cn, ".")+1:])
					if ssaq.FuncName(f) == "capnp.(*Segment).readPtr" {
						r.Ok(rule, key, q.Pos(ssaq.InstrPos(in)), "readPtr is the only reader of struct/list pointers, so the charge cannot be bypassed")
					} else {
						r.Violation(rule, key, q.Pos(ssaq.InstrPos(in)), "a struct/list pointer is decoded outside readPtr: the object is handed out without charging the traversal budget or the depth limit")
					}
				}
			}
		}
	}
	f := q.Func("capnp.(*Segment).readPtr")
	if f == nil {
		r.Fail("%s: anchor readPtr not found", rule)
		return
	}
	n := 0
	for _, b := range frameBlocks(f) {
		for _, in := range b.Instrs {
			call, ok := in.(*ssa.Call)
			if !ok {
				continue
			}
			cn := ssaq.StaticCalleeName(call)
			if cn != "capnp.(Struct).ToPtr" && cn != "capnp.(List).ToPtr" {
				continue
			}
			returned := false
			for _, ref := range *call.Referrers() {
				if _, ok := ref.(*ssa.Return); ok {
					returned = true
				}
			}
			if !returned {
				continue
			}
			n++
			obj := ssaq.RenderValue(f, call.Call.Args[0])
			want := "canRead(p0.msg, readSize(" + obj + "))"
			alt := "readSize(" + obj + ")"
			key := fmt.Sprintf("readPtr | return of %s is charged", obj)
			found := false
			for _, a := range ssaq.DomAtoms(call) {
				if strings.HasPrefix(a, "canRead(") && strings.HasSuffix(a, ", "+alt+")") && !strings.HasPrefix(a, "!") {
					found = true
				}
			}
			_ = want
			pos := q.Pos(ssaq.InstrPos(call))
			if found {
				r.Ok(rule, key, pos, "dominated by the true edge of canRead("+alt+") for the object being returned")
			} else {
				r.Violation(rule, key, pos, "the object is returned without a dominating successful canRead of its own readSize(): it is not charged against the traversal limit (guards: "+strings.Join(ssaq.DomAtoms(call), " && ")+")")
			}
		}
	}
	if n < 2 {
		r.Fail("%s: expected the struct and list returns in readPtr, found %d", rule, n)
	}
}

// ruleCanRead: structure of the budget update.
func ruleCanRead(ctx *Ctx, rule string) {
	q := ssaq.For(ctx.Prog)
	r := ctx.Rep
	f := q.Func("capnp.(*Message).canRead")
	rl := mustField(ctx, rule, "", "Message", "rlimit")
	if f == nil || rl == nil {
		if f == nil {
			r.Fail("%s: anchor canRead not found", rule)
		}
		return
	}
	// one load per iteration; one compare-and-swap, or one per outcome
	var load *ssa.Call
	var cases []*ssa.Call
	for _, b := range frameBlocks(f) {
		for _, in := range b.Instrs {
			switch ssaq.StaticCalleeName(in) {
			case "sync/atomic.LoadUint64":
				load = in.(*ssa.Call)
			case "sync/atomic.CompareAndSwapUint64":
				cases = append(cases, in.(*ssa.Call))
			}
		}
	}
	pos := q.Pos(f.Pos())
	if load == nil || len(cases) == 0 {
		r.Violation(rule, "canRead | budget updated by compare-and-swap", pos, "canRead no longer reads the budget with atomic.LoadUint64 and publishes it with atomic.CompareAndSwapUint64: concurrent readers can lose charges")
		return
	}
	// every CAS: old = the loaded value, new = curr - sz or 0 (directly or
	// through a phi); over all of them both outcomes occur
	okOld, okNew, sub, zero := true, true, false, false
	newS := ""
	var leaves func(v ssa.Value, depth int)
	leaves = func(v ssa.Value, depth int) {
		if phi, isPhi := v.(*ssa.Phi); isPhi && depth < 3 {
			for _, e := range phi.Edges {
				leaves(e, depth+1)
			}
			return
		}
		if bo, ok := v.(*ssa.BinOp); ok && bo.Op == token.SUB && bo.X == ssa.Value(load) {
			sub = true
			return
		}
		if k, ok := ssaq.ConstInt(v); ok && k == 0 {
			zero = true
			return
		}
		okNew = false
	}
	for _, cas := range cases {
		if cas.Call.Args[1] != ssa.Value(load) {
			okOld = false
		}
		leaves(cas.Call.Args[2], 0)
		newS += " " + ssaq.RenderValue(f, cas.Call.Args[2])
	}
	if okOld && okNew && sub && zero {
		r.Ok(rule, "canRead | budget updated by compare-and-swap", pos, "CAS(&rlimit, curr, curr-sz | 0) with curr from atomic.LoadUint64")
	} else {
		r.Violation(rule, "canRead | budget updated by compare-and-swap", pos, fmt.Sprintf("the compare-and-swap does not replace the loaded budget by curr-sz or 0 (old is the loaded value: %v; new value:%s)", okOld, newS))
	}
	// retry loop: the failed edge of every CAS leads back to the load
	retry := true
	for _, cas := range cases {
		one := false
		for _, ref := range *cas.Referrers() {
			if ifi, ok := ref.(*ssa.If); ok {
				fb := ifi.Block().Succs[1]
				if fb == load.Block() || fb.Dominates(load.Block()) || reaches(fb, load.Block()) {
					one = true
				}
			}
		}
		retry = retry && one
	}
	// a success result is given only where the budget was sufficient
	for _, b := range frameBlocks(f) {
		ret, ok := b.Instrs[len(b.Instrs)-1].(*ssa.Return)
		if !ok || len(ret.Results) != 1 {
			continue
		}
		if c, isConst := ret.Results[0].(*ssa.Const); isConst && c.Value != nil && c.Value.String() == "true" {
			suff := false
			for _, a := range ssaq.DomAtoms(ret) {
				if strings.Contains(a, "<= LoadUint64(") {
					suff = true
				}
			}
			if !suff {
				r.Violation(rule, "canRead | success only with sufficient budget", q.Pos(ret.Pos()), "canRead returns true on a path that is not dominated by sz <= curr: a read is admitted although the budget is exhausted")
			}
		}
	}
	if retry {
		r.Ok(rule, "canRead | retry on a lost race", pos, "the failed compare-and-swap edge leads back to the load")
	} else {
		r.Violation(rule, "canRead | retry on a lost race", pos, "a failed compare-and-swap is not retried: the charge of a concurrent reader is dropped")
	}
	// result: curr >= sz, and the subtraction happens only under it
	okRes := false
	for _, b := range frameBlocks(f) {
		for _, in := range b.Instrs {
			if bo, ok := in.(*ssa.BinOp); ok && bo.Op == token.SUB && bo.X == ssa.Value(load) {
				for _, a := range ssaq.DomAtoms(bo) {
					if strings.Contains(a, "<= LoadUint64(") {
						okRes = true
					}
				}
			}
		}
	}
	if okRes {
		r.Ok(rule, "canRead | no wrap-around of the budget", pos, "curr - sz is computed only under sz <= curr; otherwise the budget saturates at 0")
	} else {
		r.Violation(rule, "canRead | no wrap-around of the budget", pos, "curr - sz is not dominated by sz <= curr: the unsigned budget wraps around to a huge value when it runs out")
	}
}

func reaches(from, to *ssa.BasicBlock) bool {
	seen := map[*ssa.BasicBlock]bool{}
	stack := []*ssa.BasicBlock{from}
	for len(stack) > 0 {
		b := stack[len(stack)-1]
		stack = stack[:len(stack)-1]
		if b == to {
			return true
		}
		if seen[b] {
			continue
		}
		seen[b] = true
		stack = append(stack, b.Succs...)
	}
	return false
}

func ruleAtomicOnly(ctx *Ctx, rule string) {
	q := ssaq.For(ctx.Prog)
	r := ctx.Rep
	rl := mustField(ctx, rule, "", "Message", "rlimit")
	if rl == nil {
		return
	}
	n := 0
	for _, f := range q.FuncsIn("") {
		k := 0
		for _, b := range f.Blocks {
			for _, in := range b.Instrs {
				fa, ok := in.(*ssa.FieldAddr)
				if !ok || ssaq.FieldVar(fa) != rl {
					continue
				}
				n++
				k++
				key := fmt.Sprintf("%s | &Message.rlimit #%d", ssaq.FuncName(f), k)
				bad := ""
				for _, ref := range *fa.Referrers() {
					cn := ssaq.StaticCalleeName(ref)
					if strings.HasPrefix(cn, "sync/atomic.") {
						// a Store of a value computed from a Load is a
						// read-modify-write in two steps: a charge that lands
						// between them is overwritten (lost update)
						if ci, ok := ref.(ssa.CallInstruction); ok && strings.HasPrefix(cn, "sync/atomic.Store") && len(ci.Common().Args) == 2 &&
							dependsOnAtomicLoadOf(ci.Common().Args[1], rl) {
							bad = fmt.Sprintf("%s at %s stores a value computed from an earlier atomic load of the budget: the two steps are not one atomic update, a concurrent canRead between them is lost", cn, q.Pos(ssaq.InstrPos(ref)))
						}
						continue
					}
					if _, isDbg := ref.(*ssa.DebugRef); isDbg {
						continue
					}
					bad = fmt.Sprintf("%T at %s", ref, q.Pos(ssaq.InstrPos(ref)))
				}
				if bad == "" {
					r.Ok(rule, key, q.Pos(ssaq.InstrPos(fa)), "the address is only passed to sync/atomic functions")
				} else {
					r.Violation(rule, key, q.Pos(ssaq.InstrPos(fa)), "the traversal budget is accessed non-atomically ("+bad+"): concurrent readers can exceed the limit")
				}
			}
		}
	}
	if n == 0 {
		r.Fail("%s: no access of Message.rlimit found", rule)
	}
}

// dependsOnAtomicLoadOf: v is computed (through any chain of operands inside
// the function) from the result of a sync/atomic.Load* of field fld.
func dependsOnAtomicLoadOf(v ssa.Value, fld *types.Var) bool {
	seen := map[ssa.Value]bool{}
	var walk func(x ssa.Value, depth int) bool
	walk = func(x ssa.Value, depth int) bool {
		if x == nil || seen[x] || depth > 40 {
			return false
		}
		seen[x] = true
		if c, ok := x.(*ssa.Call); ok && strings.HasPrefix(ssaq.StaticCalleeName(c), "sync/atomic.Load") && len(c.Call.Args) == 1 {
			if fa, ok := c.Call.Args[0].(*ssa.FieldAddr); ok && ssaq.FieldVar(fa) == fld {
				return true
			}
		}
		in, ok := x.(ssa.Instruction)
		if !ok {
			return false
		}
		for _, op := range in.Operands(nil) {
			if op != nil && *op != nil && walk(*op, depth+1) {
				return true
			}
		}
		return false
	}
	return walk(v, 0)
}

// Builders that may start an object with the maximum depth.
var maxDepthBuilders = map[string]bool{
	"capnp.NewStruct": true, "capnp.newPrimitiveList": true, "capnp.NewCompositeList": true, "capnp.NewBitList": true,
	"capnp.NewPointerList": true, "capnp.NewVoidList": true, "capnp.(*Segment).writePtr": true, "capnp.canonicalList": true,
}

// depthHelperOK: v is the result of a helper that did not exist on the
// reference tree, every return of which yields a legitimate depth: a depth
// limit read from an object, 0, or X-1 under a dominating X != 0.
func depthHelperOK(v ssa.Value) bool {
	call, ok := v.(*ssa.Call)
	if !ok {
		return false
	}
	g := call.Call.StaticCallee()
	if g == nil || !ssaq.IsNew(g) || len(g.Blocks) == 0 {
		return false
	}
	n := 0
	for _, b := range g.Blocks {
		ret, isRet := b.Instrs[len(b.Instrs)-1].(*ssa.Return)
		if !isRet {
			continue
		}
		if len(ret.Results) != 1 {
			return false
		}
		n++
		rv := ret.Results[0]
		if isDepthLoad(rv) {
			continue
		}
		if k, isC := ssaq.ConstInt(rv); isC && k == 0 {
			continue
		}
		if phi, isPhi := rv.(*ssa.Phi); isPhi && saturatingDecrement(phi) {
			continue
		}
		bo, isSub := rv.(*ssa.BinOp)
		if !isSub || bo.Op != token.SUB || !isDepthLoad(bo.X) {
			return false
		}
		if c, isC := ssaq.ConstInt(bo.Y); !isC || c != 1 {
			return false
		}
		xs := ssaq.RenderValue(g, bo.X)
		proved := false
		for _, a := range ssaq.DomAtoms(ret) {
			if a == "0:uint != "+xs || a == "0:uint < "+xs || a == xs+" != 0:uint" {
				proved = true
			}
		}
		if !proved {
			return false
		}
	}
	return n > 0
}

func ruleDepthSites(ctx *Ctx, rule string) {
	q := ssaq.For(ctx.Prog)
	r := ctx.Rep
	n := 0
	for _, f := range q.FuncsIn("") {
		name := ssaq.FuncName(f)
		k := 0
		for _, b := range f.Blocks {
			for _, in := range b.Instrs {
				st, ok := in.(*ssa.Store)
				if !ok {
					continue
				}
				fa, ok := st.Addr.(*ssa.FieldAddr)
				if !ok {
					continue
				}
				fld := ssaq.FieldVar(fa)
				if fld == nil || core.FieldName(fld) != "depthLimit" {
					continue
				}
				n++
				k++
				key := fmt.Sprintf("%s | depthLimit = #%d", name, k)
				pos := q.Pos(ssaq.InstrPos(in))
				v := st.Val
				vs := ssaq.RenderValue(f, v)
				switch {
				case isDepthLoad(v):
					r.Ok(rule, key, pos, "inherited unchanged: "+vs)
				case depthHelperOK(v):
					r.Ok(rule, key, pos, "a new helper that returns, on every path, the inherited depth, 0, or X-1 under X != 0: "+vs)
				case isMaxDepth(v):
					inBuilder := maxDepthBuilders[name]
					if !inBuilder && ssaq.IsNew(f) {
						// a helper that did not exist on the reference tree,
						// reached only from builders
						if owners, ok := q.Attributed(f); ok {
							inBuilder = true
							for _, on := range owners {
								inBuilder = inBuilder && maxDepthBuilders[on]
							}
						}
					}
					if inBuilder {
						r.Ok(rule, key, pos, "maxDepth on a freshly allocated (trusted, acyclic) object")
					} else {
						r.Violation(rule, key, pos, "an object gets the maximum depth outside the builder functions: a reader could walk it without a depth bound")
					}
				case strings.HasPrefix(vs, "depthLimit(") && name == "capnp.(*Segment).root":
					r.Ok(rule, key, pos, "the message's depth limit at the root")
				default:
					bo, isSub := v.(*ssa.BinOp)
					one := false
					if isSub && bo.Op == token.SUB {
						if c, ok := ssaq.ConstInt(bo.Y); ok && c == 1 {
							one = true
						}
					}
					if phi, isPhi := v.(*ssa.Phi); isPhi && saturatingDecrement(phi) {
						r.Ok(rule, key, pos, "saturating decrement: X-1 only on the edge where X > 0, X (= 0) otherwise")
						continue
					}
					if !one {
						r.Violation(rule, key, pos, "unrecognised depth computation "+vs+": depth must be inherited, maxDepth in a builder, the message limit, or X-1 under X != 0")
						continue
					}
					xs := ssaq.RenderValue(f, bo.X)
					proved := false
					for _, a := range ssaq.DomAtoms(in) {
						if a == "0:uint != "+xs || a == "0:uint < "+xs || a == xs+" != 0:uint" {
							proved = true
						}
					}
					if proved {
						r.Ok(rule, key, pos, xs+" - 1 under a dominating "+xs+" != 0")
					} else {
						r.Violation(rule, key, pos, fmt.Sprintf("%s - 1 on an unsigned depth without a dominating proof that %s != 0: at depth 0 it wraps to 2^64-1 and the depth bound is lost (guards: %s)", xs, xs, strings.Join(ssaq.DomAtoms(in), " && ")))
					}
				}
			}
		}
	}
	if n == 0 {
		r.Fail("%s: no depthLimit store found", rule)
	}
	// readPtr fails for struct/list when depthLimit == 0: the calls of the readers are dominated by depthLimit != 0
	if f := q.Func("capnp.(*Segment).readPtr"); f != nil {
		for _, b := range f.Blocks {
			for _, in := range b.Instrs {
				cn := ssaq.StaticCalleeName(in)
				if cn != "capnp.(*Segment).readStructPtr" && cn != "capnp.(*Segment).readListPtr" {
					continue
				}
				key := "readPtr | " + cn[strings.LastIndex(cn, ".")+1:] + " only with depth left"
				ok := false
				for _, a := range ssaq.DomAtoms(in) {
					if a == "0:uint != p2" || a == "0:uint < p2" {
						ok = true
					}
				}
				if ok {
					r.Ok(rule, key, q.Pos(ssaq.InstrPos(in)), "dominated by depthLimit != 0 (the other edge returns 'depth limit reached')")
				} else {
					r.Violation(rule, key, q.Pos(ssaq.InstrPos(in)), "a struct/list is dereferenced without testing that depth is left")
				}
			}
		}
	}
}

func isDepthLoad(v ssa.Value) bool {
	fld, _ := ssaq.LoadedField(v)
	if fld != nil && core.FieldName(fld) == "depthLimit" {
		return true
	}
	if _, ok := v.(*ssa.Parameter); ok {
		return false
	}
	return false
}

func isMaxDepth(v ssa.Value) bool {
	c, ok := v.(*ssa.Const)
	if !ok || c.Value == nil {
		return false
	}
	s := c.Value.ExactString()
	return s == "18446744073709551615" || s == "4294967295"
}

// saturatingDecrement: phi(X-1 on an edge dominated by X > 0, X otherwise).
func saturatingDecrement(phi *ssa.Phi) bool {
	var x ssa.Value
	subOK := false
	for i, e := range phi.Edges {
		if bo, ok := e.(*ssa.BinOp); ok && bo.Op == token.SUB {
			if c, ok := ssaq.ConstInt(bo.Y); ok && c == 1 {
				x = bo.X
				xs := ssaq.RenderValue(phi.Parent(), bo.X)
				for _, a := range ssaq.DomAtoms(bo) {
					if a == "0:uint < "+xs || a == "0:uint != "+xs {
						subOK = true
					}
				}
				_ = i
			}
		}
	}
	if x == nil || !subOK {
		return false
	}
	for _, e := range phi.Edges {
		if bo, ok := e.(*ssa.BinOp); ok && bo.Op == token.SUB {
			continue
		}
		if e != x && ssaq.AccessPath(e) != ssaq.AccessPath(x) {
			return false
		}
	}
	return true
}

func ruleReadPtrCallers(ctx *Ctx, rule string) {
	q := ssaq.For(ctx.Prog)
	r := ctx.Rep
	n := 0
	for _, f := range q.FuncsIn("", "encoding/text", "pogs", "rpc", "server") {
		k := 0
		for _, b := range f.Blocks {
			for _, in := range b.Instrs {
				if ssaq.StaticCalleeName(in) != "capnp.(*Segment).readPtr" {
					continue
				}
				n++
				k++
				args := in.(ssa.CallInstruction).Common().Args
				segS, depS := ssaq.RenderValue(f, args[0]), ssaq.RenderValue(f, args[2])
				key := fmt.Sprintf("%s | readPtr #%d passes the object's own depth", ssaq.FuncName(f), k)
				if strings.HasSuffix(segS, ".seg") && depS == strings.TrimSuffix(segS, ".seg")+".depthLimit" {
					r.Ok(rule, key, q.Pos(ssaq.InstrPos(in)), "depth argument is "+depS+" of the object whose slot is read")
				} else {
					r.Violation(rule, key, q.Pos(ssaq.InstrPos(in)), fmt.Sprintf("readPtr is called on %s with depth %s, which is not the depthLimit of the object whose pointer slot is read: the depth bound is reset or borrowed", segS, depS))
				}
			}
		}
	}
	if n < 6 {
		r.Fail("%s: expected at least 6 readPtr call sites, found %d", rule, n)
	}
}
