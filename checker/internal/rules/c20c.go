package rules

import (
	"golang.org/x/tools/go/ssa"

	"verifcheck/internal/ssaq"
)

// ruleRegistrySwitchDropsCache (C20-R6): the text encoder renders a value from
// the schema nodes that nodemap caches by type id. The cache belongs to one
// registry: after UseRegistry the nodes must be looked up afresh, otherwise an
// encoder that has already encoded under the old registry keeps printing field
// and enumerant names of the old schema, and the output depends on the
// encoder's history instead of on the value and its schema. On every path to
// a return of UseRegistry the cache field has been replaced unconditionally by
// a new map (or nil: Find allocates on demand), directly or in a helper every
// path of which does so.
func ruleRegistrySwitchDropsCache(ctx *Ctx, rule string) {
	q := ssaq.For(ctx.Prog)
	r := ctx.Rep
	nodes := mustField(ctx, rule, "internal/nodemap", "Map", "nodes")
	f := q.Func("internal/nodemap.(*Map).UseRegistry")
	if nodes == nil || f == nil {
		if f == nil {
			r.Fail("%s: internal/nodemap.(*Map).UseRegistry not found", rule)
		}
		return
	}
	key := "internal/nodemap.(*Map).UseRegistry | the node cache of the old registry is dropped"
	// resets(g): the blocks of g that hold an unconditional replacement
	var resets func(g *ssa.Function, depth int) []*ssa.BasicBlock
	coversReturns := func(g *ssa.Function, blks []*ssa.BasicBlock) bool {
		for _, b := range g.Blocks {
			if _, ok := b.Instrs[len(b.Instrs)-1].(*ssa.Return); !ok {
				continue
			}
			ok := false
			for _, s := range blks {
				if s == b || s.Dominates(b) {
					ok = true
				}
			}
			if !ok {
				return false
			}
		}
		return true
	}
	resets = func(g *ssa.Function, depth int) []*ssa.BasicBlock {
		var out []*ssa.BasicBlock
		for _, b := range g.Blocks {
			for _, in := range b.Instrs {
				switch in := in.(type) {
				case *ssa.Store:
					fa, ok := in.Addr.(*ssa.FieldAddr)
					if !ok || ssaq.FieldVar(fa) != nodes {
						continue
					}
					if _, isParam := fa.X.(*ssa.Parameter); !isParam {
						continue
					}
					if _, fresh := in.Val.(*ssa.MakeMap); fresh || ssaq.IsNilConst(in.Val) {
						out = append(out, b)
					}
				case *ssa.Call:
					h := in.Call.StaticCallee()
					if h == nil || depth >= 2 || !ssaq.IsNew(h) || len(h.Blocks) == 0 || len(in.Call.Args) == 0 {
						continue
					}
					if _, isParam := in.Call.Args[0].(*ssa.Parameter); !isParam {
						continue
					}
					if coversReturns(h, resets(h, depth+1)) {
						out = append(out, b)
					}
				}
			}
		}
		return out
	}
	if coversReturns(f, resets(f, 0)) {
		r.Ok(rule, key, q.Pos(f.Pos()), "every return is dominated by m.nodes = a new map")
	} else {
		r.Violation(rule, key, q.Pos(f.Pos()), "UseRegistry can return without having replaced m.nodes by a new (or nil) map: nodes cached from the previous registry keep answering Find, so an encoder that has encoded before renders later values with the old schema's field and enumerant names")
	}
}
