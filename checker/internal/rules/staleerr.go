package rules

import (
	"fmt"
	"go/token"

	"golang.org/x/tools/go/ssa"

	"verifcheck/internal/ssaq"
)

// ruleWrongErrorTested: a branch `if v != nil` on an error value v that is
// already known to be nil at that point (a dominating test established it), whose
// body handles a DIFFERENT error value w that is tested nowhere: the author
// believed to test w (rename slip). The error w is then never acted upon.
func ruleWrongErrorTested(ctx *Ctx, rule string, funcFilter func(name string) bool, pkgs ...string) {
	q := ssaq.For(ctx.Prog)
	r := ctx.Rep
	n := 0
	for i, p := range pkgs {
		if p == "capnp" {
			pkgs[i] = "" // the module's root package
		}
	}
	for _, f := range q.FuncsIn(pkgs...) {
		name := ssaq.FuncName(f)
		if funcFilter != nil && !funcFilter(name) {
			continue
		}
		k := 0
		for _, b := range f.Blocks {
			if len(b.Instrs) == 0 {
				continue
			}
			ifi, ok := b.Instrs[len(b.Instrs)-1].(*ssa.If)
			if !ok {
				continue
			}
			var v ssa.Value
			taken := 0
			for _, at := range ssaq.Atoms([]ssaq.Guard{{Cond: ifi.Cond, True: true}}) {
				switch {
				case at.Op == token.NEQ && ssaq.IsNilConst(at.Y) && isErrorType(at.X.Type()):
					v = at.X
				case at.Op == token.NEQ && ssaq.IsNilConst(at.X) && isErrorType(at.Y.Type()):
					v = at.Y
				case at.Op == token.EQL && ssaq.IsNilConst(at.Y) && isErrorType(at.X.Type()):
					v, taken = at.X, 1
				case at.Op == token.EQL && ssaq.IsNilConst(at.X) && isErrorType(at.Y.Type()):
					v, taken = at.Y, 1
				}
			}
			if v == nil {
				continue
			}
			k++
			n++
			key := fmt.Sprintf("%s | error test #%d tests a value that can be non-nil", name, k)
			pos := q.Pos(ssaq.InstrPos(ifi))
			knownNil := false
			for _, at := range ssaq.Atoms(ssaq.Guards(b)) {
				if at.Op == token.EQL && ((at.X == v && ssaq.IsNilConst(at.Y)) || (at.Y == v && ssaq.IsNilConst(at.X))) {
					knownNil = true
				}
			}
			if !knownNil {
				r.Ok(rule, key, pos, "the tested error is not known to be nil here")
				continue
			}
			// the handler block: does it use another, untested error value?
			var other ssa.Value
			if taken < len(b.Succs) {
				for _, in := range b.Succs[taken].Instrs {
					for _, op := range in.Operands(nil) {
						if *op == nil || *op == v || !isErrorType((*op).Type()) {
							continue
						}
						if _, isConst := (*op).(*ssa.Const); isConst {
							continue
						}
						if !errorIsTested(*op) {
							other = *op
						}
					}
				}
			}
			if other != nil {
				r.Violation(rule, key, pos, fmt.Sprintf("the condition tests %s, which is known to be nil on every path reaching it, while the branch handles %s, which is tested nowhere: the failure reported by %s is swallowed", ssaq.RenderValue(f, v), ssaq.RenderValue(f, other), ssaq.RenderValue(f, other)))
			} else {
				r.Ok(rule, key, pos, "redundant test of a value known to be nil; no other error is handled in the branch")
			}
		}
	}
	if n == 0 {
		r.Fail("%s: no error test found", rule)
	}
}

// errorIsTested: v is compared with nil somewhere or returned.
func errorIsTested(v ssa.Value) bool {
	refs := v.Referrers()
	if refs == nil {
		return true
	}
	for _, ref := range *refs {
		switch x := ref.(type) {
		case *ssa.BinOp:
			if x.Op == token.EQL || x.Op == token.NEQ {
				return true
			}
		case *ssa.Return:
			return true
		case *ssa.Phi:
			return true
		case *ssa.Store:
			return true
		}
	}
	return false
}
