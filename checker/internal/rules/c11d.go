package rules

import (
	"fmt"
	"go/ast"
	"strings"

	"verifcheck/internal/core"
)

// ruleResolutionOnlyWhenResolved (C11-R9): Promise.resolution() returns the
// result fields of the promise; they are meaningful only once the promise is
// resolved ("The return value is invalid unless p is in the resolved state").
// Every call of it is reached only through a receive from the promise's
// resolved channel or through a test isResolved() — never on a path on which
// the promise may still be pending: a value read there and used after the
// wait is the empty result, and a pipelined call made while the answer is
// being resolved would be sent to a null capability.
//
// A call that sits in a helper that did not exist on the reference tree is
// judged inside the helper first and otherwise at every call of the helper.
func ruleResolutionOnlyWhenResolved(ctx *Ctx, rule string) {
	a := lockAnalysis(ctx)
	if a == nil {
		return
	}
	r := ctx.Rep
	resolved := mustField(ctx, rule, "", "Promise", "resolved")
	if resolved == nil {
		return
	}
	n := 0
	for _, u := range a.UnitsSorted() {
		if !strings.HasPrefix(u.Name, "capnp.") {
			continue
		}
		info := u.Pkg.TypesInfo
		isTarget := func(m ast.Node) bool { return isCallNamed(info, m, "capnp.(*Promise).resolution") }
		isEstablished := func(m ast.Node) bool {
			return isRecvFromField(info, m, resolved) || isCallNamed(info, m, "capnp.(*Promise).isResolved")
		}
		k := 0
		for _, p := range u.Find(isTarget) {
			n++
			k++
			node := p.B.Nodes[p.I]
			key := fmt.Sprintf("%s | resolution() #%d only once the promise is resolved", u.Name, k)
			pos := ctx.Prog.Rel(node.Pos())
			// the call itself must be the target of the query: search from the
			// entry for this very node
			this := func(m ast.Node) bool { return m == node || (isTarget(m) && containsNode(node, m)) }
			res := a.Eng.Reaches(u, u.Entry(), this, isEstablished)
			if !res.Found {
				r.Ok(rule, key, pos, "every path to the call passes <-p.resolved or a test isResolved()")
				continue
			}
			// a new helper: its callers may have established it
			if u.Obj != nil && core.IsNewFunc(u.Obj) {
				okAll, sites := true, 0
				for _, cu := range a.UnitsSorted() {
					cinfo := cu.Pkg.TypesInfo
					isCallOfU := func(m ast.Node) bool { return isCallNamed(cinfo, m, u.Name) }
					for _, cp := range cu.Find(isCallOfU) {
						sites++
						cnode := cp.B.Nodes[cp.I]
						same := func(m ast.Node) bool { return m == cnode }
						cEst := func(m ast.Node) bool {
							return isRecvFromField(cinfo, m, resolved) || isCallNamed(cinfo, m, "capnp.(*Promise).isResolved")
						}
						if a.Eng.Reaches(cu, cu.Entry(), same, cEst).Found {
							okAll = false
						}
					}
				}
				if okAll && sites > 0 {
					r.Ok(rule, key, pos, "new helper: every call of it is reached only through <-p.resolved or isResolved()")
					continue
				}
			}
			r.Violation(rule, key, pos, "resolution() can be reached on a path that passes neither <-p.resolved nor a test isResolved(): the promise may still be pending, the value read is its empty result, and a pipelined call made meanwhile goes to a null capability instead of the one in the result", res.Trace...)
		}
	}
	if n == 0 {
		r.Fail("%s: no call of Promise.resolution found", rule)
	}
	r.Floor(rule, 4)
}

// containsNode: inner occurs inside outer (or is outer).
func containsNode(outer, inner ast.Node) bool {
	found := false
	ast.Inspect(outer, func(m ast.Node) bool {
		if m == inner {
			found = true
		}
		return !found
	})
	return found
}
