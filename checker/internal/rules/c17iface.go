package rules

import (
	"strings"

	"golang.org/x/tools/go/ssa"

	"verifcheck/internal/ssaq"
)

// ruleIfaceIndexSameMessage: capability indexes are positions in ONE message's
// capability table. Equal may conclude anything from "the two interface
// pointers carry the same index" only under "the two pointers live in the same
// message"; across messages only Client.IsSame decides.
func ruleIfaceIndexSameMessage(ctx *Ctx, rule string) {
	q := ssaq.For(ctx.Prog)
	r := ctx.Rep
	f := q.Func("capnp.Equal")
	if f == nil {
		r.Fail("%s: capnp.Equal not found", rule)
		return
	}
	key := "capnp.Equal | equal capability index decides only within one message"
	pos := q.Pos(f.Pos())
	n, bad := 0, 0
	// Equal itself and the helpers extracted from it since the reference tree
	funcs := []*ssa.Function{f}
	seen := map[*ssa.Function]bool{f: true}
	for i := 0; i < len(funcs) && i < 8; i++ {
		for _, b := range funcs[i].Blocks {
			for _, in := range b.Instrs {
				if ci, ok := in.(ssa.CallInstruction); ok {
					if g := ci.Common().StaticCallee(); g != nil && ssaq.IsNew(g) && len(g.Blocks) > 0 && !seen[g] {
						seen[g] = true
						funcs = append(funcs, g)
					}
				}
			}
		}
	}
	var blocks []*ssa.BasicBlock
	for _, g := range funcs {
		blocks = append(blocks, g.Blocks...)
	}
	for _, b := range blocks {
		if len(b.Instrs) == 0 {
			continue
		}
		// every instruction that is control-dependent on a comparison of two Capability() results
		last := b.Instrs[len(b.Instrs)-1]
		atoms := ssaq.DomAtoms(last)
		idx, same := false, false
		for _, a := range atoms {
			if strings.Count(a, "Capability(") == 2 && (strings.Contains(a, " == ") || strings.Contains(a, " != ")) {
				idx = true
			}
			// an index compared with the length of a capability table: the table
			// is one message's, so the index must belong to that message too
			if strings.Contains(a, "Capability(") && strings.Contains(a, "CapTable") {
				idx = true
			}
			if strings.Count(a, "Message(") == 2 && strings.Contains(a, " == ") {
				same = true
			}
		}
		if !idx {
			continue
		}
		if _, isRet := last.(*ssa.Return); !isRet {
			continue
		}
		n++
		if !same {
			bad++
			pos = q.Pos(ssaq.InstrPos(last))
		}
	}
	switch {
	case n == 0:
		r.Violation(rule, key, pos, "Equal no longer has a result that depends on comparing the capability indexes of the two interface pointers (expected: the same-message shortcut)")
	case bad > 0:
		r.Violation(rule, key, pos, "a result of Equal depends on the capability indexes of the two pointers being equal without the two pointers being known to be in the same message: pointers in different messages that happen to carry the same index compare equal without Client.IsSame being consulted")
	default:
		r.Ok(rule, key, pos, "every result that depends on the index comparison is under Message(i1) == Message(i2)")
	}
}
