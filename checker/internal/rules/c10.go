package rules

import (
	"fmt"
	"go/ast"
	"go/token"
	"go/types"
	"strings"
	"verifcheck/internal/core"

	"golang.org/x/tools/go/ssa"

	"verifcheck/internal/flow"
	"verifcheck/internal/ssaq"
)

func init() {
	Register(&Spec{
		ID:          "C10",
		Explanation: "Decides structural necessary conditions of exactly-once shutdown of a capability: (R1) lock balance and the resolveHook hand-over in capability.go; (R2) clientHook.{refs,calls,resolvedHook} and Client.{h,released} are only touched with their mutex held; (R3) every close(h.done) is reached only under guards establishing refs == 0 and calls == 0, with the hook mutex held; (R4) ClientHook.Shutdown is called only from Client.Release and ClientPromise.Fulfill, after a receive from that hook's done channel, with no mutex held; (R5) startCall increments calls before handing out a hook, every caller runs finish on all paths, and SendCall/RecvCall test released and nil before the dynamic call; (R6) Fulfill moves the promise's refs to the resolved hook and WeakClient.AddRef refuses a hook with refs == 0. (R6c) ClientPromise.Fulfill credits the promise's references to the resolution (resolveHook) before it waits for the old hook to drain or shuts it down. (R6r) every increment of clientHook.refs is applied to the result of resolveHook (directly, or through x.h read after x.h = resolveHook(...)). (R6j) Promise.Join moves p's whole clientsRefs count to the promise it joins on every path that sets p.next. (R7) once Release has set c.released, every path to a return clears c.h. Does NOT decide exactly-once under interleavings (only that every access is serialised and every close conditioned) nor deadlock-freedom of user hooks.",
		Run:         runC10,
	})
}

func capnpField(g guardedField, types ...string) bool {
	if g.pkg != "" {
		return false
	}
	for _, t := range types {
		if g.typ == t {
			return true
		}
	}
	return false
}

func runC10(ctx *Ctx) {
	ruleLockBalance(ctx, "C10-R1", fileScope(ctx, "capability.go"))
	ruleLockContracts(ctx, "C10-R1c", func(n string) bool {
		return n == "capnp.resolveHook" || n == "capnp.(*Client).startCall"
	})
	ruleGuardedBy(ctx, "C10-R2", func(g guardedField) bool { return capnpField(g, "clientHook", "Client") })
	rulePolicy(ctx, "C10-R4p", fileScope(ctx, "capability.go"), heldPolicy{
		noDynamic: []string{"capnp.Client.mu", "capnp.clientHook.mu"},
		noRelock:  []string{"capnp.Client.mu"},
	})
	ruleCloseDone(ctx, "C10-R3")
	ruleShutdownOrder(ctx, "C10-R4")
	ruleCallBracket(ctx, "C10-R5")
	ruleRefTransfer(ctx, "C10-R6")
	ruleFulfillTarget(ctx, "C10-R6b")
	ruleFulfillCreditsBeforeWait(ctx, "C10-R6c")
	// a joined promise hands its claim on the pipelined clients to the promise
	// it joins, unconditionally (shared with C11-R6b): a claim that is dropped
	// releases, and so shuts down, capabilities that are still in use
	ruleJoinState(ctx, "C10-R6j")
	ruleRefsCountedOnResolvedHook(ctx, "C10-R6r")
	ruleReleaseDetachesHook(ctx, "C10-R7")
	r := ctx.Rep
	r.Floor("C10-R6b", 1)
	r.Floor("C10-R1", 40)
	r.Floor("C10-R2", 60)
	r.Floor("C10-R3", 3)
	r.Floor("C10-R4", 2)
	r.Floor("C10-R5", 8)
	r.Floor("C10-R6", 3)
	r.Floor("C10-R4p", 20)
	r.Assumption("lock identity is per class; guards are matched on access paths (base.field), not on object identity")
}

// cmpHolds: among cmps there is one on (base, field) that implies value <= 0 / == 0.
func impliesZero(cmps []ssaq.FieldCmp, base string, f *types.Var) (string, bool) {
	for _, c := range cmps {
		if c.Field != f || c.Base != base || c.IsNil {
			continue
		}
		switch {
		case c.Op == token.EQL && c.K == 0, c.Op == token.LEQ && c.K == 0, c.Op == token.LSS && c.K == 1:
			return fmt.Sprintf("%s.%s %s %d", c.Base, f.Name(), c.Op, c.K), true
		}
	}
	return "", false
}

// ruleCloseDone is C10-R3.
func ruleCloseDone(ctx *Ctx, rule string) {
	q := ssaq.For(ctx.Prog)
	r := ctx.Rep
	done := mustField(ctx, rule, "", "clientHook", "done")
	refs := mustField(ctx, rule, "", "clientHook", "refs")
	calls := mustField(ctx, rule, "", "clientHook", "calls")
	if done == nil || refs == nil || calls == nil {
		return
	}
	a := lockAnalysis(ctx)
	cHook := -1
	if a != nil {
		cHook = a.Sem.ClassByName("capnp.clientHook.mu")
	}
	n := 0
	for _, f := range q.FuncsIn("") {
		for _, b := range f.Blocks {
			for _, in := range b.Instrs {
				cc, ok := ssaq.BuiltinCall(in, "close")
				if !ok || len(cc.Args) != 1 {
					continue
				}
				fld, base := ssaq.LoadedField(cc.Args[0])
				if fld != done {
					continue
				}
				n++
				bp := ssaq.AccessPath(base)
				key := fmt.Sprintf("%s | close(%s.done)", ssaq.FuncName(f), bp)
				pos := q.Pos(ssaq.InstrPos(in))
				atoms := ssaq.Atoms(ssaq.Guards(b))
				cmps := ssaq.FieldCmps(atoms)
				var missing []string
				var have []string
				if s, ok := impliesZero(cmps, bp, calls); ok {
					have = append(have, s)
				} else {
					missing = append(missing, bp+".calls == 0")
				}
				if s, ok := impliesZero(cmps, bp, refs); ok {
					have = append(have, s)
				} else if st := dominatingZeroStore(f, in, refs, bp); st != "" {
					have = append(have, st)
				} else {
					missing = append(missing, bp+".refs == 0")
				}
				if len(missing) > 0 {
					r.Violation(rule, key, pos, fmt.Sprintf("done is closed without the guard(s) %s being established on the way (established: %s); 'done is closed when refs == 0 and calls == 0'",
						strings.Join(missing, ", "), ssaq.AtomsString(atoms)))
					continue
				}
				r.Ok(rule, key, pos, "established on every path to the close: "+strings.Join(have, ", "))
			}
		}
	}
	// mutex held at each close, from the lock analysis (AST side)
	if a != nil && cHook >= 0 {
		for _, u := range a.UnitsSorted() {
			if !strings.HasPrefix(u.Name, "capnp.") {
				continue
			}
			info := u.Pkg.TypesInfo
			k := 0
			ast.Inspect(u.Body, func(m ast.Node) bool {
				if _, ok := m.(*ast.FuncLit); ok {
					return false
				}
				if isBuiltinCall(info, m, "close", done) {
					k++
					key := fmt.Sprintf("%s | close(done) #%d under clientHook.mu", u.Name, k)
					min, _, known := a.Held(u, m, cHook)
					switch {
					case !known:
						r.Exempt(rule, key, ctx.Prog.Rel(m.Pos()), "unreachable in the CFG")
					case min < 1:
						r.Violation(rule, key, ctx.Prog.Rel(m.Pos()), "done is closed in a state where clientHook.mu is not held: the refs/calls test and the close are not atomic")
					default:
						r.Ok(rule, key, ctx.Prog.Rel(m.Pos()), "clientHook.mu held in every state")
					}
				}
				return true
			})
		}
	}
	if n == 0 {
		r.Fail("%s: no close(clientHook.done) site found", rule)
	}
}

// dominatingZeroStore finds a store of constant 0 to base.field that
// dominates instr with no later store to the same field on the way
// (approximated: no other store to that field in the function after it).
func dominatingZeroStore(f *ssa.Function, at ssa.Instruction, fld *types.Var, base string) string {
	var zero *ssa.Store
	var others []*ssa.Store
	for _, b := range f.Blocks {
		for _, in := range b.Instrs {
			st, ok := in.(*ssa.Store)
			if !ok {
				continue
			}
			fa, ok := st.Addr.(*ssa.FieldAddr)
			if !ok || ssaq.FieldVar(fa) != fld || ssaq.AccessPath(fa.X) != base {
				continue
			}
			if k, ok := ssaq.ConstInt(st.Val); ok && k == 0 {
				zero = st
			} else {
				others = append(others, st)
			}
		}
	}
	if zero == nil || !ssaq.DominatesInstr(zero, at) {
		return ""
	}
	for _, o := range others {
		if ssaq.DominatesInstr(zero, o) && !ssaq.DominatesInstr(at, o) {
			// a non-zero store after the zero store that can precede the close
			return ""
		}
	}
	return fmt.Sprintf("%s.%s = 0 dominates", base, fld.Name())
}

// ruleShutdownOrder is C10-R4.
func ruleShutdownOrder(ctx *Ctx, rule string) {
	a := lockAnalysis(ctx)
	if a == nil {
		return
	}
	r := ctx.Rep
	done := mustField(ctx, rule, "", "clientHook", "done")
	if done == nil {
		return
	}
	allowed := map[string]bool{"capnp.(*Client).Release": true, "capnp.(*ClientPromise).Fulfill": true}
	found := 0
	for _, u := range a.UnitsSorted() {
		info := u.Pkg.TypesInfo
		var calls []*ast.CallExpr
		ast.Inspect(u.Body, func(m ast.Node) bool {
			if _, ok := m.(*ast.FuncLit); ok {
				return false
			}
			if c, ok := m.(*ast.CallExpr); ok && isCallNamed(info, c, "capnp.(ClientHook).Shutdown") {
				calls = append(calls, c)
			}
			return true
		})
		for i, c := range calls {
			found++
			key := fmt.Sprintf("%s | ClientHook.Shutdown #%d", u.Name, i+1)
			pos := ctx.Prog.Rel(c.Pos())
			if !allowed[u.Name] {
				r.Violation(rule, key, pos, "ClientHook.Shutdown is called outside Client.Release / ClientPromise.Fulfill: the refs/calls/done protocol is bypassed")
				continue
			}
			isThis := func(m ast.Node) bool { return m == ast.Node(c) }
			isWait := func(m ast.Node) bool { return isRecvFromField(info, m, done) }
			noPathCheck(ctx, a, rule, key+" after <-done", u, u.Entry(), c.Pos(), isThis, isWait,
				"Shutdown can be reached without first receiving from the hook's done channel: it may run while calls are in progress",
				"every path to Shutdown passes a receive from done")
		}
	}
	if found < 2 {
		r.Fail("%s: expected the two Shutdown call sites (Release, Fulfill), found %d", rule, found)
	}
}

// ruleCallBracket is C10-R5.
func ruleCallBracket(ctx *Ctx, rule string) {
	a := lockAnalysis(ctx)
	if a == nil {
		return
	}
	r := ctx.Rep
	callsF := mustField(ctx, rule, "", "clientHook", "calls")
	if callsF == nil {
		return
	}
	// (a) every caller of startCall runs finish on all paths.
	callers := 0
	for _, u := range a.UnitsSorted() {
		info := u.Pkg.TypesInfo
		for _, p := range u.Find(func(m ast.Node) bool { return isCallNamed(info, m, "capnp.(*Client).startCall") }) {
			node := p.B.Nodes[p.I]
			callers++
			key := u.Name + " | finish() after startCall"
			as, ok := node.(*ast.AssignStmt)
			if !ok || len(as.Lhs) != 4 {
				r.Violation(rule, key, ctx.Prog.Rel(node.Pos()), "startCall's results are not bound (hook, resolved, released, finish): the finish function cannot be tracked")
				continue
			}
			fid, ok := as.Lhs[3].(*ast.Ident)
			if !ok || fid.Name == "_" {
				r.Violation(rule, key, ctx.Prog.Rel(node.Pos()), "the finish function returned by startCall is discarded: calls is never decremented and the hook can never shut down")
				continue
			}
			fobj := info.ObjectOf(fid)
			isFinish := func(m ast.Node) bool {
				c, ok := m.(*ast.CallExpr)
				if !ok {
					return false
				}
				id, ok := ast.Unparen(c.Fun).(*ast.Ident)
				return ok && info.ObjectOf(id) == fobj
			}
			pathCheck(ctx, a, rule, key, u, p.After(), node.Pos(), isFinish, nil, "finish() (deferred or direct)")
		}
	}
	if callers < 3 {
		r.Fail("%s: expected at least 3 callers of startCall, found %d", rule, callers)
	}
	// (b) startCall increments calls before returning a non-nil hook; its finish closure decrements it.
	if u := mustUnit(ctx, a, rule, "capnp.(*Client).startCall"); u != nil {
		info := u.Pkg.TypesInfo
		isInc := func(m ast.Node) bool {
			s, ok := m.(*ast.IncDecStmt)
			return ok && s.Tok == token.INC && fieldOfSel(info, s.X) == callsF
		}
		isHookReturn := func(m ast.Node) bool {
			rs, ok := m.(*ast.ReturnStmt)
			return ok && len(rs.Results) > 0 && !isNil(rs.Results[0])
		}
		noPathCheck(ctx, a, rule, "startCall | calls++ before handing out a hook", u, u.Entry(), u.Pos, isHookReturn, isInc,
			"startCall can return a hook without having incremented calls: Shutdown may run during the call",
			"every path to the return of a non-nil hook passes calls++")
		decs := 0
		// the finish function is a literal of startCall, or (since the reference
		// tree) a helper or method that startCall hands out by value
		cands := litChildren(a, u)
		for _, hu := range a.Eng.Units {
			if hu.Obj == nil || !core.IsNewFunc(hu.Obj) {
				continue
			}
			used := false
			ast.Inspect(u.Body, func(n ast.Node) bool {
				if id, ok := n.(*ast.Ident); ok && info.Uses[id] == types.Object(hu.Obj) {
					used = true
				}
				return !used
			})
			if used {
				cands = append(cands, hu)
			}
		}
		for _, lu := range cands {
			linfo := lu.Pkg.TypesInfo
			isDec := func(m ast.Node) bool {
				s, ok := m.(*ast.IncDecStmt)
				return ok && s.Tok == token.DEC && fieldOfSel(linfo, s.X) == callsF
			}
			if len(lu.Find(isDec)) > 0 {
				decs++
				pathCheck(ctx, a, rule, lu.Name+" | finish decrements calls", lu, lu.Entry(), lu.Pos, isDec, nil, "calls--")
			}
		}
		if decs == 0 {
			r.Violation(rule, "startCall | finish decrements calls", ctx.Prog.Rel(u.Pos), "no finish closure of startCall decrements calls")
		}
	}
	// (c) SendCall / RecvCall test released and nil before the dynamic call (SSA guards).
	q := ssaq.For(ctx.Prog)
	for _, spec := range []struct{ fn, invoke string }{
		{"capnp.(*Client).SendCall", "capnp.(ClientHook).Send"},
		{"capnp.(*Client).RecvCall", "capnp.(ClientHook).Recv"},
		{"capnp.(*Client).State", "capnp.(ClientHook).Brand"},
	} {
		f := q.Func(spec.fn)
		if f == nil {
			r.Fail("%s: anchor %s not found", rule, spec.fn)
			continue
		}
		found := false
		for _, b := range f.Blocks {
			for _, in := range b.Instrs {
				if ssaq.InvokeName(in) != spec.invoke {
					continue
				}
				found = true
				recv := in.(ssa.CallInstruction).Common().Value
				atoms := ssaq.Atoms(ssaq.Guards(b))
				nonNil, notReleased := false, spec.fn == "capnp.(*Client).State"
				for _, at := range atoms {
					if at.Op == token.NEQ && ((at.X == recv && ssaq.IsNilConst(at.Y)) || (at.Y == recv && ssaq.IsNilConst(at.X))) {
						nonNil = true
					}
					if at.Op == token.ILLEGAL && !at.True {
						if ex, ok := at.Val.(*ssa.Extract); ok && ex.Index == 2 {
							if c, ok := ex.Tuple.(*ssa.Call); ok && ssaq.StaticCalleeName(c) == "capnp.(*Client).startCall" {
								notReleased = true
							}
						}
					}
				}
				key := spec.fn + " | guards of " + spec.invoke
				pos := q.Pos(ssaq.InstrPos(in))
				if nonNil && notReleased {
					r.Ok(rule, key, pos, "dominated by hook != nil and !released: "+ssaq.AtomsString(atoms))
				} else {
					r.Violation(rule, key, pos, fmt.Sprintf("the dynamic call is not dominated by both 'hook != nil' (%v) and '!released' (%v); established: %s", nonNil, notReleased, ssaq.AtomsString(atoms)))
				}
			}
		}
		if !found {
			r.Fail("%s: %s no longer invokes %s", rule, spec.fn, spec.invoke)
		}
	}
}

// ruleRefTransfer is C10-R6.
func ruleRefTransfer(ctx *Ctx, rule string) {
	q := ssaq.For(ctx.Prog)
	r := ctx.Rep
	refs := mustField(ctx, rule, "", "clientHook", "refs")
	if refs == nil {
		return
	}
	// WeakClient.AddRef: refs++ only when refs != 0.
	if f := q.Func("capnp.(*WeakClient).AddRef"); f == nil {
		r.Fail("%s: anchor capnp.(*WeakClient).AddRef not found", rule)
	} else {
		n := 0
		for _, b := range frameBlocks(f) {
			for _, in := range b.Instrs {
				st, ok := in.(*ssa.Store)
				if !ok {
					continue
				}
				fa, ok := st.Addr.(*ssa.FieldAddr)
				if !ok || ssaq.FieldVar(fa) != refs {
					continue
				}
				n++
				base := ssaq.AccessPath(fa.X)
				key := "capnp.(*WeakClient).AddRef | refs++ only on a live hook"
				okc := false
				for _, c := range ssaq.FieldCmps(ssaq.Atoms(ssaq.Guards(b))) {
					if c.Field == refs && c.Base == base && !c.IsNil &&
						((c.Op == token.NEQ && c.K == 0) || (c.Op == token.GTR && c.K == 0) || (c.Op == token.GEQ && c.K == 1)) {
						okc = true
					}
				}
				if okc {
					r.Ok(rule, key, q.Pos(ssaq.InstrPos(in)), "dominated by the failed test refs == 0")
				} else {
					r.Violation(rule, key, q.Pos(ssaq.InstrPos(in)), "a weak reference can resurrect a hook whose refs already dropped to 0 (its Shutdown has run or is running): refs++ is not dominated by refs != 0")
				}
			}
		}
		if n == 0 {
			r.Violation(rule, "capnp.(*WeakClient).AddRef | refs++ only on a live hook", q.Pos(f.Pos()), "AddRef no longer increments refs")
		}
	}
	// Fulfill: refs of the promise hook are zeroed and added to the resolved hook.
	if f := q.Func("capnp.(*ClientPromise).Fulfill"); f == nil {
		r.Fail("%s: anchor capnp.(*ClientPromise).Fulfill not found", rule)
	} else {
		zeroed, moved := "", ""
		for _, b := range frameBlocks(f) {
			for _, in := range b.Instrs {
				st, ok := in.(*ssa.Store)
				if !ok {
					continue
				}
				fa, ok := st.Addr.(*ssa.FieldAddr)
				if !ok || ssaq.FieldVar(fa) != refs {
					continue
				}
				base := ssaq.AccessPath(fa.X)
				if k, ok := ssaq.ConstInt(st.Val); ok && k == 0 {
					zeroed = base
					continue
				}
				if bo, ok := st.Val.(*ssa.BinOp); ok && bo.Op == token.ADD {
					for _, pair := range [][2]ssa.Value{{bo.X, bo.Y}, {bo.Y, bo.X}} {
						lf, lb := ssaq.LoadedField(pair[0])
						of, ob := ssaq.LoadedField(pair[1])
						if lf == refs && ssaq.AccessPath(lb) == base && of == refs && ssaq.AccessPath(ob) != base {
							moved = ssaq.AccessPath(ob) + " -> " + base
						}
					}
				}
			}
		}
		pos := q.Pos(f.Pos())
		if zeroed != "" {
			r.Ok(rule, "capnp.(*ClientPromise).Fulfill | promise refs zeroed", pos, zeroed+".refs = 0")
		} else {
			r.Violation(rule, "capnp.(*ClientPromise).Fulfill | promise refs zeroed", pos, "Fulfill does not zero the promise hook's refs: both hooks would count the same references")
		}
		if moved != "" {
			r.Ok(rule, "capnp.(*ClientPromise).Fulfill | refs transferred", pos, "refs added: "+moved)
		} else {
			r.Violation(rule, "capnp.(*ClientPromise).Fulfill | refs transferred", pos, "the references of the promised client are not added to the hook it resolves to (resolved.refs += promise.refs not found)")
		}
	}
	_ = flow.Delta{}
}
