package rules

import (
	"fmt"
	"go/ast"
	"strings"

	"golang.org/x/tools/go/ssa"

	"verifcheck/internal/ssaq"
)

// ruleReaderReapedAfterClose (C09-R10): ctxReader.wait blocks until the
// goroutine started by leakyRead has finished its Read, and for a stream
// without read deadlines nothing but closing the stream ends that Read. So a
// function that waits for the reader must have closed the stream first: a
// direct call of wait is reached only through the Close of the codec's
// writer/stream, and a deferred wait (which runs when the function returns)
// needs the Close on every path to a return. Waiting first and closing
// afterwards deadlocks Transport.Close, and with it Conn.Close, whenever a
// read is outstanding — which is always the case at shutdown, because the
// receive loop is cancelled before the transport is closed.
func ruleReaderReapedAfterClose(ctx *Ctx, rule string) {
	a := lockAnalysis(ctx)
	if a == nil {
		return
	}
	r := ctx.Rep
	n := 0
	for _, u := range a.UnitsSorted() {
		if !strings.HasPrefix(u.Name, "rpc.") || u.Name == "rpc.(*ctxReader).wait" {
			continue
		}
		info := u.Pkg.TypesInfo
		deferred := map[*ast.CallExpr]bool{}
		for _, b := range u.CFG().Blocks {
			for _, nd := range b.Nodes {
				if d, ok := nd.(*ast.DeferStmt); ok {
					ast.Inspect(d.Call, func(x ast.Node) bool {
						if c, ok := x.(*ast.CallExpr); ok {
							deferred[c] = true
						}
						return true
					})
				}
			}
		}
		isWaitCall := func(m ast.Node) (*ast.CallExpr, bool) {
			c, ok := m.(*ast.CallExpr)
			return c, ok && calleeName(info, c) == "rpc.(*ctxReader).wait"
		}
		// Close of the stream: a direct call of a method named Close on the
		// codec's write closer (ctxWriteCloser embeds the io.WriteCloser)
		isClose := func(m ast.Node) bool {
			c, ok := m.(*ast.CallExpr)
			if !ok || deferred[c] {
				return false
			}
			sel, ok := ast.Unparen(c.Fun).(*ast.SelectorExpr)
			if !ok || sel.Sel.Name != "Close" {
				return false
			}
			t := info.TypeOf(sel.X)
			return t != nil && strings.HasSuffix(strings.TrimPrefix(t.String(), "*"), "rpc.ctxWriteCloser")
		}
		k := 0
		for _, p := range u.Find(func(m ast.Node) bool { _, ok := isWaitCall(m); return ok }) {
			k++
			n++
			nd := p.B.Nodes[p.I]
			isDeferred := false
			if _, ok := nd.(*ast.DeferStmt); ok {
				isDeferred = true
			}
			key := fmt.Sprintf("%s | reader wait #%d happens after the stream is closed", u.Name, k)
			if isDeferred {
				pathCheck(ctx, a, rule, key, u, u.Entry(), nd.Pos(), isClose, nil, "closing the stream (the deferred wait for the reader goroutine runs at the return; only the close ends an outstanding Read)")
				continue
			}
			direct := func(m ast.Node) bool { c, ok := isWaitCall(m); return ok && !deferred[c] }
			noPathCheck(ctx, a, rule, key, u, u.Entry(), nd.Pos(), direct, isClose,
				"the wait for the reader goroutine can be reached before the stream is closed: an outstanding Read on a stream without deadlines ends only when the stream is closed, so Close (Transport.Close, Conn.Close) blocks forever",
				"the stream's Close is passed on every path to the wait")
		}
	}
	if n == 0 {
		r.Fail("%s: no call of (*ctxReader).wait found in package rpc", rule)
	}
}

// ruleNoShutdownOnCallGoroutine (C09-R11, shared as C08-R10): Conn.shutdown
// releases the connection's bootstrap client and every exported client. When
// one of them is the last reference to a local server, Client.Release runs the
// server's Shutdown, and server.Shutdown waits until no call of that server is
// ongoing. A Returner's Return method runs on the goroutine of such a call:
// the call goroutine of server.start calls r.Returner.Return *before* it gives
// up its slot. A Return implementation that (transitively, through static
// calls) reaches Conn.shutdown therefore makes shutdown wait for the goroutine
// that is running it: no Abort is sent, Conn.Done() never closes, Close hangs.
func ruleNoShutdownOnCallGoroutine(ctx *Ctx, rule string) {
	q := ssaq.For(ctx.Prog)
	r := ctx.Rep
	// premise: a call goroutine of package server invokes Returner.Return
	premise := ""
	for _, f := range q.FuncsIn("server") {
		if f.Parent() == nil {
			continue
		}
		for _, b := range f.Blocks {
			for _, in := range b.Instrs {
				if ssaq.InvokeName(in) == "capnp.(Returner).Return" {
					premise = ssaq.FuncName(f)
				}
			}
		}
	}
	if premise == "" {
		r.Ok(rule, "server | no call goroutine invokes Returner.Return", "", "the premise of the rule is not met")
		return
	}
	shutdown := q.Func("rpc.(*Conn).shutdown")
	if shutdown == nil {
		r.Fail("%s: rpc.(*Conn).shutdown not found", rule)
		return
	}
	n := 0
	for _, pkg := range []string{"rpc", "server", ""} {
		for _, f := range q.FuncsIn(pkg) {
			if f.Name() != "Return" || f.Signature.Recv() == nil || f.Signature.Params().Len() != 1 || f.Signature.Results().Len() != 0 {
				continue
			}
			n++
			key := ssaq.FuncName(f) + " | does not reach Conn.shutdown (Return runs on the goroutine of an ongoing local call)"
			// static reachability, three levels
			var path []string
			seen := map[*ssa.Function]bool{}
			var visit func(g *ssa.Function, depth int, trail []string) bool
			visit = func(g *ssa.Function, depth int, trail []string) bool {
				if seen[g] || depth > 3 {
					return false
				}
				seen[g] = true
				for _, b := range g.Blocks {
					for _, in := range b.Instrs {
						ci, ok := in.(ssa.CallInstruction)
						if !ok {
							continue
						}
						if _, isGo := in.(*ssa.Go); isGo {
							continue // a new goroutine is not the call's goroutine
						}
						h := ci.Common().StaticCallee()
						if h == nil {
							continue
						}
						if h == shutdown {
							path = append(append([]string{}, trail...), q.Pos(ssaq.InstrPos(in)))
							return true
						}
						if len(h.Blocks) > 0 && h.Pkg == g.Pkg && visit(h, depth+1, append(trail, ssaq.FuncName(h))) {
							return true
						}
					}
				}
				return false
			}
			if visit(f, 0, nil) {
				r.Violation(rule, key, q.Pos(f.Pos()), "Return reaches Conn.shutdown on its own goroutine ("+strings.Join(path, " -> ")+"): shutdown releases the bootstrap and exported clients, the last reference to a local server runs server.Shutdown, and that waits for the ongoing call whose goroutine ("+premise+") is the one inside Return — the connection never finishes shutting down")
			} else {
				r.Ok(rule, key, q.Pos(f.Pos()), "no static path to Conn.shutdown")
			}
		}
	}
	if n == 0 {
		r.Fail("%s: no implementation of Returner.Return found", rule)
	}
}
