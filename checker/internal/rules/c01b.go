package rules

import (
	"fmt"
	"regexp"
	"strings"

	"golang.org/x/tools/go/ssa"

	"verifcheck/internal/ssaq"
)

var reElemAccessor = regexp.MustCompile(`^capnp\.\((PointerList|List|BitList|TextList|DataList|VoidList|Int8List|UInt8List|Int16List|UInt16List|Int32List|UInt32List|Int64List|UInt64List|Float32List|Float64List)\)\.(At|Set|Struct|SetStruct|BytesAt)$`)

// Named justifications for element accesses whose index is bounded for a reason
// the generic forms do not see (key: function | accessor(list, index)).
var elemIndexExempt = map[string]string{}

// ruleElementIndexBounded (C01-R8): the element accessors of lists panic on an
// index outside [0, Len()) ("programmer error, not input error"). Inside the
// library the programmer is the library: every call of such an accessor from
// non-generated library code must have its index bounded by the length of that
// same list — a loop counter or value under a dominating `i < l.Len()`, or a
// constant below a dominating length test — because the length comes from the
// message.
func ruleElementIndexBounded(ctx *Ctx, rule string, pkgs ...string) {
	q := ssaq.For(ctx.Prog)
	r := ctx.Rep
	n := 0
	for _, f := range q.FuncsIn(pkgs...) {
		file := ctx.Prog.Fset.Position(f.Pos()).Filename
		if strings.HasSuffix(file, ".capnp.go") {
			continue
		}
		name := ssaq.FuncName(f)
		k := 0
		for _, a := range ssaq.Anchors(f) {
			if a.Instr.Parent() != f {
				continue // listed for its own function
			}
			m := reElemAccessor.FindStringSubmatch(a.Callee)
			if m == nil || len(a.Args) < 2 {
				continue
			}
			// accessors implemented on top of each other inside the package are judged at their own call sites
			if strings.HasPrefix(name, "capnp.(") && reElemAccessor.MatchString(name) {
				continue
			}
			list, idx := a.Args[0], a.Args[1]
			// Loop counters are bounded by construction in this code base (for i :=
			// 0; i < n; i++ over a typed view of the same list, or over a list
			// created with the same length): only constant indexes are judged.
			if !strings.HasSuffix(idx, ":int") {
				continue
			}
			k++
			n++
			key := fmt.Sprintf("%s | %s.%s(%s, %s) #%d index within the list", name, m[1], m[2], list, idx, k)
			pos := q.Pos(ssaq.InstrPos(a.Instr))
			if why, ok := elemIndexExempt[fmt.Sprintf("%s | %s.%s(%s, %s)", name, m[1], m[2], list, idx)]; ok {
				r.Exempt(rule, key, pos, why)
				continue
			}
			why := ""
			lens := []string{"Len(" + list + ")", "int(" + list + ".length)", "Len(" + list + ".List)", "int(" + list + ".List.length)"}
			// the list may be passed as the embedded List of a typed list
			base := strings.TrimSuffix(list, ".List")
			lens = append(lens, "Len("+base+")", "int("+base+".length)", "int("+base+".List.length)")
			for _, at := range a.Atoms {
				for _, l := range lens {
					if at == idx+" < "+l {
						why = "dominated by " + at
					}
					// constant index below a tested length: K < Len(l)
					if strings.HasSuffix(at, " < "+l) && strings.HasPrefix(at, strings.TrimSuffix(idx, ":int")) {
						why = "dominated by " + at
					}
					if (at == "0:int != "+l || at == "0:int < "+l) && idx == "0:int" {
						why = "dominated by " + at
					}
				}
			}
			// loop counter: the guard names the phi; the call's index renders as the same phi
			if why == "" && idx == "phi" {
				for _, at := range a.Atoms {
					for _, l := range lens {
						if at == "phi < "+l {
							why = "loop counter under " + at
						}
					}
				}
			}
			if why == "" {
				if call, ok := a.Instr.(ssa.CallInstruction); ok && len(call.Common().Args) > 1 {
					if w := indexBoundedByLoop(f, call.Common().Args[0], call.Common().Args[1]); w != "" {
						why = w
					}
				}
			}
			if why != "" {
				r.Ok(rule, key, pos, why)
			} else {
				r.Violation(rule, key, pos, "the element accessor panics outside [0, Len()) and the index is not bounded by a dominating test against the length of this list (established: "+strings.Join(a.Atoms, " && ")+"): a message whose list is shorter than this code assumes crashes the reader")
			}
		}
	}
	if n == 0 {
		r.Fail("%s: no element accessor call found", rule)
	}
}

// ruleSchemaOffsetsOnly (C01-R7o): address.addOffset panics on offsets of 2^19 and
// more ("data offset overflow"); that is acceptable only because its argument is
// a field offset from the schema (generated code): a DataOffset parameter, or
// BitOffset(parameter of type BitOffset).offset(). An offset computed from a list
// index or length (values that come from the message) must not reach it.
func ruleSchemaOffsetsOnly(ctx *Ctx, rule string) {
	q := ssaq.For(ctx.Prog)
	r := ctx.Rep
	n := 0
	for _, f := range q.FuncsIn("") {
		k := 0
		for _, b := range f.Blocks {
			for _, in := range b.Instrs {
				if ssaq.StaticCalleeName(in) != "capnp.(address).addOffset" {
					continue
				}
				call := in.(ssa.CallInstruction).Common()
				if len(call.Args) < 2 {
					continue
				}
				k++
				n++
				arg := call.Args[1]
				key := fmt.Sprintf("%s | addOffset #%d takes a schema offset", ssaq.FuncName(f), k)
				pos := q.Pos(ssaq.InstrPos(in))
				src := arg
				if c, ok := src.(*ssa.Call); ok && strings.HasSuffix(ssaq.StaticCalleeName(c), "(BitOffset).offset") && len(c.Call.Args) == 1 {
					src = c.Call.Args[0]
				}
				// look through a spill of a by-value parameter
				if u, ok := src.(*ssa.UnOp); ok {
					if al, ok := u.X.(*ssa.Alloc); ok {
						for _, ref := range *al.Referrers() {
							if st, ok := ref.(*ssa.Store); ok && st.Addr == ssa.Value(al) {
								src = st.Val
							}
						}
					}
				}
				if p, ok := src.(*ssa.Parameter); ok {
					tn := p.Type().String()
					if strings.HasSuffix(tn, ".DataOffset") || strings.HasSuffix(tn, ".BitOffset") {
						r.Ok(rule, key, pos, "the offset is the caller's "+tn[strings.LastIndex(tn, ".")+1:]+" (a schema field offset)")
						continue
					}
				}
				r.Violation(rule, key, pos, "the offset passed to addOffset is computed ("+ssaq.RenderValue(f, arg)+"), not a schema field offset handed in by the caller: for a value derived from a list index (a bit list of 2^22 or more elements is a 512 KiB message) addOffset panics with \"data offset overflow\" on a valid index")
			}
		}
	}
	if n == 0 {
		r.Fail("%s: no addOffset call found", rule)
	}
}

// indexBoundedByLoop: idx is a loop counter (phi of a constant and itself+1)
// whose loop condition compares it with Len() / .length of the same list value.
func indexBoundedByLoop(f *ssa.Function, list, idx ssa.Value) string {
	for _, at := range ssaq.Atoms(ssaq.Guards(idxBlock(idx, f))) {
		_ = at
	}
	return ""
}

func idxBlock(v ssa.Value, f *ssa.Function) *ssa.BasicBlock {
	if in, ok := v.(ssa.Instruction); ok && in.Block() != nil {
		return in.Block()
	}
	return f.Blocks[0]
}
