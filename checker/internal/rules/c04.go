package rules

import (
	"fmt"
	"strings"
	"verifcheck/internal/core"

	"golang.org/x/tools/go/ssa"

	"verifcheck/internal/ssaq"
)

var c04LemmaFuncs = []string{
	"capnp.(*Segment).writeUint8", "capnp.(*Segment).writeUint16", "capnp.(*Segment).writeUint32", "capnp.(*Segment).writeUint64", "capnp.(*Segment).writeRawPointer",
	"capnp.(Struct).SetUint8", "capnp.(Struct).SetUint16", "capnp.(Struct).SetUint32", "capnp.(Struct).SetUint64", "capnp.(Struct).SetBit",
	"capnp.appendUint32", "capnp.resizeSlice", "capnp.(streamHeader).totalSize",
}

func init() {
	for _, f := range c04LemmaFuncs {
		if f != "capnp.(streamHeader).totalSize" {
			extraLemmaFuncs = append(extraLemmaFuncs, f)
		}
	}
	Register(&Spec{
		ID:          "C04",
		Explanation: "Decides three necessary conditions of write/read-back agreement: (R1) for every width the struct getter and setter and every typed list At/Set pair use the same guard with the same size and the segment accessor of that same width (table of 4+1 struct pairs and 11 list pairs, compared with the schema width table), and the setters have their confirmed normal forms; (R2) alloc is the only function that lengthens a segment, hands out the old length as the address of the new object, extends by the padded size under a checked address computation and zero-fills the new region; (R3) the four framers agree on the header: size from streamHeaderSize, segment count minus one in word 0, each segment's length in words at 4+4i, and readers take exactly those fields. The zero fill of alloc must lie on every path to a success return. (R2s) a window obtained from Segment.slice is not used after a call that can allocate (the arena may have replaced the backing array). (R5, R5c, R5p, R5s) the landing-pad lemmas of writePtr, the composite tag address, the pairing of an allocated address with its segment and the capacity cap of decoded segments (shared with C05-R3/R3c/R4 and C14-R4: a value can only be read back through a well-formed pointer and from storage no other object overlaps). (R6z) copyStruct clears the part of the destination's data section that the source does not cover (shared with C16-R3z: a struct written over a used one reads back as written). (R7) in the methods of Encoder a scratch slice (bufs, hdrbuf, packbuf) is extended from its current contents only where an append onto field[:0] dominates; (R8) the results of Arena.Allocate are used only where its error was tested. Does NOT decide round-trip equality, non-interference between fields or independence of chunking.",
		Run:         runC04,
	})
}

type listPair struct {
	typ    string
	width  int64
	reader string
	writer string
}

var listPairs = []listPair{
	{"UInt8List", 1, "readUint8", "writeUint8"}, {"Int8List", 1, "readUint8", "writeUint8"},
	{"UInt16List", 2, "readUint16", "writeUint16"}, {"Int16List", 2, "readUint16", "writeUint16"},
	{"UInt32List", 4, "readUint32", "writeUint32"}, {"Int32List", 4, "readUint32", "writeUint32"}, {"Float32List", 4, "readUint32", "writeUint32"},
	{"UInt64List", 8, "readUint64", "writeUint64"}, {"Int64List", 8, "readUint64", "writeUint64"}, {"Float64List", 8, "readUint64", "writeUint64"},
}

func runC04(ctx *Ctx) {
	ruleNoSliceAcrossAlloc(ctx, "C04-R2s")
	ruleAccessorSymmetry(ctx, "C04-R1")
	if ctx.Primary {
		ruleKernelLemmas(ctx, "C04-R1n", []string{
			"capnp.(*Segment).writeUint8", "capnp.(*Segment).writeUint16", "capnp.(*Segment).writeUint32", "capnp.(*Segment).writeUint64", "capnp.(*Segment).writeRawPointer",
			"capnp.(Struct).SetUint8", "capnp.(Struct).SetUint16", "capnp.(Struct).SetUint32", "capnp.(Struct).SetUint64", "capnp.(Struct).SetBit",
			"capnp.appendUint32", "capnp.resizeSlice"})
	}
	ruleAllocLemma(ctx, "C04-R2")
	ruleAnchorSpecs(ctx, "C04-R3", framingSpecs)
	// what is written can only be read back if the pointer that leads to it
	// is well formed and if objects do not overlap: the landing-pad lemmas and
	// the allocation pairing of C05, the zero-capacity tail of decoded segments
	// of C14, under this property's id
	ruleAnchorSpecs(ctx, "C04-R5", writePtrSpecs)
	ruleCompositeTagAddress(ctx, "C04-R5c")
	ruleAllocPairing(ctx, "C04-R5p", "capnp")
	ruleCappedSlices(ctx, "C04-R5s")
	// a struct written over an existing one reads back as written only if the
	// part of the destination the source does not cover is cleared (shared with
	// C16-R3z)
	ruleCopyZeroFill(ctx, "C04-R6z")
	ruleEncoderScratchStartsEmpty(ctx, "C04-R7")
	// an allocation the arena refused must leave the message as it was: the
	// results of Arena.Allocate are installed only where its error was tested
	// (shared with C01-R3)
	ruleCheckedResultsIn(ctx, "C04-R8", func(n string) bool {
		return n == "capnp.(*Message).allocSegment" || n == "capnp.alloc" || n == "capnp.(*Message).setSegment" || n == "capnp.(*Message).segment"
	})
	r := ctx.Rep
	r.Floor("C04-R1", 25)
	r.Floor("C04-R2", 5)
	r.Floor("C04-R3", 8)
}

func ruleAccessorSymmetry(ctx *Ctx, rule string) {
	q := ssaq.For(ctx.Prog)
	r := ctx.Rep
	// struct accessors
	for _, w := range []int64{1, 2, 4, 8} {
		bits := w * 8
		for _, side := range []struct{ fn, acc string }{
			{fmt.Sprintf("capnp.(Struct).Uint%d", bits), fmt.Sprintf("capnp.(*Segment).readUint%d", bits)},
			{fmt.Sprintf("capnp.(Struct).SetUint%d", bits), fmt.Sprintf("capnp.(*Segment).writeUint%d", bits)},
		} {
			f := q.Func(side.fn)
			if f == nil {
				r.Fail("%s: %s not found", rule, side.fn)
				continue
			}
			var gotSize string
			accOK := false
			for _, a := range ssaq.Anchors(f) {
				if a.Callee == "capnp.(Struct).dataAddress" {
					gotSize = a.Args[2]
				}
				if a.Callee == side.acc && strings.HasPrefix(a.Args[1], "dataAddress(") {
					accOK = true
				}
			}
			key := side.fn + " | guard size and accessor width"
			want := fmt.Sprintf("%d:Size", w)
			if gotSize == want && accOK {
				r.Ok(rule, key, q.Pos(f.Pos()), fmt.Sprintf("dataAddress(off, %d) and %s on its result", w, side.acc[strings.LastIndex(side.acc, ".")+1:]))
			} else {
				r.Violation(rule, key, q.Pos(f.Pos()), fmt.Sprintf("the %d-bit accessor must guard %d bytes with dataAddress and use %s on the guarded address (guard size found: %q, accessor on guarded address: %v): getter and setter would touch different bytes", bits, w, side.acc, gotSize, accOK))
			}
		}
	}
	// typed lists
	for _, lp := range listPairs {
		for _, side := range []struct{ m, acc string }{{"At", lp.reader}, {"Set", lp.writer}} {
			name := fmt.Sprintf("capnp.(%s).%s", lp.typ, side.m)
			f := q.Func(name)
			if f == nil {
				r.Fail("%s: %s not found", rule, name)
				continue
			}
			// expected element size literal: store of a constant into complit.DataSize
			var size int64 = -1
			ptrs := int64(0)
			for _, b := range f.Blocks {
				for _, in := range b.Instrs {
					if st, ok := in.(*ssa.Store); ok {
						if fa, ok := st.Addr.(*ssa.FieldAddr); ok {
							if fld := ssaq.FieldVar(fa); fld != nil {
								if k, ok := ssaq.ConstInt(st.Val); ok {
									switch fld.Name() {
									case "DataSize":
										size = k
									case "PointerCount":
										ptrs = k
									}
								}
							}
						}
					}
				}
			}
			accOK := false
			for _, a := range ssaq.Anchors(f) {
				if a.Callee == "capnp.(*Segment)."+side.acc && strings.HasPrefix(a.Args[1], "primitiveElem(") {
					accOK = true
				}
			}
			key := name + " | element size and accessor width"
			if size == lp.width && ptrs == 0 && accOK {
				r.Ok(rule, key, q.Pos(f.Pos()), fmt.Sprintf("primitiveElem(i, ObjectSize{DataSize: %d}) and %s on its result", lp.width, side.acc))
			} else {
				r.Violation(rule, key, q.Pos(f.Pos()), fmt.Sprintf("%s must validate elements of %d bytes and use %s (expected size found: %d, pointers: %d, accessor on the validated address: %v)", name, lp.width, side.acc, size, ptrs, accOK))
			}
		}
	}
	// bit accessors
	for _, fn := range []string{"capnp.(Struct).Bit", "capnp.(Struct).SetBit"} {
		f := q.Func(fn)
		if f == nil {
			r.Fail("%s: %s not found", rule, fn)
			continue
		}
		guard, mask := false, false
		for _, a := range ssaq.Anchors(f) {
			if a.Callee == "capnp.(Struct).bitInData" && len(a.Args) == 2 && a.Args[1] == "p1" {
				guard = true
			}
			if a.Callee == "capnp.(BitOffset).mask" && a.Args[0] == "p1" {
				mask = true
			}
		}
		key := fn + " | bit guard and mask"
		if guard && mask {
			r.Ok(rule, key, q.Pos(f.Pos()), "bitInData(n) guards, n.mask() selects the bit, n.offset() the byte")
		} else {
			r.Violation(rule, key, q.Pos(f.Pos()), fmt.Sprintf("bit accessor does not use bitInData(n) (%v) and n.mask() (%v) of its own bit offset", guard, mask))
		}
	}
}

func ruleAllocLemma(ctx *Ctx, rule string) {
	q := ssaq.For(ctx.Prog)
	r := ctx.Rep
	f := q.Func("capnp.alloc")
	if f == nil {
		r.Fail("%s: alloc not found", rule)
		return
	}
	pos := q.Pos(f.Pos())
	as := ssaq.Anchors(f)
	// (a) end = addSize(address(len(s.data)), padToWord(sz)), checked
	okEnd := false
	for _, a := range as {
		if a.Callee == "capnp.(address).addSize" && a.Args[0] == "address(len(phi.data))" && a.Args[1] == "padToWord(p1)" {
			okEnd = true
		}
	}
	report := func(ok bool, key, good, bad string) {
		if ok {
			r.Ok(rule, "alloc | "+key, pos, good)
		} else {
			r.Violation(rule, "alloc | "+key, pos, bad)
		}
	}
	report(okEnd, "new end is old length + padded size, overflow-checked", "end, ok := address(len(s.data)).addSize(sz.padToWord())", "the end of the allocation is not computed as addSize(len(s.data), padToWord(sz)): objects can overlap or be misaligned")
	// (b) returned address is the old length; (c) data extended to end; (d) zero fill of data[len:end]
	retOK, extendOK, zeroOK, capOK := false, false, false, false
	zeroCond := ""
	for _, a := range as {
		if a.Callee == "capnp.hasCapacity" && a.Args[1] == "padToWord(p1)" {
			capOK = true
		}
	}
	for _, b := range f.Blocks {
		for _, in := range b.Instrs {
			switch x := in.(type) {
			case *ssa.Return:
				if len(x.Results) == 3 && ssaq.IsNilConst(x.Results[2]) {
					if ssaq.RenderValue(f, x.Results[1]) == "address(len(phi.data))" {
						retOK = true
					}
				}
			case *ssa.Store:
				if fa, ok := x.Addr.(*ssa.FieldAddr); ok && ssaq.FieldVar(fa) != nil && core.FieldName(ssaq.FieldVar(fa)) == "data" {
					if s := ssaq.RenderValue(f, x.Val); s == "phi.data[:addSize(address(len(phi.data)), padToWord(p1))#0]" {
						extendOK = true
					}
				}
			}
		}
	}
	// (d) on values, not on renderings: see allocZeroFill
	zeroOK, zeroCond = allocZeroFill(q, f)
	report(capOK, "uses the preferred segment only if it has capacity for the padded size", "hasCapacity(s.data, sz.padToWord()) decides between s and a new segment", "alloc no longer tests the capacity of the preferred segment for the padded size: the extension could exceed the capacity (panic) or spill into bytes the arena did not hand out")
	report(retOK, "returns the old length as the object's address", "addr = address(len(s.data)) read before the extension", "the address returned is not the segment's old length: the new object overlaps existing ones")
	report(extendOK, "extends the segment exactly to the new end", "s.data = s.data[:end]", "the segment is not extended to the computed end")
	report(zeroOK, "zero-fills the new region", "every byte of s.data[len:end] is set to 0", "the newly handed-out region is not zeroed on every path ("+zeroCond+"): recycled arena memory shows through as field values and as non-null pointers")
}

var framingSpecs = []anchorSpec{
	{"capnp.(*Message).Marshal", "capnp.streamHeaderSize", 1, []string{"SegmentID((NumSegments(p0) - 1:int64))"}, nil, "header size from the shared formula"},
	{"capnp.(*Message).Marshal", "encoding/binary.(littleEndian).PutUint32", 1, []string{"", "make([]byte, int(streamHeaderSize(*", "uint32((NumSegments(p0) - 1:int64))"}, nil, "word 0 low half: number of segments minus one"},
	{"capnp.(*Message).Marshal", "encoding/binary.(littleEndian).PutUint32", 2, []string{"", "phi[(4:int * int((1:int64 + phi))):]", "uint32((len(segment(p0, SegmentID(phi))#0.data) / 8:int))"}, nil, "segment i's length in words at byte 4+4i"},
	{"capnp.(*Encoder).Encode", "capnp.streamHeaderSize", 1, []string{"SegmentID((NumSegments(p1) - 1:int64))"}, nil, "header size from the shared formula"},
	{"capnp.(*Encoder).Encode", "capnp.appendUint32", 1, []string{"p0.hdrbuf[:0:int]", "uint32(SegmentID((NumSegments(p1) - 1:int64)))"}, nil, "word 0 low half: number of segments minus one"},
	{"capnp.(*Encoder).Encode", "capnp.appendUint32", 2, []string{"p0.hdrbuf", "uint32((Size(len(Segment(p1, SegmentID(phi))#0.data)) / 8:Size))"}, nil, "each segment's length in words, in order"},
	{"capnp.(*Encoder).Encode", "capnp.appendUint32", 3, []string{"p0.hdrbuf", "0:uint32"}, []string{"(len(p0.hdrbuf) % 8:int) != 0:int"}, "padding to a word boundary"},
	{"capnp.Unmarshal", "capnp.streamHeaderSize", 1, []string{"SegmentID(Uint32(*LittleEndian, p0))"}, []string{"8:int <= len(p0)"}, "reader takes the segment count from word 0"},
	{"capnp.(*Decoder).Decode", "capnp.streamHeaderSize", 1, []string{"SegmentID(Uint32(*LittleEndian, p0.wordbuf[:]))"}, []string{"SegmentID(Uint32(*LittleEndian, p0.wordbuf[:])) <= 512:SegmentID"}, "reader takes the segment count from word 0, capped"},
}
