package rules

import (
	"go/ast"
	"go/token"
)

// ruleFulfillCreditsBeforeWait (C10-R6c): ClientPromise.Fulfill takes the
// promise's references out of the promise hook (cp.h.refs = 0) and credits them
// to the resolution (resolveHook, rh.refs += refs). Between the two the
// references count nowhere, so nothing that can block or run foreign code — the
// wait for the old hook to drain, its Shutdown — may come in between: another
// goroutine releasing the resolution's last own reference in that window would
// shut the resolution down while the promised clients still refer to it.
func ruleFulfillCreditsBeforeWait(ctx *Ctx, rule string) {
	a := lockAnalysis(ctx)
	if a == nil {
		return
	}
	refsF := mustField(ctx, rule, "", "clientHook", "refs")
	doneF := mustField(ctx, rule, "", "clientHook", "done")
	u := mustUnit(ctx, a, rule, "capnp.(*ClientPromise).Fulfill")
	if refsF == nil || doneF == nil || u == nil {
		return
	}
	info := u.Pkg.TypesInfo
	isZeroRefs := func(m ast.Node) bool {
		as, ok := m.(*ast.AssignStmt)
		if !ok || as.Tok != token.ASSIGN || len(as.Lhs) != 1 || fieldOfSel(info, as.Lhs[0]) != refsF {
			return false
		}
		lit, ok := ast.Unparen(as.Rhs[0]).(*ast.BasicLit)
		return ok && lit.Value == "0"
	}
	isCredit := func(m ast.Node) bool { return isCallNamed(info, m, "capnp.resolveHook") }
	isWaitOrShutdown := func(m ast.Node) bool {
		if isRecvFromField(info, m, doneF) {
			return true
		}
		return isCallNamed(info, m, "capnp.(ClientHook).Shutdown")
	}
	pts := a.Eng.FindThrough(u, isZeroRefs)
	key := "ClientPromise.Fulfill | references credited to the resolution before waiting for the old hook"
	if len(pts) == 0 {
		ctx.Rep.Violation(rule, key, ctx.Prog.Rel(u.Pos), "Fulfill no longer takes the promise's references out of the promise hook (cp.h.refs = 0)")
		return
	}
	noPathCheck(ctx, a, rule, key, u, pts[0].After(), pts[0].B.Nodes[pts[0].I].Pos(), isWaitOrShutdown, isCredit,
		"after cp.h.refs = 0 a path reaches the wait on cp.h.done (or the hook's Shutdown) without having passed resolveHook: while Fulfill waits, the promise's references are counted nowhere, so a Release of the resolution's own handle shuts it down under the promised clients",
		"every path from cp.h.refs = 0 to the wait on done / Shutdown passes resolveHook (where rh.refs += refs follows under rh.mu)")
}
