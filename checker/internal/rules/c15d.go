package rules

import (
	"strings"

	"golang.org/x/tools/go/ssa"

	"verifcheck/internal/ssaq"
)

// ruleImportOnlyOmittedForSamePath (C15-R6i): importForNode answers "no import
// needed" (the zero importSpec with a nil error) when the node is declared in
// the package the code is generated for. Packages are identified by their
// import path ($Go.import), not by their name: two schema files may both say
// $Go.package("books") under different import paths, and a reference from one
// to the other emitted unqualified either does not compile or binds to a local
// type of the same name with another layout. Every such return is dominated by
// the equality of the two import paths.
func ruleImportOnlyOmittedForSamePath(ctx *Ctx, rule string) {
	q := ssaq.For(ctx.Prog)
	r := ctx.Rep
	f := q.Func("capnpc-go.importForNode")
	if f == nil {
		r.Fail("%s: capnpc-go.importForNode not found", rule)
		return
	}
	n := 0
	for _, fr := range ssaq.Frames(f) {
		if fr.Fn != f {
			continue
		}
		for _, b := range f.Blocks {
			rt, ok := b.Instrs[len(b.Instrs)-1].(*ssa.Return)
			if !ok || len(rt.Results) != 2 || !ssaq.IsNilConst(rt.Results[1]) {
				continue
			}
			if c, isC := rt.Results[0].(*ssa.Const); !isC || c.Value != nil {
				continue // a real import spec
			}
			n++
			atoms := fr.Atoms(rt)
			ok = false
			for _, a := range atoms {
				if a == "p0.imp == p1.imp" {
					ok = true
				}
			}
			key := "capnpc-go.importForNode | no import only for the same import path"
			if ok {
				r.Ok(rule, key, q.Pos(rt.Pos()), "the zero importSpec is returned under p0.imp == p1.imp")
			} else {
				r.Violation(rule, key, q.Pos(f.Pos()), "importForNode returns 'no import needed' where the import paths of the two nodes are not known to be equal (established: "+strings.Join(atoms, " && ")+"): a type from another package with the same package name is emitted unqualified")
			}
		}
	}
	if n == 0 {
		r.Fail("%s: importForNode has no return of the zero importSpec with a nil error", rule)
	}
}
