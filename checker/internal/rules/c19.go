package rules

import (
	"fmt"
	"regexp"
	"strconv"
	"strings"

	"verifcheck/internal/ssaq"
)

func init() {
	Register(&Spec{
		ID:          "C19",
		Explanation: "Decides structural necessary conditions of pogs agreeing with generated accessors: (R1) sibling table: in pogs.extractField, pogs.insertField and text.marshalFieldValue every struct accessor sits under the schema type case whose width and offset scale the encoding prescribes (bool: bit offset; 8/16/32/64-bit data: offset*1/2/4/8 with the accessor of that width; enum: 16 bit; text/data/list/struct/interface/anyPointer: pointer slot), every type has a case, data fields are XORed with the default, and insert's bounds predicate isFieldInBounds uses the same widths; (R2) union discipline: extractStruct and insertStruct reach a field access only for dv == noDiscriminant or dv == discriminant, insertField is guarded by isFieldInBounds, and the discriminant is written through SetUint16 at DiscriminantOffset*2; (R3) the schema message cached by nodemap has its traversal budget lifted (shared with C20), assigned before the first read; (R5) no append in pogs whose result is not assigned back to its argument or built on a fresh slice (field paths of sibling fields must not share a backing array); (R6) the work list of embedded Go structs is consumed from the front, so embedding levels are visited breadth-first and the least nested field wins; (R2g) an empty Go string over a non-empty schema default is stored with SetNewText; (R7) extractList assigns its destination on every path that reports success (a null or empty list replaces what a reused destination held). (R4v) the value of Struct.Ptr is used only where its error was tested; (R4t) a detected error is not lost. Does NOT decide round-trip equality nor Go-struct tag/embedding resolution semantics.",
		Run:         runC19,
	})
}

func runC19(ctx *Ctx) {
	walkers := []string{"pogs.(*extracter).extractField", "pogs.(*inserter).insertField", "encoding/text.(*Encoder).marshalFieldValue"}
	ruleSiblingTable(ctx, "C19-R1", walkers)
	ruleDefaultXor(ctx, "C19-R1x", walkers)
	ruleFieldInBounds(ctx, "C19-R1b")
	ruleUnionGuard(ctx, "C19-R2", "pogs.(*extracter).extractStruct", []string{"pogs.(*extracter).extractField", "pogs.(*extracter).extractStruct"})
	ruleUnionGuard(ctx, "C19-R2", "pogs.(*inserter).insertStruct", []string{"pogs.(*inserter).insertField", "pogs.(*inserter).insertStruct"})
	ruleAnchorSpecs(ctx, "C19-R2g", []anchorSpec{
		{"pogs.(*inserter).insertField", "pogs.isFieldInBounds", 1, []string{"Size(p1)", "Offset(Slot(p2))", ""}, nil, "insertField asks isFieldInBounds with the struct's size and the field's slot offset"},
		{"pogs.(*inserter).insertField", "capnp.(Struct).SetNewText", 1, []string{"p1", "uint16(Offset(Slot(p2)))", "<str>"},
			[]string{"!isEmptyValue(DefaultValue(Slot(p2))#0)", "0:int == Len(p3)", "12:schema.Type_Which == Which(Type(Slot(p2))#0)"},
			"an empty Go string over a non-empty schema default is stored as an allocated empty text (a null pointer would read back as the default)"},
		{"pogs.(*extracter).extractField", "capnp.(Ptr).TextBytes", 1, []string{"Ptr(p2, uint16(Offset(Slot(p3))))#0"},
			[]string{"IsValid(Ptr(p2, uint16(Offset(Slot(p3))))#0)", "12:schema.Type_Which == Which(Type(Slot(p3))#0)"},
			"a text field takes the stored bytes whenever the pointer is set (an explicitly empty text is not the default); the schema default is used only for a null pointer"},
	})
	ruleEmbedQueueFIFO(ctx, "C19-R6")
	ruleInsertGuard(ctx, "C19-R2b")
	ruleCachedBudget(ctx, "C19-R3")
	ruleAppendNoAlias(ctx, "C19-R5", "pogs")
	ruleExtractListAssigns(ctx, "C19-R7")
	// a field the accessors cannot read must fail Extract as well: the value
	// of Struct.Ptr is used only where its error was tested (shared with C01-R3)
	ruleCheckedResultsIn(ctx, "C19-R4v", func(n string) bool { return strings.HasPrefix(n, "pogs.") })
	ruleDetectedErrorNotLost(ctx, "C19-R4t", func(n string) bool { return strings.HasPrefix(n, "pogs.") }, detectedErrorExempt)
	ruleErrorsNotDropped(ctx, "C19-R4", []string{"pogs"}, func(c string) bool {
		return strings.Contains(c, "extract") || strings.Contains(c, "insert") || strings.Contains(c, "Extract") || strings.Contains(c, "Insert")
	}, func(callee string) bool {
		return strings.HasPrefix(callee, "pogs.") || strings.HasPrefix(callee, "capnp.") || strings.HasPrefix(callee, "internal/nodemap.")
	}, pogsErrExempt)
	r := ctx.Rep
	r.Floor("C19-R1", 50)
	r.Floor("C19-R1b", 10)
	r.Floor("C19-R2", 2)
	r.Floor("C19-R4", 30)
}

var pogsErrExempt = map[string]string{}

var reBoundsData = regexp.MustCompile(`^\(Size\(\(1:uint32 \+ p1\)\) \* (\d+):Size\) <= p0\.DataSize$`)

// ruleFieldInBounds: the widths in isFieldInBounds agree with the schema type table.
func ruleFieldInBounds(ctx *Ctx, rule string) {
	q := ssaq.For(ctx.Prog)
	r := ctx.Rep
	f := q.Func("pogs.isFieldInBounds")
	if f == nil {
		r.Fail("%s: pogs.isFieldInBounds not found", rule)
		return
	}
	lines, err := ssaq.Fingerprint(f)
	if err != nil {
		r.Undecided(rule, "isFieldInBounds | normal form", q.Pos(f.Pos()), err.Error())
		return
	}
	// each line: conds (with the type case) => ; return (expr)
	reCase := regexp.MustCompile(`(\d+):schema\.Type_Which == internal/schema\.\(Type\)\.Which\(p2\)`)
	seen := map[int]bool{}
	for _, l := range lines {
		m := reCase.FindStringSubmatch(l)
		if m == nil {
			continue
		}
		typ, _ := strconv.Atoi(m[1])
		row := schemaTypeTable[typ]
		ret := l[strings.Index(l, "return (")+len("return (") : len(l)-1]
		seen[typ] = true
		key := fmt.Sprintf("isFieldInBounds | case %s", row.name)
		want := ""
		switch {
		case row.bytes == -2:
			want = "true:bool"
		case row.bytes == 0:
			want = "(Size(((p1 / 8:uint32) + 1:uint32)) <= p0.DataSize)"
		case row.bytes == 1:
			want = "(Size((1:uint32 + p1)) <= p0.DataSize)"
		case row.bytes > 1:
			want = fmt.Sprintf("((%d:Size * Size((1:uint32 + p1))) <= p0.DataSize)", row.bytes)
		case row.bytes == -1:
			want = "(uint16((1:uint32 + p1)) <= p0.PointerCount)"
		}
		norm := strings.ReplaceAll(ret, "((1:uint32 + (p1 / 8:uint32)))", "(((p1 / 8:uint32) + 1:uint32))")
		if norm == want || ret == want {
			r.Ok(rule, key, q.Pos(f.Pos()), "in bounds iff "+want)
		} else {
			r.Violation(rule, key, q.Pos(f.Pos()), fmt.Sprintf("the bounds predicate for %s is %s, the schema layout needs %s: fields are skipped although they fit, or written outside the allocated struct (panic)", row.name, ret, want))
		}
	}
	for t, row := range schemaTypeTable {
		if !seen[t] {
			r.Violation(rule, "isFieldInBounds | case "+row.name, q.Pos(f.Pos()), "no case for schema type "+row.name)
		}
	}
}

// ruleInsertGuard: the setters in insertField run only after isFieldInBounds held.
func ruleInsertGuard(ctx *Ctx, rule string) {
	q := ssaq.For(ctx.Prog)
	r := ctx.Rep
	f := q.Func("pogs.(*inserter).insertField")
	if f == nil {
		r.Fail("%s: insertField not found", rule)
		return
	}
	n, ok := 0, 0
	for _, a := range ssaq.Anchors(f) {
		if !strings.HasPrefix(a.Callee, "capnp.(Struct).Set") {
			continue
		}
		n++
		for _, at := range a.Atoms {
			if strings.HasPrefix(at, "isFieldInBounds(") {
				ok++
				break
			}
		}
	}
	key := "insertField | setters run only under isFieldInBounds"
	if n > 0 && n == ok {
		r.Ok(rule, key, q.Pos(f.Pos()), fmt.Sprintf("all %d setter calls are dominated by isFieldInBounds(...) == true", n))
	} else {
		r.Violation(rule, key, q.Pos(f.Pos()), fmt.Sprintf("%d of %d setter calls are not dominated by the bounds predicate: inserting into a struct allocated by an older schema panics ('set field outside struct boundaries')", n-ok, n))
	}
	// discriminant write in insertStruct
	g := q.Func("pogs.(*inserter).insertStruct")
	if g == nil {
		return
	}
	found := false
	for _, a := range ssaq.Anchors(g) {
		if a.Callee == "capnp.(Struct).SetUint16" && strings.Contains(a.Args[1], "DiscriminantOffset(") && strings.Contains(a.Args[1], "2:uint32 *") {
			found = true
		}
	}
	if found {
		r.Ok(rule, "insertStruct | discriminant written at DiscriminantOffset*2", q.Pos(g.Pos()), "SetUint16(DataOffset(DiscriminantOffset()*2), which)")
	} else {
		r.Violation(rule, "insertStruct | discriminant written at DiscriminantOffset*2", q.Pos(g.Pos()), "the union discriminant is not written with SetUint16 at DiscriminantOffset*2")
	}
}
