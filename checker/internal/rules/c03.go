package rules

import (
	"fmt"
	"go/types"
	"sort"
	"strings"
	"verifcheck/internal/core"

	"golang.org/x/tools/go/ssa"

	"verifcheck/internal/bitlayout"
	"verifcheck/internal/ssaq"
)

var c03LemmaFuncs = []string{
	"capnp.(*Segment).resolveFarPointer", "capnp.(*Segment).readListPtr", "capnp.(*Segment).readPtr",
	"capnp.(rawPointer).pointerType", "capnp.(rawPointer).elementSize", "capnp.(rawPointer).totalListSize",
	"capnp.(List).Struct", "capnp.(Ptr).Struct", "capnp.(Ptr).List", "capnp.(Ptr).Interface",
}

func init() {
	bitlayout.ParamName = ssaq.ParamRefName
	extraLemmaFuncs = append(extraLemmaFuncs, c03LemmaFuncs...)
	Register(&Spec{
		ID:          "C03",
		Explanation: "Decides that the bit layout of every pointer-word decoder equals the encoding specification, by abstract interpretation of the decoder functions over a per-bit provenance domain (R1: type bits [0,2), far flag bit 2, offset = sign-extended [2,32), data words [32,48), pointer count [48,64), element size [32,35), count [35,64), far offset [3,32) bytes, segment id [32,64), landing-pad rewrite); that the resolution code has the confirmed normal form in each pointer shape (R2: near pointers against paddr+8, far against the pad's +8, double-far against offset 0 of the segment named in the pad with the tag's size fields; composite lists take count and element size from the tag and start one word later); and the default/upgrade clauses (R3: dataAddress and Struct.Ptr fail beyond the section, primitiveElem on a struct list requires both sections to be large enough and returns the address of the section the expected element names). (R2a) the field accessors and the address arithmetic they use have their confirmed normal forms (a read that succeeds lies inside the section; a field beyond it reads as the default); (R5) the three readers construct objects only under a bounds test of the constructed extent (shared with C01-R5). (R6r) Message.Reset clears the cached first segment and the segment map on every path (shared with C14-R5). Does NOT decide value equality of decoded trees against an independent decoder.",
		Run:         runC03,
	})
}

type bitInput struct {
	name     string
	width    int
	signed   bool
	zeroFrom int
}

type bitCase struct {
	fn     string
	inputs []bitInput
	// expected result bits per result name ("" = single result, or struct field name)
	want map[string][]bitlayout.Range
}

var rp = bitInput{"p", 64, false, 64}

var decoderCases = []bitCase{
	{"capnp.(rawPointer).offset", []bitInput{rp}, map[string][]bitlayout.Range{"": {{Lo: 0, Hi: 30, Src: "p", SrcLo: 2}, {Lo: 30, Hi: 64, Src: "p", SrcLo: 31, Repeat: true}}}},
	{"capnp.(rawPointer).listType", []bitInput{rp}, map[string][]bitlayout.Range{"": {{Lo: 0, Hi: 3, Src: "p", SrcLo: 32}}}},
	{"capnp.(rawPointer).numListElements", []bitInput{rp}, map[string][]bitlayout.Range{"": {{Lo: 0, Hi: 29, Src: "p", SrcLo: 35}}}},
	{"capnp.(rawPointer).farAddress", []bitInput{rp}, map[string][]bitlayout.Range{"": {{Lo: 3, Hi: 32, Src: "p", SrcLo: 3}}}},
	{"capnp.(rawPointer).farSegment", []bitInput{rp}, map[string][]bitlayout.Range{"": {{Lo: 0, Hi: 32, Src: "p", SrcLo: 32}}}},
	{"capnp.(rawPointer).otherPointerType", []bitInput{rp}, map[string][]bitlayout.Range{"": {{Lo: 0, Hi: 30, Src: "p", SrcLo: 2}}}},
	{"capnp.(rawPointer).capabilityIndex", []bitInput{rp}, map[string][]bitlayout.Range{"": {{Lo: 0, Hi: 32, Src: "p", SrcLo: 32}}}},
	{"capnp.(rawPointer).pointerType", []bitInput{rp}, map[string][]bitlayout.Range{"": {{Lo: 0, Hi: 2, Src: "p", SrcLo: 0}, {Lo: 2, Hi: 3, Src: "any"}}}},
	{"capnp.(rawPointer).structSize", []bitInput{rp}, map[string][]bitlayout.Range{
		"DataSize":     {{Lo: 3, Hi: 19, Src: "p", SrcLo: 32}},
		"PointerCount": {{Lo: 0, Hi: 16, Src: "p", SrcLo: 48}},
	}},
	{"capnp.(rawPointer).withOffset", []bitInput{rp, {"off", 32, true, 64}}, map[string][]bitlayout.Range{"": {{Lo: 0, Hi: 2, Src: "p", SrcLo: 0}, {Lo: 2, Hi: 32, Src: "off", SrcLo: 0}, {Lo: 32, Hi: 64, Src: "p", SrcLo: 32}}}},
	{"capnp.landingPadNearPointer", []bitInput{{"far", 64, false, 64}, {"tag", 64, false, 64}}, map[string][]bitlayout.Range{"": {{Lo: 0, Hi: 1, Src: "tag", SrcLo: 0}, {Lo: 1, Hi: 2, Src: "any"}, {Lo: 2, Hi: 31, Src: "far", SrcLo: 3}, {Lo: 32, Hi: 64, Src: "tag", SrcLo: 32}}}},
}

func runC03(ctx *Ctx) {
	// a reused Message reads the segments of its new arena: Reset clears the
	// cached first segment and the segment map on every path (shared with C14-R5)
	ruleResetComplete(ctx, "C03-R6r", "capnp", "Message", "Reset", []string{"CapTable", "Arena"})
	ruleBitLayout(ctx, "C03-R1", decoderCases)
	if ctx.Primary {
		ruleKernelLemmas(ctx, "C03-R2", c03LemmaFuncs)
		// the field accessors: a read that succeeds lies inside the data or
		// pointer section, and a field beyond it reads as the default (the same
		// confirmed normal forms as C01-R6, under this property's id)
		ruleKernelLemmas(ctx, "C03-R2a", []string{
			"capnp.(Struct).dataAddress", "capnp.(Struct).pointerAddress", "capnp.(Struct).bitInData", "capnp.(Struct).Ptr", "capnp.(Struct).HasPtr",
			"capnp.(Struct).Bit", "capnp.(Struct).Uint8", "capnp.(Struct).Uint16", "capnp.(Struct).Uint32", "capnp.(Struct).Uint64",
			"capnp.(address).element", "capnp.(address).addSize", "capnp.(pointerOffset).resolve", "capnp.(*Segment).regionInBounds",
			"capnp.(*Segment).readUint8", "capnp.(*Segment).readUint16", "capnp.(*Segment).readUint32", "capnp.(*Segment).readUint64", "capnp.(*Segment).readRawPointer",
			"capnp.(List).Len", "capnp.isOneByteList", "capnp.(Ptr).text", "capnp.(Ptr).DataDefault"})
	}
	ruleUpgradeAddress(ctx, "C03-R3")
	// the three readers build an object only under a bounds test of its extent
	// (shared with C01-R5)
	ruleConstructionSites(ctx, "C03-R5")
	r := ctx.Rep
	r.Floor("C03-R1", 11)
	r.Floor("C03-R2", 8)
	r.Floor("C03-R3", 3)
	r.Assumption("bit provenance is computed per function on the SSA form; + is treated as bitwise or only when the operands are provably disjoint")
}

func evalBits(q *ssaq.Q, c bitCase) (map[string]bitlayout.Vec, error) {
	return evalBitsWith(q, c, nil)
}

// evalBitsWith evaluates c.fn with the declared abstract inputs, except that
// inputs named in override are bound to the given vectors (composition).
func evalBitsWith(q *ssaq.Q, c bitCase, override map[string]bitlayout.Vec) (map[string]bitlayout.Vec, error) {
	f := q.Func(c.fn)
	if f == nil {
		return nil, fmt.Errorf("function not found")
	}
	ev := &bitlayout.Evaluator{Inputs: map[string]bitlayout.Vec{}}
	var args []bitlayout.Vec
	for _, in := range c.inputs {
		v := bitlayout.Input(in.name, in.width, in.signed, in.zeroFrom)
		if o, ok := override[in.name]; ok {
			v = o
		}
		ev.Inputs[in.name] = v
	}
	for _, p := range f.Params {
		if v, ok := ev.Inputs[ssaq.ParamRefName(p)]; ok {
			args = append(args, v)
		} else {
			args = append(args, bitlayout.Top())
		}
	}
	out := map[string]bitlayout.Vec{}
	// struct results: evaluate the stores into the composite literal
	if f.Signature.Results().Len() == 1 {
		if st, ok := f.Signature.Results().At(0).Type().Underlying().(*types.Struct); ok {
			_ = st
			fields, err := evalStructResult(ev, f, args)
			if err != nil {
				return nil, err
			}
			return fields, nil
		}
	}
	rs, err := ev.Func(f, args)
	if err != nil {
		return nil, err
	}
	out[""] = rs[0]
	return out, nil
}

// evalStructResult evaluates a function that returns a struct built by a
// composite literal: one vector per field (fields not stored are zero).
func evalStructResult(ev *bitlayout.Evaluator, f *ssa.Function, args []bitlayout.Vec) (map[string]bitlayout.Vec, error) {
	out := map[string]bitlayout.Vec{}
	for _, b := range f.Blocks {
		for _, in := range b.Instrs {
			st, ok := in.(*ssa.Store)
			if !ok {
				continue
			}
			fa, ok := st.Addr.(*ssa.FieldAddr)
			if !ok {
				continue
			}
			fld := ssaq.FieldVar(fa)
			v, err := ev.Value(f, args, st.Val)
			if err != nil {
				return nil, err
			}
			out[core.FieldName(fld)] = v
		}
	}
	if len(out) == 0 {
		return nil, fmt.Errorf("no field stores found in %s", f.Name())
	}
	return out, nil
}

func ruleBitLayout(ctx *Ctx, rule string, cases []bitCase) {
	q := ssaq.For(ctx.Prog)
	r := ctx.Rep
	for _, c := range cases {
		f := q.Func(c.fn)
		if f == nil {
			r.Fail("%s: anchor %s not found", rule, c.fn)
			continue
		}
		got, err := evalBits(q, c)
		pos := q.Pos(f.Pos())
		if err != nil {
			r.Undecided(rule, c.fn+" | bit layout", pos, "cannot evaluate the function over the bit-provenance domain: "+err.Error())
			continue
		}
		var names []string
		for n := range c.want {
			names = append(names, n)
		}
		sort.Strings(names)
		for _, n := range names {
			key := c.fn + " | bit layout"
			if n != "" {
				key += " of ." + n
			}
			v, ok := got[n]
			if !ok {
				r.Violation(rule, key, pos, "the function no longer produces this result")
				continue
			}
			if errs := bitlayout.Compare(v, c.want[n]); len(errs) > 0 {
				r.Violation(rule, key, pos, "the bits produced differ from the encoding specification: "+strings.Join(errs, "; ")+" (computed: "+bitlayout.Describe(v)+")")
			} else {
				r.Ok(rule, key, pos, "computed "+bitlayout.Describe(v)+" equals the specification")
			}
		}
	}
}

// ruleUpgradeAddress is C03-R3.
func ruleUpgradeAddress(ctx *Ctx, rule string) {
	q := ssaq.For(ctx.Prog)
	r := ctx.Rep
	f := q.Func("capnp.(List).primitiveElem")
	if f == nil {
		r.Fail("%s: anchor primitiveElem not found", rule)
		return
	}
	// (a) pointer expected on a struct list: the returned address adds the data section
	okPtr, okData, okGuard := false, false, false
	for _, b := range frameBlocks(f) {
		for _, in := range b.Instrs {
			ret, ok := in.(*ssa.Return)
			if !ok || len(ret.Results) != 2 || !ssaq.IsNilConst(ret.Results[1]) {
				continue
			}
			check := func(v ssa.Value, atoms []string) {
				s := ssaq.RenderValue(f, v)
				composite := false
				for _, a := range atoms {
					if a == "(1:listFlags & p0.flags) != 0:listFlags" {
						composite = true
					}
				}
				if strings.HasPrefix(s, "addSize(element(p0.off, int32(p1), totalSize(p0.size))#0, p0.size.DataSize)#0") && composite {
					okPtr = true
				}
				if s == "element(p0.off, int32(p1), totalSize(p0.size))#0" {
					okData = true
				}
			}
			if phi, isPhi := ret.Results[0].(*ssa.Phi); isPhi {
				for i, e := range phi.Edges {
					pred := phi.Block().Preds[i]
					check(e, ssaq.DomAtoms(pred.Instrs[len(pred.Instrs)-1]))
				}
			} else {
				check(ret.Results[0], ssaq.DomAtoms(ret))
			}
		}
	}
	// (b) the size guard: on a struct list both sections must be at least as large as
	// expected. Decided on the normal form: every feasible path that returns an
	// address for a composite list carries both comparisons (an `&&` in place of
	// the `||` of the rejecting test, or a dropped disjunct, leaves a success
	// path with only one of them).
	lines, err := ssaq.Fingerprint(f)
	okGuard2 := false
	if err == nil {
		okGuard, okGuard2 = true, true
		nSucc := 0
		for _, l := range lines {
			i := strings.Index(l, " => ")
			if i < 0 || !strings.HasSuffix(l, ", nil)") {
				continue
			}
			atoms := strings.Split(l[:i], " && ")
			if !ssaq.Consistent(atoms) {
				continue // syntactic path with contradictory tests
			}
			has := func(a string) bool {
				for _, x := range atoms {
					if strings.TrimSpace(x) == a {
						return true
					}
				}
				return false
			}
			if !has("(1:listFlags & p0.flags) != 0:listFlags") {
				continue
			}
			nSucc++
			if !has("p2.DataSize <= p0.size.DataSize") {
				okGuard = false
			}
			if !has("p2.PointerCount <= p0.size.PointerCount") {
				okGuard2 = false
			}
		}
		if nSucc == 0 {
			okGuard, okGuard2 = false, false
		}
	}
	pos := q.Pos(f.Pos())
	if okPtr {
		r.Ok(rule, "primitiveElem | pointer of an upgraded struct-list element", pos, "for a struct list and a pointer-sized expectation the address returned is element start + DataSize (the first pointer)")
	} else {
		r.Violation(rule, "primitiveElem | pointer of an upgraded struct-list element", pos, "a pointer list that is encoded as a struct list (list upgrade) is read at the element's data section instead of its first pointer: the element start is returned without adding size.DataSize")
	}
	if okData {
		r.Ok(rule, "primitiveElem | data of a list element", pos, "data elements are read at off + i*elementSize")
	} else {
		r.Violation(rule, "primitiveElem | data of a list element", pos, "no return of off + i*totalSize found for data elements")
	}
	if okGuard && okGuard2 {
		r.Ok(rule, "primitiveElem | struct-list upgrade requires both sections", pos, "a struct list is accepted only if DataSize and PointerCount are at least the expected ones")
	} else {
		r.Violation(rule, "primitiveElem | struct-list upgrade requires both sections", pos, fmt.Sprintf("the upgrade test no longer rejects struct lists whose data section (%v) or pointer section (%v) is smaller than the expected element", okGuard, okGuard2))
	}
}
