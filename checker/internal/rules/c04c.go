package rules

import (
	"go/token"

	"golang.org/x/tools/go/ssa"

	"verifcheck/internal/core"
	"verifcheck/internal/ssaq"
)

// zeroLoop is a loop that stores the constant 0 into X[i] for every i of
// [lo, hi) (lo == nil: from 0; full: hi is len(X)).
type zeroLoop struct {
	x      ssa.Value
	lo, hi ssa.Value
	full   bool
	head   *ssa.BasicBlock // loop header: where the loop is entered
}

func isLenOfValue(v, x ssa.Value) bool {
	c, ok := stripConv(v).(*ssa.Call)
	if !ok {
		return false
	}
	b, ok := c.Call.Value.(*ssa.Builtin)
	return ok && b.Name() == "len" && len(c.Call.Args) == 1 && c.Call.Args[0] == x
}

// findZeroLoops lists the zeroing loops of fn in the two shapes the compiler
// front end produces: "for i := range x" (index phi starting at -1, incremented
// in the header) and "for i := lo; i < hi; i++".
func findZeroLoops(fn *ssa.Function) []zeroLoop {
	var out []zeroLoop
	for _, b := range fn.Blocks {
		for _, in := range b.Instrs {
			st, ok := in.(*ssa.Store)
			if !ok {
				continue
			}
			if k, isC := ssaq.ConstInt(st.Val); !isC || k != 0 {
				continue
			}
			ia, ok := st.Addr.(*ssa.IndexAddr)
			if !ok {
				continue
			}
			idx := stripConv(ia.Index)
			var phi *ssa.Phi
			var lo ssa.Value
			counter := idx // the value compared with the bound
			switch v := idx.(type) {
			case *ssa.Phi:
				phi = v
			case *ssa.BinOp:
				// range form: index = phi + 1 with phi starting at -1
				p, isPhi := v.X.(*ssa.Phi)
				one, isOne := ssaq.ConstInt(v.Y)
				if v.Op != token.ADD || !isPhi || !isOne || one != 1 {
					continue
				}
				phi = p
			default:
				continue
			}
			if len(phi.Edges) != 2 {
				continue
			}
			okStep := false
			for _, e := range phi.Edges {
				if e == ssa.Value(phi) {
					continue
				}
				if bo, isBin := e.(*ssa.BinOp); isBin && bo.Op == token.ADD && bo.X == ssa.Value(phi) {
					if one, isOne := ssaq.ConstInt(bo.Y); isOne && one == 1 {
						okStep = true
						continue
					}
				}
				lo = e
			}
			if !okStep || lo == nil {
				continue
			}
			if counter != ssa.Value(phi) {
				// range form: phi starts at -1, so the first index is 0
				if k, isC := ssaq.ConstInt(lo); !isC || k != -1 {
					continue
				}
				lo = nil
			} else if k, isC := ssaq.ConstInt(lo); isC && k == 0 {
				lo = nil
			}
			head := phi.Block()
			iff, ok := head.Instrs[len(head.Instrs)-1].(*ssa.If)
			if !ok {
				continue
			}
			l, h, ok := strictLess(iff.Cond, true)
			if !ok || l != counter {
				continue
			}
			// the store lies in the loop body
			if !(head.Succs[0] == b || head.Succs[0].Dominates(b)) {
				continue
			}
			out = append(out, zeroLoop{x: ia.X, lo: lo, hi: h, full: lo == nil && isLenOfValue(h, ia.X), head: head})
		}
	}
	return out
}

// zeroedParam: the new helper g clears one []byte parameter completely on
// every path; -1 otherwise.
func zeroedParam(g *ssa.Function) int {
	for _, zl := range findZeroLoops(g) {
		if !zl.full {
			continue
		}
		k := paramIndex(g, zl.x)
		if k < 0 {
			continue
		}
		all := true
		for _, b := range g.Blocks {
			if _, isRet := b.Instrs[len(b.Instrs)-1].(*ssa.Return); isRet && !(zl.head == b || zl.head.Dominates(b)) {
				all = false
			}
		}
		if all {
			return k
		}
	}
	return -1
}

// allocZeroFill decides clause (d) of the alloc lemma on values: on every path
// to a success return, every byte of seg.data[oldLen:end] is set to 0, where
// seg is the segment returned, oldLen is its length read before the extension
// and end is the bound the extension uses. The loop may be written over a
// window data[oldLen:end], over the extended data with index bounds oldLen and
// end, or live in a new helper that clears the window handed to it.
func allocZeroFill(q *ssaq.Q, f *ssa.Function) (bool, string) {
	// the extension: seg.data = seg.data[:end]
	var ext *ssa.Store
	var extSlice *ssa.Slice
	for _, b := range f.Blocks {
		for _, in := range b.Instrs {
			if st, ok := in.(*ssa.Store); ok {
				if fa, ok := st.Addr.(*ssa.FieldAddr); ok && ssaq.FieldVar(fa) != nil && core.FieldName(ssaq.FieldVar(fa)) == "data" {
					if sl, ok := st.Val.(*ssa.Slice); ok && sl.High != nil {
						ext, extSlice = st, sl
					}
				}
			}
		}
	}
	if ext == nil {
		return false, "no extension of the segment's data found"
	}
	segOf := func(v ssa.Value) ssa.Value { // v is a load of X.data: X
		u, ok := v.(*ssa.UnOp)
		if !ok || u.Op != token.MUL {
			return nil
		}
		fa, ok := u.X.(*ssa.FieldAddr)
		if !ok || ssaq.FieldVar(fa) == nil || core.FieldName(ssaq.FieldVar(fa)) != "data" {
			return nil
		}
		return fa.X
	}
	seg := ext.Addr.(*ssa.FieldAddr).X
	isOldLen := func(v ssa.Value) bool {
		c, ok := stripConv(v).(*ssa.Call)
		if !ok {
			return false
		}
		b, ok := c.Call.Value.(*ssa.Builtin)
		if !ok || b.Name() != "len" || len(c.Call.Args) != 1 || segOf(c.Call.Args[0]) != seg {
			return false
		}
		ld := c.Call.Args[0].(*ssa.UnOp)
		return !ssaq.DominatesInstr(ext, ld) // read before the extension
	}
	isEnd := func(v ssa.Value) bool { return v != nil && stripConv(v) == stripConv(extSlice.High) }
	window := func(x ssa.Value) bool { // x is seg.data[oldLen:end]
		sl, ok := x.(*ssa.Slice)
		return ok && segOf(sl.X) == seg && sl.Low != nil && isOldLen(sl.Low) && isEnd(sl.High)
	}
	var sites []ssa.Instruction // instructions that enter a fill of exactly the region
	for _, zl := range findZeroLoops(f) {
		switch {
		case zl.full && window(zl.x):
			sites = append(sites, zl.head.Instrs[0])
		case segOf(zl.x) == seg && zl.lo != nil && isOldLen(zl.lo) && isEnd(zl.hi):
			sites = append(sites, zl.head.Instrs[0])
		}
	}
	for _, b := range f.Blocks {
		for _, in := range b.Instrs {
			c, ok := in.(*ssa.Call)
			if !ok {
				continue
			}
			g := c.Call.StaticCallee()
			if g == nil || !ssaq.IsNew(g) {
				continue
			}
			if k := zeroedParam(g); k >= 0 && k < len(c.Call.Args) && window(c.Call.Args[k]) {
				sites = append(sites, c)
			}
		}
	}
	if len(sites) == 0 {
		return false, "no loop sets every byte of seg.data[old length:end] to 0"
	}
	// on every path to a success return
	for _, b := range f.Blocks {
		rt, ok := b.Instrs[len(b.Instrs)-1].(*ssa.Return)
		if !ok || len(rt.Results) != 3 || !ssaq.IsNilConst(rt.Results[2]) {
			continue
		}
		covered := false
		for _, s := range sites {
			if s.Block() == b || s.Block().Dominates(b) {
				covered = true
			}
		}
		if !covered {
			return false, "a success return at " + q.Pos(rt.Pos()) + " is reached without passing the zero fill"
		}
	}
	return true, ""
}
