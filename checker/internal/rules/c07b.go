package rules

import (
	"go/ast"
)

// ruleImportRemovedInSameSection (C07-R3b): importClient.Shutdown looks the
// import entry up, compares generations and removes the entry. sendMessage (and
// any Unlock) opens a window in which a descriptor for the same import id can
// arrive: addImport would then revive the still-present entry with a new
// generation, and the delayed delete would orphan the new client (its reference
// is never released to the peer). The entry must therefore be removed before the
// first operation that releases Conn.mu: no path from the lookup passes such an
// operation and then still reaches the delete.
func ruleImportRemovedInSameSection(ctx *Ctx, rule string) {
	a := lockAnalysis(ctx)
	if a == nil {
		return
	}
	imports := mustField(ctx, rule, "rpc", "Conn", "imports")
	muF := mustField(ctx, rule, "rpc", "Conn", "mu")
	u := mustUnit(ctx, a, rule, "rpc.(*importClient).Shutdown")
	if imports == nil || muF == nil || u == nil {
		return
	}
	info := u.Pkg.TypesInfo
	isDelete := func(m ast.Node) bool { return isBuiltinCall(info, m, "delete", imports) }
	isWindow := func(m ast.Node) bool {
		if isCallNamed(info, m, "rpc.(*Conn).sendMessage") {
			return true
		}
		call, ok := m.(*ast.CallExpr)
		if !ok {
			return false
		}
		sel, ok := ast.Unparen(call.Fun).(*ast.SelectorExpr)
		return ok && sel.Sel.Name == "Unlock" && fieldOfSel(info, sel.X) == muF
	}
	key := "importClient.Shutdown | entry removed before Conn.mu is released"
	dels := a.Eng.FindThrough(u, isDelete)
	if len(dels) == 0 {
		ctx.Rep.Violation(rule, key, ctx.Prog.Rel(u.Pos), "Shutdown no longer removes the import entry")
		return
	}
	bad := false
	var tr []string
	for _, w := range a.Eng.FindThrough(u, isWindow) {
		res := a.Eng.Reaches(u, w.After(), isDelete, nil)
		if res.Found {
			bad = true
			tr = res.Trace
		}
	}
	pos := ctx.Prog.Rel(dels[0].B.Nodes[dels[0].I].Pos())
	if bad {
		ctx.Rep.Violation(rule, key, pos, "delete(c.imports, id) is reachable after an operation that releases Conn.mu (sendMessage / Unlock): a descriptor for the same id arriving in that window revives the entry, and the late delete orphans the new generation's client, whose reference is never released to the peer", tr...)
	} else {
		ctx.Rep.Ok(rule, key, pos, "no path passes sendMessage or an Unlock of Conn.mu before delete(c.imports, id)")
	}
}
