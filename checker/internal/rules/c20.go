package rules

import (
	"fmt"
	"go/constant"
	"go/token"
	"go/types"
	"sort"
	"strings"

	"golang.org/x/tools/go/ssa"

	"verifcheck/internal/ssaq"
)

func init() {
	Register(&Spec{
		ID:          "C20",
		Explanation: "Decides structural necessary conditions of faithful, history-independent text rendering: (R1) the escape predicate of strquote touches its byte only through comparisons with constants, so it is evaluated over all 256 byte values by constant folding on the SSA form: it must hold for the double quote, the backslash, every byte below 0x20 and every byte from 0x7f, every case constant of Append's escape switch must lie inside the set (a case the guard excludes is dead code contradicting the author's belief), and every byte in the set is emitted through an escape sequence; (R2) no error of the schema-driven marshal functions or of the capnp accessors they call is dropped (named exemptions for trusted default values); (R3) a message obtained from Unmarshal/Decode whose contents are cached beyond the call (nodemap) has its traversal limit lifted or re-armed before it is stored; (R4) the schema walker accesses a field only for the active union member, uses the accessor width and offset scale of the schema type table with the default XORed in, renders every Text/Data through strquote.Append on a scratch buffer reset to length 0; (R6) nodemap.UseRegistry replaces the node cache unconditionally (nodes of the previous registry do not answer later lookups). (R2v) the value of Struct.Ptr is used only where its error was tested (an unreadable field is not rendered as its default); (R2t) a detected error is not lost. Does NOT decide injectivity of the whole rendering or float formatting.",
		Run:         runC20,
	})
}

func runC20(ctx *Ctx) {
	ruleEscapeMapping(ctx, "C20-R1m")
	ruleEscapeSet(ctx, "C20-R1")
	ruleResetComplete(ctx, "C20-R3u", "internal/nodemap", "Map", "UseRegistry", nil)
	ruleRegistrySwitchDropsCache(ctx, "C20-R6")
	// an unreadable field must not be rendered as its default: the value of
	// Struct.Ptr is used only where its error was tested (shared with C01-R3)
	ruleCheckedResultsIn(ctx, "C20-R2v", func(n string) bool { return strings.HasPrefix(n, "encoding/text.") })
	ruleDetectedErrorNotLost(ctx, "C20-R2t", func(n string) bool { return strings.HasPrefix(n, "encoding/text.") }, detectedErrorExempt)
	ruleErrorsNotDropped(ctx, "C20-R2", []string{"encoding/text"}, nil, func(callee string) bool {
		if strings.HasPrefix(callee, "encoding/text.(*errWriter).") {
			return false // sticky writer: the first error is latched in errWriter.err and returned by Encode
		}
		return strings.HasPrefix(callee, "encoding/text.") || strings.HasPrefix(callee, "capnp.") || strings.HasPrefix(callee, "internal/schema.") || strings.HasPrefix(callee, "internal/nodemap.")
	}, textErrExempt)
	ruleCachedBudget(ctx, "C20-R3")
	ruleUnionGuard(ctx, "C20-R4u", "encoding/text.(*Encoder).marshalStruct", []string{"encoding/text.(*Encoder).marshalFieldValue", "encoding/text.(*Encoder).marshalStruct"})
	ruleSiblingTable(ctx, "C20-R4s", []string{"encoding/text.(*Encoder).marshalFieldValue"})
	ruleDefaultXor(ctx, "C20-R4x", []string{"encoding/text.(*Encoder).marshalFieldValue"})
	ruleAnchorSpecs(ctx, "C20-R4q", []anchorSpec{
		{"encoding/text.(*Encoder).marshalText", "internal/strquote.Append", 1, []string{"p0.tmp[:0:int]", "p1"}, nil, "literals are quoted by strquote.Append into the scratch buffer reset to length 0"},
		{"encoding/text.(*Encoder).marshalInt", "strconv.AppendInt", 1, []string{"p0.tmp[:0:int]", "p1", "10:int"}, nil, "numbers are formatted into the scratch buffer reset to length 0"},
		{"encoding/text.(*Encoder).marshalUint", "strconv.AppendUint", 1, []string{"p0.tmp[:0:int]", "p1", "10:int"}, nil, "numbers are formatted into the scratch buffer reset to length 0"},
	})
	ruleQuotedOnlyViaStrquote(ctx, "C20-R4w")
	r := ctx.Rep
	r.Floor("C20-R1", 6)
	r.Floor("C20-R2", 30)
	r.Floor("C20-R3", 1)
	r.Floor("C20-R4s", 15)
	r.Floor("C20-R4q", 3)
}

var textErrExempt = map[string]string{
	"encoding/text.(*Encoder).EncodeList | NewMessage":         "fresh single-segment arena cannot fail",
	"encoding/text.(*Encoder).EncodeList | NewRootType":        "allocation in a fresh message; a failure yields an invalid type that marshalList rejects",
	"encoding/text.(*Encoder).marshalFieldValue | Name":        "name is used only inside an error message",
	"encoding/text.(*Encoder).marshalFieldValue | StructValue": "schema default values come from the compiled-in registry (trusted); an unreadable default renders as the zero value",
	"encoding/text.(*Encoder).marshalFieldValue | Data":        "schema default value (trusted); unreadable renders as empty",
	"encoding/text.(*Encoder).marshalFieldValue | TextBytes":   "schema default value (trusted); unreadable renders as empty",
	"encoding/text.(*Encoder).marshalFieldValue | List":        "schema default value (trusted); unreadable renders as empty",
	"encoding/text.codeOrderFields | Fields":                   "an unreadable field list yields an empty list: the struct renders as ()",
}

// evalBytePred evaluates a pure predicate func(byte) bool on a concrete byte
// by constant folding over its SSA form.
func evalBytePred(f *ssa.Function, b byte) (bool, error) {
	env := map[ssa.Value]constant.Value{}
	if len(f.Params) != 1 {
		return false, fmt.Errorf("not a unary predicate")
	}
	env[f.Params[0]] = constant.MakeInt64(int64(b))
	var val func(v ssa.Value) (constant.Value, error)
	val = func(v ssa.Value) (constant.Value, error) {
		if c, ok := env[v]; ok {
			return c, nil
		}
		switch x := v.(type) {
		case *ssa.Const:
			if x.Value == nil {
				return nil, fmt.Errorf("nil constant")
			}
			return x.Value, nil
		case *ssa.Convert:
			return val(x.X)
		case *ssa.UnOp:
			a, err := val(x.X)
			if err != nil {
				return nil, err
			}
			if x.Op == token.NOT {
				return constant.MakeBool(!constant.BoolVal(a)), nil
			}
			return nil, fmt.Errorf("unsupported unary op %s (the predicate does more than compare its byte)", x.Op)
		case *ssa.BinOp:
			a, err := val(x.X)
			if err != nil {
				return nil, err
			}
			c, err := val(x.Y)
			if err != nil {
				return nil, err
			}
			switch x.Op {
			case token.EQL, token.NEQ, token.LSS, token.LEQ, token.GTR, token.GEQ:
				return constant.MakeBool(constant.Compare(a, x.Op, c)), nil
			case token.LAND, token.LOR:
				return nil, fmt.Errorf("unexpected logical op")
			default:
				return nil, fmt.Errorf("unsupported operator %s (the predicate does more than compare its byte)", x.Op)
			}
		}
		return nil, fmt.Errorf("unsupported instruction %T", v)
	}
	blk := f.Blocks[0]
	var pred *ssa.BasicBlock
	for steps := 0; steps < 1000; steps++ {
		for _, in := range blk.Instrs {
			switch x := in.(type) {
			case *ssa.Phi:
				for i, p := range blk.Preds {
					if p == pred {
						c, err := val(x.Edges[i])
						if err != nil {
							return false, err
						}
						env[x] = c
					}
				}
			case *ssa.If:
				c, err := val(x.Cond)
				if err != nil {
					return false, err
				}
				pred = blk
				if constant.BoolVal(c) {
					blk = blk.Succs[0]
				} else {
					blk = blk.Succs[1]
				}
				goto next
			case *ssa.Jump:
				pred = blk
				blk = blk.Succs[0]
				goto next
			case *ssa.Return:
				c, err := val(x.Results[0])
				if err != nil {
					return false, err
				}
				return constant.BoolVal(c), nil
			case *ssa.DebugRef:
			case ssa.Value:
				// evaluated on demand
			default:
				return false, fmt.Errorf("unsupported instruction %T", in)
			}
		}
		return false, fmt.Errorf("fell off block")
	next:
	}
	return false, fmt.Errorf("did not terminate")
}

func ruleEscapeSet(ctx *Ctx, rule string) {
	q := ssaq.For(ctx.Prog)
	r := ctx.Rep
	f := q.Func("internal/strquote.needsEscape")
	ap := q.Func("internal/strquote.Append")
	if f == nil || ap == nil {
		r.Fail("%s: strquote.needsEscape / Append not found", rule)
		return
	}
	pos := q.Pos(f.Pos())
	set := [256]bool{}
	for b := 0; b < 256; b++ {
		v, err := evalBytePred(f, byte(b))
		if err != nil {
			r.Undecided(rule, "needsEscape | finite-domain evaluation", pos, "cannot evaluate the escape predicate by constant folding: "+err.Error())
			return
		}
		set[b] = v
	}
	var ranges []string
	for b := 0; b < 256; {
		if !set[b] {
			b++
			continue
		}
		e := b
		for e+1 < 256 && set[e+1] {
			e++
		}
		if e == b {
			ranges = append(ranges, fmt.Sprintf("%#02x", b))
		} else {
			ranges = append(ranges, fmt.Sprintf("%#02x-%#02x", b, e))
		}
		b = e + 1
	}
	desc := strings.Join(ranges, ", ")
	check := func(key string, ok bool, good, bad string) {
		if ok {
			r.Ok(rule, "needsEscape | "+key, pos, good+" (escape set: "+desc+")")
		} else {
			r.Violation(rule, "needsEscape | "+key, pos, bad+" (escape set: "+desc+")")
		}
	}
	check("double quote is escaped", set['"'], "'\"' is in the escape set", "the double quote is not escaped: a Text containing it ends the literal early and the rest is parsed as syntax")
	check("backslash is escaped", set['\\'], "'\\\\' is in the escape set", "the backslash is not escaped: the literal cannot be parsed back to the same bytes")
	ctl := true
	for b := 0; b < 0x20; b++ {
		ctl = ctl && set[b]
	}
	check("control bytes are escaped", ctl, "every byte below 0x20 is in the escape set", "some control byte below 0x20 is emitted raw")
	hi := true
	for b := 0x7f; b < 256; b++ {
		hi = hi && set[b]
	}
	check("bytes from 0x7f are escaped", hi, "every byte >= 0x7f is in the escape set", "some byte >= 0x7f is emitted raw")
	// printable ASCII other than quote/backslash must not be escaped needlessly? not required.
	// Case constants of the escape switch in Append
	var cases []int
	// Append itself and the helpers that did not exist on the reference tree
	// it calls (the per-byte switch may have been moved into one)
	for _, fr := range ssaq.Frames(ap) {
		for _, b := range fr.Fn.Blocks {
			for _, in := range b.Instrs {
				bo, ok := in.(*ssa.BinOp)
				if !ok || bo.Op != token.EQL {
					continue
				}
				if bt, ok := bo.X.Type().Underlying().(*types.Basic); !ok || bt.Kind() != types.Uint8 {
					continue
				}
				if c, ok := ssaq.ConstInt(bo.Y); ok {
					cases = append(cases, int(c))
				}
			}
		}
	}
	sort.Ints(cases)
	var dead []string
	for _, c := range cases {
		if !set[c] {
			dead = append(dead, fmt.Sprintf("%q", rune(c)))
		}
	}
	if len(cases) == 0 {
		// no per-byte switch (a table, say): which byte gets which escape is
		// decided exactly by C20-R1m for all 256 bytes
		mapped := true
		for k := range r.ViolatedKeys() {
			if strings.HasPrefix(k, "C20-R1m") {
				mapped = false
			}
		}
		if mapped {
			r.Ok(rule, "Append | every escape case is reachable", q.Pos(ap.Pos()), "Append has no escape switch; the image of every byte was computed and found well formed by C20-R1m")
		} else {
			r.Violation(rule, "Append | escape switch", q.Pos(ap.Pos()), "no escape switch found in Append, and the byte-by-byte evaluation of the mapping (C20-R1m) did not succeed")
		}
	} else if len(dead) > 0 {
		r.Violation(rule, "Append | every escape case is reachable", q.Pos(ap.Pos()), "Append has escape cases for "+strings.Join(dead, ", ")+" but needsEscape is false for them, so these bytes are copied raw: the guard contradicts the escape table")
	} else {
		r.Ok(rule, "Append | every escape case is reachable", q.Pos(ap.Pos()), fmt.Sprintf("all %d case constants lie inside the escape set", len(cases)))
	}
	// the default case emits \xHH: two hexDigit calls
	hex := 0
	for _, a := range ssaq.Anchors(ap) {
		if a.Callee == "internal/strquote.hexDigit" {
			hex++
		}
	}
	// or two digits read from a table of the sixteen hex digits
	for _, fr := range ssaq.Frames(ap) {
		for _, b := range fr.Fn.Blocks {
			for _, in := range b.Instrs {
				var tab ssa.Value
				switch x := in.(type) {
				case *ssa.Lookup:
					tab = x.X
				case *ssa.Index:
					tab = x.X
				}
				if c, isC := tab.(*ssa.Const); isC && c.Value != nil && c.Value.Kind() == constant.String && len(constant.StringVal(c.Value)) == 16 {
					hex++
				}
			}
		}
	}
	if hex >= 2 {
		r.Ok(rule, "Append | bytes without a short escape are emitted as \\xHH", q.Pos(ap.Pos()), "two hexDigit calls in the default case")
	} else {
		r.Violation(rule, "Append | bytes without a short escape are emitted as \\xHH", q.Pos(ap.Pos()), "the default escape no longer emits two hex digits")
	}
}

// ruleCachedBudget is C20-R3 / C19-R3.
func ruleCachedBudget(ctx *Ctx, rule string) {
	q := ssaq.For(ctx.Prog)
	r := ctx.Rep
	n := 0
	for _, f := range q.FuncsIn("internal/nodemap", "schemas", "encoding/text", "pogs") {
		for _, b := range f.Blocks {
			for _, in := range b.Instrs {
				call, ok := in.(*ssa.Call)
				if !ok {
					continue
				}
				cn := ssaq.StaticCalleeName(call)
				if cn != "capnp.Unmarshal" && cn != "capnp.UnmarshalPacked" && cn != "capnp.(*Decoder).Decode" {
					continue
				}
				// the message value
				var msg ssa.Value
				for _, ref := range *call.Referrers() {
					if ex, ok := ref.(*ssa.Extract); ok && ex.Index == 0 {
						msg = ex
					}
				}
				if msg == nil {
					continue
				}
				// taint: values derived from msg
				taint := map[ssa.Value]bool{msg: true}
				for changed := true; changed; {
					changed = false
					for _, b2 := range f.Blocks {
						for _, in2 := range b2.Instrs {
							v, isVal := in2.(ssa.Value)
							if !isVal || taint[v] {
								continue
							}
							for _, op := range in2.Operands(nil) {
								if *op != nil && taint[*op] {
									switch in2.(type) {
									case *ssa.Call, *ssa.Extract, *ssa.Field, *ssa.Phi, *ssa.ChangeType, *ssa.MakeInterface:
										taint[v] = true
										changed = true
									}
								}
							}
						}
					}
				}
				// cached?
				var cacheAt ssa.Instruction
				for _, b2 := range f.Blocks {
					for _, in2 := range b2.Instrs {
						switch x := in2.(type) {
						case *ssa.MapUpdate:
							if taint[x.Value] {
								cacheAt = in2
							}
						case *ssa.Store:
							if taint[x.Val] {
								if fa, ok := x.Addr.(*ssa.FieldAddr); ok {
									if _, isParam := fa.X.(*ssa.Parameter); isParam {
										cacheAt = in2
									}
								}
							}
						}
					}
				}
				if cacheAt == nil {
					continue
				}
				n++
				key := fmt.Sprintf("%s | cached message from %s has its traversal budget lifted", ssaq.FuncName(f), cn[strings.LastIndex(cn, ".")+1:])
				pos := q.Pos(ssaq.InstrPos(call))
				lifted := false
				for _, b2 := range f.Blocks {
					for _, in2 := range b2.Instrs {
						if st, ok := in2.(*ssa.Store); ok {
							if fa, ok := st.Addr.(*ssa.FieldAddr); ok && fa.X == msg && ssaq.FieldVar(fa).Name() == "TraverseLimit" && ssaq.DominatesInstr(in2, cacheAt) {
								// The field is read once, when the message is first read
								// (sync.Once in initReadLimit): the assignment only takes
								// effect if it comes before every read of the message.
								early := true
								for _, b3 := range f.Blocks {
									for _, in3 := range b3.Instrs {
										c3, isCall := in3.(*ssa.Call)
										if !isCall || in3 == ssa.Instruction(call) {
											continue
										}
										uses := false
										for _, a := range c3.Call.Args {
											if taint[a] {
												uses = true
											}
										}
										if uses && !ssaq.DominatesInstr(in2, in3) {
											early = false
										}
									}
								}
								if early {
									lifted = true
								}
							}
						}
						if c2, ok := in2.(*ssa.Call); ok && ssaq.StaticCalleeName(c2) == "capnp.(*Message).ResetReadLimit" && c2.Call.Args[0] == msg && ssaq.DominatesInstr(in2, cacheAt) {
							lifted = true
						}
					}
				}
				if lifted {
					r.Ok(rule, key, pos, "TraverseLimit is set (or ResetReadLimit called) on the message before its contents are stored in the cache")
				} else {
					r.Violation(rule, key, pos, "objects of a freshly unmarshalled message are stored in a long-lived cache while the message keeps its default 64 MiB traversal budget: every later use charges the same budget, so after enough uses all reads fail with 'read traversal limit reached' (the result depends on the encoder's history)")
				}
			}
		}
	}
	if n == 0 {
		r.Fail("%s: no cached message found (expected internal/nodemap.(*Map).Find)", rule)
	}
}

// ruleQuotedOnlyViaStrquote: nothing in encoding/text writes a quote byte itself.
func ruleQuotedOnlyViaStrquote(ctx *Ctx, rule string) {
	q := ssaq.For(ctx.Prog)
	r := ctx.Rep
	bad := 0
	for _, f := range q.FuncsIn("encoding/text") {
		for _, b := range f.Blocks {
			for _, in := range b.Instrs {
				call, ok := in.(*ssa.Call)
				if !ok {
					continue
				}
				cn := ssaq.StaticCalleeName(call)
				if !strings.HasPrefix(cn, "encoding/text.(*errWriter).Write") {
					continue
				}
				for _, a := range call.Call.Args[1:] {
					if c, ok := a.(*ssa.Const); ok && c.Value != nil {
						s := ""
						if c.Value.Kind() == constant.String {
							s = constant.StringVal(c.Value)
						} else if v, ok := constant.Int64Val(c.Value); ok {
							s = string(rune(v))
						}
						if strings.Contains(s, "\"") {
							bad++
							r.Violation(rule, ssaq.FuncName(f)+" | writes a quote itself", q.Pos(ssaq.InstrPos(call)), "a double quote is written directly instead of through strquote.Append: the literal's content is not escaped consistently")
						}
					}
				}
			}
		}
	}
	if bad == 0 {
		r.Ok(rule, "encoding/text | quotes are only produced by strquote.Append", "encoding/text/marshal.go", "no errWriter write of a constant containing '\"'")
	}
}
