package rules

import (
	"fmt"
	"go/token"
	"strings"

	"golang.org/x/tools/go/ssa"

	"verifcheck/internal/ssaq"
)

// ruleFulfillTarget is C10-R6b: the references of a fulfilled promise are
// added to the hook returned by resolveHook (the fully resolved hook, whose
// mutex resolveHook hands over), not to an intermediate hook.
func ruleFulfillTarget(ctx *Ctx, rule string) {
	q := ssaq.For(ctx.Prog)
	r := ctx.Rep
	refs := mustField(ctx, rule, "", "clientHook", "refs")
	f := q.Func("capnp.(*ClientPromise).Fulfill")
	if refs == nil || f == nil {
		if f == nil {
			r.Fail("%s: anchor Fulfill not found", rule)
		}
		return
	}
	found := false
	for _, b := range frameBlocks(f) {
		for _, in := range b.Instrs {
			st, ok := in.(*ssa.Store)
			if !ok {
				continue
			}
			fa, ok := st.Addr.(*ssa.FieldAddr)
			if !ok || ssaq.FieldVar(fa) != refs {
				continue
			}
			bo, ok := st.Val.(*ssa.BinOp)
			if !ok || bo.Op != token.ADD {
				continue
			}
			found = true
			key := "capnp.(*ClientPromise).Fulfill | refs go to the fully resolved hook"
			pos := q.Pos(ssaq.InstrPos(in))
			if c, isCall := fa.X.(*ssa.Call); isCall && ssaq.StaticCalleeName(c) == "capnp.resolveHook" {
				r.Ok(rule, key, pos, "the hook that receives the references is the result of resolveHook(cp.h)")
			} else {
				r.Violation(rule, key, pos, "the promise's references are added to "+ssaq.AccessPath(fa.X)+", which is not the result of resolveHook: if the resolution is itself a resolved promise the references land on a dead intermediate hook and the real capability is shut down too early")
			}
		}
	}
	if !found {
		r.Violation(rule, "capnp.(*ClientPromise).Fulfill | refs go to the fully resolved hook", q.Pos(f.Pos()), "no transfer of references found in Fulfill")
	}
}

// ruleJoinState is C11-R6b/c: (b) whenever Join releases p.mu to wait, p is
// marked pending-join (p.joined non-nil), otherwise concurrent callers see
// it as pending resolution and read its empty result; (c) Join moves the
// whole clientsRefs count of p to the parent and zeroes p's.
func ruleJoinState(ctx *Ctx, rule string) {
	q := ssaq.For(ctx.Prog)
	r := ctx.Rep
	joined := mustField(ctx, rule, "", "Promise", "joined")
	cr := mustField(ctx, rule, "", "Promise", "clientsRefs")
	f := q.Func("capnp.(*Promise).Join")
	if joined == nil || cr == nil || f == nil {
		if f == nil {
			r.Fail("%s: anchor Promise.Join not found", rule)
		}
		return
	}
	n := 0
	for _, b := range frameBlocks(f) {
		for _, in := range b.Instrs {
			call, ok := in.(*ssa.Call)
			if !ok || ssaq.StaticCalleeName(call) != "sync.(*Mutex).Unlock" {
				continue
			}
			fa, ok := call.Call.Args[0].(*ssa.FieldAddr)
			if !ok || ssaq.AccessPath(fa.X) != "p" {
				continue
			}
			n++
			key := fmt.Sprintf("capnp.(*Promise).Join | p marked pending-join before p.mu.Unlock #%d", n)
			pos := q.Pos(ssaq.InstrPos(in))
			if ssaq.MustNonNilField(f, in, joined, "p") {
				r.Ok(rule, key, pos, "p.joined is established non-nil on every path to this release of p.mu")
			} else {
				r.Violation(rule, key, pos, "Join releases p.mu to wait while p.joined can still be nil: with caller == nil and joined == nil the promise looks 'pending resolution', so a concurrent pipelined call waits for p.resolved and then uses p's own (empty) result instead of following the join")
			}
		}
	}
	if n < 3 {
		r.Fail("%s: expected the three wait points of Join that release p.mu, found %d", rule, n)
	}
	// (c) clientsRefs transfer
	moved, zeroed := false, false
	var movedBlk, zeroedBlk, nextBlk *ssa.BasicBlock
	nextF := mustField(ctx, rule, "", "Promise", "next")
	for _, b := range frameBlocks(f) {
		for _, in := range b.Instrs {
			st, ok := in.(*ssa.Store)
			if !ok {
				continue
			}
			fa, ok := st.Addr.(*ssa.FieldAddr)
			if ok && nextF != nil && ssaq.FieldVar(fa) == nextF && ssaq.AccessPath(fa.X) == "p" && b.Parent() == f {
				nextBlk = b
			}
			if !ok || ssaq.FieldVar(fa) != cr {
				continue
			}
			base := ssaq.AccessPath(fa.X)
			if k, ok := ssaq.ConstInt(st.Val); ok && k == 0 && base == "p" {
				zeroed = true
				zeroedBlk = b
			}
			if bo, ok := st.Val.(*ssa.BinOp); ok && bo.Op == token.ADD {
				for _, pair := range [][2]ssa.Value{{bo.X, bo.Y}, {bo.Y, bo.X}} {
					lf, lb := ssaq.LoadedField(pair[0])
					of, ob := ssaq.LoadedField(pair[1])
					if lf == cr && of == cr && lb != nil && ob != nil && ssaq.AccessPath(lb) == base && ssaq.AccessPath(ob) == "p" && base != "p" {
						moved = true
						movedBlk = b
					}
				}
			}
		}
	}
	pos := q.Pos(f.Pos())
	// the hand-over is unconditional: once p.next is set, every return is
	// dominated by both stores (a joined promise without clients of its own still
	// owns a share of the parent's)
	conditional := ""
	if moved && zeroed && nextBlk != nil && movedBlk.Parent() == f && zeroedBlk.Parent() == f {
		seen := map[*ssa.BasicBlock]bool{nextBlk: true}
		work := []*ssa.BasicBlock{nextBlk}
		for len(work) > 0 {
			b := work[len(work)-1]
			work = work[:len(work)-1]
			if len(b.Instrs) > 0 {
				if _, isRet := b.Instrs[len(b.Instrs)-1].(*ssa.Return); isRet {
					if !(movedBlk == b || movedBlk.Dominates(b)) || !(zeroedBlk == b || zeroedBlk.Dominates(b)) {
						conditional = q.Pos(ssaq.InstrPos(b.Instrs[len(b.Instrs)-1]))
					}
				}
			}
			for _, s := range b.Succs {
				if !seen[s] {
					seen[s] = true
					work = append(work, s)
				}
			}
		}
	}
	if conditional != "" {
		r.Violation(rule, "capnp.(*Promise).Join | clientsRefs transferred to the parent", pos, "after p.next is set, the return at "+conditional+" can be reached without parent.clientsRefs += p.clientsRefs and p.clientsRefs = 0: the hand-over of p's claim on the pipelined clients is conditional, so a joined promise without clients of its own releases the parent's clients early")
	} else if moved && zeroed {
		r.Ok(rule, "capnp.(*Promise).Join | clientsRefs transferred to the parent", pos, "parent.clientsRefs += p.clientsRefs and p.clientsRefs = 0")
	} else {
		r.Violation(rule, "capnp.(*Promise).Join | clientsRefs transferred to the parent", pos, fmt.Sprintf("Join does not move p's whole clientsRefs count to the promise it joins (added: %v, zeroed: %v): proxy clients are released while a joined promise still owns them, or never", moved, zeroed))
	}
}

// ruleQueueReady is C12-R5b: during answerQueue.fulfill every base shares one
// ready channel that is closed only when fulfill returns (deferred), so new
// pipelined calls cannot overtake the queued ones.
func ruleQueueReady(ctx *Ctx, rule string) {
	q := ssaq.For(ctx.Prog)
	r := ctx.Rep
	f := q.Func("server.(*answerQueue).fulfill")
	readyF := mustField(ctx, rule, "server", "base", "ready")
	if f == nil || readyF == nil {
		if f == nil {
			r.Fail("%s: anchor answerQueue.fulfill not found", rule)
		}
		return
	}
	// the values stored into base.ready by fulfill, or by helpers that did not
	// exist on the reference tree on its behalf (a parameter of such a helper
	// stands for the argument fulfill passes)
	vals := map[ssa.Value]bool{}
	var collect func(fn *ssa.Function, arg func(ssa.Value) ssa.Value, depth int)
	collect = func(fn *ssa.Function, arg func(ssa.Value) ssa.Value, depth int) {
		for _, b := range fn.Blocks {
			for _, in := range b.Instrs {
				switch x := in.(type) {
				case *ssa.Store:
					if fa, ok := x.Addr.(*ssa.FieldAddr); ok && ssaq.FieldVar(fa) == readyF {
						vals[arg(x.Val)] = true
					}
				case *ssa.Call:
					g := x.Call.StaticCallee()
					if g == nil || !ssaq.IsNew(g) || depth >= 2 || len(g.Blocks) == 0 {
						continue
					}
					args := x.Call.Args
					collect(g, func(v ssa.Value) ssa.Value {
						if i := paramIndex(g, v); i >= 0 && i < len(args) {
							return arg(args[i])
						}
						return v
					}, depth+1)
				}
			}
		}
	}
	collect(f, func(v ssa.Value) ssa.Value { return v }, 0)
	pos := q.Pos(f.Pos())
	key := "server.(*answerQueue).fulfill | one ready channel for all bases, closed on return"
	if len(vals) != 1 {
		var names []string
		for v := range vals {
			names = append(names, ssaq.AccessPath(v))
		}
		r.Violation(rule, key, pos, fmt.Sprintf("bases get %d different ready channels (%s): calls arriving while the queue drains can be delivered before the queued calls", len(vals), strings.Join(names, ", ")))
		return
	}
	var ch ssa.Value
	for v := range vals {
		ch = v
	}
	// every close of that channel must be a deferred call
	okDefer, badClose := false, false
	for _, b := range f.Blocks {
		for _, in := range b.Instrs {
			switch x := in.(type) {
			case *ssa.Defer:
				if bi, ok := x.Call.Value.(*ssa.Builtin); ok && bi.Name() == "close" && sameChan(x.Call.Args[0], ch) {
					okDefer = true
				}
			case *ssa.Call:
				if bi, ok := x.Call.Value.(*ssa.Builtin); ok && bi.Name() == "close" && sameChan(x.Call.Args[0], ch) {
					badClose = true
				}
			}
		}
	}
	if okDefer && !badClose {
		r.Ok(rule, key, pos, "all bases share "+ssaq.AccessPath(ch)+", whose only close is deferred to fulfill's return")
	} else {
		r.Violation(rule, key, pos, fmt.Sprintf("the shared ready channel is not closed exactly by a deferred close (deferred: %v, closed early: %v)", okDefer, badClose))
	}
}

func sameChan(a, b ssa.Value) bool {
	strip := func(v ssa.Value) ssa.Value {
		for {
			switch x := v.(type) {
			case *ssa.ChangeType:
				v = x.X
			case *ssa.Convert:
				v = x.X
			default:
				return v
			}
		}
	}
	return strip(a) == strip(b)
}
