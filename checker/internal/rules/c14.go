package rules

import (
	"fmt"
	"go/token"
	"strings"
	"verifcheck/internal/core"

	"golang.org/x/tools/go/ssa"

	"verifcheck/internal/ssaq"
)

func init() {
	Register(&Spec{
		ID:           "C14",
		Explanation:  "Decides structural necessary conditions of bounded, exactly framed decoding: (R1) every allocation in Decoder.Decode, Unmarshal and demuxArena whose size derives from header bytes is dominated, on the continuing edge, by the comparison of that size against the configured limit (MaxMessageSize, maxStreamSegments, the input length, maxInt), and demuxArena's slicing is preceded at both call sites by the test that the data covers the header's total; (R2) streamHeader.totalSize adds overflow-checked segment sizes, Decode rejects MaxMessageSize < 8, too many segments before reading the rest of the header, a header larger than the limit and a total larger than the limit minus the header; (R3) io.EOF is returned only for the read of the first header word, every other read error is wrapped; (R4) with buffer reuse the arena slices handed out are capped (three-index slices) so appends cannot scribble on the shared buffer. (R5) Message.Reset re-initialises, on every path, every field of Message that any other function writes. (R3p) in the packed stream reader the error of a byte read after the tag byte is passed on only where it is known not to be io.EOF (a packed stream cut inside a word is a truncation; shared with C13-R3e). (R6) the Encoder's scratch slices start empty in every Encode (shared with C04-R7). Does NOT decide that decoded messages equal the encoded ones nor exact allocation totals.",
		ExtraConfigs: true,
		Run:          runC14,
	})
}

var decodeSpecs = []anchorSpec{
	{"capnp.(*Decoder).Decode", "capnp.resizeSlice", 1, []string{"p0.hdrbuf", "int(streamHeaderSize(SegmentID(Uint32(*LittleEndian, p0.wordbuf[:]))))"},
		[]string{"SegmentID(Uint32(*LittleEndian, p0.wordbuf[:])) <= 512:SegmentID", "streamHeaderSize(SegmentID(Uint32(*LittleEndian, p0.wordbuf[:]))) <= §"},
		"header buffer is sized only after the segment-count cap and the header <= MaxMessageSize test"},
	{"capnp.(*Decoder).Decode", "io.ReadFull", 3, []string{"p0.r", "make([]byte, int(totalSize(hdr)#0), int(totalSize(hdr)#0))"},
		[]string{"nil == totalSize(hdr)#1", "totalSize(hdr)#0 <= (§ - uint64(len(hdr.b)))", "SegmentID(Uint32(*LittleEndian, p0.wordbuf[:])) <= 512:SegmentID"},
		"message buffer is allocated only under total <= MaxMessageSize - header"},
	{"capnp.(*Decoder).Decode", "capnp.resizeSlice", 2, []string{"p0.buf", "int(totalSize(hdr)#0)"},
		[]string{"nil == totalSize(hdr)#1", "totalSize(hdr)#0 <= (§ - uint64(len(hdr.b)))"},
		"reused buffer is grown only under total <= MaxMessageSize - header"},
	{"capnp.(*Decoder).Decode", "capnp.(streamHeader).totalSize", 1, []string{"hdr"},
		[]string{"SegmentID(Uint32(*LittleEndian, p0.wordbuf[:])) <= 512:SegmentID"},
		"segment sizes are summed only for at most maxStreamSegments+1 segments"},
	{"capnp.(*Decoder).Decode", "capnp.demuxArena", 1, []string{"hdr", "make([]byte, int(totalSize(hdr)#0), int(totalSize(hdr)#0))"},
		[]string{"ReadFull(p0.r, make([]byte, int(totalSize(hdr)#0), int(totalSize(hdr)#0)))#1 == nil"},
		"the arena is cut from a buffer of exactly the header's total size, fully read"},
	{"capnp.(*Decoder).Decode", "capnp.demuxArena", 2, []string{"hdr", "p0.buf"},
		[]string{"ReadFull(p0.r, p0.buf)#1 == nil", "p0.reuse"},
		"reuse path: arena cut from the resized buffer, fully read"},
	{"capnp.Unmarshal", "capnp.(streamHeader).totalSize", 1, []string{"hdr"},
		[]string{"8:int <= len(p0)", "streamHeaderSize(SegmentID(Uint32(*LittleEndian, p0))) <= uint64(len(p0))"},
		"the header is parsed only if the input is long enough to contain it"},
	{"capnp.Unmarshal", "capnp.demuxArena", 1, []string{"hdr", "p0[streamHeaderSize(SegmentID(Uint32(*LittleEndian, p0))):]"},
		[]string{"nil == totalSize(hdr)#1", "totalSize(hdr)#0 <= uint64(len(p0[streamHeaderSize(SegmentID(Uint32(*LittleEndian, p0))):]))"},
		"segments are sliced only if the data covers the header's total (allocation proportional to the input)"},
	{"capnp.demuxArena", "capnp.(streamHeader).segmentSize", 1, []string{"p0", "SegmentID(§)"},
		[]string{"int64(maxSegment(p0)) <= 9223372036854775806:int64"},
		"segment table is sized from a segment count that fits an int"},
}

func runC14(ctx *Ctx) {
	ruleResetComplete(ctx, "C14-R5", "capnp", "Message", "Reset", []string{"CapTable", "Arena"})
	ctx.Rep.Floor("C14-R5", 3)
	if ctx.Primary {
		ruleAnchorSpecs(ctx, "C14-R1", decodeSpecs)
		ruleKernelLemmas(ctx, "C14-R2", []string{"capnp.streamHeaderSize", "capnp.(streamHeader).segmentSize", "capnp.(streamHeader).maxSegment", "capnp.resizeSlice"})
	}
	ruleDecodeLimits(ctx, "C14-R2d")
	ruleEOFOnlyAtBoundary(ctx, "C14-R3")
	ruleCappedSlices(ctx, "C14-R4")
	// the packed variant of the stream (NewPackedDecoder): a stream that ends
	// inside a packed word is a truncation, not a clean end (shared with C13-R3e)
	ruleCountByteEOF(ctx, "C14-R3p")
	// frames are self-delimiting only if each Encode writes its own segments
	// and nothing else (shared with C04-R7)
	ruleEncoderScratchStartsEmpty(ctx, "C14-R6")
	r := ctx.Rep
	if ctx.Primary {
		r.Floor("C14-R1", 9)
	}
	r.Floor("C14-R2d", 4)
	r.Floor("C14-R3", 4)
	r.Floor("C14-R4", 2)
}

// ruleDecodeLimits: the four rejecting comparisons of Decode and totalSize's checked sum.
func ruleDecodeLimits(ctx *Ctx, rule string) {
	q := ssaq.For(ctx.Prog)
	r := ctx.Rep
	f := q.Func("capnp.(*Decoder).Decode")
	if f == nil {
		r.Fail("%s: Decode not found", rule)
		return
	}
	// error returns and the atoms that lead to them
	type want struct{ key, atom, why string }
	wants := []want{
		{"MaxMessageSize below the header size is rejected", "p0.MaxMessageSize < 8:uint64", "a limit smaller than one word would make the later subtraction wrap"},
		{"segment count above maxStreamSegments is rejected", "512:SegmentID < SegmentID(Uint32(*LittleEndian, p0.wordbuf[:]))", "a hostile count would size a huge header buffer"},
		{"header larger than the limit is rejected", "§ < streamHeaderSize(SegmentID(Uint32(*LittleEndian, p0.wordbuf[:])))", "header allocation above MaxMessageSize"},
		{"total larger than limit minus header is rejected", "(§ - uint64(len(hdr.b))) < totalSize(hdr)#0", "message allocation above MaxMessageSize"},
	}
	found := map[string]bool{}
	// Decode itself and the helpers that did not exist on the reference tree
	// it calls, each seen in Decode's frame
	// a condition written with the source names of locals (hdr) is looked for in
	// the name-free rendering when the reference tree defines those locals
	resolved := map[string]bool{}
	namedToo := map[string]string{} // key -> named form, for locals that are only identities
	for i := range wants {
		if wx, full := expandWant("capnp.(*Decoder).Decode", wants[i].atom); full {
			if weakWant([]string{wx}) {
				namedToo[wants[i].key] = wants[i].atom
			}
			wants[i].atom, resolved[wants[i].key] = wx, true
		}
	}
	for _, fr := range append(ssaq.Frames(f), ssaq.FramesR(f)...) {
		isR := fr.Resolved()
		for _, b := range fr.Fn.Blocks {
			for _, in := range b.Instrs {
				ret, ok := in.(*ssa.Return)
				if !ok || len(ret.Results) < 1 || ssaq.IsNilConst(ret.Results[len(ret.Results)-1]) {
					continue
				}
				atoms := fr.Atoms(ret)
				// the returning block may be reached through an || of two tests: look at predecessors' edge conditions too
				all := map[string]bool{}
				for _, a := range atoms {
					all[a] = true
				}
				for _, p := range b.Preds {
					if ifi, ok := p.Instrs[len(p.Instrs)-1].(*ssa.If); ok && p.Succs[0] == b {
						for _, a := range fr.Atoms(ifi) {
							all[a] = true
						}
						all[fr.Cond(ifi.Cond, true)] = true
					}
				}
				for _, w := range wants {
					if nw, ok := namedToo[w.key]; ok && !isR {
						for a := range all {
							if matchPattern(a, nw) {
								found[w.key] = true
							}
						}
					}
					if resolved[w.key] != isR {
						continue
					}
					for a := range all {
						if matchPattern(a, w.atom) {
							found[w.key] = true
						}
					}
				}
			}
		}
	}
	for _, w := range wants {
		if found[w.key] {
			r.Ok(rule, "Decode | "+w.key, q.Pos(f.Pos()), "an error return is taken under "+w.atom)
		} else {
			r.Violation(rule, "Decode | "+w.key, q.Pos(f.Pos()), "no error return under the condition "+w.atom+": "+w.why)
		}
	}
	// totalSize: loop over checked segmentSize results
	if ts := q.Func("capnp.(streamHeader).totalSize"); ts != nil {
		okChecked := false
		for _, b := range ts.Blocks {
			for _, in := range b.Instrs {
				if bo, ok := in.(*ssa.BinOp); ok && bo.Op == token.ADD {
					s := ssaq.RenderValue(ts, bo)
					if strings.Contains(s, "uint64(segmentSize(") {
						for _, a := range ssaq.DomAtoms(bo) {
							if strings.HasSuffix(a, "#1") && strings.HasPrefix(a, "nil == segmentSize(") {
								okChecked = true
							}
						}
					}
				}
			}
		}
		key := "totalSize | sums overflow-checked segment sizes in 64 bits"
		if okChecked {
			r.Ok(rule, key, q.Pos(ts.Pos()), "sum += uint64(x) only after segmentSize's error was tested nil")
		} else {
			r.Violation(rule, key, q.Pos(ts.Pos()), "the header total is not accumulated from overflow-checked segment sizes in uint64")
		}
	}
}

// ruleEOFOnlyAtBoundary: the only read error returned unwrapped is the first header word's io.EOF.
func ruleEOFOnlyAtBoundary(ctx *Ctx, rule string) {
	q := ssaq.For(ctx.Prog)
	r := ctx.Rep
	f := q.Func("capnp.(*Decoder).Decode")
	if f == nil {
		r.Fail("%s: Decode not found", rule)
		return
	}
	n := 0
	// Decode's own reads first, then those of helpers that did not exist on
	// the reference tree (a read moved into a helper is still a mid-frame read)
	type blk struct {
		fr *ssaq.Frame
		b  *ssa.BasicBlock
	}
	var blocks []blk
	for _, fr := range ssaq.Frames(f) {
		for _, b := range fr.Fn.Blocks {
			blocks = append(blocks, blk{fr, b})
		}
	}
	for _, bb := range blocks {
		fr, b := bb.fr, bb.b
		f := fr.Fn
		for _, in := range b.Instrs {
			call, ok := in.(*ssa.Call)
			if !ok || ssaq.StaticCalleeName(call) != "io.ReadFull" {
				continue
			}
			n++
			first := n == 1
			key := fmt.Sprintf("Decode | io.ReadFull #%d error handling", n)
			pos := q.Pos(ssaq.InstrPos(call))
			// the error result
			var errv *ssa.Extract
			for _, ref := range *call.Referrers() {
				if ex, ok := ref.(*ssa.Extract); ok && ex.Index == 1 {
					errv = ex
				}
			}
			if errv == nil {
				r.Violation(rule, key, pos, "the error of io.ReadFull is dropped: a truncated stream is taken for a complete message")
				continue
			}
			returnedBare, wrapped := false, false
			for _, ref := range *errv.Referrers() {
				switch x := ref.(type) {
				case *ssa.Return:
					returnedBare = true
				case *ssa.MakeInterface, *ssa.ChangeInterface:
					// passed to errorf via varargs
					wrapped = true
				case *ssa.Phi:
					for _, r2 := range *x.Referrers() {
						if _, ok := r2.(*ssa.Return); ok {
							returnedBare = true
						}
					}
				}
			}
			// explicit `return nil, io.EOF` under err == io.EOF is allowed for the first read only
			explicitEOF := false
			for _, b2 := range f.Blocks {
				for _, in2 := range b2.Instrs {
					if ret, ok := in2.(*ssa.Return); ok && len(ret.Results) == 2 {
						if u, ok := ret.Results[1].(*ssa.UnOp); ok {
							if g, ok := u.X.(*ssa.Global); ok && g.Name() == "EOF" {
								for _, a := range ssaq.DomAtoms(ret) {
									if strings.Contains(a, "*EOF == "+ssaq.RenderValue(f, errv)) {
										explicitEOF = true
									}
								}
							}
						}
					}
				}
			}
			switch {
			case first && wrapped && !returnedBare:
				r.Ok(rule, key, pos, "first header word: io.EOF is returned only for err == io.EOF (frame boundary), every other error is wrapped")
			case !first && wrapped && !returnedBare && !explicitEOF:
				r.Ok(rule, key, pos, "mid-frame read: the error only flows into errorf, so it can never compare equal to io.EOF")
			default:
				r.Violation(rule, key, pos, fmt.Sprintf("a mid-frame read error can reach the caller unwrapped (bare return: %v, wrapped: %v, explicit EOF: %v): a stream cut inside a frame would look like a clean end of stream", returnedBare, wrapped, explicitEOF))
			}
		}
	}
	if n < 4 {
		r.Fail("%s: expected 4 io.ReadFull calls in Decode, found %d", rule, n)
	}
}

// ruleCappedSlices: slices of the shared buffer handed to an arena are three-index slices.
func ruleCappedSlices(ctx *Ctx, rule string) {
	q := ssaq.For(ctx.Prog)
	r := ctx.Rep
	for _, spec := range []struct{ fn, what string }{
		{"capnp.demuxArena", "segments cut from the message buffer"},
		{"capnp.(*Decoder).Decode", "single-segment arena over the reused buffer"},
	} {
		f := q.Func(spec.fn)
		if f == nil {
			r.Fail("%s: %s not found", rule, spec.fn)
			continue
		}
		n, capped := 0, 0
		for _, b := range f.Blocks {
			for _, in := range b.Instrs {
				sl, ok := in.(*ssa.Slice)
				if !ok {
					continue
				}
				// slices that become arena data: stored into segs[i] (demuxArena) or d.arena (Decode)
				isArena := false
				for _, ref := range *sl.Referrers() {
					if st, ok := ref.(*ssa.Store); ok && st.Val == ssa.Value(sl) {
						switch ad := st.Addr.(type) {
						case *ssa.IndexAddr:
							isArena = true
						case *ssa.FieldAddr:
							if fld := ssaq.FieldVar(ad); fld != nil && core.FieldName(fld) == "arena" {
								isArena = true
							}
						}
					}
					if ct, ok := ref.(*ssa.ChangeType); ok {
						for _, r2 := range *ct.Referrers() {
							if st, ok := r2.(*ssa.Store); ok {
								if ad, ok := st.Addr.(*ssa.FieldAddr); ok {
									if fld := ssaq.FieldVar(ad); fld != nil && core.FieldName(fld) == "arena" {
										isArena = true
									}
								}
							}
						}
					}
				}
				if !isArena {
					continue
				}
				n++
				if sl.Max != nil {
					capped++
				}
			}
		}
		key := spec.fn + " | " + spec.what + " are capacity-capped"
		if n > 0 && capped == n {
			r.Ok(rule, key, q.Pos(f.Pos()), fmt.Sprintf("%d arena slice(s), all of the form b[:n:n]", n))
		} else {
			r.Violation(rule, key, q.Pos(f.Pos()), fmt.Sprintf("%d of %d arena slices are not three-index slices: an allocation in one segment could overwrite the next segment's bytes in the shared buffer", n-capped, n))
		}
	}
}
