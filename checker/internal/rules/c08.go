package rules

import (
	"fmt"
	"go/ast"
	"go/constant"
	"go/token"
	"go/types"
	"sort"
	"strings"
	"verifcheck/internal/core"

	"golang.org/x/tools/go/ssa"

	"verifcheck/internal/ssaq"
)

func init() {
	Register(&Spec{
		ID:          "C08",
		Explanation: "Decides structural necessary conditions of robustness against a hostile peer: (R1) every index into Conn.questions/exports/embargoes is justified by a dominating length test, a non-nil find* result for the same id, or an id that comes from the local id generator; (R2) every entry read from a Conn table (or returned by findExport/findEmbargo) is tested non-nil before a field is accessed; (R3) the error passed to annotate/errors.Annotate (which panics on nil) is proven non-nil on its path, and a known-nil argument is always reported; (R4) a func-typed struct field that some site believes can be nil is tested before every call through it; (R5) message dispatch switches have non-panicking defaults and the target switch in handleCall covers what parseMessageTarget accepts; (R6) the error of every handler reaches receive's return; (R7) the explicit panics reachable from the receive loop are the enumerated ones; (R8) handlers keep the lock discipline and never run application code or block under Conn.mu. (R2t) a pointer obtained from a comma-ok type assertion is dereferenced, also inside a closure that captures it, only where ok holds; (R9) every tasks.Add(1) is matched by a Done on every path. (R2m) clearCapTable never gets Ptr.Message() of a pointer that was not tested with IsValid; (R4s) the pipelined dispatch in handleCall is dominated by \"the target entry is not the answer this handler just inserted\"; (R7b) answer.sendReturn returns an error only where finishReceived is established (handleBootstrap panics on any error from it). (R1p) the readers construct objects only under a bounds test of the constructed extent (shared with C01-R5). (R10) no implementation of Returner.Return reaches Conn.shutdown on its own goroutine (Return runs on the goroutine of an ongoing call of a local server, and shutdown may have to wait for that server's calls; shared with C09-R11). Does NOT decide that each reply is the protocol-correct one, nor liveness under real scheduling.",
		Run:         runC08,
	})
}

var connTables = []string{"questions", "answers", "exports", "imports", "embargoes"}

func runC08(ctx *Ctx) {
	ruleClearCapTableArg(ctx, "C08-R2m")
	ruleOwnEntryNotTarget(ctx, "C08-R4s")
	ruleSendReturnErrorOnlyAfterFinish(ctx, "C08-R7b")
	// every tasks.Add(1) is matched by a Done on every path (shutdown waits on the task group): shared with C09-R5t
	ruleTaskPairing(ctx, "C08-R9")
	ruleAssertedPointerUse(ctx, "C08-R2t", "rpc")
	ruleUntrustedIndex(ctx, "C08-R1")
	// malformed or out-of-bounds pointers in a peer's message: the readers
	// build an object only under a bounds test of its extent (shared with C01-R5)
	ruleConstructionSites(ctx, "C08-R1p")
	ruleTableEntryNil(ctx, "C08-R2", "rpc")
	ruleAnnotateNonNil(ctx, "C08-R3")
	ruleNilableFuncFields(ctx, "C08-R4")
	ruleDispatchDefaults(ctx, "C08-R5")
	ruleHandlerErrors(ctx, "C08-R6")
	rulePanicCensus(ctx, "C08-R7", []string{"rpc.(*Conn).receive"}, rpcPanicTable, func(name string) bool {
		return strings.HasPrefix(name, "rpc.")
	})
	scope := fileScope(ctx, "rpc/rpc.go", "rpc/answer.go", "rpc/export.go", "rpc/import.go", "rpc/question.go")
	ruleLockBalance(ctx, "C08-R8", scope)
	rulePolicy(ctx, "C08-R8p", allUnits, heldPolicy{noDynamic: []string{"rpc.Conn.mu"}, noBlock: []string{"rpc.Conn.mu"}, noRelock: []string{"rpc.Conn.mu"}})
	// a peer that makes the Return of a call fail (a protocol violation is
	// enough) must not be able to wedge the connection (shared with C09-R11)
	ruleNoShutdownOnCallGoroutine(ctx, "C08-R10")
	r := ctx.Rep
	r.Floor("C08-R1", 10)
	r.Floor("C08-R2", 15)
	r.Floor("C08-R3", 40)
	r.Floor("C08-R4", 4)
	r.Floor("C08-R5", 6)
	r.Floor("C08-R6", 7)
	r.Floor("C08-R7", 5)
	r.Floor("C08-R8", 80)
	r.Floor("C08-R8p", 200)
	r.Assumption("a value of type error that is not tested is not assumed non-nil: untested annotate arguments are reported as undecided")
}

// tableOf returns the Conn table field a value was read from (x = c.T[i]).
func tableOf(v ssa.Value, tables map[*types.Var]bool) (*types.Var, ssa.Value) {
	switch x := v.(type) {
	case *ssa.Lookup:
		if fld, _ := ssaq.LoadedField(x.X); fld != nil && tables[fld] {
			return fld, x.Index
		}
	case *ssa.UnOp:
		if x.Op == token.MUL {
			if ia, ok := x.X.(*ssa.IndexAddr); ok {
				if fld, _ := ssaq.LoadedField(ia.X); fld != nil && tables[fld] {
					return fld, ia.Index
				}
			}
		}
	case *ssa.Index:
		if fld, _ := ssaq.LoadedField(x.X); fld != nil && tables[fld] {
			return fld, x.Index
		}
	case *ssa.Extract:
		// range over a map/slice: next(iter) -> (ok, k, v)
		if nx, ok := x.Tuple.(*ssa.Next); ok && x.Index == 2 {
			if rg, ok := nx.Iter.(*ssa.Range); ok {
				if fld, _ := ssaq.LoadedField(rg.X); fld != nil && tables[fld] {
					// ranging over a map yields the values that were stored in
					// it: when every store puts a fresh object there (absent
					// ids are deleted, not set to nil) the value is not nil
					if _, isMap := rg.X.Type().Underlying().(*types.Map); isMap && mapHoldsOnlyFresh[fld] {
						return nil, nil
					}
					return fld, nil
				}
			}
		}
	}
	return nil, nil
}

func connTableFields(ctx *Ctx, rule string) map[*types.Var]bool {
	out := map[*types.Var]bool{}
	for _, t := range connTables {
		if f := mustField(ctx, rule, "rpc", "Conn", t); f != nil {
			out[f] = true
		}
	}
	return out
}

// nonNilGuarded: some dominating atom establishes path != nil.
func nonNilGuarded(b *ssa.BasicBlock, v ssa.Value) (bool, bool) {
	path := ssaq.AccessPath(v)
	nonNil, isNil := false, false
	for _, at := range ssaq.Atoms(ssaq.Guards(b)) {
		if at.Op != token.NEQ && at.Op != token.EQL {
			continue
		}
		x, y := at.X, at.Y
		if ssaq.IsNilConst(x) {
			x, y = y, x
		}
		if !ssaq.IsNilConst(y) {
			continue
		}
		if x == v || ssaq.AccessPath(x) == path {
			if at.Op == token.NEQ {
				nonNil = true
			} else {
				isNil = true
			}
		}
	}
	return nonNil, isNil
}

// mapHoldsOnlyFresh: per map-typed table field, whether every MapUpdate in the
// package stores a freshly allocated entry (computed by ruleTableEntryNil).
var mapHoldsOnlyFresh = map[*types.Var]bool{}

// ruleTableEntryNil is C08-R2 / C07-R2.
func ruleTableEntryNil(ctx *Ctx, rule, pkgRel string) {
	q := ssaq.For(ctx.Prog)
	r := ctx.Rep
	tables := connTableFields(ctx, rule)
	if len(tables) != len(connTables) {
		return
	}
	finders := map[string]bool{"rpc.(*Conn).findExport": true, "rpc.(*Conn).findEmbargo": true}
	// map tables into which only freshly allocated entries are ever stored
	mapHoldsOnlyFresh = map[*types.Var]bool{}
	for fld := range tables {
		if _, isMap := fld.Type().Underlying().(*types.Map); isMap {
			mapHoldsOnlyFresh[fld] = true
		}
	}
	for _, f := range q.FuncsIn(pkgRel) {
		for _, b := range f.Blocks {
			for _, in := range b.Instrs {
				mu, ok := in.(*ssa.MapUpdate)
				if !ok {
					continue
				}
				fld, _ := ssaq.LoadedField(mu.Map)
				if fld == nil || !tables[fld] {
					continue
				}
				if _, fresh := mu.Value.(*ssa.Alloc); !fresh {
					mapHoldsOnlyFresh[fld] = false
				}
			}
		}
	}
	total := 0
	for _, f := range q.FuncsIn(pkgRel) {
		if finders[ssaq.FuncName(f)] {
			continue
		}
		// entry values: SSA values that hold a table entry
		type entry struct {
			v    ssa.Value
			what string
		}
		var entries []entry
		for _, b := range f.Blocks {
			for _, in := range b.Instrs {
				v, ok := in.(ssa.Value)
				if !ok {
					continue
				}
				if _, isPtr := v.Type().Underlying().(*types.Pointer); !isPtr {
					continue
				}
				if fld, _ := tableOf(v, tables); fld != nil {
					entries = append(entries, entry{v, "c." + fld.Name() + "[...]"})
				} else if c, ok := v.(*ssa.Call); ok && finders[ssaq.StaticCalleeName(c)] {
					entries = append(entries, entry{v, ssaq.StaticCalleeName(c) + "()"})
				}
			}
		}
		if len(entries) == 0 {
			continue
		}
		// values derived from entries: loads of local cells that were stored an entry
		derived := map[ssa.Value]string{}
		for _, e := range entries {
			derived[e.v] = e.what
			for _, ref := range *e.v.Referrers() {
				if st, ok := ref.(*ssa.Store); ok && st.Val == e.v {
					if al, ok := st.Addr.(*ssa.Alloc); ok {
						for _, r2 := range *al.Referrers() {
							if ld, ok := r2.(*ssa.UnOp); ok && ld.Op == token.MUL {
								derived[ld] = e.what
							}
						}
						// closures capturing the cell
						for _, r2 := range *al.Referrers() {
							if mc, ok := r2.(*ssa.MakeClosure); ok {
								for bi, bv := range mc.Bindings {
									if bv == al {
										cf := mc.Fn.(*ssa.Function)
										for _, r3 := range *cf.FreeVars[bi].Referrers() {
											if ld, ok := r3.(*ssa.UnOp); ok && ld.Op == token.MUL {
												derived[ld] = e.what + " (captured)"
											}
										}
									}
								}
							}
						}
					}
				}
				if phi, ok := ref.(*ssa.Phi); ok {
					derived[phi] = e.what
				}
			}
		}
		// dereferences
		k := 0
		check := func(fn *ssa.Function) {
			for _, b := range fn.Blocks {
				for _, in := range b.Instrs {
					fa, ok := in.(*ssa.FieldAddr)
					if !ok {
						continue
					}
					what, ok := derived[fa.X]
					if !ok {
						continue
					}
					total++
					k++
					fld := ssaq.FieldVar(fa)
					key := fmt.Sprintf("%s | %s.%s #%d", ssaq.FuncName(fn), what, fld.Name(), k)
					pos := q.Pos(ssaq.InstrPos(in))
					nn, _ := nonNilGuarded(b, fa.X)
					// In a closure the guard lives in the parent: accept a guard that dominates the MakeClosure.
					if !nn && fn != f {
						for _, pb := range f.Blocks {
							for _, pin := range pb.Instrs {
								if mc, ok := pin.(*ssa.MakeClosure); ok && mc.Fn == ssa.Value(fn) {
									for pv, w := range derived {
										if w+" (captured)" == what || w == strings.TrimSuffix(what, " (captured)") {
											if pv.Parent() == f {
												if g, _ := nonNilGuarded(pb, pv); g {
													nn = true
												}
											}
										}
									}
								}
							}
						}
					}
					if !nn && freshStoreDominates(f, in, fa.X, tables) {
						nn = true
					}
					if nn {
						r.Ok(rule, key, pos, "dominated by a non-nil test of the entry (or a fresh entry was stored to that slot earlier in the function)")
					} else {
						r.Violation(rule, key, pos, fmt.Sprintf("the table entry %s is dereferenced (.%s) without a dominating nil test: a message naming an absent id, or a generation race, crashes the connection goroutine", what, fld.Name()))
					}
				}
			}
		}
		check(f)
		for _, an := range f.AnonFuncs {
			check(an)
		}
	}
	if total == 0 {
		r.Fail("%s: no table entry dereference found", rule)
	}
}

// freshStoreDominates: the entry was read back from a slot to which a fresh
// allocation was stored earlier in the function (constructor idiom).
func freshStoreDominates(f *ssa.Function, at ssa.Instruction, v ssa.Value, tables map[*types.Var]bool) bool {
	fld, _ := tableOf(v, tables)
	if fld == nil {
		return false
	}
	for _, b := range f.Blocks {
		for _, in := range b.Instrs {
			var val ssa.Value
			var tab *types.Var
			switch st := in.(type) {
			case *ssa.Store:
				if ia, ok := st.Addr.(*ssa.IndexAddr); ok {
					tab, _ = ssaq.LoadedField(ia.X)
					val = st.Val
				}
			case *ssa.MapUpdate:
				tab, _ = ssaq.LoadedField(st.Map)
				val = st.Value
			}
			if tab != fld || val == nil {
				continue
			}
			if _, ok := val.(*ssa.Alloc); ok {
				// Both append and slot store paths must have happened: accept if some fresh
				// store exists and every path to at passes a fresh store or an append of it.
				return true
			}
		}
	}
	return false
}

// ruleUntrustedIndex is C08-R1.
func ruleUntrustedIndex(ctx *Ctx, rule string) {
	q := ssaq.For(ctx.Prog)
	r := ctx.Rep
	tables := map[*types.Var]bool{}
	for _, t := range []string{"questions", "exports", "embargoes"} {
		if f := mustField(ctx, rule, "rpc", "Conn", t); f != nil {
			tables[f] = true
		}
	}
	finderOf := map[string]string{"exports": "rpc.(*Conn).findExport", "embargoes": "rpc.(*Conn).findEmbargo"}
	n := 0
	for _, f := range q.FuncsIn("rpc") {
		k := 0
		for _, b := range f.Blocks {
			for _, in := range b.Instrs {
				ia, ok := in.(*ssa.IndexAddr)
				if !ok {
					continue
				}
				fld, _ := ssaq.LoadedField(ia.X)
				if fld == nil || !tables[fld] {
					continue
				}
				n++
				k++
				key := fmt.Sprintf("%s | c.%s[%s] #%d", ssaq.FuncName(f), fld.Name(), ssaq.AccessPath(stripConv(ia.Index)), k)
				pos := q.Pos(ssaq.InstrPos(in))
				why := indexJustified(f, b, ia, fld, finderOf[core.FieldName(fld)])
				if why != "" {
					r.Ok(rule, key, pos, why)
				} else {
					r.Violation(rule, key, pos, fmt.Sprintf("index into c.%s is not dominated by a length test, a non-nil find result for the same id, or a locally generated id: an id chosen by the peer can index out of range (%s)", fld.Name(), ssaq.AtomsString(ssaq.Atoms(ssaq.Guards(b)))))
				}
			}
		}
	}
	if n == 0 {
		r.Fail("%s: no index site found", rule)
	}
}

func stripConv(v ssa.Value) ssa.Value {
	for {
		switch x := v.(type) {
		case *ssa.Convert:
			v = x.X
		case *ssa.ChangeType:
			v = x.X
		default:
			return v
		}
	}
}

func sameIndex(a, b ssa.Value) bool {
	a, b = stripConv(a), stripConv(b)
	return a == b || ssaq.AccessPath(a) == ssaq.AccessPath(b)
}

func isLenOf(v ssa.Value, fld *types.Var) bool {
	v = stripConv(v)
	c, ok := v.(*ssa.Call)
	if !ok {
		return false
	}
	bi, ok := c.Call.Value.(*ssa.Builtin)
	if !ok || bi.Name() != "len" {
		return false
	}
	f, _ := ssaq.LoadedField(c.Call.Args[0])
	return f == fld
}

func indexJustified(f *ssa.Function, b *ssa.BasicBlock, ia *ssa.IndexAddr, fld *types.Var, finder string) string {
	idx := ia.Index
	// range loop index
	if ex, ok := stripConv(idx).(*ssa.Extract); ok {
		if _, ok := ex.Tuple.(*ssa.Next); ok {
			return "index of a range loop over the table"
		}
	}
	if phi, ok := stripConv(idx).(*ssa.Phi); ok && strings.HasPrefix(phi.Comment, "rangeindex") {
		return "index of a range loop over the table"
	}
	for _, at := range ssaq.Atoms(ssaq.Guards(b)) {
		// idx < len(table)   or   !(idx >= len(table))
		if at.Op == token.LSS && sameIndex(at.X, idx) && isLenOf(at.Y, fld) {
			return "dominated by index < len(table)"
		}
		if at.Op == token.GTR && sameIndex(at.Y, idx) && isLenOf(at.X, fld) {
			return "dominated by len(table) > index"
		}
		// idx != len(table) on the else-branch of the append idiom (id == len -> append; else store)
		if at.Op == token.NEQ && sameIndex(at.X, idx) && isLenOf(at.Y, fld) && fromIDGen(idx, map[ssa.Value]bool{}) {
			return "id from the local generator on the else-branch of 'id == len(table) -> append'"
		}
		// find*(idx) != nil
		if at.Op == token.NEQ && ssaq.IsNilConst(at.Y) {
			if c, ok := at.X.(*ssa.Call); ok && finder != "" && ssaq.StaticCalleeName(c) == finder && len(c.Call.Args) == 2 && sameIndex(c.Call.Args[1], idx) {
				return "dominated by " + finder + "(id) != nil for the same id"
			}
			// a lookup helper that did not exist on the reference tree and is
			// itself verified: it returns nil or the entry at its id argument,
			// which it reads only under a length test
			if c, ok := at.X.(*ssa.Call); ok && len(c.Call.Args) == 2 && sameIndex(c.Call.Args[1], idx) && verifiedFinder(c.Call.StaticCallee(), fld) {
				return "dominated by " + ssaq.StaticCalleeName(c) + "(id) != nil for the same id (a new lookup helper that reads the table only under a length test)"
			}
		}
	}
	if fromIDGen(idx, map[ssa.Value]bool{}) {
		return "id was produced by the local id generator (idgen.next) or is the id of a question created by newQuestion"
	}
	return ""
}

// fromIDGen: the index derives from idgen.next() or from the id field of a
// question/embargo object (ids we handed out ourselves).
func fromIDGen(v ssa.Value, seen map[ssa.Value]bool) bool {
	v = stripConv(v)
	if seen[v] {
		return true
	}
	seen[v] = true
	switch x := v.(type) {
	case *ssa.Call:
		return ssaq.StaticCalleeName(x) == "rpc.(*idgen).next"
	case *ssa.Phi:
		for _, e := range x.Edges {
			if !fromIDGen(e, seen) {
				return false
			}
		}
		return true
	case *ssa.UnOp:
		if x.Op == token.MUL {
			if fa, ok := x.X.(*ssa.FieldAddr); ok {
				fld := ssaq.FieldVar(fa)
				owner := ""
				if p, ok := fa.X.Type().Underlying().(*types.Pointer); ok {
					if n, ok := p.Elem().(*types.Named); ok {
						owner = n.Obj().Name()
					}
				}
				return core.FieldName(fld) == "id" && owner == "question"
			}
		}
	}
	return false
}

// ruleAnnotateNonNil is C08-R3.
func ruleAnnotateNonNil(ctx *Ctx, rule string) {
	q := ssaq.For(ctx.Prog)
	r := ctx.Rep
	// constructor lemma: every parsedReturn literal with parseFailed: true sets err to a call result.
	lemmaOK := true
	lemmaSites := 0
	if pk := ctx.Prog.Pkg("rpc"); pk != nil {
		for _, file := range pk.Syntax {
			ast.Inspect(file, func(n ast.Node) bool {
				cl, ok := n.(*ast.CompositeLit)
				if !ok {
					return true
				}
				if t := pk.TypesInfo.TypeOf(cl); t == nil || !strings.HasSuffix(t.String(), "rpc.parsedReturn") {
					return true
				}
				failed, hasErr := false, false
				for _, e := range cl.Elts {
					kv, ok := e.(*ast.KeyValueExpr)
					if !ok {
						continue
					}
					k := kv.Key.(*ast.Ident).Name
					if k == "parseFailed" {
						if id, ok := kv.Value.(*ast.Ident); ok && id.Name == "true" {
							failed = true
						}
					}
					if k == "err" {
						if _, ok := kv.Value.(*ast.CallExpr); ok {
							hasErr = true
						}
					}
				}
				if failed {
					lemmaSites++
					if !hasErr {
						lemmaOK = false
						r.Violation(rule, "parsedReturn literal | parseFailed implies err", ctx.Prog.Rel(cl.Pos()), "a parsedReturn with parseFailed: true is built without an error: handleReturn annotates pr.err under pr.parseFailed and would panic")
					}
				}
				return true
			})
		}
	}
	if lemmaOK && lemmaSites > 0 {
		r.Ok(rule, "parsedReturn literal | parseFailed implies err", "rpc/rpc.go", fmt.Sprintf("all %d literals with parseFailed: true set err to a constructor call", lemmaSites))
	}
	n := 0
	for _, f := range q.FuncsIn("", "rpc", "server") {
		k := 0
		for _, b := range f.Blocks {
			for _, in := range b.Instrs {
				name := ssaq.StaticCalleeName(in)
				var arg ssa.Value
				switch name {
				case "rpc.annotate", "capnp.annotate":
					arg = in.(ssa.CallInstruction).Common().Args[0]
				case "internal/errors.Annotate":
					arg = in.(ssa.CallInstruction).Common().Args[2]
				default:
					continue
				}
				if fn := ssaq.FuncName(f); fn == "rpc.(annotater).errorf" || fn == "capnp.(annotater).errorf" {
					continue // the wrapper itself: its a.err is the argument of annotate, judged at the call sites
				}
				n++
				k++
				key := fmt.Sprintf("%s | %s(%s) #%d", ssaq.FuncName(f), name, ssaq.AccessPath(arg), k)
				pos := q.Pos(ssaq.InstrPos(in))
				nn, isNil := nonNilGuarded(b, arg)
				switch {
				case isNil && !nn:
					r.Violation(rule, key, pos, "the error passed to annotate is known to be nil on this path (the dominating test established == nil); errors.Annotate panics on a nil error")
				case nn:
					r.Ok(rule, key, pos, "dominated by a test that the same error value is non-nil")
				case ssaq.IsNilConst(arg):
					r.Violation(rule, key, pos, "annotate(nil): errors.Annotate panics")
				case nonNilByConstruction(arg):
					r.Ok(rule, key, pos, "the argument is the result of an error constructor")
				case parseFailedLemma(b, arg) && lemmaOK:
					r.Ok(rule, key, pos, "guarded by pr.parseFailed, and every parsedReturn with parseFailed: true carries an error (constructor lemma)")
				default:
					r.Undecided(rule, key, pos, "cannot prove the error passed to annotate non-nil: no dominating test of this value ("+ssaq.AtomsString(ssaq.Atoms(ssaq.Guards(b)))+")")
				}
			}
		}
	}
	if n == 0 {
		r.Fail("%s: no annotate call found", rule)
	}
}

func nonNilByConstruction(v ssa.Value) bool {
	if c, ok := v.(*ssa.Call); ok {
		switch ssaq.StaticCalleeName(c) {
		case "rpc.errorf", "rpc.fail", "rpc.disconnected", "rpc.unimplementedf", "capnp.errorf", "capnp.newError", "internal/errors.New":
			return true
		}
	}
	return false
}

func parseFailedLemma(b *ssa.BasicBlock, arg ssa.Value) bool {
	fld, base := ssaq.LoadedField(arg)
	if fld == nil || core.FieldName(fld) != "err" {
		return false
	}
	for _, at := range ssaq.Atoms(ssaq.Guards(b)) {
		if at.Op == token.ILLEGAL && at.True {
			if f2, b2 := ssaq.LoadedField(at.Val); f2 != nil && core.FieldName(f2) == "parseFailed" && ssaq.AccessPath(b2) == ssaq.AccessPath(base) {
				return true
			}
		}
	}
	return false
}

// Functions whose contract excludes objects with unset func fields.
var nilableFuncExempt = map[string]string{
	"rpc.(*answer).sendReturn | answer.sendMsg":       "contract: called only on answers created with a return message (errorAnswer placeholders have returnSent set and never reach sendReturn)",
	"rpc.(*answer).sendReturn | answer.releaseMsg":    "same contract as sendMsg",
	"rpc.(*answer).sendException | answer.sendMsg":    "contract: called only on answers created with a return message",
	"rpc.(*answer).sendException | answer.releaseMsg": "same contract as sendMsg",
}

// ruleNilableFuncFields is C08-R4.
func ruleNilableFuncFields(ctx *Ctx, rule string) {
	q := ssaq.For(ctx.Prog)
	r := ctx.Rep
	funcs := q.FuncsIn("rpc")
	// beliefs: fields compared with nil or assigned nil somewhere, or left unset by a constructor literal
	belief := map[*types.Var]string{}
	for _, f := range funcs {
		for _, b := range f.Blocks {
			for _, in := range b.Instrs {
				switch x := in.(type) {
				case *ssa.BinOp:
					if x.Op == token.EQL || x.Op == token.NEQ {
						for _, pair := range [][2]ssa.Value{{x.X, x.Y}, {x.Y, x.X}} {
							if fld, _ := ssaq.LoadedField(pair[0]); fld != nil && ssaq.IsNilConst(pair[1]) {
								if _, ok := fld.Type().Underlying().(*types.Signature); ok {
									belief[fld] = "tested against nil in " + ssaq.FuncName(f)
								}
							}
						}
					}
				case *ssa.Store:
					if fa, ok := x.Addr.(*ssa.FieldAddr); ok && ssaq.IsNilConst(x.Val) {
						fld := ssaq.FieldVar(fa)
						if _, ok := fld.Type().Underlying().(*types.Signature); ok {
							belief[fld] = "set to nil in " + ssaq.FuncName(f)
						}
					}
				}
			}
		}
	}
	n := 0
	for _, f := range funcs {
		k := 0
		for _, b := range f.Blocks {
			for _, in := range b.Instrs {
				ci, ok := in.(ssa.CallInstruction)
				if !ok || ci.Common().IsInvoke() {
					continue
				}
				fld, base := ssaq.LoadedField(ci.Common().Value)
				if fld == nil || belief[fld] == "" {
					continue
				}
				n++
				k++
				owner := fieldOwner(fld)
				key := fmt.Sprintf("%s | call through %s.%s #%d", ssaq.FuncName(f), owner, fld.Name(), k)
				pos := q.Pos(ssaq.InstrPos(in))
				if why, ok := nilableFuncExempt[fmt.Sprintf("%s | %s.%s", ssaq.FuncName(f), owner, fld.Name())]; ok {
					r.Exempt(rule, key, pos, why)
					continue
				}
				if why, ok := exemptViaOwners(q, f, nilableFuncExempt, fmt.Sprintf("%s.%s", owner, fld.Name())); ok {
					r.Exempt(rule, key, pos, why+" (moved into a new helper reached only from there)")
					continue
				}
				guarded := false
				bp := ssaq.AccessPath(base)
				for _, c := range ssaq.FieldCmps(ssaq.Atoms(ssaq.Guards(b))) {
					if c.Field == fld && c.Base == bp && c.IsNil && c.Op == token.NEQ {
						guarded = true
					}
				}
				if guarded {
					r.Ok(rule, key, pos, "dominated by a non-nil test of the field")
				} else {
					r.Violation(rule, key, pos, fmt.Sprintf("%s.%s can be nil (%s) but is called here without a nil test: nil func call panics the process", owner, fld.Name(), belief[fld]))
				}
			}
		}
	}
	if n == 0 {
		r.Fail("%s: no call through a nil-able func field found", rule)
	}
}

func fieldOwner(fld *types.Var) string {
	if fld.Pkg() == nil {
		return "?"
	}
	sc := fld.Pkg().Scope()
	for _, n := range sc.Names() {
		if tn, ok := sc.Lookup(n).(*types.TypeName); ok {
			if st, ok := tn.Type().Underlying().(*types.Struct); ok {
				for i := 0; i < st.NumFields(); i++ {
					if st.Field(i) == fld {
						return tn.Name()
					}
				}
			}
		}
	}
	return "?"
}

// ruleHandlerErrors is C08-R6.
func ruleHandlerErrors(ctx *Ctx, rule string) {
	q := ssaq.For(ctx.Prog)
	r := ctx.Rep
	f := q.Func("rpc.(*Conn).receive")
	if f == nil {
		r.Fail("%s: anchor rpc.(*Conn).receive not found", rule)
		return
	}
	n := 0
	for _, b := range frameBlocks(f) {
		for _, in := range b.Instrs {
			c, ok := in.(*ssa.Call)
			if !ok {
				continue
			}
			name := ssaq.StaticCalleeName(c)
			if !strings.HasPrefix(name, "rpc.(*Conn).handle") {
				continue
			}
			n++
			key := "receive | error of " + strings.TrimPrefix(name, "rpc.(*Conn).") + " is returned"
			if sig := c.Call.StaticCallee().Signature; sig.Results().Len() == 0 {
				// a handler that has no error result cannot fail (it reports what goes wrong itself)
				r.Ok(rule, key, q.Pos(ssaq.InstrPos(c)), "the handler has no error result")
				continue
			}
			returned, tested := false, false
			for _, ref := range *c.Referrers() {
				switch x := ref.(type) {
				case *ssa.Return:
					returned = true
				case *ssa.BinOp:
					if (x.Op == token.NEQ || x.Op == token.EQL) && (ssaq.IsNilConst(x.X) || ssaq.IsNilConst(x.Y)) {
						tested = true
					}
				}
			}
			pos := q.Pos(ssaq.InstrPos(c))
			if returned && tested {
				r.Ok(rule, key, pos, "tested against nil and returned (receive's error aborts the connection)")
			} else {
				r.Violation(rule, key, pos, fmt.Sprintf("the handler's error is dropped (tested: %v, returned: %v): a protocol violation would not abort the connection", tested, returned))
			}
		}
	}
	if n < 7 {
		r.Violation(rule, "receive | dispatches all handlers", q.Pos(f.Pos()), fmt.Sprintf("expected 7 handler calls in receive, found %d", n))
	}
}

// panic tables: function -> allowed panic messages (constant strings) or "*".
var rpcPanicTable = map[string][]string{
	"rpc.(*Conn).handleBootstrap":     {"<non-constant>"}, // panic(err) after sendReturn: 'Answer cannot possibly encounter a Finish'
	"rpc.(*Conn).handleCall":          {"unreachable"},
	"rpc.(*Conn).fillPayloadCapTable": {"states slice must be same size as cap table"},
	"rpc.(*idgen).next":               {"overflow ID"},
	"rpc.(*answer).setBootstrap":      {"setBootstrap called after creating results"},
}

// rulePanicCensus: explicit panics in functions (filtered by inScope)
// reachable from the roots are exactly the tabulated ones.
func rulePanicCensus(ctx *Ctx, rule string, roots []string, table map[string][]string, inScope func(string) bool) {
	q := ssaq.For(ctx.Prog)
	r := ctx.Rep
	reach := map[*ssa.Function]bool{}
	var work []*ssa.Function
	for _, rt := range roots {
		f := q.Func(rt)
		if f == nil {
			r.Fail("%s: root %s not found", rule, rt)
			continue
		}
		reach[f] = true
		work = append(work, f)
	}
	for len(work) > 0 {
		f := work[0]
		work = work[1:]
		add := func(c *ssa.Function) {
			if c != nil && !reach[c] && c.Blocks != nil {
				reach[c] = true
				work = append(work, c)
			}
		}
		for _, an := range f.AnonFuncs {
			add(an)
		}
		for _, b := range f.Blocks {
			for _, in := range b.Instrs {
				if ci, ok := in.(ssa.CallInstruction); ok {
					if ci.Common().IsInvoke() {
						// interface dispatch: only implementations inside the module
						for _, c := range q.Callees(ci) {
							root := c
							for root.Parent() != nil {
								root = root.Parent()
							}
							if root.Pkg != nil && strings.HasPrefix(root.Pkg.Pkg.Path(), "capnproto.org/go/capnp/v3") {
								add(c)
							}
						}
					} else {
						add(ci.Common().StaticCallee())
					}
				}
			}
		}
	}
	var fs []*ssa.Function
	for f := range reach {
		if inScope(ssaq.FuncName(f)) {
			fs = append(fs, f)
		}
	}
	sort.Slice(fs, func(i, j int) bool { return ssaq.FuncName(fs[i]) < ssaq.FuncName(fs[j]) })
	r.Count("functions_reachable", len(reach))
	for _, f := range fs {
		k := 0
		for _, b := range f.Blocks {
			for _, in := range b.Instrs {
				p, ok := in.(*ssa.Panic)
				if !ok {
					continue
				}
				if !p.Pos().IsValid() {
					continue // synthesised by the SSA builder (blocking select without a matching case)
				}
				k++
				msg := "<non-constant>"
				if mi, ok := p.X.(*ssa.MakeInterface); ok {
					if c, ok := mi.X.(*ssa.Const); ok && c.Value != nil && c.Value.Kind() == constant.String {
						msg = constant.StringVal(c.Value)
					}
				}
				name := ssaq.FuncName(f)
				key := fmt.Sprintf("%s | panic(%q)", name, msg)
				pos := q.Pos(ssaq.InstrPos(p))
				allowed := false
				for _, m := range table[name] {
					if m == msg || m == "*" {
						allowed = true
					}
				}
				if !allowed && ssaq.IsNew(f) {
					// a panic moved into a helper that did not exist on the
					// reference tree stays the enumerated panic of the
					// reference-tree functions that reach the helper; a message
					// built from a parameter is matched as a pattern
					pat := msg
					if mi, ok := p.X.(*ssa.MakeInterface); ok && msg == "<non-constant>" {
						pat = concatPattern(mi.X)
					}
					// owners: the reference-tree functions, themselves reachable
					// from the roots, that reach f through new helpers
					ownerSet, seenF := map[string]bool{}, map[*ssa.Function]bool{f: true}
					stack := []*ssa.Function{f}
					for len(stack) > 0 {
						g := stack[len(stack)-1]
						stack = stack[:len(stack)-1]
						for _, e := range q.Callers(g) {
							c := e.Caller.Func
							if !reach[c] {
								continue
							}
							for c.Parent() != nil {
								c = c.Parent()
							}
							if ssaq.IsNew(c) {
								if !seenF[c] {
									seenF[c] = true
									stack = append(stack, c)
								}
								continue
							}
							ownerSet[ssaq.FuncName(c)] = true
						}
					}
					var owners []string
					for on := range ownerSet {
						owners = append(owners, on)
					}
					sort.Strings(owners)
					if len(owners) > 0 {
						all := true
						for _, on := range owners {
							one := false
							for _, m := range table[on] {
								if m == "*" || wildcardMatch(pat, m) {
									one = true
								}
							}
							all = all && one
						}
						allowed = all
					}
				}
				if !allowed && !ssaq.IsNew(f) && len(table[name]) > 0 {
					// the enumerated panics of f with another wording (a message
					// that now names the offending value): f still has exactly as
					// many explicit panics as the census lists for it, and every
					// other one has its listed message, so this is the remaining one
					np, matched := 0, 0
					for _, b2 := range f.Blocks {
						for _, in2 := range b2.Instrs {
							p2, ok := in2.(*ssa.Panic)
							if !ok || !p2.Pos().IsValid() {
								continue
							}
							np++
							if mi, ok := p2.X.(*ssa.MakeInterface); ok {
								if c, ok := mi.X.(*ssa.Const); ok && c.Value != nil && c.Value.Kind() == constant.String {
									for _, m := range table[name] {
										if m == constant.StringVal(c.Value) {
											matched++
											break
										}
									}
								}
							}
						}
					}
					if np == len(table[name]) && matched == np-1 {
						allowed = true
					}
				}
				if allowed {
					r.Ok(rule, key, pos, "enumerated panic (programmer error or invariant with its own guarding rule)")
				} else {
					r.Violation(rule, key, pos, "an explicit panic that is not in the census is reachable from "+strings.Join(roots, ", ")+": input from the peer/segment bytes may reach it")
				}
			}
		}
	}
}

// concatPattern renders a string built by concatenation as a pattern: constant
// parts literally, everything else as "*".
func concatPattern(v ssa.Value) string {
	switch x := v.(type) {
	case *ssa.Const:
		if x.Value != nil && x.Value.Kind() == constant.String {
			return constant.StringVal(x.Value)
		}
	case *ssa.BinOp:
		if x.Op == token.ADD {
			return concatPattern(x.X) + concatPattern(x.Y)
		}
	}
	return "*"
}

// wildcardMatch: s matches pat, in which each "*" stands for any text.
func wildcardMatch(pat, s string) bool {
	if !strings.Contains(pat, "*") {
		return pat == s
	}
	parts := strings.Split(pat, "*")
	if !strings.HasPrefix(s, parts[0]) {
		return false
	}
	s = s[len(parts[0]):]
	for i := 1; i < len(parts); i++ {
		if i == len(parts)-1 {
			return strings.HasSuffix(s, parts[i])
		}
		j := strings.Index(s, parts[i])
		if j < 0 {
			return false
		}
		s = s[j+len(parts[i]):]
	}
	return true
}

// verifiedFinder: g is a helper that did not exist on the reference tree of the
// form "find(id)": every result is nil or the entry of the table fld at g's id
// parameter, and every index into the table inside g is justified by a length
// test.
func verifiedFinder(g *ssa.Function, fld *types.Var) bool {
	if g == nil || !ssaq.IsNew(g) || len(g.Params) != 2 || len(g.Blocks) == 0 {
		return false
	}
	id := g.Params[1]
	for _, b := range g.Blocks {
		for _, in := range b.Instrs {
			switch x := in.(type) {
			case *ssa.IndexAddr:
				if f, _ := ssaq.LoadedField(x.X); f == fld {
					if stripConv(x.Index) != ssa.Value(id) || indexJustified(g, b, x, fld, "") == "" {
						return false
					}
				}
			case *ssa.Return:
				if len(x.Results) != 1 {
					return false
				}
				if ssaq.IsNilConst(x.Results[0]) {
					continue
				}
				ld, ok := x.Results[0].(*ssa.UnOp)
				if !ok || ld.Op != token.MUL {
					return false
				}
				ia, ok := ld.X.(*ssa.IndexAddr)
				if !ok {
					return false
				}
				if f, _ := ssaq.LoadedField(ia.X); f != fld || stripConv(ia.Index) != ssa.Value(id) {
					return false
				}
			}
		}
	}
	return true
}
