package rules

import (
	"strings"

	"verifcheck/internal/ssaq"
)

// ruleCopyNullPointersToo (C16-R3n): copyStruct overwrites every common pointer
// slot of the destination with (a copy of) the source's pointer, null pointers
// included: the destination may already hold something there (CopyFrom and
// SetStruct onto a populated struct). The writePtr of the pointer loop therefore
// runs whenever the source pointer was read without error; it is not skipped for
// a null (IsValid false) source pointer.
func ruleCopyNullPointersToo(ctx *Ctx, rule string) {
	q := ssaq.For(ctx.Prog)
	r := ctx.Rep
	f := q.Func("capnp.copyStruct")
	if f == nil {
		r.Fail("%s: capnp.copyStruct not found", rule)
		return
	}
	key := "copyStruct | a null source pointer overwrites the destination slot as well"
	n := 0
	all := ssaq.Anchors(f)
	for _, a := range all {
		if a.Callee != "capnp.(*Segment).writePtr" {
			continue
		}
		n++
		pos := q.Pos(ssaq.InstrPos(a.Instr))
		bad := ""
		for _, at := range a.Atoms {
			if strings.Contains(at, "IsValid(readPtr(") || strings.Contains(at, "IsValid(phi") {
				bad = at
			}
			// any other test of the source's pointer word (HasPtr, a raw read
			// compared with 0, Ptr(j).IsValid()); the error test of readPtr is
			// the one condition on the pointer that the copy may depend on
			if (strings.Contains(at, "HasPtr(") || strings.Contains(at, "readRawPointer(") || strings.Contains(at, "IsValid(")) && !strings.Contains(at, ")#1") {
				bad = at
			}
		}
		// a null source pointer may be handled apart, provided that branch
		// clears the same destination slot: writeRawPointer(dst.seg, <the
		// address writePtr gets>, 0) under the negation of the test
		cleared := false
		if bad != "" && len(a.Args) > 1 {
			neg := flipAtom(bad)
			for _, w := range all {
				if w.Callee != "capnp.(*Segment).writeRawPointer" || len(w.Args) != 3 || w.Args[0] != a.Args[0] || w.Args[1] != a.Args[1] || w.Args[2] != "0:rawPointer" {
					continue
				}
				for _, at := range w.Atoms {
					if at == neg {
						cleared = true
					}
				}
			}
		}
		if bad == "" {
			r.Ok(rule, key, pos, "the pointer copy does not depend on the source pointer being non-null")
		} else if cleared {
			r.Ok(rule, key, pos, "a null source pointer is handled apart ("+bad+" guards the copy) and that branch writes a null pointer into the same destination slot")
		} else {
			r.Violation(rule, key, pos, "the copy of pointer j is skipped unless "+bad+": a null pointer in the source leaves the destination's old pointer in place, so after CopyFrom / SetStruct onto a populated struct the copy is not equal to the source")
		}
	}
	if n == 0 {
		r.Violation(rule, key, q.Pos(f.Pos()), "copyStruct no longer copies pointers with writePtr")
	}
}

// ruleCopySizeWordAligned (C16-R3w): a struct pointer counts its data section in
// whole words (ObjectSize.dataWordCount panics on anything else), while the
// struct view of an element of a primitive list (List.Struct on a list of 1-, 2-
// or 4-byte elements: the list-upgrade rule) has a data section shorter than a
// word. Such a view is always a list member and is therefore always copied by
// writePtr; the copy's size must have its data section rounded up to a word
// (padToWord) before it is allocated and encoded.
func ruleCopySizeWordAligned(ctx *Ctx, rule string) {
	q := ssaq.For(ctx.Prog)
	r := ctx.Rep
	f := q.Func("capnp.(*Segment).writePtr")
	if f == nil {
		r.Fail("%s: capnp.(*Segment).writePtr not found", rule)
		return
	}
	key := "writePtr | the struct copy's data section is a whole number of words"
	ok := false
	pos := q.Pos(f.Pos())
	for _, a := range ssaq.Anchors(f) {
		if a.Callee == "capnp.(Size).padToWord" && len(a.Args) == 1 && strings.HasSuffix(a.Args[0], ".DataSize") {
			for _, at := range a.Atoms {
				if strings.Contains(at, "ptrType(p2.flags)") {
					ok = true
					pos = q.Pos(ssaq.InstrPos(a.Instr))
				}
			}
		}
	}
	if ok {
		r.Ok(rule, key, pos, "the size of the copy takes padToWord of the source's DataSize")
	} else {
		r.Violation(rule, key, pos, "the struct copy is allocated and encoded with the source's own data size: for the struct view of an element of a List(UInt8/16/32) (always copied, being a list member) that size is not a multiple of a word and the struct-pointer encoder panics (\"data size not aligned by word\")")
	}
}

// flipAtom negates a rendered atom of the forms "a != b", "a == b", "!x", "x".
func flipAtom(at string) string {
	switch {
	case strings.Contains(at, " != "):
		return strings.Replace(at, " != ", " == ", 1)
	case strings.Contains(at, " == "):
		return strings.Replace(at, " == ", " != ", 1)
	case strings.HasPrefix(at, "!"):
		return at[1:]
	}
	return "!" + at
}
