package rules

import (
	"fmt"
	"go/constant"
	"go/token"

	"golang.org/x/tools/go/ssa"

	"verifcheck/internal/ssaq"
)

// ruleQueuedBasisMatchesDrain (C12-R9): "calls pipelined on a not-yet-returned
// answer are delivered in order once it returns" includes the calls pipelined
// on a call that is itself still queued: they must reach the capability in
// that queued call's own result. The answer queue keeps one base per queued
// entry; fulfill stores the result of q[i] at bases[i+d] (d = 1 on the
// reference tree, bases[0] being the answer itself), and the pipeline caller
// that PipelineRecv returns for the entry it has just appended names its base
// by index. The two sites must agree:
//
//	(a) the store into base.recv whose index is "loop index + d" in package
//	    server gives d;
//	(b) every store into queueCaller.basis is the constant 0 (the answer
//	    itself), a copy of another basis, or len(q)+k with
//	    k == d-1 when the length is taken after the append (the entry is
//	    q[len-1]) and k == d when it is taken before.
//
// Decides the agreement of the two indices, not the order of delivery.
func ruleQueuedBasisMatchesDrain(ctx *Ctx, rule string) {
	q := ssaq.For(ctx.Prog)
	r := ctx.Rep
	basisF := mustField(ctx, rule, "server", "queueCaller", "basis")
	recvF := mustField(ctx, rule, "server", "base", "recv")
	qF := mustField(ctx, rule, "server", "answerQueue", "q")
	if basisF == nil || recvF == nil || qF == nil {
		return
	}
	type site struct {
		fn *ssa.Function
		in ssa.Instruction
		st *ssa.Store
	}
	var drain, basis []site
	for _, fn := range q.FuncsIn("server") {
		for _, fr := range ssaq.Frames(fn) {
			for _, b := range fr.Fn.Blocks {
				for _, in := range b.Instrs {
					st, ok := in.(*ssa.Store)
					if !ok {
						continue
					}
					fa, ok := st.Addr.(*ssa.FieldAddr)
					if !ok {
						continue
					}
					switch ssaq.FieldVar(fa) {
					case recvF:
						drain = append(drain, site{fr.Fn, in, st})
					case basisF:
						basis = append(basis, site{fr.Fn, in, st})
					}
				}
			}
		}
	}
	// (a)
	d, haveD := int64(0), false
	seen := map[ssa.Instruction]bool{}
	for _, s := range drain {
		if seen[s.in] {
			continue
		}
		seen[s.in] = true
		ia, ok := s.st.Addr.(*ssa.FieldAddr).X.(*ssa.IndexAddr)
		if !ok {
			continue
		}
		bo, ok := ia.Index.(*ssa.BinOp)
		if !ok || (bo.Op != token.ADD && bo.Op != token.SUB) {
			continue // bases[0] (the answer itself) and uniform fills (reject)
		}
		k, ok := intConst(bo.Y)
		if !ok {
			continue
		}
		if bo.Op == token.SUB {
			k = -k
		}
		key := fmt.Sprintf("%s | result of queued entry i is stored at bases[i+d]", ssaq.FuncName(s.fn))
		if haveD && k != d {
			r.Violation(rule, key, q.Pos(ssaq.InstrPos(s.in)), fmt.Sprintf("two drain stores disagree on the base of a queued entry's result (i%+d and i%+d)", d, k))
			continue
		}
		d, haveD = k, true
		r.Ok(rule, key, q.Pos(ssaq.InstrPos(s.in)), fmt.Sprintf("d = %d", k))
	}
	if !haveD {
		r.Fail("%s: expected a store into base.recv at index i+d (the result of queued entry i) in package server", rule)
		return
	}
	// (b)
	n, lens := 0, 0
	seen = map[ssa.Instruction]bool{}
	for _, s := range basis {
		if seen[s.in] {
			continue
		}
		seen[s.in] = true
		n++
		key := fmt.Sprintf("%s | queueCaller.basis store #%d names the base that the drain fills", ssaq.FuncName(s.fn), n)
		pos := q.Pos(ssaq.InstrPos(s.in))
		if k, ok := intConst(s.st.Val); ok {
			if k == 0 {
				r.Ok(rule, key, pos, "basis 0: the answer itself")
			} else {
				r.Violation(rule, key, pos, fmt.Sprintf("constant basis %d: only bases[0] (the answer itself) exists independently of the queue", k))
			}
			continue
		}
		if u, ok := s.st.Val.(*ssa.UnOp); ok && u.Op == token.MUL {
			if fa, ok := u.X.(*ssa.FieldAddr); ok && fa.X.Type().Underlying() != nil && fa.Field >= 0 && fieldNamed(fa) == "basis" {
				r.Ok(rule, key, pos, "copy of an existing basis")
				continue
			}
		}
		call, k, ok := lenPlus(s.st.Val)
		if !ok {
			r.Violation(rule, key, pos, "the basis of a pipeline caller is neither 0, a copy of a basis, nor len(queue)+k: cannot be related to the base that fulfill fills for the queued entry")
			continue
		}
		post, known := lenAfterAppend(call, qF)
		if !known {
			r.Violation(rule, key, pos, "the basis is computed from a length that cannot be related to the append of the queued entry")
			continue
		}
		lens++
		want := d
		when := "before"
		if post {
			want, when = d-1, "after"
		}
		if k == want {
			r.Ok(rule, key, pos, fmt.Sprintf("len(q)%+d taken %s the append = entry index + %d", k, when, d))
		} else {
			r.Violation(rule, key, pos, fmt.Sprintf("the pipeline caller returned for the entry just queued names base len(q)%+d (length taken %s the append), but fulfill stores that entry's result at bases[i%+d] = len(q)%+d: a call pipelined on a still-queued call is delivered to a different call's result (the first answer when the queue was empty)", k, when, d, want))
		}
	}
	if lens == 0 {
		r.Fail("%s: expected the store of the appended entry's base index into queueCaller.basis (PipelineRecv)", rule)
	}
}

func fieldNamed(fa *ssa.FieldAddr) string {
	if v := ssaq.FieldVar(fa); v != nil {
		return v.Name()
	}
	return ""
}

func intConst(v ssa.Value) (int64, bool) {
	k, ok := v.(*ssa.Const)
	if !ok || k.Value == nil || k.Value.Kind() != constant.Int {
		return 0, false
	}
	return constant.Int64Val(k.Value)
}

// lenPlus matches len(x), len(x)+c, len(x)-c, c+len(x).
func lenPlus(v ssa.Value) (*ssa.Call, int64, bool) {
	switch v := v.(type) {
	case *ssa.Call:
		if b, ok := v.Call.Value.(*ssa.Builtin); ok && b.Name() == "len" && len(v.Call.Args) == 1 {
			return v, 0, true
		}
	case *ssa.BinOp:
		if v.Op != token.ADD && v.Op != token.SUB {
			return nil, 0, false
		}
		if c, ok := intConst(v.Y); ok {
			if call, k, ok := lenPlus(v.X); ok {
				if v.Op == token.SUB {
					c = -c
				}
				return call, k + c, true
			}
		}
		if c, ok := intConst(v.X); ok && v.Op == token.ADD {
			if call, k, ok := lenPlus(v.Y); ok {
				return call, k + c, true
			}
		}
	}
	return nil, 0, false
}

// lenAfterAppend reports whether the length is that of the queue after the
// entry was appended (true) or before (false); known is false when the
// argument is not the queue field or the append cannot be ordered against it.
func lenAfterAppend(call *ssa.Call, qF interface{}) (post, known bool) {
	isAppend := func(v ssa.Value) bool {
		c, ok := v.(*ssa.Call)
		if !ok {
			return false
		}
		b, ok := c.Call.Value.(*ssa.Builtin)
		return ok && b.Name() == "append"
	}
	arg := call.Call.Args[0]
	if isAppend(arg) {
		return true, true
	}
	ld, ok := arg.(*ssa.UnOp)
	if !ok || ld.Op != token.MUL {
		return false, false
	}
	fa, ok := ld.X.(*ssa.FieldAddr)
	if !ok || ssaq.FieldVar(fa) != qF {
		return false, false
	}
	b := ld.Block()
	loadAt, storeAt := -1, -1
	for i, in := range b.Instrs {
		if in == ssa.Instruction(ld) {
			loadAt = i
		}
		if st, ok := in.(*ssa.Store); ok && isAppend(st.Val) {
			if sfa, ok := st.Addr.(*ssa.FieldAddr); ok && ssaq.FieldVar(sfa) == qF {
				storeAt = i
			}
		}
	}
	if loadAt < 0 || storeAt < 0 {
		return false, false
	}
	return storeAt < loadAt, true
}
