package rules

import (
	"fmt"
	"go/ast"
	"go/types"
)

// ruleAppendNoAlias: every append in the package either assigns its result back
// to its first argument (x = append(x, ...)) or starts from a fresh slice (nil,
// a literal, make, a full slice expression s[a:b:c]). `y := append(x, e)` with a
// shared x makes y and later appends to x share one backing array: sibling
// values overwrite each other once cap(x) > len(x).
func ruleAppendNoAlias(ctx *Ctx, rule, pkgRel string) {
	r := ctx.Rep
	pk := ctx.Prog.Pkg(pkgRel)
	if pk == nil {
		r.Fail("%s: package %s not loaded", rule, pkgRel)
		return
	}
	info := pk.TypesInfo
	fresh := func(e ast.Expr) bool {
		switch x := ast.Unparen(e).(type) {
		case *ast.Ident:
			return x.Name == "nil"
		case *ast.CompositeLit:
			return true
		case *ast.CallExpr:
			if id, ok := x.Fun.(*ast.Ident); ok {
				if _, isB := info.Uses[id].(*types.Builtin); isB && id.Name == "make" {
					return true
				}
			}
			// conversion of nil: []T(nil)
			if len(x.Args) == 1 {
				if id, ok := ast.Unparen(x.Args[0]).(*ast.Ident); ok && id.Name == "nil" {
					return true
				}
			}
		case *ast.SliceExpr:
			return x.Slice3
		}
		return false
	}
	isAppend := func(e ast.Expr) (*ast.CallExpr, bool) {
		c, ok := ast.Unparen(e).(*ast.CallExpr)
		if !ok || len(c.Args) == 0 {
			return nil, false
		}
		id, ok := c.Fun.(*ast.Ident)
		if !ok || id.Name != "append" {
			return nil, false
		}
		_, isB := info.Uses[id].(*types.Builtin)
		return c, isB
	}
	n := 0
	for _, file := range pk.Syntax {
		for _, d := range file.Decls {
			fd, ok := d.(*ast.FuncDecl)
			if !ok || fd.Body == nil {
				continue
			}
			k := 0
			okCalls := map[*ast.CallExpr]bool{}
			ast.Inspect(fd.Body, func(nd ast.Node) bool {
				as, ok := nd.(*ast.AssignStmt)
				if !ok || len(as.Lhs) != len(as.Rhs) {
					return true
				}
				for i, rhs := range as.Rhs {
					if c, ok := isAppend(rhs); ok && types.ExprString(as.Lhs[i]) == types.ExprString(c.Args[0]) {
						okCalls[c] = true
					}
				}
				return true
			})
			ast.Inspect(fd.Body, func(nd ast.Node) bool {
				e, ok := nd.(ast.Expr)
				if !ok {
					return true
				}
				c, ok := isAppend(e)
				if !ok || ast.Unparen(e) != ast.Expr(c) {
					return true
				}
				k++
				n++
				fn := fd.Name.Name
				if fd.Recv != nil && len(fd.Recv.List) > 0 {
					fn = types.ExprString(fd.Recv.List[0].Type) + "." + fn
				}
				key := fmt.Sprintf("%s.%s | append #%d does not alias its argument", pkgRel, fn, k)
				pos := ctx.Prog.Rel(c.Pos())
				switch {
				case okCalls[c]:
					r.Ok(rule, key, pos, "x = append(x, ...)")
				case fresh(c.Args[0]):
					r.Ok(rule, key, pos, "appends to a fresh slice")
				default:
					r.Violation(rule, key, pos, fmt.Sprintf("the result of append(%s, ...) is not assigned back to %s and %s is not a fresh slice: two results built from the same prefix share a backing array when it has spare capacity, so one path overwrites the other (field paths of deeply embedded structs resolve to the wrong field)", types.ExprString(c.Args[0]), types.ExprString(c.Args[0]), types.ExprString(c.Args[0])))
				}
				return true
			})
		}
	}
	if n == 0 {
		r.Fail("%s: no append found in %s", rule, pkgRel)
	}
}
