package rules

import (
	"go/ast"
	"go/token"
	"go/types"
	"sync"

	"golang.org/x/tools/go/packages"
	"golang.org/x/tools/go/ssa"
	"golang.org/x/tools/go/types/typeutil"

	"verifcheck/internal/core"
	"verifcheck/internal/flow"
	"verifcheck/internal/locks"
	"verifcheck/internal/ssaq"
)

// calleeName returns the rendered static callee of a call ("" if none).
func calleeName(info *types.Info, call *ast.CallExpr) string {
	if fn, ok := typeutil.Callee(info, call).(*types.Func); ok {
		return core.FuncName(fn)
	}
	return ""
}

// fieldOfSel returns the field object selected by expression x (x.f).
func fieldOfSel(info *types.Info, x ast.Expr) *types.Var {
	sel, ok := ast.Unparen(x).(*ast.SelectorExpr)
	if !ok {
		return nil
	}
	v, _ := info.Uses[sel.Sel].(*types.Var)
	if v != nil && v.IsField() {
		return v
	}
	return nil
}

// isMethodCallOnField: call is recvField.method(...) with the given static callee name.
func isMethodCallOnField(info *types.Info, n ast.Node, callee string, field *types.Var) bool {
	call, ok := n.(*ast.CallExpr)
	if !ok || calleeName(info, call) != callee {
		return false
	}
	sel, ok := ast.Unparen(call.Fun).(*ast.SelectorExpr)
	if !ok {
		return false
	}
	return field == nil || fieldOfSel(info, sel.X) == field
}

// isCallNamed: n is a call whose static callee renders as name.
func isCallNamed(info *types.Info, n ast.Node, name string) bool {
	call, ok := n.(*ast.CallExpr)
	return ok && calleeName(info, call) == name
}

// isBuiltinCall: n is a call of builtin name; argField (if non-nil) must be the selected field of arg 0.
func isBuiltinCall(info *types.Info, n ast.Node, name string, argField *types.Var) bool {
	call, ok := n.(*ast.CallExpr)
	if !ok {
		return false
	}
	id, ok := ast.Unparen(call.Fun).(*ast.Ident)
	if !ok || id.Name != name {
		return false
	}
	if _, ok := info.Uses[id].(*types.Builtin); !ok {
		return false
	}
	if argField == nil {
		return true
	}
	return len(call.Args) > 0 && fieldOrCopy(info, call.Args[0]) == argField
}

// isRecvFromField: n is <-x.f for the given field.
func isRecvFromField(info *types.Info, n ast.Node, field *types.Var) bool {
	u, ok := n.(*ast.UnaryExpr)
	return ok && u.Op == token.ARROW && fieldOrCopy(info, u.X) == field
}

// Local copies of struct fields: a local variable that is assigned from a field
// (x := s.f) or stored into it (s.f = x) and has no other field partner stands
// for that field where a channel or mutex is closed, received from or measured.
var (
	copyMu      sync.Mutex
	fieldCopies = map[*types.Info]map[types.Object]*types.Var{}
)

func registerFieldCopies(pk *packages.Package) {
	copyMu.Lock()
	defer copyMu.Unlock()
	info := pk.TypesInfo
	if _, done := fieldCopies[info]; done {
		return
	}
	m := map[types.Object]*types.Var{}
	bad := map[types.Object]bool{}
	note := func(id *ast.Ident, f *types.Var) {
		o := info.ObjectOf(id)
		if o == nil || f == nil {
			return
		}
		if v, ok := o.(*types.Var); !ok || v.IsField() || v.Parent() == pk.Types.Scope() {
			return
		}
		if prev, ok := m[o]; ok && prev != f {
			bad[o] = true
		}
		m[o] = f
	}
	for _, file := range pk.Syntax {
		ast.Inspect(file, func(n ast.Node) bool {
			as, ok := n.(*ast.AssignStmt)
			if !ok || len(as.Lhs) != len(as.Rhs) {
				return true
			}
			for i := range as.Lhs {
				l, r := ast.Unparen(as.Lhs[i]), ast.Unparen(as.Rhs[i])
				if id, ok := l.(*ast.Ident); ok {
					note(id, fieldOfSel(info, r))
				}
				if id, ok := r.(*ast.Ident); ok {
					note(id, fieldOfSel(info, l))
				}
			}
			return true
		})
	}
	for o := range bad {
		delete(m, o)
	}
	fieldCopies[info] = m
}

// fieldOrCopy: the field selected by x, or the field x is a local copy of.
func fieldOrCopy(info *types.Info, x ast.Expr) *types.Var {
	if f := fieldOfSel(info, x); f != nil {
		return f
	}
	if id, ok := ast.Unparen(x).(*ast.Ident); ok {
		copyMu.Lock()
		defer copyMu.Unlock()
		if m := fieldCopies[info]; m != nil {
			return m[info.ObjectOf(id)]
		}
	}
	return nil
}

// mustField resolves a struct field or records a fatal anchor failure.
func mustField(ctx *Ctx, rule, pkgRel, typ, field string) *types.Var {
	pk := ctx.Prog.Pkg(pkgRel)
	if pk == nil {
		ctx.Rep.Fail("%s: package %q not found", rule, pkgRel)
		return nil
	}
	f := locks.FieldOf(pk, typ, field)
	if f == nil {
		ctx.Rep.Fail("%s: anchor field %s.%s.%s not found", rule, pkgRel, typ, field)
	}
	return f
}

// mustUnit resolves a unit by name or records a fatal anchor failure.
func mustUnit(ctx *Ctx, a *locks.Analysis, rule, name string) *flow.Unit {
	for _, u := range a.Eng.Units {
		if u.Name == name {
			return u
		}
	}
	ctx.Rep.Fail("%s: anchor function %s not found", rule, name)
	return nil
}

// constObj resolves a package-level constant.
func constObj(pk *packages.Package, name string) types.Object {
	if o := pk.Types.Scope().Lookup(name); o != nil {
		return o
	}
	if tn := core.LookupType(pk.Types.Scope(), name); tn != nil {
		return tn // a type that was renamed since the reference tree
	}
	return nil
}

// usesObj reports whether expression tree x mentions object o.
func usesObj(info *types.Info, x ast.Node, o types.Object) bool {
	found := false
	ast.Inspect(x, func(n ast.Node) bool {
		if id, ok := n.(*ast.Ident); ok && info.Uses[id] == o {
			found = true
		}
		return !found
	})
	return found
}

// litChildren returns the function-literal units directly nested in u.
func litChildren(a *locks.Analysis, u *flow.Unit) []*flow.Unit {
	var out []*flow.Unit
	for _, c := range a.Eng.Units {
		if c.Parent == u {
			out = append(out, c)
		}
	}
	return out
}

// newHelperParams: the parameter objects of the functions that did not exist
// on the reference tree (helpers extracted since).
func newHelperParams(a *locks.Analysis) map[types.Object]bool {
	out := map[types.Object]bool{}
	for _, u := range a.Eng.Units {
		if u.Obj == nil || !core.IsNewFunc(u.Obj) || u.Type == nil || u.Type.Params == nil {
			continue
		}
		for _, f := range u.Type.Params.List {
			for _, nm := range f.Names {
				if o := u.Pkg.TypesInfo.ObjectOf(nm); o != nil {
					out[o] = true
				}
			}
		}
	}
	return out
}

// onlyReachedFrom: the function named name did not exist on the reference tree
// and every call chain that reaches it starts in the reference-tree function
// owner (a piece of owner that was moved into a helper keeps owner's
// exemptions).
func onlyReachedFrom(ctx *Ctx, name, owner string) bool {
	q := ssaq.For(ctx.Prog)
	f := q.Func(name)
	if f == nil || !ssaq.IsNew(f) {
		return false
	}
	owners, ok := q.Attributed(f)
	return ok && len(owners) == 1 && owners[0] == owner
}

// unitHolding returns u when pred matches a node of u, otherwise the helper
// that did not exist on the reference tree, called (transitively, through
// other such helpers) from u, in which pred matches: code that was moved out
// of u into a helper is looked for where it went. nil when there is none.
func unitHolding(a *locks.Analysis, u *flow.Unit, pred func(ast.Node) bool) *flow.Unit {
	seen := map[*flow.Unit]bool{}
	var visit func(v *flow.Unit, depth int) *flow.Unit
	visit = func(v *flow.Unit, depth int) *flow.Unit {
		if v == nil || seen[v] || depth > 3 {
			return nil
		}
		seen[v] = true
		if len(v.Find(pred)) > 0 {
			return v
		}
		var found *flow.Unit
		info := v.Pkg.TypesInfo
		ast.Inspect(v.Body, func(n ast.Node) bool {
			if found != nil {
				return false
			}
			call, ok := n.(*ast.CallExpr)
			if !ok {
				return true
			}
			fn, _ := typeutil.Callee(info, call).(*types.Func)
			if fn == nil || !core.IsNewFunc(fn) {
				return true
			}
			for _, w := range a.Eng.Units {
				if w.Obj == fn {
					if r := visit(w, depth+1); r != nil {
						found = r
					}
				}
			}
			return true
		})
		return found
	}
	return visit(u, 0)
}

// canonExpr renders an expression for use in a construct key without the
// names of variables: a variable that is assigned exactly once in the unit (or
// an enclosing one) is replaced by the expression assigned to it, any other
// variable (receiver, parameter, reassigned local) by its type in parentheses;
// struct fields keep their (reference) names.
func canonExpr(u *flow.Unit, e ast.Expr, depth int) string {
	info := u.Pkg.TypesInfo
	short := func(t types.Type) string {
		return types.TypeString(t, func(p *types.Package) string { return "" })
	}
	switch x := ast.Unparen(e).(type) {
	case *ast.Ident:
		v, ok := info.ObjectOf(x).(*types.Var)
		if !ok || v.IsField() {
			return x.Name
		}
		if depth < 3 {
			var rhs ast.Expr
			n := 0
			for p := u; p != nil; p = p.Parent {
				ast.Inspect(p.Body, func(m ast.Node) bool {
					switch as := m.(type) {
					case *ast.AssignStmt:
						for i, l := range as.Lhs {
							if id, ok := l.(*ast.Ident); ok && info.ObjectOf(id) == types.Object(v) {
								n++
								if len(as.Lhs) == len(as.Rhs) {
									rhs = as.Rhs[i]
								} else {
									rhs = nil
									n++
								}
							}
						}
					case *ast.IncDecStmt:
						if id, ok := as.X.(*ast.Ident); ok && info.ObjectOf(id) == types.Object(v) {
							n += 2
						}
					case *ast.RangeStmt:
						for _, l := range []ast.Expr{as.Key, as.Value} {
							if id, ok := l.(*ast.Ident); ok && info.ObjectOf(id) == types.Object(v) {
								n += 2
							}
						}
					case *ast.UnaryExpr:
						if as.Op == token.AND {
							if id, ok := ast.Unparen(as.X).(*ast.Ident); ok && info.ObjectOf(id) == types.Object(v) {
								n += 2 // address taken
							}
						}
					}
					return true
				})
			}
			if n == 1 && rhs != nil {
				return canonExpr(u, rhs, depth+1)
			}
		}
		return "(" + short(v.Type()) + ")"
	case *ast.SelectorExpr:
		if sel, ok := info.Selections[x]; ok && sel.Kind() == types.FieldVal {
			if fv, ok := sel.Obj().(*types.Var); ok {
				return canonExpr(u, x.X, depth) + "." + core.FieldName(fv)
			}
		}
		return types.ExprString(x)
	case *ast.StarExpr:
		return "*" + canonExpr(u, x.X, depth)
	case *ast.CallExpr:
		name := calleeName(info, x)
		if name == "" {
			name = types.ExprString(x.Fun)
		}
		var args []string
		for _, a := range x.Args {
			args = append(args, canonExpr(u, a, depth))
		}
		if sel, ok := ast.Unparen(x.Fun).(*ast.SelectorExpr); ok {
			if s, ok := info.Selections[sel]; ok && s.Kind() == types.MethodVal {
				args = append([]string{canonExpr(u, sel.X, depth)}, args...)
			}
		}
		out := name + "("
		for i, a := range args {
			if i > 0 {
				out += ", "
			}
			out += a
		}
		return out + ")"
	}
	return types.ExprString(e)
}

// paramByRefName returns the parameter of u that had the given name on the
// reference tree (by position, so that renaming a parameter does not lose it).
func paramByRefName(u *flow.Unit, refName string) types.Object {
	if u == nil || u.Type == nil || u.Type.Params == nil {
		return nil
	}
	var names []string
	off := 0
	if u.Obj != nil {
		names = core.ParamRefNames(u.Obj)
		if sig, ok := u.Obj.Type().(*types.Signature); ok && sig.Recv() != nil {
			off = 1
		}
	}
	i := 0
	for _, fl := range u.Type.Params.List {
		for _, nm := range fl.Names {
			ref := nm.Name
			if i+off < len(names) {
				ref = names[i+off]
			}
			if ref == refName {
				return u.Pkg.TypesInfo.Defs[nm]
			}
			i++
		}
	}
	return nil
}

// exemptViaOwners: f did not exist on the reference tree and every
// reference-tree function that reaches it (through new helpers only) has the
// named exemption "<owner> | <what>" in table: code moved out of those
// functions keeps their exemptions.
func exemptViaOwners(q *ssaq.Q, f *ssa.Function, table map[string]string, what string) (string, bool) {
	if !ssaq.IsNew(f) {
		return "", false
	}
	owners, ok := q.Attributed(f)
	if !ok || len(owners) == 0 {
		return "", false
	}
	why := ""
	for _, on := range owners {
		w, has := table[on+" | "+what]
		if !has {
			return "", false
		}
		why = w
	}
	return why, true
}

// frameBlocks: the blocks of f and of the helpers that did not exist on the
// reference tree and are reached from f through such helpers only. A rule that
// judges "every X in f" iterates over these, so that an X moved into a new
// helper is still judged (and one that looks for "an X in f" still finds it).
func frameBlocks(f *ssa.Function) []*ssa.BasicBlock {
	var out []*ssa.BasicBlock
	for _, fr := range ssaq.Frames(f) {
		out = append(out, fr.Fn.Blocks...)
	}
	return out
}
