package rules

import (
	"go/ast"
	"go/token"
	"go/types"
	"sync"

	"golang.org/x/tools/go/packages"
	"golang.org/x/tools/go/types/typeutil"

	"verifcheck/internal/core"
	"verifcheck/internal/flow"
	"verifcheck/internal/locks"
)

// calleeName returns the rendered static callee of a call ("" if none).
func calleeName(info *types.Info, call *ast.CallExpr) string {
	if fn, ok := typeutil.Callee(info, call).(*types.Func); ok {
		return core.FuncName(fn)
	}
	return ""
}

// fieldOfSel returns the field object selected by expression x (x.f).
func fieldOfSel(info *types.Info, x ast.Expr) *types.Var {
	sel, ok := ast.Unparen(x).(*ast.SelectorExpr)
	if !ok {
		return nil
	}
	v, _ := info.Uses[sel.Sel].(*types.Var)
	if v != nil && v.IsField() {
		return v
	}
	return nil
}

// isMethodCallOnField: call is recvField.method(...) with the given static callee name.
func isMethodCallOnField(info *types.Info, n ast.Node, callee string, field *types.Var) bool {
	call, ok := n.(*ast.CallExpr)
	if !ok || calleeName(info, call) != callee {
		return false
	}
	sel, ok := ast.Unparen(call.Fun).(*ast.SelectorExpr)
	if !ok {
		return false
	}
	return field == nil || fieldOfSel(info, sel.X) == field
}

// isCallNamed: n is a call whose static callee renders as name.
func isCallNamed(info *types.Info, n ast.Node, name string) bool {
	call, ok := n.(*ast.CallExpr)
	return ok && calleeName(info, call) == name
}

// isBuiltinCall: n is a call of builtin name; argField (if non-nil) must be the selected field of arg 0.
func isBuiltinCall(info *types.Info, n ast.Node, name string, argField *types.Var) bool {
	call, ok := n.(*ast.CallExpr)
	if !ok {
		return false
	}
	id, ok := ast.Unparen(call.Fun).(*ast.Ident)
	if !ok || id.Name != name {
		return false
	}
	if _, ok := info.Uses[id].(*types.Builtin); !ok {
		return false
	}
	if argField == nil {
		return true
	}
	return len(call.Args) > 0 && fieldOrCopy(info, call.Args[0]) == argField
}

// isRecvFromField: n is <-x.f for the given field.
func isRecvFromField(info *types.Info, n ast.Node, field *types.Var) bool {
	u, ok := n.(*ast.UnaryExpr)
	return ok && u.Op == token.ARROW && fieldOrCopy(info, u.X) == field
}

// Local copies of struct fields: a local variable that is assigned from a field
// (x := s.f) or stored into it (s.f = x) and has no other field partner stands
// for that field where a channel or mutex is closed, received from or measured.
var (
	copyMu      sync.Mutex
	fieldCopies = map[*types.Info]map[types.Object]*types.Var{}
)

func registerFieldCopies(pk *packages.Package) {
	copyMu.Lock()
	defer copyMu.Unlock()
	info := pk.TypesInfo
	if _, done := fieldCopies[info]; done {
		return
	}
	m := map[types.Object]*types.Var{}
	bad := map[types.Object]bool{}
	note := func(id *ast.Ident, f *types.Var) {
		o := info.ObjectOf(id)
		if o == nil || f == nil {
			return
		}
		if v, ok := o.(*types.Var); !ok || v.IsField() || v.Parent() == pk.Types.Scope() {
			return
		}
		if prev, ok := m[o]; ok && prev != f {
			bad[o] = true
		}
		m[o] = f
	}
	for _, file := range pk.Syntax {
		ast.Inspect(file, func(n ast.Node) bool {
			as, ok := n.(*ast.AssignStmt)
			if !ok || len(as.Lhs) != len(as.Rhs) {
				return true
			}
			for i := range as.Lhs {
				l, r := ast.Unparen(as.Lhs[i]), ast.Unparen(as.Rhs[i])
				if id, ok := l.(*ast.Ident); ok {
					note(id, fieldOfSel(info, r))
				}
				if id, ok := r.(*ast.Ident); ok {
					note(id, fieldOfSel(info, l))
				}
			}
			return true
		})
	}
	for o := range bad {
		delete(m, o)
	}
	fieldCopies[info] = m
}

// fieldOrCopy: the field selected by x, or the field x is a local copy of.
func fieldOrCopy(info *types.Info, x ast.Expr) *types.Var {
	if f := fieldOfSel(info, x); f != nil {
		return f
	}
	if id, ok := ast.Unparen(x).(*ast.Ident); ok {
		copyMu.Lock()
		defer copyMu.Unlock()
		if m := fieldCopies[info]; m != nil {
			return m[info.ObjectOf(id)]
		}
	}
	return nil
}

// mustField resolves a struct field or records a fatal anchor failure.
func mustField(ctx *Ctx, rule, pkgRel, typ, field string) *types.Var {
	pk := ctx.Prog.Pkg(pkgRel)
	if pk == nil {
		ctx.Rep.Fail("%s: package %q not found", rule, pkgRel)
		return nil
	}
	f := locks.FieldOf(pk, typ, field)
	if f == nil {
		ctx.Rep.Fail("%s: anchor field %s.%s.%s not found", rule, pkgRel, typ, field)
	}
	return f
}

// mustUnit resolves a unit by name or records a fatal anchor failure.
func mustUnit(ctx *Ctx, a *locks.Analysis, rule, name string) *flow.Unit {
	for _, u := range a.Eng.Units {
		if u.Name == name {
			return u
		}
	}
	ctx.Rep.Fail("%s: anchor function %s not found", rule, name)
	return nil
}

// constObj resolves a package-level constant.
func constObj(pk *packages.Package, name string) types.Object {
	if o := pk.Types.Scope().Lookup(name); o != nil {
		return o
	}
	if tn := core.LookupType(pk.Types.Scope(), name); tn != nil {
		return tn // a type that was renamed since the reference tree
	}
	return nil
}

// usesObj reports whether expression tree x mentions object o.
func usesObj(info *types.Info, x ast.Node, o types.Object) bool {
	found := false
	ast.Inspect(x, func(n ast.Node) bool {
		if id, ok := n.(*ast.Ident); ok && info.Uses[id] == o {
			found = true
		}
		return !found
	})
	return found
}

// litChildren returns the function-literal units directly nested in u.
func litChildren(a *locks.Analysis, u *flow.Unit) []*flow.Unit {
	var out []*flow.Unit
	for _, c := range a.Eng.Units {
		if c.Parent == u {
			out = append(out, c)
		}
	}
	return out
}

// newHelperParams: the parameter objects of the functions that did not exist
// on the reference tree (helpers extracted since).
func newHelperParams(a *locks.Analysis) map[types.Object]bool {
	out := map[types.Object]bool{}
	for _, u := range a.Eng.Units {
		if u.Obj == nil || !core.IsNewFunc(u.Obj) || u.Type == nil || u.Type.Params == nil {
			continue
		}
		for _, f := range u.Type.Params.List {
			for _, nm := range f.Names {
				if o := u.Pkg.TypesInfo.ObjectOf(nm); o != nil {
					out[o] = true
				}
			}
		}
	}
	return out
}
