// Package rules holds one file per property with its rule instances, slot
// tables and named exemptions.
package rules

import (
	"sort"

	"verifcheck/internal/core"
	"verifcheck/internal/ssaq"
)

// Ctx is what a property's rules see.
type Ctx struct {
	Prog    *core.Prog
	Rep     *core.Report
	Tier    string
	Primary bool // first (default) build configuration
}

type Spec struct {
	ID           string
	Explanation  string
	ExtraConfigs bool // thorough tier repeats under -tags gofuzz (the tree does not compile for GOARCH=386)
	Run          func(*Ctx)
}

var registry = map[string]*Spec{}

func Register(s *Spec)    { registry[s.ID] = s }
func Get(id string) *Spec { return registry[id] }
func Properties() []string {
	var out []string
	for k := range registry {
		out = append(out, k)
	}
	sort.Strings(out)
	return out
}

// Forget drops every per-program cache for p.
func Forget(p *core.Prog) {
	lockMu.Lock()
	delete(lockCache, p)
	lockMu.Unlock()
	linMu.Lock()
	delete(linCache, p)
	linMu.Unlock()
	ssaq.Forget(p)
}
