package rules

import (
	"fmt"
	"go/types"
	"sort"
	"strings"

	"golang.org/x/tools/go/ssa"

	"verifcheck/internal/ssaq"
)

// ruleRecursionChargesDepth (C02-R5): the library's own recursive consumers of
// message structure (Equal, copyStruct/writePtr, canonicalisation, text
// rendering, pogs extraction, ...) are bounded by the depth limit only if every
// cycle of calls descends through a depth-charging dereference
// (Segment.readPtr, which rejects depthLimit == 0 and hands the child
// depthLimit-1). For every recursive group of functions (strongly connected
// component of the static call graph) that takes or returns message objects,
// some function of the group must reach readPtr without leaving through another
// recursive group. Does not prove that each individual cycle passes it.
func ruleRecursionChargesDepth(ctx *Ctx, rule string) {
	q := ssaq.For(ctx.Prog)
	r := ctx.Rep
	var funcs []*ssa.Function
	idx := map[*ssa.Function]int{}
	for _, f := range q.FuncsIn("", "pogs", "encoding/text") {
		if f.Parent() != nil {
			continue
		}
		idx[f] = len(funcs)
		funcs = append(funcs, f)
	}
	succ := make([][]int, len(funcs))
	for i, f := range funcs {
		seen := map[int]bool{}
		var walk func(g *ssa.Function)
		walk = func(g *ssa.Function) {
			for _, b := range g.Blocks {
				for _, in := range b.Instrs {
					ci, ok := in.(ssa.CallInstruction)
					if !ok {
						continue
					}
					if c := ci.Common().StaticCallee(); c != nil {
						for c.Parent() != nil {
							c = c.Parent()
						}
						if j, ok := idx[c]; ok && !seen[j] {
							seen[j] = true
							succ[i] = append(succ[i], j)
						}
					}
				}
			}
			for _, an := range g.AnonFuncs {
				walk(an)
			}
		}
		walk(f)
	}
	// Tarjan
	index := 0
	ids := make([]int, len(funcs))
	low := make([]int, len(funcs))
	on := make([]bool, len(funcs))
	for i := range ids {
		ids[i] = -1
	}
	var stack []int
	var sccs [][]int
	var strong func(v int)
	strong = func(v int) {
		ids[v], low[v] = index, index
		index++
		stack = append(stack, v)
		on[v] = true
		for _, w := range succ[v] {
			if ids[w] < 0 {
				strong(w)
				if low[w] < low[v] {
					low[v] = low[w]
				}
			} else if on[w] && ids[w] < low[v] {
				low[v] = ids[w]
			}
		}
		if low[v] == ids[v] {
			var comp []int
			for {
				w := stack[len(stack)-1]
				stack = stack[:len(stack)-1]
				on[w] = false
				comp = append(comp, w)
				if w == v {
					break
				}
			}
			sccs = append(sccs, comp)
		}
	}
	for v := range funcs {
		if ids[v] < 0 {
			strong(v)
		}
	}
	isMsgType := func(t types.Type) bool {
		s := types.TypeString(t, func(p *types.Package) string { return p.Name() })
		for _, n := range []string{"capnp.Ptr", "capnp.Struct", "capnp.List", "capnp.PointerList", "capnp.Interface"} {
			if s == n || s == "*"+n {
				return true
			}
		}
		return false
	}
	handlesMsg := func(f *ssa.Function) bool {
		sig := f.Signature
		if sig.Recv() != nil && isMsgType(sig.Recv().Type()) {
			return true
		}
		for i := 0; i < sig.Params().Len(); i++ {
			if isMsgType(sig.Params().At(i).Type()) {
				return true
			}
		}
		return false
	}
	// reaches readPtr (memoised over the whole graph)
	reach := map[int]int{} // 0 unknown, 1 yes, 2 no, 3 in progress
	var reaches func(v int) bool
	reaches = func(v int) bool {
		switch reach[v] {
		case 1:
			return true
		case 2, 3:
			return false
		}
		reach[v] = 3
		if ssaq.FuncName(funcs[v]) == "capnp.(*Segment).readPtr" {
			reach[v] = 1
			return true
		}
		for _, w := range succ[v] {
			if reaches(w) {
				reach[v] = 1
				return true
			}
		}
		reach[v] = 2
		return false
	}
	n := 0
	for _, comp := range sccs {
		rec := len(comp) > 1
		if !rec {
			for _, w := range succ[comp[0]] {
				if w == comp[0] {
					rec = true
				}
			}
		}
		if !rec {
			continue
		}
		msg := false
		var names []string
		for _, v := range comp {
			names = append(names, ssaq.FuncName(funcs[v]))
			if handlesMsg(funcs[v]) {
				msg = true
			}
		}
		if !msg {
			continue
		}
		sort.Strings(names)
		n++
		key := "recursive group {" + strings.Join(names, ", ") + "} | descends through readPtr"
		if len(key) > 300 {
			key = key[:300]
		}
		ok := false
		for _, v := range comp {
			for k := range reach {
				delete(reach, k)
			}
			if reaches(v) {
				ok = true
			}
		}
		pos := q.Pos(funcs[comp[0]].Pos())
		if ok {
			r.Ok(rule, key, pos, fmt.Sprintf("the group of %d function(s) reaches Segment.readPtr, where the depth limit is tested and decremented", len(comp)))
		} else {
			r.Violation(rule, key, pos, "a recursive group of functions over message objects never reaches Segment.readPtr: its recursion is not bounded by the message's depth limit (a cyclic or deeply nested message drives it until the stack overflows)")
		}
	}
	if n == 0 {
		r.Fail("%s: no recursive group over message objects found", rule)
	}
}
