package rules

import (
	"fmt"
	"go/ast"
	"go/types"
	"golang.org/x/tools/go/types/typeutil"
	"strings"
	"verifcheck/internal/core"

	"verifcheck/internal/flow"
)

// ruleStaleGuardedRead: a local variable that was computed from a field
// guarded by mutex class C must not decide a branch while C is held again
// after C was released in between: the field may have changed, and the code
// around these sites re-reads it after re-locking.
func ruleStaleGuardedRead(ctx *Ctx, rule string, scope func(*flow.Unit) bool) {
	a := lockAnalysis(ctx)
	if a == nil {
		return
	}
	r := ctx.Rep
	guarded := map[types.Object]guardedField{}
	for _, g := range guardedFields {
		pk := ctx.Prog.Pkg(g.pkg)
		if pk == nil {
			continue
		}
		if f := fieldOfType(pk.Types, g.typ, g.field); f != nil {
			guarded[f] = g
		}
	}
	for _, u := range a.UnitsSorted() {
		if !scope(u) {
			continue
		}
		info := u.Pkg.TypesInfo
		// definitions x := expr(reading guarded field)
		type def struct {
			obj   types.Object
			stmt  *ast.AssignStmt
			field guardedField
		}
		var defs []def
		ast.Inspect(u.Body, func(n ast.Node) bool {
			if _, ok := n.(*ast.FuncLit); ok {
				return false
			}
			as, ok := n.(*ast.AssignStmt)
			if !ok || len(as.Lhs) != len(as.Rhs) {
				return true
			}
			for i, l := range as.Lhs {
				id, ok := l.(*ast.Ident)
				if !ok || id.Name == "_" {
					continue
				}
				obj := info.ObjectOf(id)
				if obj == nil {
					continue
				}
				// only boolean or flag-like snapshots matter for branch decisions; channels and
				// pointers read under the lock and used after unlocking are the documented idiom.
				if b, ok := obj.Type().Underlying().(*types.Basic); !ok || b.Info()&(types.IsBoolean|types.IsInteger) == 0 {
					continue
				}
				var gf *guardedField
				ast.Inspect(as.Rhs[i], func(m ast.Node) bool {
					if sel, ok := m.(*ast.SelectorExpr); ok {
						if g, ok := guarded[info.Uses[sel.Sel]]; ok {
							gg := g
							gf = &gg
						}
					}
					return true
				})
				if gf != nil {
					defs = append(defs, def{obj, as, *gf})
				}
			}
			return true
		})
		for _, d := range defs {
			c := a.Sem.ClassByName(d.field.lock)
			if c < 0 {
				continue
			}
			defPts := u.Find(func(n ast.Node) bool { return n == ast.Node(d.stmt) })
			if len(defPts) == 0 {
				continue
			}
			usesObj := func(n ast.Node) bool {
				id, ok := n.(*ast.Ident)
				return ok && info.Uses[id] == d.obj
			}
			isRedef := func(n ast.Node) bool {
				as, ok := n.(*ast.AssignStmt)
				if !ok || as == d.stmt {
					return false
				}
				for _, l := range as.Lhs {
					if id, ok := l.(*ast.Ident); ok && info.ObjectOf(id) == d.obj {
						return true
					}
				}
				return false
			}
			isUnlock := func(n ast.Node) bool {
				call, ok := n.(*ast.CallExpr)
				if !ok {
					return false
				}
				nm := calleeName(info, call)
				if nm != "sync.(*Mutex).Unlock" && nm != "sync.(*RWMutex).Unlock" {
					return false
				}
				return a.Sem.ClassOf(fieldOfSelRecv(info, call)) == c
			}
			// condition nodes that use the variable while C is held
			k := 0
			for _, b := range u.CFG().Blocks {
				if !b.Live || len(b.Succs) != 2 || len(b.Nodes) == 0 {
					continue
				}
				cond, ok := b.Nodes[len(b.Nodes)-1].(ast.Expr)
				if !ok || !flow.Contains(cond, usesObj) {
					continue
				}
				k++
				key := fmt.Sprintf("%s | branch on %s (snapshot of %s.%s) #%d", u.Name, d.obj.Name(), d.field.typ, d.field.field, k)
				pos := ctx.Prog.Rel(cond.Pos())
				min, _, known := a.Held(u, cond, c)
				if !known || min < 1 {
					r.Ok(rule, key, pos, "the branch is decided without "+d.field.lock+" held (the snapshot idiom: decide outside the lock what was observed inside)")
					continue
				}
				// is there an unlock between def and this use?
				stale := false
				var trace []string
				for _, up := range u.Find(isUnlock) {
					if _, isDefer := up.B.Nodes[up.I].(*ast.DeferStmt); isDefer {
						continue
					}
					thisUnlock := func(n ast.Node) bool { return n == up.B.Nodes[up.I] }
					r1 := a.Eng.Reaches(u, defPts[0].After(), thisUnlock, isRedef)
					if !r1.Found {
						continue
					}
					thisCond := func(n ast.Node) bool { return n == ast.Node(cond) }
					r2 := a.Eng.Reaches(u, up.After(), thisCond, isRedef)
					if r2.Found {
						stale = true
						trace = append(append([]string{"definition -> unlock:"}, r1.Trace...), append([]string{"unlock -> use:"}, r2.Trace...)...)
						break
					}
				}
				if stale {
					r.Violation(rule, key, pos, fmt.Sprintf("%s was computed from %s.%s under %s, the mutex was released in between, and the branch is decided with the mutex held again: the field may have changed (e.g. a Finish handled meanwhile); re-read it after re-locking",
						d.obj.Name(), d.field.typ, d.field.field, d.field.lock), trace...)
				} else {
					r.Ok(rule, key, pos, "no release of "+d.field.lock+" between the read of the field and this branch")
				}
			}
			// the same for a snapshot handed to a function of the module as an
			// argument while the mutex is held again: the callee decides on it
			isArgUse := func(n ast.Node) bool {
				call, ok := n.(*ast.CallExpr)
				if !ok {
					return false
				}
				fn, _ := typeutil.Callee(info, call).(*types.Func)
				if fn == nil || fn.Pkg() == nil || !strings.HasPrefix(fn.Pkg().Path(), core.ModPath) {
					return false
				}
				for _, arg := range call.Args {
					if flow.Contains(arg, usesObj) {
						return true
					}
				}
				return false
			}
			for _, ap := range u.Find(isArgUse) {
				use := ap.B.Nodes[ap.I]
				k++
				key := fmt.Sprintf("%s | %s (snapshot of %s.%s) passed on #%d", u.Name, d.obj.Name(), d.field.typ, d.field.field, k)
				pos := ctx.Prog.Rel(use.Pos())
				min, _, known := a.Held(u, use, c)
				if !known || min < 1 {
					r.Ok(rule, key, pos, "passed on without "+d.field.lock+" held")
					continue
				}
				stale := false
				var trace []string
				for _, up := range u.Find(isUnlock) {
					if _, isDefer := up.B.Nodes[up.I].(*ast.DeferStmt); isDefer {
						continue
					}
					thisUnlock := func(n ast.Node) bool { return n == up.B.Nodes[up.I] }
					r1 := a.Eng.Reaches(u, defPts[0].After(), thisUnlock, isRedef)
					if !r1.Found {
						continue
					}
					thisUse := func(n ast.Node) bool { return n == use }
					if r2 := a.Eng.Reaches(u, up.After(), thisUse, isRedef); r2.Found {
						stale = true
						trace = append(append([]string{"definition -> unlock:"}, r1.Trace...), append([]string{"unlock -> use:"}, r2.Trace...)...)
						break
					}
				}
				if stale {
					r.Violation(rule, key, pos, fmt.Sprintf("%s was computed from %s.%s under %s, the mutex was released in between, and the value is handed to a function that decides on it with the mutex held again: the field may have changed (e.g. a Finish handled meanwhile); re-read it after re-locking",
						d.obj.Name(), d.field.typ, d.field.field, d.field.lock), trace...)
				} else {
					r.Ok(rule, key, pos, "no release of "+d.field.lock+" between the read of the field and this use")
				}
			}
		}
	}
}

func fieldOfType(pkg *types.Package, typ, field string) *types.Var {
	obj := core.LookupType(pkg.Scope(), typ)
	if obj == nil {
		return nil
	}
	st, ok := obj.Type().Underlying().(*types.Struct)
	if !ok {
		return nil
	}
	for i := 0; i < st.NumFields(); i++ {
		if core.FieldName(st.Field(i)) == field {
			return st.Field(i)
		}
	}
	return nil
}
