package rules

import (
	"fmt"
	"go/types"
	"sort"
	"strings"

	"golang.org/x/tools/go/ssa"

	"verifcheck/internal/ssaq"
)

// fieldWrites: the fields of *T that f writes through its receiver-typed value
// recv (store to the field, map update / element store through the field, or an
// atomic store on its address).
func fieldWrites(f *ssa.Function, st *types.Struct, named *types.Named) map[string]bool {
	return fieldWritesIn(f, st, named, nil)
}

// fieldWritesIn restricts fieldWrites to the blocks accepted by keep (nil = all).
func fieldWritesIn(f *ssa.Function, st *types.Struct, named *types.Named, keep func(*ssa.BasicBlock) bool) map[string]bool {
	out := map[string]bool{}
	isT := func(t types.Type) bool {
		if p, ok := t.Underlying().(*types.Pointer); ok {
			t = p.Elem()
		}
		n, ok := t.(*types.Named)
		return ok && n.Obj() == named.Obj()
	}
	for _, b := range f.Blocks {
		if keep != nil && !keep(b) {
			continue
		}
		for _, in := range b.Instrs {
			switch x := in.(type) {
			case *ssa.Store:
				if fa, ok := x.Addr.(*ssa.FieldAddr); ok && isT(fa.X.Type()) {
					out[st.Field(fa.Field).Name()] = true
				}
			case *ssa.MapUpdate:
				if ld, ok := x.Map.(*ssa.UnOp); ok {
					if fa, ok := ld.X.(*ssa.FieldAddr); ok && isT(fa.X.Type()) {
						out[st.Field(fa.Field).Name()] = true
					}
				}
			case ssa.CallInstruction:
				cn := ssaq.StaticCalleeName(in)
				if strings.HasPrefix(cn, "sync/atomic.Store") || strings.HasPrefix(cn, "sync/atomic.Add") || strings.HasPrefix(cn, "sync/atomic.CompareAndSwap") || strings.HasPrefix(cn, "sync/atomic.Swap") {
					if args := x.Common().Args; len(args) > 0 {
						if fa, ok := args[0].(*ssa.FieldAddr); ok && isT(fa.X.Type()) {
							out[st.Field(fa.Field).Name()] = true
						}
					}
				}
			}
		}
	}
	return out
}

// ruleResetComplete: T.Reset re-initialises every unexported state field of T
// (and the exported ones listed in also) that any other function of the package
// writes. A field that survives Reset carries one message's state into the next.
func ruleResetComplete(ctx *Ctx, rule, pkg, typeName, method string, also []string) {
	q := ssaq.For(ctx.Prog)
	r := ctx.Rep
	reset := q.Func(fmt.Sprintf("%s.(*%s).%s", pkg, typeName, method))
	if reset == nil {
		r.Fail("%s: %s.(*%s).%s not found", rule, pkg, typeName, method)
		return
	}
	recvT := reset.Signature.Recv().Type().(*types.Pointer).Elem().(*types.Named)
	st := recvT.Underlying().(*types.Struct)
	alsoSet := map[string]bool{}
	for _, a := range also {
		alsoSet[a] = true
	}
	// state fields: written by someone else
	written := map[string][]string{}
	rel := pkg
	if rel == "capnp" {
		rel = "" // the module's root package
	}
	for _, f := range q.FuncsIn(rel) {
		if f == reset {
			continue
		}
		for fld := range fieldWrites(f, st, recvT) {
			written[fld] = append(written[fld], ssaq.FuncName(f))
		}
	}
	// what Reset (and the static callees it passes its receiver to, two levels) writes
	resetWrites := map[string]bool{}
	seen := map[*ssa.Function]bool{}
	var visit func(f *ssa.Function, depth int)
	// only what Reset does on EVERY path counts: blocks that dominate all of its returns
	var rets []*ssa.BasicBlock
	for _, b := range reset.Blocks {
		if _, ok := b.Instrs[len(b.Instrs)-1].(*ssa.Return); ok {
			rets = append(rets, b)
		}
	}
	always := func(b *ssa.BasicBlock) bool {
		if b.Parent() != reset {
			return true
		}
		for _, rb := range rets {
			if !b.Dominates(rb) {
				return false
			}
		}
		return true
	}
	visit = func(f *ssa.Function, depth int) {
		if f == nil || seen[f] || depth > 2 || len(f.Blocks) == 0 {
			return
		}
		seen[f] = true
		for fld := range fieldWritesIn(f, st, recvT, always) {
			resetWrites[fld] = true
		}
		for _, b := range f.Blocks {
			if !always(b) {
				continue
			}
			for _, in := range b.Instrs {
				if ci, ok := in.(ssa.CallInstruction); ok {
					if cal := ci.Common().StaticCallee(); cal != nil && cal.Signature.Recv() != nil && len(ci.Common().Args) > 0 {
						if p, ok := ci.Common().Args[0].Type().Underlying().(*types.Pointer); ok {
							if n, ok := p.Elem().(*types.Named); ok && n.Obj() == recvT.Obj() {
								visit(cal, depth+1)
							}
						}
					}
				}
			}
		}
	}
	visit(reset, 0)
	var names []string
	for i := 0; i < st.NumFields(); i++ {
		f := st.Field(i)
		if f.Exported() && !alsoSet[f.Name()] {
			continue
		}
		if n, ok := f.Type().(*types.Named); ok && n.Obj().Pkg() != nil && n.Obj().Pkg().Path() == "sync" {
			continue
		}
		if len(written[f.Name()]) == 0 {
			continue
		}
		names = append(names, f.Name())
	}
	sort.Strings(names)
	for _, n := range names {
		key := fmt.Sprintf("%s.(*%s).%s | re-initialises %s", pkg, typeName, method, n)
		w := written[n]
		sort.Strings(w)
		if len(w) > 3 {
			w = w[:3]
		}
		if resetWrites[n] {
			r.Ok(rule, key, q.Pos(reset.Pos()), "written by "+strings.Join(w, ", ")+"; re-initialised by "+method)
		} else {
			r.Violation(rule, key, q.Pos(reset.Pos()), fmt.Sprintf("field %s is state that other functions write (%s) but %s does not re-initialise it on every path: a %s that is reused keeps serving what it held before (a Message under Decoder.ReuseBuffer serves the previous message's segments; a node map keeps the old registry's schema)", n, strings.Join(w, ", "), method, typeName))
		}
	}
	if len(names) == 0 {
		r.Fail("%s: no state field found for %s", rule, typeName)
	}
}
