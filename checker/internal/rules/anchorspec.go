package rules

import (
	"fmt"
	"regexp"
	"strings"

	"verifcheck/internal/ssaq"
)

// anchorSpec is an E4 lemma on one call inside a function: the call (named by
// callee and ordinal among the calls of that callee in the function) must
// exist, its arguments must render as given ("" = not compared, prefix* =
// prefix match) and the listed atoms must be among the branch conditions that
// dominate it. Everything is compared in the normal form of ssaq (parameters
// p0.., temporaries and statement order normalised away).
type anchorSpec struct {
	fn      string
	callee  string
	ordinal int
	args    []string
	atoms   []string
	what    string // the behaviour the lemma protects
}

// matchPattern: exact text, "prefix*", or a pattern in which each "§" stands for
// an arbitrary subexpression (a value the lemma does not constrain, e.g. the
// limit variable, which may be a phi, a local or the result of a helper).
func matchPattern(got, want string) bool {
	if strings.Contains(want, "§") {
		parts := strings.Split(want, "§")
		for i := range parts {
			parts[i] = regexp.QuoteMeta(parts[i])
		}
		re, err := regexp.Compile("^" + strings.Join(parts, ".+") + "$")
		return err == nil && re.MatchString(got)
	}
	return matchArg(got, want)
}

func matchArg(got, want string) bool {
	if want == "" {
		return true
	}
	if strings.Contains(want, "§") {
		return matchPattern(got, want)
	}
	if strings.HasSuffix(want, "*") {
		return strings.HasPrefix(got, strings.TrimSuffix(want, "*"))
	}
	return got == want
}

// evalSpec compares one anchor with a spec; the result lists what differs.
func evalSpec(a *ssaq.Anchor, s anchorSpec) []string {
	var bad []string
	for i, w := range s.args {
		if i >= len(a.Args) || !matchArg(a.Args[i], w) {
			got := "<missing>"
			if i < len(a.Args) {
				got = a.Args[i]
			}
			bad = append(bad, fmt.Sprintf("argument %d is %s, lemma needs %s", i, got, w))
		}
	}
	have := map[string]bool{}
	for _, at := range a.Atoms {
		have[at] = true
	}
	for _, w := range s.atoms {
		found := have[w]
		if !found && strings.Contains(w, "§") {
			for at := range have {
				if matchPattern(at, w) {
					found = true
				}
			}
		}
		if !found && strings.HasSuffix(w, "*") {
			for at := range have {
				if strings.HasPrefix(at, strings.TrimSuffix(w, "*")) {
					found = true
				}
			}
		}
		if !found {
			bad = append(bad, "missing dominating condition "+w)
		}
	}
	return bad
}

// ruleAnchorSpecs: each lemma names its call by callee and ordinal, but the
// ordinal is only the first guess: when the call with that ordinal does not
// satisfy the lemma (calls were added, removed or reordered around it), any
// other call of the same callee in the function that satisfies the lemma and is
// not already the witness of another lemma is accepted. A lemma fails only when
// no call of the callee has the confirmed arguments under the confirmed
// conditions.
func ruleAnchorSpecs(ctx *Ctx, rule string, specs []anchorSpec) {
	q := ssaq.For(ctx.Prog)
	r := ctx.Rep
	cache := map[string][]ssaq.Anchor{}
	claimed := map[*ssaq.Anchor]bool{}
	type pending struct {
		s   anchorSpec
		key string
		ord *ssaq.Anchor
		bad []string
	}
	var rest []pending
	for _, s := range specs {
		f := q.Func(s.fn)
		if f == nil {
			r.Fail("%s: anchor function %s not found", rule, s.fn)
			continue
		}
		as, ok := cache[s.fn]
		if !ok {
			as = ssaq.Anchors(f)
			cache[s.fn] = as
		}
		short := s.callee[strings.LastIndex(s.callee, ".")+1:]
		key := fmt.Sprintf("%s | %s #%d: %s", s.fn, short, s.ordinal, s.what)
		var a *ssaq.Anchor
		for i := range as {
			if as[i].Callee == s.callee && as[i].Ordinal == s.ordinal {
				a = &as[i]
			}
		}
		if a != nil {
			bad := evalSpec(a, s)
			if len(bad) == 0 && !claimed[a] {
				claimed[a] = true
				r.Ok(rule, key, q.Pos(ssaq.InstrPos(a.Instr)), "arguments and dominating conditions as confirmed")
				continue
			}
			rest = append(rest, pending{s, key, a, bad})
			continue
		}
		rest = append(rest, pending{s, key, nil, nil})
	}
	for _, p := range rest {
		s := p.s
		f := q.Func(s.fn)
		as := cache[s.fn]
		var alt *ssaq.Anchor
		for i := range as {
			if as[i].Callee == s.callee && !claimed[&as[i]] && len(evalSpec(&as[i], s)) == 0 {
				alt = &as[i]
				break
			}
		}
		switch {
		case alt != nil:
			claimed[alt] = true
			r.Ok(rule, p.key, q.Pos(ssaq.InstrPos(alt.Instr)), fmt.Sprintf("arguments and dominating conditions as confirmed (the call is now #%d of its callee in the function)", alt.Ordinal))
		case p.ord == nil:
			r.Violation(rule, p.key, q.Pos(f.Pos()), fmt.Sprintf("the call %s #%d that this lemma is about no longer exists in %s, and no other call of it satisfies the lemma", s.callee, s.ordinal, s.fn))
		default:
			r.Violation(rule, p.key, q.Pos(ssaq.InstrPos(p.ord.Instr)), strings.Join(p.bad, "; ")+" (established: "+strings.Join(p.ord.Atoms, " && ")+")")
		}
	}
}
