package rules

import (
	"fmt"
	"strings"

	"verifcheck/internal/ssaq"
)

// anchorSpec is an E4 lemma on one call inside a function: the call (named by
// callee and ordinal among the calls of that callee in the function) must
// exist, its arguments must render as given ("" = not compared, prefix* =
// prefix match) and the listed atoms must be among the branch conditions that
// dominate it. Everything is compared in the normal form of ssaq (parameters
// p0.., temporaries and statement order normalised away).
type anchorSpec struct {
	fn      string
	callee  string
	ordinal int
	args    []string
	atoms   []string
	what    string // the behaviour the lemma protects
}

func matchArg(got, want string) bool {
	if want == "" {
		return true
	}
	if strings.HasSuffix(want, "*") {
		return strings.HasPrefix(got, strings.TrimSuffix(want, "*"))
	}
	return got == want
}

func ruleAnchorSpecs(ctx *Ctx, rule string, specs []anchorSpec) {
	q := ssaq.For(ctx.Prog)
	r := ctx.Rep
	cache := map[string][]ssaq.Anchor{}
	for _, s := range specs {
		f := q.Func(s.fn)
		if f == nil {
			r.Fail("%s: anchor function %s not found", rule, s.fn)
			continue
		}
		as, ok := cache[s.fn]
		if !ok {
			as = ssaq.Anchors(f)
			cache[s.fn] = as
		}
		short := s.callee[strings.LastIndex(s.callee, ".")+1:]
		key := fmt.Sprintf("%s | %s #%d: %s", s.fn, short, s.ordinal, s.what)
		var a *ssaq.Anchor
		for i := range as {
			if as[i].Callee == s.callee && as[i].Ordinal == s.ordinal {
				a = &as[i]
			}
		}
		if a == nil {
			r.Violation(rule, key, q.Pos(f.Pos()), fmt.Sprintf("the call %s #%d that this lemma is about no longer exists in %s", s.callee, s.ordinal, s.fn))
			continue
		}
		pos := q.Pos(ssaq.InstrPos(a.Instr))
		var bad []string
		for i, w := range s.args {
			if i >= len(a.Args) || !matchArg(a.Args[i], w) {
				got := "<missing>"
				if i < len(a.Args) {
					got = a.Args[i]
				}
				bad = append(bad, fmt.Sprintf("argument %d is %s, lemma needs %s", i, got, w))
			}
		}
		have := map[string]bool{}
		for _, at := range a.Atoms {
			have[at] = true
		}
		for _, w := range s.atoms {
			found := have[w]
			if !found && strings.HasSuffix(w, "*") {
				for at := range have {
					if strings.HasPrefix(at, strings.TrimSuffix(w, "*")) {
						found = true
					}
				}
			}
			if !found {
				bad = append(bad, "missing dominating condition "+w)
			}
		}
		if len(bad) > 0 {
			r.Violation(rule, key, pos, strings.Join(bad, "; ")+" (established: "+strings.Join(a.Atoms, " && ")+")")
		} else {
			r.Ok(rule, key, pos, "arguments and dominating conditions as confirmed")
		}
	}
}
