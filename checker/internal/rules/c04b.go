package rules

import (
	"fmt"
	"go/ast"
	"go/types"
	"strings"

	"golang.org/x/tools/go/ssa"

	"verifcheck/internal/ssaq"
)

// allocators: the functions of package capnp from which capnp.alloc is reachable
// through static calls (anything that can grow a segment).
func allocators(q *ssaq.Q) map[string]bool {
	funcs := q.FuncsIn("")
	callees := map[string][]string{}
	for _, f := range funcs {
		root := f
		for root.Parent() != nil {
			root = root.Parent()
		}
		name := ssaq.FuncName(root)
		for _, b := range f.Blocks {
			for _, in := range b.Instrs {
				if ci, ok := in.(ssa.CallInstruction); ok {
					if c := ci.Common().StaticCallee(); c != nil {
						callees[name] = append(callees[name], ssaq.FuncName(c))
					}
				}
			}
		}
	}
	out := map[string]bool{"capnp.alloc": true}
	for changed := true; changed; {
		changed = false
		for f, cs := range callees {
			if out[f] {
				continue
			}
			for _, c := range cs {
				if out[c] {
					out[f] = true
					changed = true
					break
				}
			}
		}
	}
	return out
}

// ruleNoSliceAcrossAlloc (C04-R2s): Segment.slice returns a window into the
// segment's current backing array. An allocation may replace that array (a
// single-segment arena grows by copying into a larger buffer), after which the
// window points into the abandoned copy: writes through it are lost and the
// live segment keeps zeros. No variable holding the result of Segment.slice is
// used after a call that can allocate.
func ruleNoSliceAcrossAlloc(ctx *Ctx, rule string) {
	a := lockAnalysis(ctx)
	if a == nil {
		return
	}
	q := ssaq.For(ctx.Prog)
	r := ctx.Rep
	allocs := allocators(q)
	n := 0
	for _, u := range a.UnitsSorted() {
		if !strings.HasPrefix(u.Name, "capnp.") {
			continue
		}
		info := u.Pkg.TypesInfo
		type def struct {
			obj  types.Object
			stmt ast.Node
		}
		var defs []def
		ast.Inspect(u.Body, func(nd ast.Node) bool {
			if _, ok := nd.(*ast.FuncLit); ok {
				return false
			}
			as, ok := nd.(*ast.AssignStmt)
			if !ok || len(as.Lhs) != len(as.Rhs) {
				return true
			}
			for i, rhs := range as.Rhs {
				call, ok := ast.Unparen(rhs).(*ast.CallExpr)
				if !ok || calleeName(info, call) != "capnp.(*Segment).slice" {
					continue
				}
				if id, ok := as.Lhs[i].(*ast.Ident); ok && id.Name != "_" {
					if o := info.ObjectOf(id); o != nil {
						defs = append(defs, def{o, as})
					}
				}
			}
			return true
		})
		for _, d := range defs {
			n++
			key := fmt.Sprintf("%s | %s (a window from Segment.slice) is not used after an allocation", u.Name, d.obj.Name())
			pos := ctx.Prog.Rel(d.stmt.Pos())
			isDef := func(m ast.Node) bool { return m == d.stmt }
			pts := u.Find(isDef)
			if len(pts) == 0 {
				r.Exempt(rule, key, pos, "unreachable in the CFG")
				continue
			}
			isAllocCall := func(m ast.Node) bool {
				c, ok := m.(*ast.CallExpr)
				return ok && allocs[calleeName(info, c)]
			}
			isUse := func(m ast.Node) bool {
				id, ok := m.(*ast.Ident)
				return ok && info.Uses[id] == d.obj
			}
			bad := false
			var tr []string
			for _, ap := range a.Eng.FindThrough(u, isAllocCall) {
				// the allocation must itself come after the definition
				if !a.Eng.Reaches(u, pts[0].After(), func(m ast.Node) bool { return m == ap.B.Nodes[ap.I] }, nil).Found {
					continue
				}
				if res := a.Eng.Reaches(u, ap.After(), isUse, isDef); res.Found {
					bad = true
					tr = res.Trace
				}
			}
			if bad {
				r.Violation(rule, key, pos, fmt.Sprintf("%s holds a window into the segment's backing array and is used after a call that can allocate: when the arena grows the segment by copying it (single-segment arenas do), the write goes to the abandoned array and the live segment keeps zeros", d.obj.Name()), tr...)
			} else {
				r.Ok(rule, key, pos, "every use precedes the calls that can allocate")
			}
		}
	}
	if n == 0 {
		r.Fail("%s: no variable holding a Segment.slice result found", rule)
	}
}
