package rules

import (
	"go/token"

	"golang.org/x/tools/go/ssa"

	"verifcheck/internal/ssaq"
)

// ruleCanonicalElemSize: the element size handed to NewCompositeList by
// canonicalList is, component by component, the running maximum of
// canonicalStructSize over every element of the source list.
//
// The rule works on values, not on the names of locals: the second argument of
// the NewCompositeList call is traced to an accumulator (a local ObjectSize
// whose fields are stored individually, or one loop-carried scalar per
// component, in canonicalList itself or in a helper that did not exist on the
// reference tree and returns the accumulator), and for each component
//
//	(a) there is an update, and every update stores component c of
//	    canonicalStructSize(src.Struct(i)),
//	(b) every update is dominated by "accumulator.c < that value",
//	(c) the accumulator is not overwritten as a whole by anything but a zero
//	    value, and
//	(d) i is the counter of a loop from 0 that runs while i < src.Len().
func ruleCanonicalElemSize(ctx *Ctx, rule string) {
	q := ssaq.For(ctx.Prog)
	r := ctx.Rep
	f := q.Func("capnp.canonicalList")
	if f == nil {
		r.Fail("%s: canonicalList not found", rule)
		return
	}
	comps := []string{"DataSize", "PointerCount"}
	key := func(k string) string { return "canonicalList | element " + k + " is the maximum over all elements" }
	failBoth := func(msg string) {
		for _, k := range comps {
			r.Violation(rule, key(k), q.Pos(f.Pos()), msg)
		}
	}
	// the NewCompositeList call, in canonicalList or in a new helper under it
	var site *ssa.Call
	seen := map[*ssa.Function]bool{}
	var find func(g *ssa.Function, depth int)
	find = func(g *ssa.Function, depth int) {
		if g == nil || seen[g] || depth > 2 {
			return
		}
		seen[g] = true
		for _, b := range g.Blocks {
			for _, in := range b.Instrs {
				c, ok := in.(*ssa.Call)
				if !ok {
					continue
				}
				if ssaq.StaticCalleeName(c) == "capnp.NewCompositeList" && site == nil {
					site = c
				}
				if h := c.Call.StaticCallee(); h != nil && ssaq.IsNew(h) {
					find(h, depth+1)
				}
			}
		}
	}
	find(f, 0)
	if site == nil || len(site.Call.Args) < 2 {
		failBoth("no call of NewCompositeList under canonicalList")
		return
	}
	for ci, k := range comps {
		ups, why := elemSizeUpdates(site.Call.Args[1], ci)
		if why != "" {
			r.Violation(rule, key(k), q.Pos(site.Pos()), why)
			continue
		}
		if len(ups) == 0 {
			r.Violation(rule, key(k), q.Pos(site.Pos()), "component "+k+" of the element size is never raised to an element's canonical size: elements could be truncated below their content")
			continue
		}
		bad := ""
		for _, u := range ups {
			call := canonSizeComponent(u.val, ci)
			if call == nil {
				bad = "an update at " + q.Pos(u.pos) + " stores " + ssaq.RenderValue(u.fn, u.val) + ", not component " + k + " of canonicalStructSize of an element"
				break
			}
			if !u.guarded(call, ci) {
				bad = "the update at " + q.Pos(u.pos) + " is not conditioned on the accumulated " + k + " being smaller than the element's: the result is not the maximum"
				break
			}
			if why := coversAllElements(call); why != "" {
				bad = why + " (" + q.Pos(call.Pos()) + ")"
				break
			}
		}
		if bad != "" {
			r.Violation(rule, key(k), q.Pos(site.Pos()), bad)
		} else {
			r.Ok(rule, key(k), q.Pos(site.Pos()), "every update stores the element's canonical "+k+" under accumulated < element, in a loop over all elements")
		}
	}
}

// sizeUpdate is one update of one component of the accumulator.
type sizeUpdate struct {
	fn  *ssa.Function
	pos token.Pos
	val ssa.Value
	// guarded reports whether the update is conditioned on acc.c < val.
	guarded func(call *ssa.Call, ci int) bool
}

// elemSizeUpdates traces v (an ObjectSize) to its accumulator and lists the
// updates of component ci. why is non-empty when v has no recognisable form.
func elemSizeUpdates(v ssa.Value, ci int) (ups []sizeUpdate, why string) {
	switch x := v.(type) {
	case *ssa.Call:
		g := x.Call.StaticCallee()
		if g == nil || !ssaq.IsNew(g) {
			return nil, "the element size is the result of " + ssaq.StaticCalleeName(x) + ", not an accumulator over the elements"
		}
		var res ssa.Value
		for _, b := range g.Blocks {
			for _, in := range b.Instrs {
				if ret, ok := in.(*ssa.Return); ok && len(ret.Results) > 0 {
					if res != nil && !sameLoad(res, ret.Results[0]) {
						return nil, "helper " + ssaq.FuncName(g) + " returns different values on different paths"
					}
					res = ret.Results[0]
				}
			}
		}
		if res == nil {
			return nil, "helper " + ssaq.FuncName(g) + " has no result"
		}
		return elemSizeUpdates(res, ci)
	case *ssa.UnOp:
		acc, ok := x.X.(*ssa.Alloc)
		if x.Op != token.MUL || !ok {
			break
		}
		fn := acc.Parent()
		// a composite literal built from scalar accumulators: ObjectSize{a, b}
		var fieldStores, whole []*ssa.Store
		for _, b := range fn.Blocks {
			for _, in := range b.Instrs {
				st, ok := in.(*ssa.Store)
				if !ok {
					continue
				}
				if st.Addr == acc {
					whole = append(whole, st)
				}
				if fa, ok := st.Addr.(*ssa.FieldAddr); ok && fa.X == acc && fa.Field == ci {
					fieldStores = append(fieldStores, st)
				}
			}
		}
		for _, st := range whole {
			if c, ok := st.Val.(*ssa.Const); ok && c.Value == nil {
				continue // zero value
			}
			return nil, "the accumulator is overwritten as a whole at " + fn.Prog.Fset.Position(st.Pos()).String()
		}
		// a literal whose fields are stored once from loop-carried scalars
		if len(fieldStores) == 1 {
			if phi, ok := fieldStores[0].Val.(*ssa.Phi); ok {
				return phiUpdates(phi)
			}
		}
		for _, st := range fieldStores {
			st := st
			ups = append(ups, sizeUpdate{fn: fn, pos: st.Pos(), val: st.Val, guarded: func(call *ssa.Call, ci int) bool {
				for _, g := range ssaq.Guards(st.Block()) {
					lo, hi, ok := strictLess(g.Cond, g.True)
					if !ok {
						continue
					}
					if l, ok := lo.(*ssa.UnOp); ok && l.Op == token.MUL {
						if fa, ok := l.X.(*ssa.FieldAddr); ok && fa.X == acc && fa.Field == ci && canonSizeComponent(hi, ci) == call {
							return true
						}
					}
				}
				return false
			}})
		}
		return ups, ""
	case *ssa.Phi:
		return phiUpdates(x)
	}
	return nil, "the element size " + v.String() + " is not a local accumulator"
}

// phiUpdates: a loop-carried scalar accumulator m (phi at the loop head); its
// updates are the values that flow back other than m itself.
func phiUpdates(head *ssa.Phi) (ups []sizeUpdate, why string) {
	fn := head.Parent()
	for i, e := range head.Edges {
		if c, ok := e.(*ssa.Const); ok {
			if n, ok := ssaq.ConstInt(c); ok && n == 0 {
				continue
			}
			return nil, "the accumulator starts from a non-zero constant"
		}
		// value flowing back: m itself, or phi(m, x) where x comes in under m < x
		var collect func(v ssa.Value, depth int) bool
		collect = func(v ssa.Value, depth int) bool {
			if v == head {
				return true
			}
			p, ok := v.(*ssa.Phi)
			if !ok || depth > 3 {
				return false
			}
			for j, pe := range p.Edges {
				if pe == head || collect(pe, depth+1) {
					continue
				}
				pred := p.Block().Preds[j]
				val := pe
				ups = append(ups, sizeUpdate{fn: fn, pos: p.Pos(), val: val, guarded: func(call *ssa.Call, ci int) bool {
					gs := ssaq.Guards(pred)
					// the edge itself may be the branch
					if iff, ok := pred.Instrs[len(pred.Instrs)-1].(*ssa.If); ok && pred.Succs[0] != pred.Succs[1] {
						gs = append(gs, ssaq.Guard{Cond: iff.Cond, True: pred.Succs[0] == p.Block()})
					}
					for _, g := range gs {
						lo, hi, ok := strictLess(g.Cond, g.True)
						if ok && lo == head && canonSizeComponent(hi, ci) == call {
							return true
						}
					}
					return false
				}})
			}
			return true
		}
		if !collect(e, 0) {
			return nil, "edge " + head.Block().Preds[i].String() + " of the accumulator carries a value that is neither the accumulator nor a conditional update of it"
		}
	}
	return ups, ""
}

// strictLess orients a branch condition under the given truth as lo < hi.
func strictLess(cond ssa.Value, truth bool) (lo, hi ssa.Value, ok bool) {
	for {
		u, isNot := cond.(*ssa.UnOp)
		if !isNot || u.Op != token.NOT {
			break
		}
		cond, truth = u.X, !truth
	}
	b, isBin := cond.(*ssa.BinOp)
	if !isBin {
		return nil, nil, false
	}
	switch {
	case b.Op == token.LSS && truth, b.Op == token.GEQ && !truth:
		return b.X, b.Y, true
	case b.Op == token.GTR && truth, b.Op == token.LEQ && !truth:
		return b.Y, b.X, true
	}
	return nil, nil, false
}

// canonSizeComponent: v is component ci of the result of a call of
// canonicalStructSize (directly, or through a local holding that result).
func canonSizeComponent(v ssa.Value, ci int) *ssa.Call {
	isCanon := func(x ssa.Value) *ssa.Call {
		c, ok := x.(*ssa.Call)
		if ok && ssaq.StaticCalleeName(c) == "capnp.canonicalStructSize" {
			return c
		}
		return nil
	}
	switch x := v.(type) {
	case *ssa.Field:
		if x.Field == ci {
			return isCanon(x.X)
		}
	case *ssa.UnOp:
		if x.Op != token.MUL {
			return nil
		}
		fa, ok := x.X.(*ssa.FieldAddr)
		if !ok || fa.Field != ci {
			return nil
		}
		al, ok := fa.X.(*ssa.Alloc)
		if !ok {
			return nil
		}
		var only *ssa.Call
		n := 0
		for _, b := range al.Parent().Blocks {
			for _, in := range b.Instrs {
				if st, ok := in.(*ssa.Store); ok {
					if st.Addr == al {
						n++
						only = isCanon(st.Val)
					} else if fa2, ok := st.Addr.(*ssa.FieldAddr); ok && fa2.X == al {
						return nil
					}
				}
			}
		}
		if n == 1 {
			return only
		}
	}
	return nil
}

// coversAllElements: the argument of the canonicalStructSize call is
// src.Struct(i) with i the counter of "for i := 0; i < src.Len(); i++".
func coversAllElements(call *ssa.Call) string {
	if len(call.Call.Args) != 1 {
		return "canonicalStructSize is not applied to one element"
	}
	el, ok := call.Call.Args[0].(*ssa.Call)
	if !ok || ssaq.StaticCalleeName(el) != "capnp.(List).Struct" || len(el.Call.Args) != 2 {
		return "the canonical size is not taken of an element src.Struct(i)"
	}
	fn := call.Parent()
	src := ssaq.RenderValue(fn, el.Call.Args[0])
	i, ok := el.Call.Args[1].(*ssa.Phi)
	if !ok || len(i.Edges) != 2 {
		return "the element index is not a loop counter"
	}
	zero, step := false, false
	for _, e := range i.Edges {
		if n, ok := ssaq.ConstInt(e); ok && n == 0 {
			zero = true
		}
		if b, ok := e.(*ssa.BinOp); ok && b.Op == token.ADD {
			if n, ok := ssaq.ConstInt(b.Y); ok && n == 1 && b.X == i {
				step = true
			}
		}
	}
	if !zero || !step {
		return "the element loop does not count from 0 in steps of 1"
	}
	iff, ok := i.Block().Instrs[len(i.Block().Instrs)-1].(*ssa.If)
	if !ok {
		return "the element loop has no bound at its head"
	}
	lo, hi, ok := strictLess(iff.Cond, true)
	if !ok || lo != i {
		return "the element loop is not bounded by i < src.Len()"
	}
	if cv, isConv := hi.(*ssa.Convert); isConv {
		hi = cv.X
	}
	if ssaq.RenderValue(fn, hi) == src+".length" {
		hi = nil
	}
	ln, ok := hi.(*ssa.Call)
	if hi != nil && (!ok || ssaq.StaticCalleeName(ln) != "capnp.(List).Len" || len(ln.Call.Args) != 1 || ssaq.RenderValue(fn, ln.Call.Args[0]) != src) {
		return "the element loop is not bounded by the length of the list whose elements are measured"
	}
	if !i.Block().Dominates(call.Block()) {
		return "the measurement is outside the loop"
	}
	return ""
}

func sameLoad(a, b ssa.Value) bool {
	if a == b {
		return true
	}
	ua, ok1 := a.(*ssa.UnOp)
	ub, ok2 := b.(*ssa.UnOp)
	return ok1 && ok2 && ua.Op == token.MUL && ub.Op == token.MUL && ua.X == ub.X
}
