package rules

import (
	"fmt"
	"go/ast"
	"go/token"
	"go/types"
	"strings"
	"verifcheck/internal/core"

	"golang.org/x/tools/go/ssa"

	"verifcheck/internal/ssaq"
)

func init() {
	Register(&Spec{
		ID:          "C11",
		Explanation: "Decides structural necessary conditions of exactly-once, deadlock-free promise pipelining: (R1) lock balance and the documented 'caller must hold p.mu' contracts in answer.go, on every CFG path; (R2) all Promise fields declared after mu are only touched with Promise.mu held (named exemptions for the pending-state exclusive accesses); (R3) a lazily created map field is established non-nil on every path before each element assignment; (R4) every function that receives a capnp.Recv consumes its Returner exactly once on every path; (R5) ongoingCalls++/-- bracket the pipeline call on every path and callsStopped is closed only under ongoingCalls == 0 && callsStopped != nil; (R6) joined/signals are cleared after being closed, and Fulfill/Reject/Join act only when isUnresolved(); (R7) no application code and no re-lock under Promise.mu. (R6c) rows written by Join into the target's clients table extend the existing row; (R7p) no foreign code is reached in any function while a Promise.mu is held. (R6d) close(p.joined) in Join depends on nothing but p.joined being set. (R8b, R8c) ClientPromise.Fulfill credits the references to the resolution, before waiting for the old hook (shared with C10-R6b/R6c). (R10) the call goroutine of a local server settles the answer queue (fulfill or reject) before it calls Returner.Return. Does NOT decide exactly-once delivery under all interleavings nor reference transfer of proxy clients.",
		Run:         runC11,
	})
}

func runC11(ctx *Ctx) {
	ruleJoinMergesRows(ctx, "C11-R6c")
	ruleJoinedAlwaysClosed(ctx, "C11-R6d")
	ruleResolutionOnlyWhenResolved(ctx, "C11-R9")
	ruleQueueSettledBeforeReturn(ctx, "C11-R10")
	// pipelined clients handed out earlier end up referring to the resolved
	// capability: what ClientPromise.Fulfill credits and when (shared with
	// C10-R6b/R6c)
	ruleFulfillTarget(ctx, "C11-R8b")
	ruleFulfillCreditsBeforeWait(ctx, "C11-R8c")
	scope := fileScope(ctx, "answer.go")
	ruleLockBalance(ctx, "C11-R1", scope)
	ruleLockContracts(ctx, "C11-R1c", func(n string) bool { return strings.HasPrefix(n, "capnp.(*Promise).") })
	ruleGuardedBy(ctx, "C11-R2", func(g guardedField) bool { return capnpField(g, "Promise") })
	ruleLazyMap(ctx, "C11-R3", "")
	ruleRecvLinear(ctx, "C11-R4", func(name string) bool {
		return strings.HasPrefix(name, "capnp.")
	})
	ruleOngoingCalls(ctx, "C11-R5")
	ruleResolveOnce(ctx, "C11-R6")
	ruleJoinState(ctx, "C11-R6b")
	ctx.Rep.Floor("C11-R6b", 4)
	rulePolicy(ctx, "C11-R7", scope, heldPolicy{noDynamic: []string{"capnp.Promise.mu"}})
	// ... and no foreign code (ClientHook methods, callbacks) is reached, in any
	// function, while a Promise.mu taken in answer.go is held (absolute lock state
	// propagated from the entry points): the client promises are fulfilled only
	// after resolve has dropped the lock
	// (blocking receives are not part of this policy: Join waits for callsStopped of
	// one promise while it holds the mutex of the other, by design)
	rulePolicy(ctx, "C11-R7p", allUnits, heldPolicy{noDynamic: []string{"capnp.Promise.mu"}})
	r := ctx.Rep
	r.Floor("C11-R1", 40)
	r.Floor("C11-R1c", 7)
	r.Floor("C11-R2", 80)
	r.Floor("C11-R3", 2)
	r.Floor("C11-R4", 4)
	r.Floor("C11-R5", 6)
	r.Floor("C11-R6", 6)
	r.Floor("C11-R7", 30)
	r.Assumption("lock identity is per class; Promise.mu may be held twice (p and its parent) as documented, so re-lock of Promise.mu is not flagged")
}

// ruleLazyMap is C11-R3.
func ruleLazyMap(ctx *Ctx, rule string, pkgRel string) {
	q := ssaq.For(ctx.Prog)
	r := ctx.Rep
	funcs := q.FuncsIn(pkgRel)
	// Discover lazily initialised map fields: a store of MakeMap to base.f in a
	// block guarded by base.f == nil.
	lazy := map[*types.Var]string{}
	for _, f := range funcs {
		for _, b := range f.Blocks {
			for _, in := range b.Instrs {
				st, ok := in.(*ssa.Store)
				if !ok {
					continue
				}
				if _, ok := st.Val.(*ssa.MakeMap); !ok {
					continue
				}
				fa, ok := st.Addr.(*ssa.FieldAddr)
				if !ok {
					continue
				}
				fld := ssaq.FieldVar(fa)
				for _, c := range ssaq.FieldCmps(ssaq.Atoms(ssaq.Guards(b))) {
					if c.Field == fld && c.IsNil && c.Op == token.EQL && c.Base == ssaq.AccessPath(fa.X) {
						lazy[fld] = ssaq.FuncName(f)
					}
				}
			}
		}
	}
	if len(lazy) == 0 {
		r.Fail("%s: no lazily initialised map field found (expected Promise.clients)", rule)
		return
	}
	for _, f := range funcs {
		n := 0
		for _, b := range f.Blocks {
			for _, in := range b.Instrs {
				mu, ok := in.(*ssa.MapUpdate)
				if !ok {
					continue
				}
				fld, base := ssaq.LoadedField(mu.Map)
				if fld == nil || lazy[fld] == "" {
					continue
				}
				n++
				bp := ssaq.AccessPath(base)
				key := fmt.Sprintf("%s | %s.%s[...] = #%d", ssaq.FuncName(f), bp, fld.Name(), n)
				pos := q.Pos(ssaq.InstrPos(in))
				if ssaq.MustNonNilField(f, in, fld, bp) {
					r.Ok(rule, key, pos, "the map is made or tested non-nil on every path to this assignment")
				} else {
					r.Violation(rule, key, pos, fmt.Sprintf("assignment into map field %s.%s, which is created lazily (see %s) and can still be nil on a path to this statement: 'assignment to entry in nil map' panic", bp, fld.Name(), lazy[fld]))
				}
			}
		}
	}
}

// ruleOngoingCalls is C11-R5.
func ruleOngoingCalls(ctx *Ctx, rule string) {
	a := lockAnalysis(ctx)
	if a == nil {
		return
	}
	r := ctx.Rep
	oc := mustField(ctx, rule, "", "Promise", "ongoingCalls")
	cs := mustField(ctx, rule, "", "Promise", "callsStopped")
	if oc == nil || cs == nil {
		return
	}
	incs := 0
	for _, u := range a.UnitsSorted() {
		if !strings.HasPrefix(u.Name, "capnp.") {
			continue
		}
		info := u.Pkg.TypesInfo
		isInc := func(m ast.Node) bool {
			s, ok := m.(*ast.IncDecStmt)
			return ok && s.Tok == token.INC && fieldOfSel(info, s.X) == oc
		}
		isDec := func(m ast.Node) bool {
			s, ok := m.(*ast.IncDecStmt)
			return ok && s.Tok == token.DEC && fieldOfSel(info, s.X) == oc
		}
		for _, p := range u.Find(isInc) {
			incs++
			node := p.B.Nodes[p.I]
			pathCheck(ctx, a, rule, u.Name+" | ongoingCalls-- after ++", u, p.After(), node.Pos(), isDec, nil,
				"p.ongoingCalls-- : otherwise resolve/Join wait on callsStopped forever")
			// the dynamic pipeline call lies between ++ and --
			isDyn := func(m ast.Node) bool {
				c, ok := m.(*ast.CallExpr)
				return ok && strings.HasPrefix(dynamicCallee(info, c), "interface method capnp.(PipelineCaller).")
			}
			noPathCheck(ctx, a, rule, u.Name+" | pipeline call inside the bracket", u, u.Entry(), node.Pos(), isDyn, isInc,
				"the PipelineCaller is invoked on a path that did not first increment ongoingCalls: resolve may complete while the call is in flight",
				"every path to the PipelineCaller call passes ongoingCalls++")
		}
	}
	if incs < 2 {
		r.Fail("%s: expected ongoingCalls++ in PipelineSend and PipelineRecv, found %d", rule, incs)
	}
	// close(callsStopped) only under ongoingCalls == 0 && callsStopped != nil
	q := ssaq.For(ctx.Prog)
	closes := 0
	for _, f := range q.FuncsIn("") {
		for _, b := range f.Blocks {
			for _, in := range b.Instrs {
				cc, ok := ssaq.BuiltinCall(in, "close")
				if !ok || len(cc.Args) != 1 {
					continue
				}
				fld, base := ssaq.LoadedField(cc.Args[0])
				if fld != cs {
					continue
				}
				closes++
				bp := ssaq.AccessPath(base)
				key := fmt.Sprintf("%s | close(%s.callsStopped)", ssaq.FuncName(f), bp)
				cmps := ssaq.FieldCmps(ssaq.Atoms(ssaq.Guards(b)))
				zero, nonNil := false, false
				for _, c := range cmps {
					if c.Base != bp {
						continue
					}
					if c.Field == oc && !c.IsNil && ((c.Op == token.EQL && c.K == 0) || (c.Op == token.LEQ && c.K == 0)) {
						zero = true
					}
					if c.Field == cs && c.IsNil && c.Op == token.NEQ {
						nonNil = true
					}
				}
				pos := q.Pos(ssaq.InstrPos(in))
				if zero && nonNil {
					r.Ok(rule, key, pos, "dominated by ongoingCalls == 0 && callsStopped != nil")
				} else {
					r.Violation(rule, key, pos, fmt.Sprintf("callsStopped is closed without both guards (ongoingCalls == 0: %v, callsStopped != nil: %v): early wake-up of resolve/Join or close of nil channel", zero, nonNil))
				}
			}
		}
	}
	if closes < 1 {
		r.Fail("%s: no close(callsStopped) site found (found %d)", rule, closes)
	}
}

// ruleResolveOnce is C11-R6.
func ruleResolveOnce(ctx *Ctx, rule string) {
	a := lockAnalysis(ctx)
	if a == nil {
		return
	}
	r := ctx.Rep
	joined := mustField(ctx, rule, "", "Promise", "joined")
	signals := mustField(ctx, rule, "", "Promise", "signals")
	if joined == nil || signals == nil {
		return
	}
	cP := a.Sem.ClassByName("capnp.Promise.mu")
	for _, u := range a.UnitsSorted() {
		if !strings.HasPrefix(u.Name, "capnp.") {
			continue
		}
		info := u.Pkg.TypesInfo
		isUnlock := func(m ast.Node) bool {
			c, ok := m.(*ast.CallExpr)
			if !ok {
				return false
			}
			if _, isDefer := m.(*ast.DeferStmt); isDefer {
				return false
			}
			return calleeName(info, c) == "sync.(*Mutex).Unlock" && a.Sem.ClassOf(fieldOfSelRecv(info, c)) == cP
		}
		k := 0
		for _, p := range u.Find(func(m ast.Node) bool { return isBuiltinCall(info, m, "close", joined) }) {
			k++
			node := p.B.Nodes[p.I]
			isClear := func(m ast.Node) bool {
				as, ok := m.(*ast.AssignStmt)
				return ok && len(as.Lhs) == 1 && fieldOfSel(info, as.Lhs[0]) == joined && isNil(as.Rhs[0])
			}
			// between the close and the next unlock (or return) the field must be cleared
			res := a.Eng.Reaches(u, p.After(), isUnlock, isClear)
			key := fmt.Sprintf("%s | joined cleared after close #%d", u.Name, k)
			if res.Found {
				r.Violation(rule, key, ctx.Prog.Rel(node.Pos()), "p.joined is closed but the mutex can be released before p.joined = nil: a second transition would close the channel again (panic)", res.Trace...)
			} else {
				pathCheck(ctx, a, rule, key, u, p.After(), node.Pos(), isClear, nil, "p.joined = nil")
			}
		}
		// signals: a range loop closing them must be followed by p.signals = nil
		for _, p := range u.Find(func(m ast.Node) bool {
			rs, ok := m.(ast.Expr)
			return ok && fieldOfSel(info, rs) == signals && isRangeOperand(u.Body, rs)
		}) {
			node := p.B.Nodes[p.I]
			isClear := func(m ast.Node) bool {
				as, ok := m.(*ast.AssignStmt)
				return ok && len(as.Lhs) == 1 && fieldOfSel(info, as.Lhs[0]) == signals && isNil(as.Rhs[0])
			}
			pathCheck(ctx, a, rule, u.Name+" | signals cleared after being closed", u, p.After(), node.Pos(), isClear, nil, "p.signals = nil after closing every signal")
		}
	}
	// Fulfill / Reject / Join act only when isUnresolved().
	q := ssaq.For(ctx.Prog)
	for _, name := range []string{"capnp.(*Promise).Fulfill", "capnp.(*Promise).Reject", "capnp.(*Promise).Join"} {
		f := q.Func(name)
		if f == nil {
			r.Fail("%s: anchor %s not found", rule, name)
			continue
		}
		found := false
		for _, b := range frameBlocks(f) {
			for _, in := range b.Instrs {
				// the state transition: a call of resolve, or a store to p.caller
				isTransition := ssaq.StaticCalleeName(in) == "capnp.(*Promise).resolve"
				if st, ok := in.(*ssa.Store); ok {
					if fa, ok := st.Addr.(*ssa.FieldAddr); ok && ssaq.FieldVar(fa) != nil && core.FieldName(ssaq.FieldVar(fa)) == "caller" {
						isTransition = true
					}
				}
				if !isTransition {
					continue
				}
				found = true
				ok := false
				for _, at := range ssaq.Atoms(ssaq.Guards(b)) {
					if at.Op == token.ILLEGAL && at.True {
						if c, isCall := at.Val.(*ssa.Call); isCall && ssaq.StaticCalleeName(c) == "capnp.(*Promise).isUnresolved" {
							ok = true
						}
					}
				}
				// the test may sit in a helper that did not exist on the
				// reference tree and returns only when it holds (DomAtoms
				// adds what such a helper establishes)
				for _, at := range ssaq.DomAtoms(in) {
					if strings.HasPrefix(at, "isUnresolved(") {
						ok = true
					}
				}
				k2 := fmt.Sprintf("%s | state transition guarded by isUnresolved()", name)
				if ok {
					r.Ok(rule, k2, q.Pos(ssaq.InstrPos(in)), "dominated by isUnresolved() == true (the other edge panics)")
				} else {
					r.Violation(rule, k2, q.Pos(ssaq.InstrPos(in)), "the promise can be resolved/joined without the isUnresolved() test: a second Fulfill/Reject/Join would resolve it again")
				}
			}
		}
		if !found {
			r.Fail("%s: no state transition found in %s", rule, name)
		}
	}
}

// fieldOfSelRecv returns the field object of the receiver of a method call x.f.M().
func fieldOfSelRecv(info *types.Info, c *ast.CallExpr) types.Object {
	sel, ok := ast.Unparen(c.Fun).(*ast.SelectorExpr)
	if !ok {
		return nil
	}
	if f := fieldOfSel(info, sel.X); f != nil {
		return f
	}
	return nil
}

// isRangeOperand reports whether x is the X of a range statement in body.
func isRangeOperand(body ast.Node, x ast.Expr) bool {
	found := false
	ast.Inspect(body, func(n ast.Node) bool {
		if rs, ok := n.(*ast.RangeStmt); ok && rs.X == x {
			found = true
		}
		return !found
	})
	return found
}
