// Package locks instantiates the flow engine for mutexes and logical locks
// and provides the lock-related rules shared by C06, C08..C12.
package locks

import (
	"fmt"
	"go/ast"
	"go/types"
	"sort"
	"strings"

	"golang.org/x/tools/go/packages"
	"golang.org/x/tools/go/types/typeutil"

	"verifcheck/internal/core"
	"verifcheck/internal/flow"
)

// Logical locks: a store of a non-nil value acquires, a store of nil releases.
var LogicalLocks = []struct{ Pkg, Type, Field string }{
	{"rpc", "Conn", "sendCond"},
	{"server", "Server", "starting"},
}

// Sem implements flow.Semantics for locks.
type Sem struct {
	classes map[types.Object]int
	names   []string
	objs    []types.Object
	logical map[types.Object]bool
	// Ops counts primitive operations seen per class (for floors).
	Ops map[int]int
}

func NewSem(p *core.Prog) *Sem {
	s := &Sem{classes: map[types.Object]int{}, logical: map[types.Object]bool{}, Ops: map[int]int{}}
	for _, ll := range LogicalLocks {
		pk := p.Pkg(ll.Pkg)
		if pk == nil {
			continue
		}
		if f := FieldOf(pk, ll.Type, ll.Field); f != nil {
			s.logical[f] = true
			s.class(f)
		}
	}
	return s
}

// FieldOf returns the field object Type.Field of package pk.
func FieldOf(pk *packages.Package, typ, field string) *types.Var {
	obj := core.LookupType(pk.Types.Scope(), typ)
	if obj == nil {
		return nil
	}
	st, ok := obj.Type().Underlying().(*types.Struct)
	if !ok {
		return nil
	}
	for i := 0; i < st.NumFields(); i++ {
		if core.FieldName(st.Field(i)) == field {
			return st.Field(i)
		}
	}
	return nil
}

func (s *Sem) class(o types.Object) int {
	if id, ok := s.classes[o]; ok {
		return id
	}
	id := len(s.names)
	s.classes[o] = id
	s.objs = append(s.objs, o)
	s.names = append(s.names, objName(o))
	return id
}

// ClassOf returns the class id of a field object, or -1.
func (s *Sem) ClassOf(o types.Object) int {
	if id, ok := s.classes[o]; ok {
		return id
	}
	return -1
}

// ClassByName finds a class by its rendered name (e.g. "rpc.Conn.mu").
func (s *Sem) ClassByName(name string) int {
	for i, n := range s.names {
		if n == name {
			return i
		}
	}
	return -1
}

func (s *Sem) NumClasses() int { return len(s.names) }

func objName(o types.Object) string {
	v, ok := o.(*types.Var)
	pkg := ""
	if o.Pkg() != nil {
		pkg = strings.TrimPrefix(strings.TrimPrefix(o.Pkg().Path(), core.ModPath), "/")
		if pkg == "" {
			pkg = "capnp"
		}
	}
	if ok && v.IsField() {
		// find the owning named type by scanning the package scope
		if o.Pkg() != nil {
			sc := o.Pkg().Scope()
			for _, n := range sc.Names() {
				tn, ok := sc.Lookup(n).(*types.TypeName)
				if !ok {
					continue
				}
				if st, ok := tn.Type().Underlying().(*types.Struct); ok {
					for i := 0; i < st.NumFields(); i++ {
						if st.Field(i) == v {
							return fmt.Sprintf("%s.%s.%s", pkg, core.TypeRefName(tn), core.FieldName(v))
						}
					}
				}
			}
		}
		return fmt.Sprintf("%s.?.%s", pkg, v.Name())
	}
	return fmt.Sprintf("%s.%s", pkg, o.Name())
}

func (s *Sem) ClassName(c int) string {
	if c < 0 || c >= len(s.names) {
		return fmt.Sprintf("class%d", c)
	}
	return s.names[c]
}

func (s *Sem) NoReturn(info *types.Info, call *ast.CallExpr) bool {
	fn, _ := typeutil.Callee(info, call).(*types.Func)
	if fn == nil || fn.Pkg() == nil {
		return false
	}
	switch fn.Pkg().Path() + "." + fn.Name() {
	case "os.Exit", "log.Fatal", "log.Fatalf", "log.Fatalln", "log.Panic", "log.Panicf", "runtime.Goexit":
		return true
	}
	return false
}

func isMutexType(t types.Type) bool {
	if p, ok := t.(*types.Pointer); ok {
		t = p.Elem()
	}
	n, ok := t.(*types.Named)
	if !ok || n.Obj().Pkg() == nil || n.Obj().Pkg().Path() != "sync" {
		return false
	}
	return n.Obj().Name() == "Mutex" || n.Obj().Name() == "RWMutex"
}

// MutexOp classifies call as an operation on a mutex and returns the lock
// object (struct field or variable) it acts on.
func MutexOp(info *types.Info, call *ast.CallExpr) (obj types.Object, delta int, ok bool) {
	sel, isSel := ast.Unparen(call.Fun).(*ast.SelectorExpr)
	if !isSel {
		return nil, 0, false
	}
	fn, _ := info.Uses[sel.Sel].(*types.Func)
	if fn == nil || fn.Pkg() == nil || fn.Pkg().Path() != "sync" {
		return nil, 0, false
	}
	sig := fn.Type().(*types.Signature)
	if sig.Recv() == nil || !isMutexType(sig.Recv().Type()) {
		return nil, 0, false
	}
	switch fn.Name() {
	case "Lock", "RLock":
		delta = 1
	case "Unlock", "RUnlock":
		delta = -1
	default:
		return nil, 0, false
	}
	// Which mutex?
	if selection := info.Selections[sel]; selection != nil && len(selection.Index()) > 1 {
		// promoted through embedding: find the embedded field
		t := selection.Recv()
		var f *types.Var
		for _, idx := range selection.Index()[:len(selection.Index())-1] {
			if p, ok := t.Underlying().(*types.Pointer); ok {
				t = p.Elem()
			}
			st, ok := t.Underlying().(*types.Struct)
			if !ok {
				break
			}
			f = st.Field(idx)
			t = f.Type()
		}
		if f != nil {
			return f, delta, true
		}
	}
	switch x := ast.Unparen(sel.X).(type) {
	case *ast.SelectorExpr:
		if o := info.Uses[x.Sel]; o != nil {
			return o, delta, true
		}
	case *ast.Ident:
		if o := info.Uses[x]; o != nil {
			return o, delta, true
		}
	case *ast.UnaryExpr:
		if s2, ok := ast.Unparen(x.X).(*ast.SelectorExpr); ok {
			if o := info.Uses[s2.Sel]; o != nil {
				return o, delta, true
			}
		}
	}
	return nil, 0, false
}

func (s *Sem) Call(info *types.Info, call *ast.CallExpr) ([]flow.Effect, bool) {
	obj, delta, ok := MutexOp(info, call)
	if !ok {
		return nil, false
	}
	c := s.class(obj)
	s.Ops[c]++
	return []flow.Effect{{C: c, N: delta}}, true
}

func (s *Sem) Assign(info *types.Info, lhs, rhs ast.Expr) []flow.Effect {
	sel, ok := ast.Unparen(lhs).(*ast.SelectorExpr)
	if !ok {
		return nil
	}
	o := info.Uses[sel.Sel]
	if o == nil || !s.logical[o] {
		return nil
	}
	c := s.class(o)
	if id, ok := ast.Unparen(rhs).(*ast.Ident); ok && id.Name == "nil" {
		return []flow.Effect{{C: c, N: -1}}
	}
	return []flow.Effect{{C: c, N: 1}}
}

// ---------------------------------------------------------------------------

// Analysis bundles the engine results for the three concurrency packages.
type Analysis struct {
	Prog *core.Prog
	Sem  *Sem
	Eng  *flow.Engine
	Abs  *flow.Abs
	Pkgs []*packages.Package
	// addrTaken: functions whose value is used other than being called.
	addrTaken map[*types.Func]bool
}

// Run analyses capnp, rpc and server.
func Run(p *core.Prog) (*Analysis, error) {
	var pkgs []*packages.Package
	for _, rel := range []string{"", "rpc", "server"} {
		pk := p.Pkg(rel)
		if pk == nil {
			return nil, fmt.Errorf("package %q not found", rel)
		}
		pkgs = append(pkgs, pk)
	}
	a := &Analysis{Prog: p, Sem: NewSem(p), Pkgs: pkgs, addrTaken: map[*types.Func]bool{}}
	a.Eng = flow.NewEngine(a.Sem, pkgs)
	a.Eng.Run()
	// address-taken functions
	for _, pk := range pkgs {
		for _, f := range pk.Syntax {
			called := map[*ast.Ident]bool{}
			ast.Inspect(f, func(n ast.Node) bool {
				if c, ok := n.(*ast.CallExpr); ok {
					switch fx := ast.Unparen(c.Fun).(type) {
					case *ast.Ident:
						called[fx] = true
					case *ast.SelectorExpr:
						called[fx.Sel] = true
					}
				}
				return true
			})
			ast.Inspect(f, func(n ast.Node) bool {
				if id, ok := n.(*ast.Ident); ok && !called[id] {
					if fn, ok := pk.TypesInfo.Uses[id].(*types.Func); ok {
						a.addrTaken[fn] = true
					}
				}
				return true
			})
		}
	}
	a.Abs = a.Eng.Propagate(a.IsEntry)
	return a, nil
}

// IsEntry: units that start with no lock held by construction: exported
// functions and methods, methods with exported names on any type (interface
// implementations), functions whose value is taken, goroutine and value
// literals, and init/main.
func (a *Analysis) IsEntry(u *flow.Unit) bool {
	switch u.Kind {
	case flow.KindGoLit, flow.KindValueLit:
		return true
	case flow.KindDeferLit, flow.KindCallLit:
		return false
	}
	if u.Obj == nil {
		return true
	}
	if u.Obj.Exported() || a.addrTaken[u.Obj] {
		return true
	}
	return false
}

// Held reports min and max absolute count of class c before node n.
func (a *Analysis) Held(u *flow.Unit, n ast.Node, c int) (min, max int, known bool) {
	ds := a.Abs.At(u, n)
	if len(ds) == 0 {
		return 0, 0, false
	}
	min, max = 1<<30, -(1 << 30)
	for _, d := range ds {
		v := d[c]
		if v < min {
			min = v
		}
		if v > max {
			max = v
		}
	}
	return min, max, true
}

// UnitsSorted returns units in source order.
func (a *Analysis) UnitsSorted() []*flow.Unit {
	us := append([]*flow.Unit{}, a.Eng.Units...)
	sort.Slice(us, func(i, j int) bool { return us[i].Pos < us[j].Pos })
	return us
}
