package ssaq

import (
	"golang.org/x/tools/go/ssa"
)

// A mergeAlt is one acyclic path from the immediate dominator of a merge block
// to the merge block: the branch conditions along it and the predecessor
// through which it enters (which fixes the value of the block's phis).
type mergeAlt struct {
	guards []Guard
	pred   *ssa.BasicBlock
}

type merge struct {
	block *ssa.BasicBlock
	alts  []mergeAlt
}

// mergeAlternatives looks at the blocks on b's dominator chain that are
// entered through several edges (the code after an if/else or a switch whose
// arms do not all return, the block that tests "a && b"). For such a block cur
// with immediate dominator d the branch conditions between d and cur do not
// dominate b, but their disjunction does: every execution that reaches b took
// one of the acyclic paths from d to cur. Merges with a cycle between d and
// cur, loop headers, and merges with more than 8 paths are left out (no
// information, as without this function).
func mergeAlternatives(b *ssa.BasicBlock) []merge {
	var out []merge
	for cur := b; cur != nil; cur = cur.Idom() {
		d := cur.Idom()
		if d == nil {
			break
		}
		if len(cur.Preds) < 2 {
			continue
		}
		loop := false
		for _, p := range cur.Preds {
			if cur.Dominates(p) {
				loop = true
			}
		}
		if loop {
			continue
		}
		var alts []mergeAlt
		bad := false
		onPath := map[*ssa.BasicBlock]bool{}
		var walk func(x, from *ssa.BasicBlock, gs []Guard)
		walk = func(x, from *ssa.BasicBlock, gs []Guard) {
			if bad {
				return
			}
			if x == cur {
				alts = append(alts, mergeAlt{guards: append([]Guard{}, gs...), pred: from})
				if len(alts) > 8 {
					bad = true
				}
				return
			}
			if onPath[x] {
				bad = true // a cycle between d and cur
				return
			}
			if x != d && !d.Dominates(x) {
				return
			}
			onPath[x] = true
			defer delete(onPath, x)
			if ifi, ok := x.Instrs[len(x.Instrs)-1].(*ssa.If); ok && x.Succs[0] != x.Succs[1] {
				walk(x.Succs[0], x, append(gs, Guard{Cond: ifi.Cond, True: true, If: ifi}))
				walk(x.Succs[1], x, append(gs, Guard{Cond: ifi.Cond, True: false, If: ifi}))
				return
			}
			for _, s := range x.Succs {
				walk(s, x, gs)
			}
		}
		walk(d, nil, nil)
		if bad || len(alts) < 2 {
			continue
		}
		out = append(out, merge{block: cur, alts: alts})
	}
	return out
}

// domAtoms renders the conditions known at in: the branch conditions on its
// dominator chain, what dominating calls of new assert-style helpers
// establish, the atoms handed in by the caller (extra), and what follows from
// all that (DeriveAtoms) — strengthened by what holds on every feasible
// combination of the alternatives of the merges above in. In a combination the
// phis of each merge block take the value of the chosen entry edge (so the test
// of "a && b" contributes a, b where it is true and {!a} or {a, !b} where it is
// false); a combination that contains an atom together with its negation is
// infeasible; an atom is added when it is in all feasible combinations. The
// result always contains the atoms computed without looking at merges.
func (fp *fingerprinter) domAtoms(in ssa.Instruction, extra []string) []string {
	gs := Guards(in.Block())
	render := func() []string {
		atoms := append([]string{}, extra...)
		for _, g := range gs {
			atoms = append(atoms, fp.cond(g.Cond, g.True)...)
		}
		return append(atoms, fp.assertAtoms(in)...)
	}
	plain := DeriveAtoms(render())
	merges := mergeAlternatives(in.Block())
	if len(merges) == 0 {
		return plain
	}
	// choose the merges to split on within a budget of 32 combinations
	var use []merge
	n := 1
	for _, m := range merges {
		if n*len(m.alts) > 32 {
			continue
		}
		n *= len(m.alts)
		use = append(use, m)
	}
	if len(use) == 0 {
		return plain
	}
	var common map[string]bool
	choice := make([]int, len(use))
	for {
		for i, m := range use {
			fp.pred[m.block] = m.alts[choice[i]].pred
		}
		atoms := render()
		for i, m := range use {
			for _, g := range m.alts[choice[i]].guards {
				atoms = append(atoms, fp.cond(g.Cond, g.True)...)
			}
		}
		d := DeriveAtoms(atoms)
		feasible := Consistent(d)
		for _, a := range d {
			if a == "false" {
				feasible = false
			}
		}
		if feasible {
			set := map[string]bool{}
			for _, a := range d {
				set[a] = true
			}
			if common == nil {
				common = set
			} else {
				for a := range common {
					if !set[a] {
						delete(common, a)
					}
				}
			}
		}
		// next combination
		k := 0
		for k < len(use) {
			choice[k]++
			if choice[k] < len(use[k].alts) {
				break
			}
			choice[k] = 0
			k++
		}
		if k == len(use) {
			break
		}
	}
	for _, m := range use {
		delete(fp.pred, m.block)
	}
	if common == nil {
		return plain
	}
	for _, a := range plain {
		common[a] = true
	}
	var out []string
	for a := range common {
		out = append(out, a)
	}
	return sortedCopy(out)
}
