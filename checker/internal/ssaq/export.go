package ssaq

import "golang.org/x/tools/go/ssa"

// IsNewHelper reports whether f did not exist on the reference tree (by the
// reference-name table) — such functions are looked through by the frames.
func IsNewHelper(f *ssa.Function) bool { return isNewHelper(f) }
