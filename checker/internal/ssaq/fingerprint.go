package ssaq

import (
	"fmt"
	"go/constant"
	"go/token"
	"go/types"
	"sort"
	"strings"
	"verifcheck/internal/core"

	"golang.org/x/tools/go/ssa"
)

// Fingerprint is E4's normal form of a small, loop-free function: one line
// per path from entry to return,
//
//	cond && cond ... => effects ; return (v, v)
//
// where conditions and values are expression trees over the parameters with
// temporaries, statement order, if/switch shape and operand order of
// commutative operators normalised away, and comparisons oriented (< and <=
// only, negations pushed in).
func Fingerprint(f *ssa.Function) ([]string, error) {
	if f == nil || len(f.Blocks) == 0 {
		return nil, fmt.Errorf("no body")
	}
	// locals render by their definitions: the normal form does not depend on
	// the names of local variables, and building a struct value field by field
	// in a local is not an effect
	fp := &fingerprinter{f: f, deflocals: true, spill: map[*ssa.Alloc]ssa.Value{}}
	var lines []string
	var walk func(b *ssa.BasicBlock, pred *ssa.BasicBlock, conds []string, effects []string, visited map[*ssa.BasicBlock]bool) error
	var walkFrom func(b *ssa.BasicBlock, pred *ssa.BasicBlock, start int, conds []string, effects []string, visited map[*ssa.BasicBlock]bool) error
	// inlineWalk walks the paths of the loop-free new helper g called at call,
	// adding its conditions and effects to the caller's, and resumes the caller
	// (k) at each return of g with the rendering of g's results on that path.
	inlineWalk := func(g *ssa.Function, call *ssa.Call, conds, effects []string, k func(conds, effects []string, res string) error) error {
		c := fp.child(g, call.Call.Args)
		var hw func(hb, hpred *ssa.BasicBlock, conds, effects []string, hv map[*ssa.BasicBlock]bool) error
		hw = func(hb, hpred *ssa.BasicBlock, conds, effects []string, hv map[*ssa.BasicBlock]bool) error {
			if hv[hb] {
				return fmt.Errorf("loop through block %d of %s", hb.Index, g.Name())
			}
			hv[hb] = true
			defer delete(hv, hb)
			c.pred[hb] = hpred
			for _, in := range hb.Instrs {
				switch x := in.(type) {
				case *ssa.Store:
					if _, isParam := x.Val.(*ssa.Parameter); isParam {
						if al, ok := x.Addr.(*ssa.Alloc); ok && al.Comment == x.Val.Name() {
							continue
						}
					}
					if c.definesLocal(x) {
						continue
					}
					effects = append(effects, fmt.Sprintf("%s = %s", c.storeAddr(x.Addr), c.expr(x.Val)))
				case *ssa.MapUpdate:
					effects = append(effects, fmt.Sprintf("%s[%s] = %s", c.expr(x.Map), c.expr(x.Key), c.expr(x.Value)))
				case *ssa.Call:
					if x.Referrers() == nil || len(*x.Referrers()) == 0 || isEffectful(x) {
						effects = append(effects, c.expr(x))
					}
				case *ssa.Panic:
					if cs, es, rr, ok := canonLine(conds, dropDeferred(effects), []string{c.expr(x.X)}); ok {
						lines = append(lines, strings.Join(cs, " && ")+" => "+strings.Join(es, "; ")+" ; panic("+rr[0]+")")
					}
					return nil
				case *ssa.Return:
					var rs []string
					for _, r := range x.Results {
						rs = append(rs, c.expr(r))
					}
					return k(conds, effects, strings.Join(rs, "\x00"))
				case *ssa.If:
					if err := hw(hb.Succs[0], hb, append(append([]string{}, conds...), c.cond(x.Cond, true)...), append([]string{}, effects...), hv); err != nil {
						return err
					}
					return hw(hb.Succs[1], hb, append(append([]string{}, conds...), c.cond(x.Cond, false)...), append([]string{}, effects...), hv)
				case *ssa.Jump:
					return hw(hb.Succs[0], hb, conds, effects, hv)
				}
			}
			return nil
		}
		return hw(g.Blocks[0], nil, conds, effects, map[*ssa.BasicBlock]bool{})
	}
	walk = func(b *ssa.BasicBlock, pred *ssa.BasicBlock, conds []string, effects []string, visited map[*ssa.BasicBlock]bool) error {
		return walkFrom(b, pred, 0, conds, effects, visited)
	}
	walkFrom = func(b *ssa.BasicBlock, pred *ssa.BasicBlock, start int, conds []string, effects []string, visited map[*ssa.BasicBlock]bool) error {
		if start == 0 {
			if visited[b] {
				return fmt.Errorf("loop through block %d", b.Index)
			}
			visited[b] = true
			defer delete(visited, b)
			fp.pred[b] = pred
		}
		for idx, in := range b.Instrs {
			if idx < start {
				continue
			}
			if hc, isCall := in.(*ssa.Call); isCall {
				if g := hc.Call.StaticCallee(); isNewHelper(g) && valueHelper(g) && !usedInCond(hc, 0) {
					// a new helper whose result is used as a value: the caller
					// has one path per path of the helper (virtual inlining)
					next := idx + 1
					return inlineWalk(g, hc, conds, effects, func(conds2, effects2 []string, res string) error {
						if fp.override == nil {
							fp.override = map[ssa.Value]string{}
						}
						prev, had := fp.override[hc]
						fp.override[hc] = res
						err := walkFrom(b, pred, next, append([]string{}, conds2...), append([]string{}, effects2...), visited)
						if had {
							fp.override[hc] = prev
						} else {
							delete(fp.override, hc)
						}
						return err
					})
				}
			}
			switch x := in.(type) {
			case *ssa.Store:
				if _, isParam := x.Val.(*ssa.Parameter); isParam {
					if al, ok := x.Addr.(*ssa.Alloc); ok && al.Comment == x.Val.Name() {
						fp.spill[al] = x.Val
						continue // spilled parameter
					}
				}
				if fp.definesLocal(x) {
					continue // the value shows where the local is used
				}
				effects = append(effects, fmt.Sprintf("%s = %s", fp.storeAddr(x.Addr), fp.expr(x.Val)))
			case *ssa.MapUpdate:
				effects = append(effects, fmt.Sprintf("%s[%s] = %s", fp.expr(x.Map), fp.expr(x.Key), fp.expr(x.Value)))
			case *ssa.Call:
				if x.Referrers() == nil || len(*x.Referrers()) == 0 {
					effects = append(effects, fp.expr(x))
				} else if isEffectful(x) {
					effects = append(effects, fp.expr(x))
				}
			case *ssa.Defer:
				// a deferred call is an effect at the point where the
				// function returns (RunDefers), in reverse order of deferral
				effects = append(effects, deferMark+fp.callString(&x.Call))
			case *ssa.RunDefers:
				effects = runDeferred(effects)
			case *ssa.Panic:
				if cs, es, rr, ok := canonLine(conds, dropDeferred(effects), []string{fp.expr(x.X)}); ok {
					lines = append(lines, strings.Join(cs, " && ")+" => "+strings.Join(es, "; ")+" ; panic("+rr[0]+")")
				}
				return nil
			case *ssa.Return:
				var rs []string
				for _, r := range x.Results {
					rs = append(rs, fp.expr(r))
				}
				effs, rs := resolveSpills(dropDeferred(effects), rs)
				if cs, es, rr, ok := canonLine(conds, effs, rs); ok {
					lines = append(lines, strings.Join(cs, " && ")+" => "+strings.Join(es, "; ")+" ; return ("+strings.Join(rr, ", ")+")")
				}
				return nil
			case *ssa.If:
				if hc, t, ok := helperCall(x.Cond, true); ok {
					// a new boolean helper: one path of the caller per path of the helper
					tp, ok1 := fp.helperPaths(hc.Call.StaticCallee(), hc.Call.Args, t)
					fpths, ok2 := fp.helperPaths(hc.Call.StaticCallee(), hc.Call.Args, !t)
					if ok1 && ok2 {
						for _, pa := range tp {
							atoms, res := splitHelperPath(pa)
							if fp.override == nil {
								fp.override = map[ssa.Value]string{}
							}
							prev, had := fp.override[hc]
							fp.override[hc] = res
							err := walk(b.Succs[0], b, append(append([]string{}, conds...), atoms...), append([]string{}, effects...), visited)
							if had {
								fp.override[hc] = prev
							} else {
								delete(fp.override, hc)
							}
							if err != nil {
								return err
							}
						}
						for _, pa := range fpths {
							atoms, res := splitHelperPath(pa)
							if fp.override == nil {
								fp.override = map[ssa.Value]string{}
							}
							prev, had := fp.override[hc]
							fp.override[hc] = res
							err := walk(b.Succs[1], b, append(append([]string{}, conds...), atoms...), append([]string{}, effects...), visited)
							if had {
								fp.override[hc] = prev
							} else {
								delete(fp.override, hc)
							}
							if err != nil {
								return err
							}
						}
						return nil
					}
				}
				if hc, idx, isNil, ok := helperNilTest(x.Cond, true); ok {
					tp, ok1 := fp.helperPathsOn(hc.Call.StaticCallee(), hc.Call.Args, idx, true, isNil)
					fpths, ok2 := fp.helperPathsOn(hc.Call.StaticCallee(), hc.Call.Args, idx, true, !isNil)
					if ok1 && ok2 {
						for _, pa := range tp {
							atoms, res := splitHelperPath(pa)
							if fp.override == nil {
								fp.override = map[ssa.Value]string{}
							}
							prev, had := fp.override[hc]
							fp.override[hc] = res
							err := walk(b.Succs[0], b, append(append([]string{}, conds...), atoms...), append([]string{}, effects...), visited)
							if had {
								fp.override[hc] = prev
							} else {
								delete(fp.override, hc)
							}
							if err != nil {
								return err
							}
						}
						for _, pa := range fpths {
							atoms, res := splitHelperPath(pa)
							if fp.override == nil {
								fp.override = map[ssa.Value]string{}
							}
							prev, had := fp.override[hc]
							fp.override[hc] = res
							err := walk(b.Succs[1], b, append(append([]string{}, conds...), atoms...), append([]string{}, effects...), visited)
							if had {
								fp.override[hc] = prev
							} else {
								delete(fp.override, hc)
							}
							if err != nil {
								return err
							}
						}
						return nil
					}
				}
				if hc, idx, t, ok := helperBoolComponent(x.Cond, true); ok {
					// "v, ok := helper(..); if ok": one path of the caller per
					// path of the helper, with the values it returns there
					tp, ok1 := fp.helperPathsOn(hc.Call.StaticCallee(), hc.Call.Args, idx, false, t)
					fpths, ok2 := fp.helperPathsOn(hc.Call.StaticCallee(), hc.Call.Args, idx, false, !t)
					if ok1 && ok2 {
						for k, set := range [][][]string{tp, fpths} {
							for _, pa := range set {
								atoms, res := splitHelperPath(pa)
								if fp.override == nil {
									fp.override = map[ssa.Value]string{}
								}
								prev, had := fp.override[hc]
								fp.override[hc] = res
								err := walk(b.Succs[k], b, append(append([]string{}, conds...), atoms...), append([]string{}, effects...), visited)
								if had {
									fp.override[hc] = prev
								} else {
									delete(fp.override, hc)
								}
								if err != nil {
									return err
								}
							}
						}
						return nil
					}
				}
				c := fp.cond(x.Cond, true)
				nc := fp.cond(x.Cond, false)
				if err := walk(b.Succs[0], b, append(append([]string{}, conds...), c...), append([]string{}, effects...), visited); err != nil {
					return err
				}
				return walk(b.Succs[1], b, append(append([]string{}, conds...), nc...), append([]string{}, effects...), visited)
			case *ssa.Jump:
				return walk(b.Succs[0], b, conds, effects, visited)
			}
		}
		return nil
	}
	fp.pred = map[*ssa.BasicBlock]*ssa.BasicBlock{}
	if err := walk(f.Blocks[0], nil, nil, nil, map[*ssa.BasicBlock]bool{}); err != nil {
		return nil, err
	}
	sort.Strings(lines)
	return mergeComplementary(lines), nil
}

func isEffectful(c *ssa.Call) bool {
	if b, ok := c.Call.Value.(*ssa.Builtin); ok {
		switch b.Name() {
		case "copy", "close", "delete", "panic":
			return true
		}
	}
	return false
}

func sortedCopy(s []string) []string {
	out := append([]string{}, s...)
	sort.Strings(out)
	// dedupe
	var d []string
	for i, x := range out {
		if i == 0 || x != out[i-1] {
			d = append(d, x)
		}
	}
	return d
}

type fingerprinter struct {
	short bool
	f     *ssa.Function
	pred  map[*ssa.BasicBlock]*ssa.BasicBlock
	spill map[*ssa.Alloc]ssa.Value
	// subst renders the parameters of f as the given strings (the arguments of
	// a call site, rendered in the caller's frame): virtual inlining of helpers
	// that did not exist on the reference tree (core.IsNewFunc).
	subst map[*ssa.Parameter]string
	depth int
	// override: the rendering of a helper call's results on the helper path
	// currently being walked (virtual inlining of multi-path helpers)
	override map[ssa.Value]string
	// derive: also emit the atoms that follow from a comparison with a
	// minimum (DomAtoms only; normal forms are left as confirmed)
	derive bool
	// deflocals: a struct-typed local that is assigned once (or built field by
	// field) renders as its definition instead of its source name, so that
	// renaming a local, or moving its construction, does not change renderings
	deflocals bool
	defDepth  int
}

// minPhiInputs: when v is the phi of "m := u; if w < m { m = w }" (or the
// if/else form), the two inputs, each of which bounds v from above.
func minPhiInputs(v ssa.Value) []ssa.Value {
	phi, ok := v.(*ssa.Phi)
	if !ok || len(phi.Edges) != 2 {
		return nil
	}
	b := phi.Block()
	var ifb *ssa.BasicBlock
	for _, p := range b.Preds {
		c := p
		if _, isIf := c.Instrs[len(c.Instrs)-1].(*ssa.If); !isIf {
			if len(c.Preds) != 1 {
				return nil
			}
			c = c.Preds[0]
		}
		if ifb != nil && ifb != c {
			return nil
		}
		ifb = c
	}
	if ifb == nil {
		return nil
	}
	iff, ok := ifb.Instrs[len(ifb.Instrs)-1].(*ssa.If)
	if !ok || ifb.Succs[0] == ifb.Succs[1] {
		return nil
	}
	cmp, ok := iff.Cond.(*ssa.BinOp)
	if !ok {
		return nil
	}
	for k, p := range b.Preds {
		var truth bool
		switch {
		case p == ifb:
			truth = ifb.Succs[0] == b
		case p == ifb.Succs[0]:
			truth = true
		case p == ifb.Succs[1]:
			truth = false
		default:
			return nil
		}
		op := cmp.Op
		if !truth {
			op = negate(op)
		}
		lo, hi := cmp.X, cmp.Y
		switch op {
		case token.LSS, token.LEQ:
		case token.GTR, token.GEQ:
			lo, hi = hi, lo
		default:
			return nil
		}
		if phi.Edges[k] != lo || phi.Edges[1-k] != hi {
			return nil
		}
	}
	return []ssa.Value{phi.Edges[0], phi.Edges[1]}
}

// isNewHelper: f is a declared function that did not exist on the reference tree.
func isNewHelper(f *ssa.Function) bool {
	if f == nil || len(f.Blocks) == 0 || f.Synthetic != "" {
		return false
	}
	obj, ok := f.Object().(*types.Func)
	return ok && core.IsNewFunc(obj)
}

// valueHelper: g can be walked inline by Fingerprint — it has a body of at
// most 40 blocks without loops and without go, defer, send or select.
func valueHelper(g *ssa.Function) bool {
	if g == nil || len(g.Blocks) == 0 || len(g.Blocks) > 40 {
		return false
	}
	for _, b := range g.Blocks {
		for _, in := range b.Instrs {
			switch in.(type) {
			case *ssa.Go, *ssa.Defer, *ssa.Send, *ssa.Select, *ssa.RunDefers:
				return false
			}
		}
	}
	// loop-free: no edge to a block on the current DFS stack
	state := map[*ssa.BasicBlock]int{}
	var dfs func(b *ssa.BasicBlock) bool
	dfs = func(b *ssa.BasicBlock) bool {
		state[b] = 1
		for _, s := range b.Succs {
			if state[s] == 1 || (state[s] == 0 && !dfs(s)) {
				return false
			}
		}
		state[b] = 2
		return true
	}
	return dfs(g.Blocks[0])
}

// usedInCond: the result of call (or one of its components) is tested by a
// branch; such helpers are expanded where they are tested (helperPathsOn).
func usedInCond(v ssa.Value, depth int) bool {
	refs := v.Referrers()
	if refs == nil || depth > 2 {
		return false
	}
	for _, r := range *refs {
		switch x := r.(type) {
		case *ssa.If:
			return true
		case *ssa.BinOp:
			switch x.Op {
			case token.EQL, token.NEQ, token.LSS, token.LEQ, token.GTR, token.GEQ:
				// a comparison with a numeric constant is decided per path of
				// the helper once the helper is walked in place (the value it
				// returns on the path is compared with the constant)
				if isNumConst(x.X) || isNumConst(x.Y) {
					continue
				}
				if usedInCond(x, depth+1) {
					return true
				}
			}
		case *ssa.UnOp:
			if x.Op == token.NOT && usedInCond(x, depth+1) {
				return true
			}
		case *ssa.Extract:
			if usedInCond(x, depth+1) {
				return true
			}
		}
	}
	return false
}

// child makes the fingerprinter that renders callee g as inlined at call.
func (fp *fingerprinter) child(g *ssa.Function, args []ssa.Value) *fingerprinter {
	c := &fingerprinter{short: fp.short, derive: fp.derive, deflocals: fp.deflocals, f: g, pred: map[*ssa.BasicBlock]*ssa.BasicBlock{}, spill: map[*ssa.Alloc]ssa.Value{}, subst: map[*ssa.Parameter]string{}, depth: fp.depth + 1}
	for i, p := range g.Params {
		if i < len(args) {
			c.subst[p] = fp.expr(args[i])
		}
	}
	registerSpills(c, g)
	return c
}

func registerSpills(fp *fingerprinter, f *ssa.Function) {
	for _, b := range f.Blocks {
		for _, i2 := range b.Instrs {
			if st, ok := i2.(*ssa.Store); ok {
				if _, isParam := st.Val.(*ssa.Parameter); isParam {
					if al, ok := st.Addr.(*ssa.Alloc); ok && al.Comment == st.Val.Name() {
						fp.spill[al] = st.Val
					}
				}
			}
		}
	}
}

// pureStraightLine: g is one block ending in a return, without stores (other
// than parameter spills), map updates, sends, go/defer.
func pureStraightLine(g *ssa.Function) (*ssa.Return, bool) {
	if len(g.Blocks) != 1 {
		return nil, false
	}
	var ret *ssa.Return
	for _, in := range g.Blocks[0].Instrs {
		switch x := in.(type) {
		case *ssa.Store:
			if _, isParam := x.Val.(*ssa.Parameter); isParam {
				if al, ok := x.Addr.(*ssa.Alloc); ok && al.Comment == x.Val.Name() {
					continue
				}
			}
			return nil, false
		case *ssa.MapUpdate, *ssa.Send, *ssa.Go, *ssa.Defer, *ssa.Panic:
			return nil, false
		case *ssa.Return:
			ret = x
		}
	}
	return ret, ret != nil
}

// helperPaths: the path conditions (conjunct lists) of the loop-free boolean
// helper g, called with args, that yield the given truth value; ok is false
// when g cannot be expanded (loops, side effects, too many paths).
func (fp *fingerprinter) helperPaths(g *ssa.Function, args []ssa.Value, truth bool) ([][]string, bool) {
	return fp.helperPathsOn(g, args, 0, false, truth)
}

// helperPathsOn: like helperPaths for result number idx; with nilMode the paths
// are those on which the (error or pointer) result is nil (truth) or non-nil
// (!truth); otherwise the result is boolean and must equal truth.
func (fp *fingerprinter) helperPathsOn(g *ssa.Function, args []ssa.Value, idx int, nilMode bool, truth bool) ([][]string, bool) {
	if fp.depth >= 3 || len(g.Blocks) > 40 {
		return nil, false
	}
	c := fp.child(g, args)
	for _, b := range g.Blocks {
		for _, in := range b.Instrs {
			switch x := in.(type) {
			case *ssa.Store:
				if _, isParam := x.Val.(*ssa.Parameter); isParam {
					if al, ok := x.Addr.(*ssa.Alloc); ok && al.Comment == x.Val.Name() {
						continue
					}
				}
				if c.definesLocal(x) {
					continue // "l := p.List()": a local, rendered by its definition
				}
				return nil, false
			case *ssa.MapUpdate, *ssa.Send, *ssa.Go, *ssa.Defer:
				return nil, false
			}
		}
	}
	var paths [][]string
	bad := false
	var walk func(b, pred *ssa.BasicBlock, conds []string, visited map[*ssa.BasicBlock]bool)
	walk = func(b, pred *ssa.BasicBlock, conds []string, visited map[*ssa.BasicBlock]bool) {
		if bad || len(paths) > 64 {
			bad = true
			return
		}
		if visited[b] {
			bad = true // loop
			return
		}
		visited[b] = true
		defer delete(visited, b)
		c.pred[b] = pred
		switch x := b.Instrs[len(b.Instrs)-1].(type) {
		case *ssa.Return:
			if idx >= len(x.Results) {
				bad = true
				return
			}
			var rc []string
			if nilMode {
				rv := x.Results[idx]
				if ph, ok := rv.(*ssa.Phi); ok {
					if pv := c.phiValue(ph); pv != nil {
						rv = pv
					}
				}
				if k, ok := rv.(*ssa.Const); ok {
					if (k.Value == nil) != truth {
						return // this path yields the other outcome
					}
				} else if _, isMI := rv.(*ssa.MakeInterface); isMI {
					if truth {
						return // a freshly built error value: never nil
					}
				} else if call, isCall := rv.(*ssa.Call); isCall && call.Call.StaticCallee() != nil && IsNonNilCtor(call.Call.StaticCallee()) {
					if truth {
						return
					}
				} else {
					a, b := c.expr(rv), "nil"
					if b < a {
						a, b = b, a
					}
					op := "=="
					if !truth {
						op = "!="
					}
					rc = []string{fmt.Sprintf("%s %s %s", a, op, b)}
				}
			} else {
				rc = c.cond(x.Results[idx], truth)
				for _, a := range rc {
					if a == "false" {
						return // this path yields the other truth value
					}
				}
			}
			var rs []string
			for _, rv := range x.Results {
				rs = append(rs, c.expr(rv))
			}
			pa := sortedCopy(append(append([]string{}, conds...), rc...))
			paths = append(paths, append(pa, "\x01"+strings.Join(rs, "\x00")))
		case *ssa.If:
			walk(b.Succs[0], b, append(append([]string{}, conds...), c.cond(x.Cond, true)...), visited)
			walk(b.Succs[1], b, append(append([]string{}, conds...), c.cond(x.Cond, false)...), visited)
		case *ssa.Jump:
			walk(b.Succs[0], b, conds, visited)
		case *ssa.Panic:
			// no value
		default:
			bad = true
		}
	}
	walk(g.Blocks[0], nil, nil, map[*ssa.BasicBlock]bool{})
	if bad {
		return nil, false
	}
	return paths, true
}

// helperCond: the conjuncts that hold on EVERY path of g yielding truth.
func (fp *fingerprinter) helperCond(g *ssa.Function, args []ssa.Value, truth bool) ([]string, bool) {
	paths, ok := fp.helperPaths(g, args, truth)
	if !ok {
		return nil, false
	}
	return intersectPaths(paths)
}

// splitHelperPath separates the atoms of a helper path from the rendering of
// the helper's results on that path.
func splitHelperPath(pa []string) ([]string, string) {
	var atoms []string
	res := ""
	for _, a := range pa {
		if strings.HasPrefix(a, "\x01") {
			res = a[1:]
			continue
		}
		atoms = append(atoms, a)
	}
	return atoms, res
}

func intersectPaths(paths [][]string) ([]string, bool) {
	if len(paths) == 0 {
		return []string{"false"}, true
	}
	count := map[string]int{}
	for _, p := range paths {
		for _, a := range p {
			if strings.HasPrefix(a, "\x01") {
				continue
			}
			count[a]++
		}
	}
	var out []string
	for a, n := range count {
		if n == len(paths) {
			out = append(out, a)
		}
	}
	if len(out) == 0 {
		return nil, false
	}
	return sortedCopy(out), true
}

// plainCmp renders a comparison without looking into helpers.
func (fp *fingerprinter) plainCmp(x *ssa.BinOp, truth bool) string {
	op := x.Op
	if !truth {
		op = negate(op)
	}
	a, b := fp.expr(x.X), fp.expr(x.Y)
	switch op {
	case token.GTR:
		return fmt.Sprintf("%s < %s", b, a)
	case token.GEQ:
		return fmt.Sprintf("%s <= %s", b, a)
	case token.EQL, token.NEQ:
		if b < a {
			a, b = b, a
		}
	}
	return fmt.Sprintf("%s %s %s", a, op, b)
}

// IsNonNilCtor: f builds an error and never returns nil (newError, errorf, ...):
// decided structurally, every return of f yields a MakeInterface or a call of
// such a constructor.
func IsNonNilCtor(f *ssa.Function) bool {
	return nonNilCtor(f, 0)
}

func nonNilCtor(f *ssa.Function, depth int) bool {
	if f == nil || len(f.Blocks) == 0 || depth > 3 || f.Signature.Results().Len() != 1 {
		return false
	}
	n := 0
	for _, b := range f.Blocks {
		r, ok := b.Instrs[len(b.Instrs)-1].(*ssa.Return)
		if !ok {
			continue
		}
		n++
		switch x := r.Results[0].(type) {
		case *ssa.MakeInterface:
		case *ssa.Call:
			if !nonNilCtor(x.Call.StaticCallee(), depth+1) {
				return false
			}
		default:
			return false
		}
	}
	return n > 0
}

// helperNilTest: v is `h(...) == nil` / `!= nil` (or on one result of h) for a
// new helper h; returns the call, the result index and whether truth of v means
// "result is nil".
func helperNilTest(v ssa.Value, truth bool) (*ssa.Call, int, bool, bool) {
	for {
		if u, ok := v.(*ssa.UnOp); ok && u.Op == token.NOT {
			v, truth = u.X, !truth
			continue
		}
		break
	}
	bo, ok := v.(*ssa.BinOp)
	if !ok || (bo.Op != token.EQL && bo.Op != token.NEQ) {
		return nil, 0, false, false
	}
	side := func(a, b ssa.Value) (*ssa.Call, int, bool) {
		if k, ok := b.(*ssa.Const); !ok || k.Value != nil {
			return nil, 0, false
		}
		idx := 0
		if ex, ok := a.(*ssa.Extract); ok {
			idx = ex.Index
			a = ex.Tuple
		}
		c, ok := a.(*ssa.Call)
		if !ok || !isNewHelper(c.Call.StaticCallee()) {
			return nil, 0, false
		}
		return c, idx, true
	}
	c, idx, ok := side(bo.X, bo.Y)
	if !ok {
		c, idx, ok = side(bo.Y, bo.X)
	}
	if !ok {
		return nil, 0, false, false
	}
	isNil := truth
	if bo.Op == token.NEQ {
		isNil = !truth
	}
	return c, idx, isNil, true
}

// helperCall: v (possibly negated) is a call of an expandable new helper.
func helperCall(v ssa.Value, truth bool) (*ssa.Call, bool, bool) {
	for {
		if u, ok := v.(*ssa.UnOp); ok && u.Op == token.NOT {
			v, truth = u.X, !truth
			continue
		}
		break
	}
	if c, ok := v.(*ssa.Call); ok && isNewHelper(c.Call.StaticCallee()) {
		return c, truth, true
	}
	return nil, truth, false
}

// helperBoolComponent: v (under !) is a boolean component of the result tuple
// of a new helper ("x, ok := helper(..); if !ok").
func helperBoolComponent(v ssa.Value, truth bool) (*ssa.Call, int, bool, bool) {
	for {
		if u, ok := v.(*ssa.UnOp); ok && u.Op == token.NOT {
			v, truth = u.X, !truth
			continue
		}
		break
	}
	ex, ok := v.(*ssa.Extract)
	if !ok {
		return nil, 0, truth, false
	}
	if b, isBasic := ex.Type().Underlying().(*types.Basic); !isBasic || b.Kind() != types.Bool {
		return nil, 0, truth, false
	}
	c, ok := ex.Tuple.(*ssa.Call)
	if !ok || !isNewHelper(c.Call.StaticCallee()) {
		return nil, 0, truth, false
	}
	return c, ex.Index, truth, true
}

func typeName(t types.Type) string {
	return types.TypeString(t, func(p *types.Package) string {
		if p.Path() == "capnproto.org/go/capnp/v3" {
			return ""
		}
		return p.Name()
	})
}

// cond renders a branch condition with the given truth as a list of conjuncts.
func (fp *fingerprinter) cond(v ssa.Value, truth bool) []string {
	switch x := v.(type) {
	case *ssa.UnOp:
		if x.Op == token.NOT {
			return fp.cond(x.X, !truth)
		}
	case *ssa.BinOp:
		if hc, idx, isNil, ok := helperNilTest(x, truth); ok {
			if paths, ok := fp.helperPathsOn(hc.Call.StaticCallee(), hc.Call.Args, idx, true, isNil); ok {
				if atoms, ok := intersectPaths(paths); ok {
					// keep the test itself as well: rules may look for it by name
					return append(atoms, fp.plainCmp(x, truth))
				}
			}
		}
		switch x.Op {
		case token.EQL, token.NEQ, token.LSS, token.LEQ, token.GTR, token.GEQ:
			op := x.Op
			if !truth {
				op = negate(op)
			}
			if !fp.short && isUnsigned(x.X.Type()) {
				// normal forms: for an unsigned x, "0 < x" is "x != 0" and
				// "x <= 0" is "x == 0"
				zx, zy := isZeroConst(x.X), isZeroConst(x.Y)
				switch {
				case (op == token.LSS && zx) || (op == token.GTR && zy):
					op = token.NEQ
				case (op == token.LEQ && zy) || (op == token.GEQ && zx):
					op = token.EQL
				}
			}
			a, b := fp.expr(x.X), fp.expr(x.Y)
			if t, decided := foldConstCmp(a, op, b); decided {
				// both sides are constants on this path (a helper walked in
				// place returned one): the test is true, or the path infeasible
				if t {
					return nil
				}
				return []string{"false"}
			}
			if fp.derive && op != token.EQL && op != token.NEQ {
				// x < min(u, v) gives x < u and x < v (the minimum written as
				// "m := u; if v < m { m = v }")
				lo, hi, sop := x.X, x.Y, "<"
				if op == token.GTR || op == token.GEQ {
					lo, hi = hi, lo
				}
				if op == token.LEQ || op == token.GEQ {
					sop = "<="
				}
				out := []string{fmt.Sprintf("%s %s %s", fp.expr(lo), sop, fp.expr(hi))}
				for _, in := range minPhiInputs(hi) {
					out = append(out, fmt.Sprintf("%s %s %s", fp.expr(lo), sop, fp.expr(in)))
				}
				return out
			}
			switch op {
			case token.GTR:
				return []string{fmt.Sprintf("%s < %s", b, a)}
			case token.GEQ:
				return []string{fmt.Sprintf("%s <= %s", b, a)}
			case token.EQL, token.NEQ:
				if b < a {
					a, b = b, a
				}
			}
			return []string{fmt.Sprintf("%s %s %s", a, op, b)}
		}
	case *ssa.Call:
		if g := x.Call.StaticCallee(); isNewHelper(g) {
			if atoms, ok := fp.helperCond(g, x.Call.Args, truth); ok {
				return atoms
			}
		}
	case *ssa.Extract:
		if hc, idx, t, ok := helperBoolComponent(x, truth); ok {
			if paths, ok := fp.helperPathsOn(hc.Call.StaticCallee(), hc.Call.Args, idx, false, t); ok {
				if atoms, ok := intersectPaths(paths); ok {
					s := fp.expr(v)
					if !truth {
						s = "!" + s
					}
					return append(atoms, s)
				}
			}
		}
	case *ssa.Phi:
		// value of the phi on this path
		if p := fp.phiValue(x); p != nil {
			return fp.cond(p, truth)
		}
	case *ssa.Const:
		if x.Value != nil {
			if (x.Value.String() == "true") == truth {
				return nil
			}
			return []string{"false"}
		}
	}
	s := fp.expr(v)
	if !truth {
		s = "!" + s
	}
	return []string{s}
}

func (fp *fingerprinter) phiValue(p *ssa.Phi) ssa.Value {
	pred := fp.pred[p.Block()]
	for i, pb := range p.Block().Preds {
		if pb == pred {
			return p.Edges[i]
		}
	}
	return nil
}

func (fp *fingerprinter) addr(v ssa.Value) string {
	switch x := v.(type) {
	case *ssa.FieldAddr:
		if al, isAlloc := x.X.(*ssa.Alloc); isAlloc && fp.deflocals {
			if d, ok := fp.localFieldDef(al, x.Field); ok {
				return d
			}
		}
		if f := fieldVar(x); f != nil {
			return fp.addrBase(x.X) + "." + core.FieldName(f)
		}
	case *ssa.IndexAddr:
		return fp.addrBase(x.X) + "[" + fp.expr(x.Index) + "]"
	case *ssa.Alloc:
		if pv, ok := fp.spill[x]; ok {
			return fp.expr(pv)
		}
		if d, ok := fp.localDef(x); ok {
			return d
		}
		if fp.deflocals && x.Comment != "" {
			if d, ok := localOrdinal(x); ok {
				return d
			}
		}
		if x.Comment != "" {
			return x.Comment
		}
	}
	return "*" + fp.expr(v)
}

func (fp *fingerprinter) addrBase(v ssa.Value) string {
	switch x := v.(type) {
	case *ssa.Alloc:
		if pv, ok := fp.spill[x]; ok {
			return fp.expr(pv)
		}
		if d, ok := fp.localDef(x); ok {
			return d
		}
		if fp.deflocals && x.Comment != "" {
			if d, ok := localOrdinal(x); ok {
				return d
			}
		}
		if x.Comment != "" {
			return x.Comment
		}
	case *ssa.FieldAddr, *ssa.IndexAddr:
		return fp.addr(v)
	}
	return fp.expr(v)
}

var commutative = map[token.Token]bool{token.ADD: true, token.MUL: true, token.AND: true, token.OR: true, token.XOR: true}

func (fp *fingerprinter) expr(v ssa.Value) string {
	if fp.override != nil {
		if s, ok := fp.override[v]; ok {
			return s
		}
		if ex, ok := v.(*ssa.Extract); ok {
			if s, ok := fp.override[ex.Tuple]; ok {
				parts := strings.Split(s, "\x00")
				if ex.Index < len(parts) {
					return parts[ex.Index]
				}
			}
		}
	}
	switch x := v.(type) {
	case nil:
		return "<nil>"
	case *ssa.Parameter:
		if sub, ok := fp.subst[x]; ok {
			return sub
		}
		for i, p := range fp.f.Params {
			if p == x {
				return fmt.Sprintf("p%d", i)
			}
		}
		return x.Name()
	case *ssa.FreeVar:
		return x.Name()
	case *ssa.Global:
		return x.Name()
	case *ssa.Function:
		return FuncName(x)
	case *ssa.Builtin:
		return x.Name()
	case *ssa.Const:
		if x.Value == nil {
			if _, isStruct := x.Type().Underlying().(*types.Struct); isStruct {
				return "zero:" + typeName(x.Type())
			}
			return "nil"
		}
		if x.Value.Kind() == constant.String {
			return "<str>"
		}
		return x.Value.ExactString() + ":" + typeName(x.Type())
	case *ssa.BinOp:
		a, b := fp.expr(x.X), fp.expr(x.Y)
		op := x.Op
		switch op {
		case token.GTR:
			a, b, op = b, a, token.LSS
		case token.GEQ:
			a, b, op = b, a, token.LEQ
		}
		if (commutative[op] || op == token.EQL || op == token.NEQ) && b < a {
			a, b = b, a
		}
		if op == token.ADD && a == "<str>" && b == "<str>" {
			return "<str>" // a message assembled from constant strings
		}
		if op == token.MUL {
			// x * 1 is x (a width that happens to be one byte)
			if strings.HasPrefix(a, "1:") && reNumConst.MatchString(a) {
				return b
			}
			if strings.HasPrefix(b, "1:") && reNumConst.MatchString(b) {
				return a
			}
		}
		return fmt.Sprintf("(%s %s %s)", a, op, b)
	case *ssa.UnOp:
		if x.Op == token.MUL {
			return fp.addr(x.X)
		}
		return fmt.Sprintf("%s%s", x.Op, fp.expr(x.X))
	case *ssa.Convert:
		return fmt.Sprintf("%s(%s)", typeName(x.Type()), fp.expr(x.X))
	case *ssa.ChangeType:
		return fmt.Sprintf("%s(%s)", typeName(x.Type()), fp.expr(x.X))
	case *ssa.ChangeInterface:
		return fp.expr(x.X)
	case *ssa.MakeInterface:
		return "iface(" + fp.expr(x.X) + ")"
	case *ssa.Field:
		if f := FieldOfField(x); f != nil {
			return fp.expr(x.X) + "." + core.FieldName(f)
		}
	case *ssa.FieldAddr:
		return "&" + fp.addr(x)
	case *ssa.IndexAddr:
		return "&" + fp.addr(x)
	case *ssa.Index:
		return fp.expr(x.X) + "[" + fp.expr(x.Index) + "]"
	case *ssa.Lookup:
		return fp.expr(x.X) + "[" + fp.expr(x.Index) + "]"
	case *ssa.Slice:
		lo, hi, mx := "", "", ""
		if x.Low != nil {
			lo = fp.expr(x.Low)
		}
		if x.High != nil {
			hi = fp.expr(x.High)
		}
		if x.Max != nil {
			mx = ":" + fp.expr(x.Max)
		}
		return fmt.Sprintf("%s[%s:%s%s]", fp.addrBase(x.X), lo, hi, mx)
	case *ssa.Extract:
		if call, ok := x.Tuple.(*ssa.Call); ok && fp.depth < 3 {
			if g := call.Call.StaticCallee(); isNewHelper(g) {
				if ret, ok := pureStraightLine(g); ok && x.Index < len(ret.Results) {
					return fp.child(g, call.Call.Args).expr(ret.Results[x.Index])
				}
				// (value, error) helper with a single path on which the
				// error is nil: the value is what that path returns (where
				// the error is non-nil the value is not used)
				if n := g.Signature.Results().Len(); n >= 2 && x.Index < n-1 && fp.derive && g.Signature.Results().At(n-1).Type().String() == "error" {
					paths, ok := fp.helperPathsOn(g, call.Call.Args, n-1, true, true)
					var feasible [][]string
					for _, pa := range paths {
						if atoms, _ := splitHelperPath(pa); Consistent(atoms) {
							feasible = append(feasible, pa)
						}
					}
					if ok && len(feasible) == 1 {
						_, res := splitHelperPath(feasible[0])
						if parts := strings.Split(res, "\x00"); x.Index < len(parts) {
							return parts[x.Index]
						}
					}
				}
			}
		}
		return fmt.Sprintf("%s#%d", fp.expr(x.Tuple), x.Index)
	case *ssa.Phi:
		if p := fp.phiValue(x); p != nil {
			return fp.expr(p)
		}
		return "phi"
	case *ssa.Alloc:
		if x.Comment != "" {
			return "&" + x.Comment
		}
		return "&" + x.Name()
	case *ssa.Call:
		if g := x.Call.StaticCallee(); isNewHelper(g) && fp.depth < 3 {
			if ret, ok := pureStraightLine(g); ok && len(ret.Results) == 1 {
				return fp.child(g, x.Call.Args).expr(ret.Results[0])
			}
		}
		var args []string
		for _, a := range x.Call.Args {
			args = append(args, fp.expr(a))
		}
		if x.Call.IsInvoke() {
			return fmt.Sprintf("%s.%s(%s)", fp.expr(x.Call.Value), x.Call.Method.Name(), strings.Join(args, ", "))
		}
		if f := x.Call.StaticCallee(); f != nil {
			name := FuncName(f)
			if fp.short {
				if i := strings.LastIndex(name, "."); i >= 0 {
					name = name[i+1:]
				}
			}
			return fmt.Sprintf("%s(%s)", name, strings.Join(args, ", "))
		}
		return fmt.Sprintf("%s(%s)", fp.expr(x.Call.Value), strings.Join(args, ", "))
	case *ssa.TypeAssert:
		return fmt.Sprintf("%s.(%s)", fp.expr(x.X), typeName(x.AssertedType))
	case *ssa.MakeSlice:
		return fmt.Sprintf("make(%s, %s, %s)", typeName(x.Type()), fp.expr(x.Len), fp.expr(x.Cap))
	case *ssa.MakeMap:
		return "make(" + typeName(x.Type()) + ")"
	case *ssa.MakeChan:
		return "make(" + typeName(x.Type()) + ")"
	case *ssa.MakeClosure:
		return "closure(" + fp.expr(x.Fn) + ")"
	}
	return fmt.Sprintf("%T", v)
}

// DomAtoms renders, in fingerprint normal form, the branch conditions that
// dominate instruction in (the conjunction on its dominator chain).
func DomAtoms(in ssa.Instruction) []string {
	fp := &fingerprinter{short: true, derive: true, f: in.Parent(), pred: map[*ssa.BasicBlock]*ssa.BasicBlock{}, spill: map[*ssa.Alloc]ssa.Value{}}
	// register spilled parameters
	for _, b := range in.Parent().Blocks {
		for _, i2 := range b.Instrs {
			if st, ok := i2.(*ssa.Store); ok {
				if _, isParam := st.Val.(*ssa.Parameter); isParam {
					if al, ok := st.Addr.(*ssa.Alloc); ok && al.Comment == st.Val.Name() {
						fp.spill[al] = st.Val
					}
				}
			}
		}
	}
	return fp.domAtoms(in, nil)
}

// assertAtoms: what the calls of new helpers that dominate in establish by
// returning at all. A helper that did not exist on the reference tree and
// panics on some of its paths ("requireX()": if !x { panic }) returns only
// where the conditions common to its returning paths hold.
func (fp *fingerprinter) assertAtoms(in ssa.Instruction) []string {
	var out []string
	for b := in.Block(); b != nil; b = b.Idom() {
		for _, i2 := range b.Instrs {
			if i2 == in {
				break
			}
			call, ok := i2.(*ssa.Call)
			if !ok {
				continue
			}
			g := call.Call.StaticCallee()
			if !isNewHelper(g) || fp.depth >= 2 {
				continue
			}
			out = append(out, fp.returnAtoms(g, call.Call.Args)...)
		}
	}
	return out
}

// returnAtoms: the conjuncts common to all returning paths of the loop-free
// helper g that has at least one panicking path; nil otherwise.
func (fp *fingerprinter) returnAtoms(g *ssa.Function, args []ssa.Value) []string {
	if !valueHelper(g) {
		return nil
	}
	c := fp.child(g, args)
	var paths [][]string
	panics, bad := false, false
	var walk func(b, pred *ssa.BasicBlock, conds []string)
	walk = func(b, pred *ssa.BasicBlock, conds []string) {
		if bad || len(paths) > 64 {
			bad = true
			return
		}
		c.pred[b] = pred
		switch x := b.Instrs[len(b.Instrs)-1].(type) {
		case *ssa.Return:
			paths = append(paths, sortedCopy(conds))
		case *ssa.Panic:
			panics = true
		case *ssa.If:
			walk(b.Succs[0], b, append(append([]string{}, conds...), c.cond(x.Cond, true)...))
			walk(b.Succs[1], b, append(append([]string{}, conds...), c.cond(x.Cond, false)...))
		case *ssa.Jump:
			walk(b.Succs[0], b, conds)
		default:
			bad = true
		}
	}
	walk(g.Blocks[0], nil, nil)
	if bad || !panics || len(paths) == 0 {
		return nil
	}
	atoms, ok := intersectPaths(paths)
	if !ok {
		return nil
	}
	return atoms
}

// RenderValue renders a value in fingerprint normal form (phis are opaque).
func RenderValue(f *ssa.Function, v ssa.Value) string {
	fp := &fingerprinter{short: true, f: f, pred: map[*ssa.BasicBlock]*ssa.BasicBlock{}, spill: map[*ssa.Alloc]ssa.Value{}}
	for _, b := range f.Blocks {
		for _, i2 := range b.Instrs {
			if st, ok := i2.(*ssa.Store); ok {
				if _, isParam := st.Val.(*ssa.Parameter); isParam {
					if al, ok := st.Addr.(*ssa.Alloc); ok && al.Comment == st.Val.Name() {
						fp.spill[al] = st.Val
					}
				}
			}
		}
	}
	return fp.expr(v)
}

// RenderCond renders a branch condition under the given truth in normal form
// (conjuncts joined by " && ").
func RenderCond(f *ssa.Function, cond ssa.Value, truth bool) string {
	fp := &fingerprinter{short: true, f: f, pred: map[*ssa.BasicBlock]*ssa.BasicBlock{}, spill: map[*ssa.Alloc]ssa.Value{}}
	for _, b := range f.Blocks {
		for _, i2 := range b.Instrs {
			if st, ok := i2.(*ssa.Store); ok {
				if _, isParam := st.Val.(*ssa.Parameter); isParam {
					if al, ok := st.Addr.(*ssa.Alloc); ok && al.Comment == st.Val.Name() {
						fp.spill[al] = st.Val
					}
				}
			}
		}
	}
	return strings.Join(sortedCopy(fp.cond(cond, truth)), " && ")
}

// Anchor is a call instruction of interest inside a function, named by its
// callee and its ordinal among the calls of that callee in the function.
type Anchor struct {
	Callee  string
	Ordinal int
	Instr   ssa.Instruction
	Args    []string
	Atoms   []string
	// ArgsR, AtomsR: the same with locals rendered by their definitions
	// (filled in by callers that compare with AnchorsResolved)
	ArgsR  []string
	AtomsR []string
}

// Anchors lists the calls in f (in block/instruction order) with their
// dominating atoms. Calls made inside helpers that did not exist on the
// reference tree are listed as well, at the position of the helper call, with
// arguments rendered in f's frame and the atoms of the call site added
// (virtual inlining): extracting code into a helper does not hide an anchor.
func Anchors(f *ssa.Function) []Anchor {
	var out []Anchor
	count := map[string]int{}
	root := &fingerprinter{short: true, f: f, pred: map[*ssa.BasicBlock]*ssa.BasicBlock{}, spill: map[*ssa.Alloc]ssa.Value{}}
	registerSpills(root, f)
	collectAnchors(root, f, nil, &out, count, map[*ssa.Function]bool{f: true})
	return out
}

func collectAnchors(fp *fingerprinter, f *ssa.Function, extra []string, out *[]Anchor, count map[string]int, busy map[*ssa.Function]bool) {
	for _, b := range f.Blocks {
		for _, in := range b.Instrs {
			ci, ok := in.(ssa.CallInstruction)
			if !ok {
				continue
			}
			name := StaticCalleeName(in)
			if name == "" {
				if bi, ok := ci.Common().Value.(*ssa.Builtin); ok {
					name = "builtin." + bi.Name()
				} else if ci.Common().IsInvoke() {
					name = InvokeName(in)
				} else {
					name = "dynamic"
				}
			}
			count[name]++
			local := &fingerprinter{short: true, derive: true, deflocals: fp.deflocals, f: f, pred: map[*ssa.BasicBlock]*ssa.BasicBlock{}, spill: fp.spill, subst: fp.subst, depth: fp.depth}
			var args []string
			for _, a := range ci.Common().Args {
				args = append(args, local.expr(a))
			}
			atoms := local.domAtoms(in, extra)
			*out = append(*out, Anchor{Callee: name, Ordinal: count[name], Instr: in, Args: args, Atoms: atoms})
			if g := ci.Common().StaticCallee(); isNewHelper(g) && !busy[g] && fp.depth < 2 {
				busy[g] = true
				collectAnchors(local.child(g, ci.Common().Args), g, atoms, out, count, busy)
				delete(busy, g)
			}
		}
	}
}

// splitTop splits a rendered comparison "A op B" at its top-level operator.
func splitTop(a string) (string, string, string, bool) {
	depth := 0
	for i := 0; i < len(a); i++ {
		switch a[i] {
		case '(', '[':
			depth++
		case ')', ']':
			depth--
		case ' ':
			if depth != 0 {
				continue
			}
			for _, op := range []string{" == ", " != ", " <= ", " < "} {
				if strings.HasPrefix(a[i:], op) {
					return a[:i], strings.TrimSpace(op), a[i+len(op):], true
				}
			}
		}
	}
	return "", "", "", false
}

// negAtom renders the negation of a rendered atom in the same normal form.
func negAtom(a string) string {
	if strings.HasPrefix(a, "!") {
		return a[1:]
	}
	l, op, r, ok := splitTop(a)
	if !ok {
		return "!" + a
	}
	switch op {
	case "==":
		return l + " != " + r
	case "!=":
		return l + " == " + r
	case "<":
		return r + " <= " + l
	case "<=":
		return r + " < " + l
	}
	return "!" + a
}

func unparen(s string) (string, bool) {
	if len(s) < 2 || s[0] != '(' || s[len(s)-1] != ')' {
		return "", false
	}
	depth := 0
	for i := 0; i < len(s); i++ {
		switch s[i] {
		case '(':
			depth++
		case ')':
			depth--
			if depth == 0 && i != len(s)-1 {
				return "", false
			}
		}
	}
	return s[1 : len(s)-1], true
}

// DeriveAtoms closes a set of atoms under equalities between boolean
// sub-conditions: from "(P) == (Q)" and P follows Q (and from not-P, not-Q); from
// "(P) != (Q)" and P follows not-Q. Needed when a test `a == b` on two flags
// replaces the nested tests of a and b.
func DeriveAtoms(atoms []string) []string {
	have := map[string]bool{}
	for _, a := range atoms {
		have[a] = true
	}
	for changed, rounds := true, 0; changed && rounds < 4; rounds++ {
		changed = false
		for a := range have {
			l, op, r, ok := splitTop(a)
			if !ok || (op != "==" && op != "!=") {
				continue
			}
			p, ok1 := unparen(l)
			q, ok2 := unparen(r)
			if !ok1 || !ok2 {
				continue
			}
			if _, _, _, isCmp := splitTop(p); !isCmp {
				continue
			}
			if _, _, _, isCmp := splitTop(q); !isCmp {
				continue
			}
			add := func(s string) {
				if !have[s] {
					have[s] = true
					changed = true
				}
			}
			same := op == "=="
			pick := func(x string, pos bool) string {
				if pos == same {
					return x
				}
				return negAtom(x)
			}
			if have[p] {
				add(pick(q, true))
			}
			if have[negAtom(p)] {
				add(pick(q, false))
			}
			if have[q] {
				add(pick(p, true))
			}
			if have[negAtom(q)] {
				add(pick(p, false))
			}
		}
	}
	var out []string
	for a := range have {
		out = append(out, a)
	}
	return sortedCopy(out)
}

// Consistent reports whether a conjunction of rendered atoms contains no atom
// together with its negation (syntactic paths of the normal form may combine
// tests that exclude each other).
func Consistent(atoms []string) bool {
	have := map[string]bool{}
	for _, a := range atoms {
		have[strings.TrimSpace(a)] = true
	}
	for a := range have {
		if a == "false" || have[negAtom(a)] {
			return false
		}
	}
	return true
}
