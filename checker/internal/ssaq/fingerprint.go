package ssaq

import (
	"fmt"
	"go/constant"
	"go/token"
	"go/types"
	"sort"
	"strings"

	"golang.org/x/tools/go/ssa"
)

// Fingerprint is E4's normal form of a small, loop-free function: one line
// per path from entry to return,
//
//	cond && cond ... => effects ; return (v, v)
//
// where conditions and values are expression trees over the parameters with
// temporaries, statement order, if/switch shape and operand order of
// commutative operators normalised away, and comparisons oriented (< and <=
// only, negations pushed in).
func Fingerprint(f *ssa.Function) ([]string, error) {
	if f == nil || len(f.Blocks) == 0 {
		return nil, fmt.Errorf("no body")
	}
	fp := &fingerprinter{f: f, spill: map[*ssa.Alloc]ssa.Value{}}
	var lines []string
	var walk func(b *ssa.BasicBlock, pred *ssa.BasicBlock, conds []string, effects []string, visited map[*ssa.BasicBlock]bool) error
	walk = func(b *ssa.BasicBlock, pred *ssa.BasicBlock, conds []string, effects []string, visited map[*ssa.BasicBlock]bool) error {
		if visited[b] {
			return fmt.Errorf("loop through block %d", b.Index)
		}
		visited[b] = true
		defer delete(visited, b)
		fp.pred[b] = pred
		for _, in := range b.Instrs {
			switch x := in.(type) {
			case *ssa.Store:
				if _, isParam := x.Val.(*ssa.Parameter); isParam {
					if al, ok := x.Addr.(*ssa.Alloc); ok && al.Comment == x.Val.Name() {
						fp.spill[al] = x.Val
						continue // spilled parameter
					}
				}
				effects = append(effects, fmt.Sprintf("%s = %s", fp.addr(x.Addr), fp.expr(x.Val)))
			case *ssa.MapUpdate:
				effects = append(effects, fmt.Sprintf("%s[%s] = %s", fp.expr(x.Map), fp.expr(x.Key), fp.expr(x.Value)))
			case *ssa.Call:
				if x.Referrers() == nil || len(*x.Referrers()) == 0 {
					effects = append(effects, fp.expr(x))
				} else if isEffectful(x) {
					effects = append(effects, fp.expr(x))
				}
			case *ssa.Panic:
				lines = append(lines, strings.Join(sortedCopy(conds), " && ")+" => "+strings.Join(effects, "; ")+" ; panic("+fp.expr(x.X)+")")
				return nil
			case *ssa.Return:
				var rs []string
				for _, r := range x.Results {
					rs = append(rs, fp.expr(r))
				}
				lines = append(lines, strings.Join(sortedCopy(conds), " && ")+" => "+strings.Join(effects, "; ")+" ; return ("+strings.Join(rs, ", ")+")")
				return nil
			case *ssa.If:
				c := fp.cond(x.Cond, true)
				nc := fp.cond(x.Cond, false)
				if err := walk(b.Succs[0], b, append(append([]string{}, conds...), c...), append([]string{}, effects...), visited); err != nil {
					return err
				}
				return walk(b.Succs[1], b, append(append([]string{}, conds...), nc...), append([]string{}, effects...), visited)
			case *ssa.Jump:
				return walk(b.Succs[0], b, conds, effects, visited)
			}
		}
		return nil
	}
	fp.pred = map[*ssa.BasicBlock]*ssa.BasicBlock{}
	if err := walk(f.Blocks[0], nil, nil, nil, map[*ssa.BasicBlock]bool{}); err != nil {
		return nil, err
	}
	sort.Strings(lines)
	return lines, nil
}

func isEffectful(c *ssa.Call) bool {
	if b, ok := c.Call.Value.(*ssa.Builtin); ok {
		switch b.Name() {
		case "copy", "close", "delete", "panic":
			return true
		}
	}
	return false
}

func sortedCopy(s []string) []string {
	out := append([]string{}, s...)
	sort.Strings(out)
	// dedupe
	var d []string
	for i, x := range out {
		if i == 0 || x != out[i-1] {
			d = append(d, x)
		}
	}
	return d
}

type fingerprinter struct {
	short bool
	f     *ssa.Function
	pred  map[*ssa.BasicBlock]*ssa.BasicBlock
	spill map[*ssa.Alloc]ssa.Value
}

func typeName(t types.Type) string {
	return types.TypeString(t, func(p *types.Package) string {
		if p.Path() == "capnproto.org/go/capnp/v3" {
			return ""
		}
		return p.Name()
	})
}

// cond renders a branch condition with the given truth as a list of conjuncts.
func (fp *fingerprinter) cond(v ssa.Value, truth bool) []string {
	switch x := v.(type) {
	case *ssa.UnOp:
		if x.Op == token.NOT {
			return fp.cond(x.X, !truth)
		}
	case *ssa.BinOp:
		switch x.Op {
		case token.EQL, token.NEQ, token.LSS, token.LEQ, token.GTR, token.GEQ:
			op := x.Op
			if !truth {
				op = negate(op)
			}
			a, b := fp.expr(x.X), fp.expr(x.Y)
			switch op {
			case token.GTR:
				return []string{fmt.Sprintf("%s < %s", b, a)}
			case token.GEQ:
				return []string{fmt.Sprintf("%s <= %s", b, a)}
			case token.EQL, token.NEQ:
				if b < a {
					a, b = b, a
				}
			}
			return []string{fmt.Sprintf("%s %s %s", a, op, b)}
		}
	case *ssa.Phi:
		// value of the phi on this path
		if p := fp.phiValue(x); p != nil {
			return fp.cond(p, truth)
		}
	case *ssa.Const:
		if x.Value != nil {
			if (x.Value.String() == "true") == truth {
				return nil
			}
			return []string{"false"}
		}
	}
	s := fp.expr(v)
	if !truth {
		s = "!" + s
	}
	return []string{s}
}

func (fp *fingerprinter) phiValue(p *ssa.Phi) ssa.Value {
	pred := fp.pred[p.Block()]
	for i, pb := range p.Block().Preds {
		if pb == pred {
			return p.Edges[i]
		}
	}
	return nil
}

func (fp *fingerprinter) addr(v ssa.Value) string {
	switch x := v.(type) {
	case *ssa.FieldAddr:
		if f := fieldVar(x); f != nil {
			return fp.addrBase(x.X) + "." + f.Name()
		}
	case *ssa.IndexAddr:
		return fp.addrBase(x.X) + "[" + fp.expr(x.Index) + "]"
	case *ssa.Alloc:
		if pv, ok := fp.spill[x]; ok {
			return fp.expr(pv)
		}
		if x.Comment != "" {
			return x.Comment
		}
	}
	return "*" + fp.expr(v)
}

func (fp *fingerprinter) addrBase(v ssa.Value) string {
	switch x := v.(type) {
	case *ssa.Alloc:
		if pv, ok := fp.spill[x]; ok {
			return fp.expr(pv)
		}
		if x.Comment != "" {
			return x.Comment
		}
	case *ssa.FieldAddr, *ssa.IndexAddr:
		return fp.addr(v)
	}
	return fp.expr(v)
}

var commutative = map[token.Token]bool{token.ADD: true, token.MUL: true, token.AND: true, token.OR: true, token.XOR: true}

func (fp *fingerprinter) expr(v ssa.Value) string {
	switch x := v.(type) {
	case nil:
		return "<nil>"
	case *ssa.Parameter:
		for i, p := range fp.f.Params {
			if p == x {
				return fmt.Sprintf("p%d", i)
			}
		}
		return x.Name()
	case *ssa.FreeVar:
		return x.Name()
	case *ssa.Global:
		return x.Name()
	case *ssa.Function:
		return FuncName(x)
	case *ssa.Builtin:
		return x.Name()
	case *ssa.Const:
		if x.Value == nil {
			if _, isStruct := x.Type().Underlying().(*types.Struct); isStruct {
				return "zero:" + typeName(x.Type())
			}
			return "nil"
		}
		if x.Value.Kind() == constant.String {
			return "<str>"
		}
		return x.Value.ExactString() + ":" + typeName(x.Type())
	case *ssa.BinOp:
		a, b := fp.expr(x.X), fp.expr(x.Y)
		op := x.Op
		switch op {
		case token.GTR:
			a, b, op = b, a, token.LSS
		case token.GEQ:
			a, b, op = b, a, token.LEQ
		}
		if (commutative[op] || op == token.EQL || op == token.NEQ) && b < a {
			a, b = b, a
		}
		return fmt.Sprintf("(%s %s %s)", a, op, b)
	case *ssa.UnOp:
		if x.Op == token.MUL {
			return fp.addr(x.X)
		}
		return fmt.Sprintf("%s%s", x.Op, fp.expr(x.X))
	case *ssa.Convert:
		return fmt.Sprintf("%s(%s)", typeName(x.Type()), fp.expr(x.X))
	case *ssa.ChangeType:
		return fmt.Sprintf("%s(%s)", typeName(x.Type()), fp.expr(x.X))
	case *ssa.ChangeInterface:
		return fp.expr(x.X)
	case *ssa.MakeInterface:
		return "iface(" + fp.expr(x.X) + ")"
	case *ssa.Field:
		if f := FieldOfField(x); f != nil {
			return fp.expr(x.X) + "." + f.Name()
		}
	case *ssa.FieldAddr:
		return "&" + fp.addr(x)
	case *ssa.IndexAddr:
		return "&" + fp.addr(x)
	case *ssa.Index:
		return fp.expr(x.X) + "[" + fp.expr(x.Index) + "]"
	case *ssa.Lookup:
		return fp.expr(x.X) + "[" + fp.expr(x.Index) + "]"
	case *ssa.Slice:
		lo, hi, mx := "", "", ""
		if x.Low != nil {
			lo = fp.expr(x.Low)
		}
		if x.High != nil {
			hi = fp.expr(x.High)
		}
		if x.Max != nil {
			mx = ":" + fp.expr(x.Max)
		}
		return fmt.Sprintf("%s[%s:%s%s]", fp.addrBase(x.X), lo, hi, mx)
	case *ssa.Extract:
		return fmt.Sprintf("%s#%d", fp.expr(x.Tuple), x.Index)
	case *ssa.Phi:
		if p := fp.phiValue(x); p != nil {
			return fp.expr(p)
		}
		return "phi"
	case *ssa.Alloc:
		if x.Comment != "" {
			return "&" + x.Comment
		}
		return "&" + x.Name()
	case *ssa.Call:
		var args []string
		for _, a := range x.Call.Args {
			args = append(args, fp.expr(a))
		}
		if x.Call.IsInvoke() {
			return fmt.Sprintf("%s.%s(%s)", fp.expr(x.Call.Value), x.Call.Method.Name(), strings.Join(args, ", "))
		}
		if f := x.Call.StaticCallee(); f != nil {
			name := FuncName(f)
			if fp.short {
				if i := strings.LastIndex(name, "."); i >= 0 {
					name = name[i+1:]
				}
			}
			return fmt.Sprintf("%s(%s)", name, strings.Join(args, ", "))
		}
		return fmt.Sprintf("%s(%s)", fp.expr(x.Call.Value), strings.Join(args, ", "))
	case *ssa.TypeAssert:
		return fmt.Sprintf("%s.(%s)", fp.expr(x.X), typeName(x.AssertedType))
	case *ssa.MakeSlice:
		return fmt.Sprintf("make(%s, %s, %s)", typeName(x.Type()), fp.expr(x.Len), fp.expr(x.Cap))
	case *ssa.MakeMap:
		return "make(" + typeName(x.Type()) + ")"
	case *ssa.MakeChan:
		return "make(" + typeName(x.Type()) + ")"
	case *ssa.MakeClosure:
		return "closure(" + fp.expr(x.Fn) + ")"
	}
	return fmt.Sprintf("%T", v)
}

// DomAtoms renders, in fingerprint normal form, the branch conditions that
// dominate instruction in (the conjunction on its dominator chain).
func DomAtoms(in ssa.Instruction) []string {
	fp := &fingerprinter{short: true, f: in.Parent(), pred: map[*ssa.BasicBlock]*ssa.BasicBlock{}, spill: map[*ssa.Alloc]ssa.Value{}}
	// register spilled parameters
	for _, b := range in.Parent().Blocks {
		for _, i2 := range b.Instrs {
			if st, ok := i2.(*ssa.Store); ok {
				if _, isParam := st.Val.(*ssa.Parameter); isParam {
					if al, ok := st.Addr.(*ssa.Alloc); ok && al.Comment == st.Val.Name() {
						fp.spill[al] = st.Val
					}
				}
			}
		}
	}
	var out []string
	for _, g := range Guards(in.Block()) {
		out = append(out, fp.cond(g.Cond, g.True)...)
	}
	return sortedCopy(out)
}

// RenderValue renders a value in fingerprint normal form (phis are opaque).
func RenderValue(f *ssa.Function, v ssa.Value) string {
	fp := &fingerprinter{short: true, f: f, pred: map[*ssa.BasicBlock]*ssa.BasicBlock{}, spill: map[*ssa.Alloc]ssa.Value{}}
	for _, b := range f.Blocks {
		for _, i2 := range b.Instrs {
			if st, ok := i2.(*ssa.Store); ok {
				if _, isParam := st.Val.(*ssa.Parameter); isParam {
					if al, ok := st.Addr.(*ssa.Alloc); ok && al.Comment == st.Val.Name() {
						fp.spill[al] = st.Val
					}
				}
			}
		}
	}
	return fp.expr(v)
}

// RenderCond renders a branch condition under the given truth in normal form
// (conjuncts joined by " && ").
func RenderCond(f *ssa.Function, cond ssa.Value, truth bool) string {
	fp := &fingerprinter{short: true, f: f, pred: map[*ssa.BasicBlock]*ssa.BasicBlock{}, spill: map[*ssa.Alloc]ssa.Value{}}
	for _, b := range f.Blocks {
		for _, i2 := range b.Instrs {
			if st, ok := i2.(*ssa.Store); ok {
				if _, isParam := st.Val.(*ssa.Parameter); isParam {
					if al, ok := st.Addr.(*ssa.Alloc); ok && al.Comment == st.Val.Name() {
						fp.spill[al] = st.Val
					}
				}
			}
		}
	}
	return strings.Join(sortedCopy(fp.cond(cond, truth)), " && ")
}

// Anchor is a call instruction of interest inside a function, named by its
// callee and its ordinal among the calls of that callee in the function.
type Anchor struct {
	Callee  string
	Ordinal int
	Instr   ssa.Instruction
	Args    []string
	Atoms   []string
}

// Anchors lists the calls in f (in block/instruction order) with their
// dominating atoms.
func Anchors(f *ssa.Function) []Anchor {
	var out []Anchor
	count := map[string]int{}
	for _, b := range f.Blocks {
		for _, in := range b.Instrs {
			ci, ok := in.(ssa.CallInstruction)
			if !ok {
				continue
			}
			name := StaticCalleeName(in)
			if name == "" {
				if bi, ok := ci.Common().Value.(*ssa.Builtin); ok {
					name = "builtin." + bi.Name()
				} else if ci.Common().IsInvoke() {
					name = InvokeName(in)
				} else {
					name = "dynamic"
				}
			}
			count[name]++
			var args []string
			for _, a := range ci.Common().Args {
				args = append(args, RenderValue(f, a))
			}
			out = append(out, Anchor{Callee: name, Ordinal: count[name], Instr: in, Args: args, Atoms: DomAtoms(in)})
		}
	}
	return out
}
