// Package ssaq is E3: queries on the SSA form (dominating guards, value
// provenance, dynamic-type sets of interface values, who-writes/-reads).
package ssaq

import (
	"fmt"
	"go/token"
	"go/types"
	"sort"
	"strings"
	"sync"

	"golang.org/x/tools/go/callgraph"
	"golang.org/x/tools/go/callgraph/cha"
	"golang.org/x/tools/go/ssa"
	"golang.org/x/tools/go/ssa/ssautil"

	"verifcheck/internal/core"
)

type Q struct {
	P     *core.Prog
	S     *ssa.Program
	funcs map[string]*ssa.Function
	All   map[*ssa.Function]bool

	chaOnce sync.Once
	cg      *callgraph.Graph

	dynMemo map[dynKey]*TypeSet
	dynBusy map[dynKey]bool
}

var (
	mu    sync.Mutex
	cache = map[*core.Prog]*Q{}
)

// For returns the (cached) query object for p.
func For(p *core.Prog) *Q {
	mu.Lock()
	defer mu.Unlock()
	if q := cache[p]; q != nil {
		return q
	}
	p.BuildSSA()
	q := &Q{P: p, S: p.SSAProg, funcs: map[string]*ssa.Function{}, dynMemo: map[dynKey]*TypeSet{}, dynBusy: map[dynKey]bool{}}
	q.All = ssautil.AllFunctions(p.SSAProg)
	for f := range q.All {
		if f.Pkg == nil && f.Object() == nil && f.Parent() == nil {
			continue
		}
		if f.Synthetic != "" {
			continue // wrappers, bound methods, thunks: share the name of the real function
		}
		q.funcs[FuncName(f)] = f
	}
	cache[p] = q
	return q
}

// FuncName renders an SSA function like core.FuncName, with $n for literals.
func FuncName(f *ssa.Function) string {
	if f == nil {
		return "?"
	}
	if f.Parent() != nil {
		// anonymous: name is like "Outer$1" or "Outer$1$2"
		root := f
		for root.Parent() != nil {
			root = root.Parent()
		}
		suffix := strings.TrimPrefix(f.Name(), root.Name())
		return FuncName(root) + suffix
	}
	if obj, ok := f.Object().(*types.Func); ok {
		if o := obj.Origin(); o != nil {
			obj = o
		}
		return core.FuncName(obj)
	}
	if f.Pkg != nil {
		pkg := strings.TrimPrefix(strings.TrimPrefix(f.Pkg.Pkg.Path(), core.ModPath), "/")
		if pkg == "" {
			pkg = "capnp"
		}
		return pkg + "." + f.Name()
	}
	return f.String()
}

// Func looks a function up by rendered name.
func (q *Q) Func(name string) *ssa.Function { return q.funcs[name] }

// FuncsIn returns the source functions (with bodies, including literals) of
// the packages with the given module-relative paths, sorted by position.
func (q *Q) FuncsIn(rels ...string) []*ssa.Function {
	want := map[string]bool{}
	for _, r := range rels {
		p := core.ModPath
		if r != "" {
			p += "/" + r
		}
		want[p] = true
	}
	var out []*ssa.Function
	for f := range q.All {
		if f.Blocks == nil || f.Synthetic != "" {
			continue
		}
		root := f
		for root.Parent() != nil {
			root = root.Parent()
		}
		if root.Pkg == nil || !want[root.Pkg.Pkg.Path()] {
			continue
		}
		out = append(out, f)
	}
	sort.Slice(out, func(i, j int) bool {
		if out[i].Pos() != out[j].Pos() {
			return out[i].Pos() < out[j].Pos()
		}
		return FuncName(out[i]) < FuncName(out[j])
	})
	return out
}

// CHA returns the class-hierarchy call graph.
func (q *Q) CHA() *callgraph.Graph {
	q.chaOnce.Do(func() { q.cg = cha.CallGraph(q.S) })
	return q.cg
}

// Callees returns the possible callees of a call instruction.
func (q *Q) Callees(site ssa.CallInstruction) []*ssa.Function {
	if f := site.Common().StaticCallee(); f != nil {
		return []*ssa.Function{f}
	}
	n := q.CHA().Nodes[site.Parent()]
	if n == nil {
		return nil
	}
	var out []*ssa.Function
	for _, e := range n.Out {
		if e.Site == site {
			out = append(out, e.Callee.Func)
		}
	}
	return out
}

// Callers returns the call edges into f.
func (q *Q) Callers(f *ssa.Function) []*callgraph.Edge {
	n := q.CHA().Nodes[f]
	if n == nil {
		return nil
	}
	return n.In
}

// Pos renders an instruction position.
func (q *Q) Pos(p token.Pos) string { return q.P.Rel(p) }

// InstrPos returns the best position for an instruction.
func InstrPos(i ssa.Instruction) token.Pos {
	if p := i.Pos(); p.IsValid() {
		return p
	}
	if v, ok := i.(ssa.Value); ok {
		for _, r := range *v.Referrers() {
			if p := r.Pos(); p.IsValid() {
				return p
			}
		}
	}
	return i.Parent().Pos()
}

// ---------------------------------------------------------------------------
// Dominating guards

// Guard is a branch condition known to hold (True) or fail (!True) at a block.
type Guard struct {
	Cond ssa.Value
	True bool
	If   *ssa.If
}

// Guards returns the conditions established on the dominator chain of b.
func Guards(b *ssa.BasicBlock) []Guard {
	var out []Guard
	for cur := b; cur != nil; cur = cur.Idom() {
		d := cur.Idom()
		if d == nil {
			break
		}
		ifi, ok := d.Instrs[len(d.Instrs)-1].(*ssa.If)
		if !ok {
			continue
		}
		t, f := d.Succs[0], d.Succs[1]
		switch {
		case t != f && len(t.Preds) == 1 && t.Dominates(b):
			out = append(out, Guard{Cond: ifi.Cond, True: true, If: ifi})
		case t != f && len(f.Preds) == 1 && f.Dominates(b):
			out = append(out, Guard{Cond: ifi.Cond, True: false, If: ifi})
		}
	}
	return out
}

// Atom is a normalised comparison X op Y that is known to hold.
type Atom struct {
	Op   token.Token // EQL NEQ LSS LEQ GTR GEQ; or token.ILLEGAL for a bare boolean value
	X, Y ssa.Value
	Val  ssa.Value // for bare booleans
	True bool      // for bare booleans: value is true
}

func negate(op token.Token) token.Token {
	switch op {
	case token.EQL:
		return token.NEQ
	case token.NEQ:
		return token.EQL
	case token.LSS:
		return token.GEQ
	case token.GEQ:
		return token.LSS
	case token.GTR:
		return token.LEQ
	case token.LEQ:
		return token.GTR
	}
	return token.ILLEGAL
}

// Atoms expands guards into atoms, looking through !x.
func Atoms(gs []Guard) []Atom {
	var out []Atom
	for _, g := range gs {
		out = append(out, atomsOf(g.Cond, g.True)...)
	}
	return out
}

func atomsOf(v ssa.Value, truth bool) []Atom {
	switch x := v.(type) {
	case *ssa.UnOp:
		if x.Op == token.NOT {
			return atomsOf(x.X, !truth)
		}
	case *ssa.BinOp:
		switch x.Op {
		case token.EQL, token.NEQ, token.LSS, token.LEQ, token.GTR, token.GEQ:
			op := x.Op
			if !truth {
				op = negate(op)
			}
			return []Atom{{Op: op, X: x.X, Y: x.Y}}
		}
	case *ssa.Phi:
		// short-circuit && / || produce phis of constants and conditions:
		// cond = phi [false, b]   (a && b, a false on the first edge)
		// If the phi is known true and all but one edge are the constant false,
		// then the remaining edge's value is true as well (and the conditions
		// guarding that edge are established through dominance anyway).
		if truth {
			var rest []ssa.Value
			for _, e := range x.Edges {
				if c, ok := e.(*ssa.Const); ok && c.Value != nil && c.Value.String() == "false" {
					continue
				}
				rest = append(rest, e)
			}
			if len(rest) == 1 && len(rest) < len(x.Edges) {
				out := atomsOf(rest[0], true)
				// a && b: reaching the edge that carries b means a was true
				out = append(out, andPrefixAtoms(x, rest[0])...)
				return out
			}
		} else {
			var rest []ssa.Value
			for _, e := range x.Edges {
				if c, ok := e.(*ssa.Const); ok && c.Value != nil && c.Value.String() == "true" {
					continue
				}
				rest = append(rest, e)
			}
			if len(rest) == 1 && len(rest) < len(x.Edges) {
				out := atomsOf(rest[0], false)
				out = append(out, orPrefixAtoms(x, rest[0])...)
				return out
			}
		}
	}
	return []Atom{{Op: token.ILLEGAL, Val: v, True: truth}}
}

// andPrefixAtoms: for phi = a && b known true, the block computing b is
// dominated by a's true edge; collect the guards of that block that are not
// guards of the phi's own idom chain (they hold because the phi is true).
func andPrefixAtoms(phi *ssa.Phi, last ssa.Value) []Atom {
	for i, e := range phi.Edges {
		if e == last {
			pred := phi.Block().Preds[i]
			return Atoms(Guards(pred))
		}
	}
	return nil
}

func orPrefixAtoms(phi *ssa.Phi, last ssa.Value) []Atom {
	return andPrefixAtoms(phi, last)
}

// IsNilConst reports whether v is the nil constant.
func IsNilConst(v ssa.Value) bool {
	c, ok := v.(*ssa.Const)
	return ok && c.Value == nil
}

// ConstInt returns the integer value of a constant.
func ConstInt(v ssa.Value) (int64, bool) {
	c, ok := v.(*ssa.Const)
	if !ok || c.Value == nil {
		return 0, false
	}
	if !types.Identical(c.Type().Underlying(), c.Type().Underlying()) {
		return 0, false
	}
	if i, ok := constInt64(c); ok {
		return i, true
	}
	return 0, false
}

func constInt64(c *ssa.Const) (int64, bool) {
	defer func() { recover() }()
	if b, ok := c.Type().Underlying().(*types.Basic); ok && b.Info()&types.IsInteger != 0 {
		if b.Info()&types.IsUnsigned != 0 {
			return int64(c.Uint64()), true
		}
		return c.Int64(), true
	}
	return 0, false
}

// ---------------------------------------------------------------------------
// Dynamic types of interface values

type dynKey struct {
	f   *ssa.Function
	idx int
}

// TypeSet is a set of concrete types an interface value may hold.
type TypeSet struct {
	Types   map[string]types.Type
	Unknown []string // reasons the set is not closed
}

func newTS() *TypeSet { return &TypeSet{Types: map[string]types.Type{}} }

func (t *TypeSet) add(o *TypeSet) {
	for k, v := range o.Types {
		t.Types[k] = v
	}
	t.Unknown = append(t.Unknown, o.Unknown...)
}

func (t *TypeSet) Has(ty types.Type) bool {
	_, ok := t.Types[types.TypeString(ty, nil)]
	return ok
}

func (t *TypeSet) String() string {
	var ks []string
	for k := range t.Types {
		ks = append(ks, k)
	}
	sort.Strings(ks)
	s := "{" + strings.Join(ks, ", ") + "}"
	if len(t.Unknown) > 0 {
		s += fmt.Sprintf(" + unknown(%d: %s)", len(t.Unknown), t.Unknown[0])
	}
	return s
}

// ResultTypes returns the dynamic types result idx of f may hold.
func (q *Q) ResultTypes(f *ssa.Function, idx int) *TypeSet {
	k := dynKey{f, idx}
	if ts, ok := q.dynMemo[k]; ok {
		return ts
	}
	if q.dynBusy[k] {
		return newTS() // recursion: contributes nothing new
	}
	q.dynBusy[k] = true
	defer delete(q.dynBusy, k)
	ts := newTS()
	if f.Blocks == nil {
		ts.Unknown = append(ts.Unknown, "no body: "+FuncName(f))
		q.dynMemo[k] = ts
		return ts
	}
	for _, b := range f.Blocks {
		for _, in := range b.Instrs {
			if r, ok := in.(*ssa.Return); ok && idx < len(r.Results) {
				ts.add(q.DynTypes(r.Results[idx], map[ssa.Value]bool{}))
			}
		}
	}
	q.dynMemo[k] = ts
	return ts
}

// DynTypes returns the dynamic types interface value v may hold.
func (q *Q) DynTypes(v ssa.Value, seen map[ssa.Value]bool) *TypeSet {
	ts := newTS()
	if seen[v] {
		return ts
	}
	seen[v] = true
	switch x := v.(type) {
	case *ssa.Const:
		// nil interface: no dynamic type
	case *ssa.MakeInterface:
		t := x.X.Type()
		ts.Types[types.TypeString(t, nil)] = t
	case *ssa.ChangeInterface:
		ts.add(q.DynTypes(x.X, seen))
	case *ssa.ChangeType:
		ts.add(q.DynTypes(x.X, seen))
	case *ssa.Phi:
		for _, e := range x.Edges {
			ts.add(q.DynTypes(e, seen))
		}
	case *ssa.TypeAssert:
		if _, isIface := x.AssertedType.Underlying().(*types.Interface); isIface {
			ts.add(q.DynTypes(x.X, seen))
		} else {
			ts.Types[types.TypeString(x.AssertedType, nil)] = x.AssertedType
		}
	case *ssa.Extract:
		if call, ok := x.Tuple.(*ssa.Call); ok {
			ts.add(q.callResultTypes(call, x.Index))
		} else if ta, ok := x.Tuple.(*ssa.TypeAssert); ok && x.Index == 0 {
			ts.add(q.DynTypes(ta, seen))
		} else {
			ts.Unknown = append(ts.Unknown, fmt.Sprintf("extract of %T", x.Tuple))
		}
	case *ssa.Call:
		ts.add(q.callResultTypes(x, 0))
	case *ssa.Parameter:
		ts.add(q.paramTypes(x, seen))
	case *ssa.FreeVar:
		ts.Unknown = append(ts.Unknown, "free variable "+x.Name())
	case *ssa.UnOp:
		if x.Op == token.MUL {
			ts.add(q.loadTypes(x, seen))
		} else {
			ts.Unknown = append(ts.Unknown, "unop")
		}
	default:
		ts.Unknown = append(ts.Unknown, fmt.Sprintf("%T", v))
	}
	return ts
}

func (q *Q) callResultTypes(call *ssa.Call, idx int) *TypeSet {
	ts := newTS()
	callees := q.Callees(call)
	if len(callees) == 0 {
		ts.Unknown = append(ts.Unknown, "unresolved call "+call.String())
		return ts
	}
	for _, c := range callees {
		ts.add(q.ResultTypes(c, idx))
	}
	return ts
}

func (q *Q) paramTypes(p *ssa.Parameter, seen map[ssa.Value]bool) *TypeSet {
	ts := newTS()
	f := p.Parent()
	pi := -1
	for i, fp := range f.Params {
		if fp == p {
			pi = i
		}
	}
	edges := q.Callers(f)
	if pi < 0 || len(edges) == 0 {
		ts.Unknown = append(ts.Unknown, "parameter "+p.Name()+" of "+FuncName(f)+" without known callers")
		return ts
	}
	for _, e := range edges {
		if e.Site == nil {
			ts.Unknown = append(ts.Unknown, "synthetic caller of "+FuncName(f))
			continue
		}
		args := e.Site.Common().Args
		ai := pi
		if e.Site.Common().IsInvoke() {
			ai = pi - 1 // receiver is not in Args
		}
		if ai < 0 || ai >= len(args) {
			ts.Unknown = append(ts.Unknown, "argument mismatch at caller of "+FuncName(f))
			continue
		}
		ts.add(q.DynTypes(args[ai], seen))
	}
	return ts
}

// loadTypes: *addr where addr is a local alloc, a field address or a global:
// union over the stores to it (field- and global-sensitive, flow-insensitive).
func (q *Q) loadTypes(load *ssa.UnOp, seen map[ssa.Value]bool) *TypeSet {
	ts := newTS()
	switch a := load.X.(type) {
	case *ssa.Alloc:
		for _, r := range *a.Referrers() {
			if st, ok := r.(*ssa.Store); ok && st.Addr == a {
				ts.add(q.DynTypes(st.Val, seen))
			}
		}
	case *ssa.FieldAddr:
		fld := fieldVar(a)
		n := 0
		for f := range q.All {
			for _, b := range f.Blocks {
				for _, in := range b.Instrs {
					if st, ok := in.(*ssa.Store); ok {
						if fa, ok := st.Addr.(*ssa.FieldAddr); ok && fieldVar(fa) == fld {
							n++
							ts.add(q.DynTypes(st.Val, seen))
						}
					}
				}
			}
		}
		if n == 0 {
			ts.Unknown = append(ts.Unknown, "field without stores: "+fld.Name())
		}
	case *ssa.FreeVar:
		// captured variable: stores through the free variable in this closure,
		// and stores to the captured cell in the enclosing function and in its
		// other closures.
		cells := []ssa.Value{a}
		fn := a.Parent()
		idx := -1
		for i, fv := range fn.FreeVars {
			if fv == a {
				idx = i
			}
		}
		if par := fn.Parent(); par != nil && idx >= 0 {
			for _, b := range par.Blocks {
				for _, in := range b.Instrs {
					if mc, ok := in.(*ssa.MakeClosure); ok && mc.Fn == fn && idx < len(mc.Bindings) {
						cells = append(cells, mc.Bindings[idx])
					}
				}
			}
		} else {
			ts.Unknown = append(ts.Unknown, "free variable without binding: "+a.Name())
		}
		for _, cell := range cells {
			refs := cell.Referrers()
			if refs == nil {
				continue
			}
			for _, r := range *refs {
				switch st := r.(type) {
				case *ssa.Store:
					if st.Addr == cell {
						ts.add(q.DynTypes(st.Val, seen))
					}
				case *ssa.MakeClosure:
					// another closure capturing the same cell
					for bi, bv := range st.Bindings {
						if bv == cell && st.Fn != ssa.Value(fn) {
							if of, ok := st.Fn.(*ssa.Function); ok && bi < len(of.FreeVars) {
								for _, rr := range *of.FreeVars[bi].Referrers() {
									if s2, ok := rr.(*ssa.Store); ok && s2.Addr == of.FreeVars[bi] {
										ts.add(q.DynTypes(s2.Val, seen))
									}
								}
							}
						}
					}
				}
			}
		}
	default:
		ts.Unknown = append(ts.Unknown, fmt.Sprintf("load from %T", load.X))
	}
	return ts
}

func fieldVar(fa *ssa.FieldAddr) *types.Var {
	t := fa.X.Type()
	if p, ok := t.Underlying().(*types.Pointer); ok {
		t = p.Elem()
	}
	st, ok := t.Underlying().(*types.Struct)
	if !ok {
		return nil
	}
	return st.Field(fa.Field)
}

// FieldVar is the exported form.
func FieldVar(fa *ssa.FieldAddr) *types.Var { return fieldVar(fa) }

// FieldOfField returns the struct field selected by a Field instruction.
func FieldOfField(f *ssa.Field) *types.Var {
	st, ok := f.X.Type().Underlying().(*types.Struct)
	if !ok {
		return nil
	}
	return st.Field(f.Field)
}

// ---------------------------------------------------------------------------
// Access paths and field comparisons

// AccessPath renders the access path of a value: parameters, free and local
// variables by name, field selections as ".f", loads are transparent.
func AccessPath(v ssa.Value) string {
	switch x := v.(type) {
	case *ssa.Parameter:
		return ParamRefName(x) // the name on the reference tree: tables keep resolving when a parameter is renamed
	case *ssa.FreeVar:
		return x.Name()
	case *ssa.Alloc:
		if x.Comment != "" {
			// the local a parameter was spilled to answers to the parameter's name
			if f := x.Parent(); f != nil {
				for _, p := range f.Params {
					if p.Name() == x.Comment {
						return ParamRefName(p)
					}
				}
			}
			return x.Comment
		}
		return x.Name()
	case *ssa.Global:
		return x.Name()
	case *ssa.UnOp:
		if x.Op == token.MUL {
			return AccessPath(x.X)
		}
	case *ssa.FieldAddr:
		if f := fieldVar(x); f != nil {
			return AccessPath(x.X) + "." + core.FieldName(f)
		}
	case *ssa.Field:
		if f := FieldOfField(x); f != nil {
			return AccessPath(x.X) + "." + core.FieldName(f)
		}
	case *ssa.IndexAddr:
		return AccessPath(x.X) + "[" + AccessPath(x.Index) + "]"
	case *ssa.Index:
		return AccessPath(x.X) + "[" + AccessPath(x.Index) + "]"
	case *ssa.Lookup:
		return AccessPath(x.X) + "[" + AccessPath(x.Index) + "]"
	case *ssa.Const:
		if x.Value == nil {
			return "nil"
		}
		return x.Value.String()
	case *ssa.ChangeType:
		return AccessPath(x.X)
	case *ssa.Convert:
		return AccessPath(x.X)
	case *ssa.Phi:
		if x.Comment != "" {
			return x.Comment
		}
	case *ssa.Extract:
		return fmt.Sprintf("%s#%d", AccessPath(x.Tuple), x.Index)
	case *ssa.Call:
		if f := x.Common().StaticCallee(); f != nil {
			return FuncName(f) + "()@" + x.Name()
		}
	}
	return v.Name()
}

// LoadedField returns the field a value was loaded from (x.f or (*p).f).
func LoadedField(v ssa.Value) (*types.Var, ssa.Value) {
	switch x := v.(type) {
	case *ssa.UnOp:
		if x.Op == token.MUL {
			if fa, ok := x.X.(*ssa.FieldAddr); ok {
				return fieldVar(fa), fa.X
			}
		}
	case *ssa.Field:
		return FieldOfField(x), x.X
	case *ssa.ChangeType:
		return LoadedField(x.X)
	case *ssa.Convert:
		return LoadedField(x.X)
	}
	return nil, nil
}

// FieldCmp is an atom "base.field op K".
type FieldCmp struct {
	Field *types.Var
	Base  string
	Op    token.Token
	K     int64
	IsNil bool // comparison against nil instead of K
}

func flip(op token.Token) token.Token {
	switch op {
	case token.LSS:
		return token.GTR
	case token.GTR:
		return token.LSS
	case token.LEQ:
		return token.GEQ
	case token.GEQ:
		return token.LEQ
	}
	return op
}

// FieldCmps extracts the atoms that compare a loaded field with a constant.
func FieldCmps(atoms []Atom) []FieldCmp {
	var out []FieldCmp
	for _, a := range atoms {
		if a.Op == token.ILLEGAL {
			continue
		}
		x, y, op := a.X, a.Y, a.Op
		if _, isConst := x.(*ssa.Const); isConst {
			x, y, op = y, x, flip(op)
		}
		f, base := LoadedField(x)
		if f == nil {
			continue
		}
		if IsNilConst(y) {
			out = append(out, FieldCmp{Field: f, Base: AccessPath(base), Op: op, IsNil: true})
			continue
		}
		if k, ok := ConstInt(y); ok {
			out = append(out, FieldCmp{Field: f, Base: AccessPath(base), Op: op, K: k})
		}
	}
	return out
}

// AtomString renders an atom for messages.
func AtomString(a Atom) string {
	if a.Op == token.ILLEGAL {
		if a.True {
			return AccessPath(a.Val)
		}
		return "!" + AccessPath(a.Val)
	}
	return fmt.Sprintf("%s %s %s", AccessPath(a.X), a.Op, AccessPath(a.Y))
}

// AtomsString renders a list of atoms.
func AtomsString(as []Atom) string {
	var parts []string
	for _, a := range as {
		parts = append(parts, AtomString(a))
	}
	return strings.Join(parts, " && ")
}

// BuiltinCall reports whether instr is a call of the named builtin.
func BuiltinCall(in ssa.Instruction, name string) (*ssa.CallCommon, bool) {
	c, ok := in.(ssa.CallInstruction)
	if !ok {
		return nil, false
	}
	b, ok := c.Common().Value.(*ssa.Builtin)
	if !ok || b.Name() != name {
		return nil, false
	}
	return c.Common(), true
}

// InvokeOf reports whether instr invokes interface method iface.method
// (iface rendered like core.FuncName: "capnp.(ClientHook).Shutdown").
func InvokeName(in ssa.Instruction) string {
	c, ok := in.(ssa.CallInstruction)
	if !ok || !c.Common().IsInvoke() {
		return ""
	}
	return core.FuncName(c.Common().Method)
}

// StaticCalleeName returns the rendered static callee of a call instruction.
func StaticCalleeName(in ssa.Instruction) string {
	c, ok := in.(ssa.CallInstruction)
	if !ok {
		return ""
	}
	if f := c.Common().StaticCallee(); f != nil {
		return FuncName(f)
	}
	return ""
}

// DominatesInstr reports whether instruction a dominates instruction b.
func DominatesInstr(a, b ssa.Instruction) bool {
	if a.Block() == b.Block() {
		for _, in := range a.Block().Instrs {
			if in == a {
				return true
			}
			if in == b {
				return false
			}
		}
	}
	return a.Block().Dominates(b.Block())
}

// ---------------------------------------------------------------------------
// Must-non-nil dataflow for a field access path

// MustNonNilField reports whether base.field is known non-nil just before
// instruction at on every path from the function entry: established by a
// store of a freshly made value, or by a branch on `base.field != nil`
// (== nil on the other edge); killed by any other store to the field.
func MustNonNilField(f *ssa.Function, at ssa.Instruction, field *types.Var, base string) bool {
	isField := func(addr ssa.Value) bool {
		fa, ok := addr.(*ssa.FieldAddr)
		return ok && fieldVar(fa) == field && AccessPath(fa.X) == base
	}
	isLoad := func(v ssa.Value) bool {
		fld, b := LoadedField(v)
		return fld == field && b != nil && AccessPath(b) == base
	}
	fresh := func(v ssa.Value) bool {
		switch v.(type) {
		case *ssa.MakeMap, *ssa.MakeSlice, *ssa.MakeChan, *ssa.Alloc, *ssa.MakeClosure, *ssa.MakeInterface:
			return true
		}
		return false
	}
	// transfer within a block up to (not including) stop
	transfer := func(b *ssa.BasicBlock, in bool, stop ssa.Instruction) bool {
		cur := in
		for _, ins := range b.Instrs {
			if ins == stop {
				return cur
			}
			if st, ok := ins.(*ssa.Store); ok && isField(st.Addr) {
				cur = fresh(st.Val)
			}
		}
		return cur
	}
	edge := func(b *ssa.BasicBlock, succIdx int, out bool) bool {
		ifi, ok := b.Instrs[len(b.Instrs)-1].(*ssa.If)
		if !ok {
			return out
		}
		for _, a := range atomsOf(ifi.Cond, succIdx == 0) {
			if a.Op != token.EQL && a.Op != token.NEQ {
				continue
			}
			x, y := a.X, a.Y
			if IsNilConst(x) {
				x, y = y, x
			}
			if IsNilConst(y) && isLoad(x) {
				return a.Op == token.NEQ
			}
		}
		return out
	}
	in := map[*ssa.BasicBlock]bool{}
	for _, b := range f.Blocks {
		in[b] = true
	}
	in[f.Blocks[0]] = false
	for changed := true; changed; {
		changed = false
		for _, b := range f.Blocks {
			if b != f.Blocks[0] && len(b.Preds) > 0 {
				v := true
				for _, p := range b.Preds {
					idx := 0
					for i, s := range p.Succs {
						if s == b {
							idx = i
						}
					}
					v = v && edge(p, idx, transfer(p, in[p], nil))
				}
				if v != in[b] {
					in[b] = v
					changed = true
				}
			}
		}
	}
	return transfer(at.Block(), in[at.Block()], at)
}

// ResolveLocal follows a value through local variables: a load of a local
// (Alloc) that has exactly one store yields the stored value, and a load of a
// captured variable (FreeVar) is followed to the variable of the enclosing
// function through the closure's bindings. Other values are returned unchanged.
func ResolveLocal(v ssa.Value) ssa.Value {
	for depth := 0; depth < 6; depth++ {
		u, ok := v.(*ssa.UnOp)
		if !ok || u.Op != token.MUL {
			return v
		}
		var cell ssa.Value = u.X
		if fv, ok := cell.(*ssa.FreeVar); ok {
			fn := fv.Parent()
			idx := -1
			for i, x := range fn.FreeVars {
				if x == fv {
					idx = i
				}
			}
			cell = nil
			if p := fn.Parent(); p != nil && idx >= 0 {
				for _, b := range p.Blocks {
					for _, in := range b.Instrs {
						if mc, ok := in.(*ssa.MakeClosure); ok && mc.Fn == ssa.Value(fn) && idx < len(mc.Bindings) {
							cell = mc.Bindings[idx]
						}
					}
				}
			}
			if cell == nil {
				return v
			}
		}
		al, ok := cell.(*ssa.Alloc)
		if !ok {
			return v
		}
		var stored ssa.Value
		n := 0
		for _, ref := range *al.Referrers() {
			if st, ok := ref.(*ssa.Store); ok && st.Addr == ssa.Value(al) {
				stored = st.Val
				n++
			}
		}
		if n != 1 {
			return v
		}
		v = stored
	}
	return v
}

// IsNew reports whether f (or, for a function literal, its enclosing declared
// function) did not exist on the reference tree.
func IsNew(f *ssa.Function) bool {
	for f != nil && f.Parent() != nil {
		f = f.Parent()
	}
	if f == nil {
		return false
	}
	obj, ok := f.Object().(*types.Func)
	return ok && core.IsNewFunc(obj)
}

// Attributed returns the functions an effect inside f is attributed to: f
// itself when it existed on the reference tree, otherwise (a new helper) the
// reference-tree functions that reach it through static calls of new helpers.
// ok is false when a new helper has no caller at all (e.g. a new exported API).
func (q *Q) Attributed(f *ssa.Function) (names []string, ok bool) {
	for f.Parent() != nil {
		f = f.Parent()
	}
	if !IsNew(f) {
		return []string{FuncName(f)}, true
	}
	seen := map[*ssa.Function]bool{f: true}
	work := []*ssa.Function{f}
	set := map[string]bool{}
	ok = true
	for len(work) > 0 {
		g := work[len(work)-1]
		work = work[:len(work)-1]
		edges := q.Callers(g)
		if len(edges) == 0 {
			ok = false
		}
		for _, e := range edges {
			c := e.Caller.Func
			for c.Parent() != nil {
				c = c.Parent()
			}
			if IsNew(c) {
				if !seen[c] {
					seen[c] = true
					work = append(work, c)
				}
				continue
			}
			set[FuncName(c)] = true
		}
	}
	for n := range set {
		names = append(names, n)
	}
	sort.Strings(names)
	return names, ok && len(names) > 0
}

// Forget drops the cached query object of p (scratch programs of the
// sensitivity self-test).
func Forget(p *core.Prog) {
	mu.Lock()
	defer mu.Unlock()
	delete(cache, p)
}
