package ssaq

import (
	"fmt"
	"go/token"
	"go/types"
	"regexp"
	"sort"
	"strings"

	"golang.org/x/tools/go/ssa"

	"verifcheck/internal/core"
)

// localStores classifies the uses of a local (an Alloc): the stores of a whole
// value, the stores into its fields, and whether its address is used in any
// other way (passed on, indexed, captured), in which case nothing is known
// about its contents.
func localStores(al *ssa.Alloc) (whole []*ssa.Store, fields map[int][]*ssa.Store, escapes bool) {
	fields = map[int][]*ssa.Store{}
	refs := al.Referrers()
	if refs == nil {
		return nil, fields, true
	}
	for _, r := range *refs {
		switch x := r.(type) {
		case *ssa.Store:
			if x.Addr == ssa.Value(al) {
				whole = append(whole, x)
			} else {
				escapes = true
			}
		case *ssa.UnOp:
			// load
		case *ssa.DebugRef:
		case *ssa.FieldAddr:
			frefs := x.Referrers()
			if frefs == nil {
				continue
			}
			for _, fr := range *frefs {
				switch y := fr.(type) {
				case *ssa.Store:
					if y.Addr == ssa.Value(x) {
						fields[x.Field] = append(fields[x.Field], y)
					} else {
						escapes = true
					}
				case *ssa.UnOp, *ssa.DebugRef:
				case *ssa.FieldAddr:
					// nested field: reads are fine, writes are not followed
					if nrefs := y.Referrers(); nrefs != nil {
						for _, nr := range *nrefs {
							if st, ok := nr.(*ssa.Store); ok && st.Addr == ssa.Value(y) {
								escapes = true
							} else if _, isLoad := nr.(*ssa.UnOp); !isLoad {
								if _, isDbg := nr.(*ssa.DebugRef); !isDbg {
									if _, isFA := nr.(*ssa.FieldAddr); !isFA {
										escapes = true
									}
								}
							}
						}
					}
				default:
					escapes = true
				}
			}
		default:
			escapes = true
		}
	}
	return whole, fields, escapes
}

// localDef renders the definition of a local that is assigned exactly once as
// a whole, or built field by field with one store per field.
func (fp *fingerprinter) localDef(al *ssa.Alloc) (string, bool) {
	if !fp.deflocals || fp.defDepth > 4 {
		return "", false
	}
	if _, isStruct := al.Type().(*types.Pointer).Elem().Underlying().(*types.Struct); !isStruct {
		return "", false
	}
	whole, fields, escapes := localStores(al)
	if escapes {
		return "", false
	}
	fp.defDepth++
	defer func() { fp.defDepth-- }()
	switch {
	case len(whole) == 1 && len(fields) == 0:
		return fp.expr(whole[0].Val), true
	case len(whole) == 0 && len(fields) > 0:
		st := al.Type().(*types.Pointer).Elem().Underlying().(*types.Struct)
		var idx []int
		for i, ss := range fields {
			if len(ss) != 1 {
				return "", false
			}
			idx = append(idx, i)
		}
		sort.Ints(idx)
		var parts []string
		for _, i := range idx {
			parts = append(parts, core.FieldName(st.Field(i))+": "+fp.expr(fields[i][0].Val))
		}
		return typeName(al.Type().(*types.Pointer).Elem()) + "{" + strings.Join(parts, ", ") + "}", true
	}
	return "", false
}

// localOrdinal names a struct-typed local that has no single definition by its
// type and its ordinal among the locals of that type in its function
// ("streamHeader#1"): free of the source name, stable under renaming.
func localOrdinal(al *ssa.Alloc) (string, bool) {
	pt, ok := al.Type().(*types.Pointer)
	if !ok {
		return "", false
	}
	if _, isStruct := pt.Elem().Underlying().(*types.Struct); !isStruct {
		return "", false
	}
	tn := typeName(pt.Elem())
	k := 0
	for _, b := range al.Parent().Blocks {
		for _, in := range b.Instrs {
			o, isAlloc := in.(*ssa.Alloc)
			if !isAlloc || o.Comment == "" {
				continue
			}
			if op, ok := o.Type().(*types.Pointer); ok && typeName(op.Elem()) == tn {
				k++
				if o == al {
					return fmt.Sprintf("%s#%d", tn, k), true
				}
			}
		}
	}
	return "", false
}

// localFieldDef renders field i of a local that is built field by field.
func (fp *fingerprinter) localFieldDef(al *ssa.Alloc, i int) (string, bool) {
	if !fp.deflocals || fp.defDepth > 4 {
		return "", false
	}
	whole, fields, escapes := localStores(al)
	if escapes || len(whole) != 0 || len(fields[i]) != 1 {
		return "", false
	}
	for _, ss := range fields {
		if len(ss) != 1 {
			return "", false
		}
	}
	fp.defDepth++
	defer func() { fp.defDepth-- }()
	return fp.expr(fields[i][0].Val), true
}

// AnchorsResolved is Anchors with locals rendered by their definitions.
func AnchorsResolved(f *ssa.Function) []Anchor {
	var out []Anchor
	count := map[string]int{}
	root := &fingerprinter{short: true, deflocals: true, f: f, pred: map[*ssa.BasicBlock]*ssa.BasicBlock{}, spill: map[*ssa.Alloc]ssa.Value{}}
	registerSpills(root, f)
	collectAnchors(root, f, nil, &out, count, map[*ssa.Function]bool{f: true})
	return out
}

// LocalDefs maps the source names of f's struct-typed locals to their
// definitions ("" when the local has no single definition, or when two locals
// share the name): the table from which a lemma written with local names is
// translated into the name-free form.
func LocalDefs(f *ssa.Function) map[string]string {
	out := map[string]string{}
	if f == nil {
		return out
	}
	fp := &fingerprinter{short: true, deflocals: true, f: f, pred: map[*ssa.BasicBlock]*ssa.BasicBlock{}, spill: map[*ssa.Alloc]ssa.Value{}}
	registerSpills(fp, f)
	seen := map[string]int{}
	for _, b := range f.Blocks {
		for _, in := range b.Instrs {
			al, ok := in.(*ssa.Alloc)
			if !ok || al.Comment == "" {
				continue
			}
			if _, spilled := fp.spill[al]; spilled {
				continue
			}
			if _, isStruct := al.Type().(*types.Pointer).Elem().Underlying().(*types.Struct); !isStruct {
				continue
			}
			seen[al.Comment]++
			d, ok := fp.localDef(al)
			if !ok {
				d, _ = localOrdinal(al)
			}
			if seen[al.Comment] > 1 {
				// several locals share the name: one alternative per local
				if d == "" || out[al.Comment] == "" {
					out[al.Comment] = ""
				} else if !strings.Contains("\x00"+out[al.Comment]+"\x00", "\x00"+d+"\x00") {
					out[al.Comment] += "\x00" + d
				}
			} else {
				out[al.Comment] = d
			}
		}
	}
	for _, l := range f.Locals {
		_ = l
	}
	return out
}

var _ = fmt.Sprintf

// RenderValueR, RenderCondR and DomAtomsR are RenderValue, RenderCond and
// DomAtoms with locals rendered by their definitions.
func RenderValueR(f *ssa.Function, v ssa.Value) string {
	fp := &fingerprinter{short: true, deflocals: true, f: f, pred: map[*ssa.BasicBlock]*ssa.BasicBlock{}, spill: map[*ssa.Alloc]ssa.Value{}}
	registerSpills(fp, f)
	return fp.expr(v)
}

func RenderCondR(f *ssa.Function, cond ssa.Value, truth bool) string {
	fp := &fingerprinter{short: true, deflocals: true, f: f, pred: map[*ssa.BasicBlock]*ssa.BasicBlock{}, spill: map[*ssa.Alloc]ssa.Value{}}
	registerSpills(fp, f)
	return strings.Join(sortedCopy(fp.cond(cond, truth)), " && ")
}

func DomAtomsR(in ssa.Instruction) []string {
	fp := &fingerprinter{short: true, derive: true, deflocals: true, f: in.Parent(), pred: map[*ssa.BasicBlock]*ssa.BasicBlock{}, spill: map[*ssa.Alloc]ssa.Value{}}
	registerSpills(fp, in.Parent())
	return fp.domAtoms(in, nil)
}

// definesLocal: the store is the (only) definition, whole or of one field, of
// a local that renders by its definition: it is not an effect of the function.
func (fp *fingerprinter) definesLocal(st *ssa.Store) bool {
	if !fp.deflocals {
		return false
	}
	al, ok := st.Addr.(*ssa.Alloc)
	if !ok {
		if fa, isFA := st.Addr.(*ssa.FieldAddr); isFA {
			al, ok = fa.X.(*ssa.Alloc)
		}
	}
	if !ok {
		return false
	}
	_, resolved := fp.localDef(al)
	return resolved
}

// storeAddr renders the destination of a store: like addr, but a field of a
// local that renders by its definition is named by the local's ordinal name (the
// definition is a value, not a place).
func (fp *fingerprinter) storeAddr(v ssa.Value) string {
	if fa, ok := v.(*ssa.FieldAddr); ok && fp.deflocals {
		if al, isAlloc := fa.X.(*ssa.Alloc); isAlloc {
			if _, spilled := fp.spill[al]; !spilled {
				if n, ok := localOrdinal(al); ok {
					if f := fieldVar(fa); f != nil {
						return n + "." + core.FieldName(f)
					}
				}
			}
		}
	}
	return fp.addr(v)
}

// ParamRefName is the name parameter p had on the reference tree (by position).
func ParamRefName(p *ssa.Parameter) string {
	f := p.Parent()
	if f == nil {
		return p.Name()
	}
	obj, ok := f.Object().(*types.Func)
	if !ok {
		return p.Name()
	}
	names := core.ParamRefNames(obj)
	for i, q := range f.Params {
		if q == p && i < len(names) {
			return names[i]
		}
	}
	return p.Name()
}

// Deferred calls and result spills in normal forms.

const deferMark = "\x02defer:"

// runDeferred turns the deferred calls recorded so far into effects, in
// reverse order of deferral (what RunDefers does).
func runDeferred(effects []string) []string {
	var out, ds []string
	for _, e := range effects {
		if strings.HasPrefix(e, deferMark) {
			ds = append(ds, strings.TrimPrefix(e, deferMark))
		} else {
			out = append(out, e)
		}
	}
	for i := len(ds) - 1; i >= 0; i-- {
		out = append(out, ds[i])
	}
	return out
}

// dropDeferred removes deferred calls that were never run (a path that panics).
func dropDeferred(effects []string) []string {
	var out []string
	for _, e := range effects {
		if !strings.HasPrefix(e, deferMark) {
			out = append(out, e)
		}
	}
	return out
}

// resolveSpills: a function with a defer returns through anonymous result
// locals ("*&t0 = v; ...; return (*&t0)"). The stores are not effects and the
// results are the values stored last on the path.
func resolveSpills(effects, results []string) ([]string, []string) {
	isSpill := func(s string) bool {
		if !strings.HasPrefix(s, "*&t") {
			return false
		}
		for _, c := range s[3:] {
			if c < '0' || c > '9' {
				return false
			}
		}
		return len(s) > 3
	}
	last := map[string]string{}
	var out []string
	for _, e := range effects {
		if i := strings.Index(e, " = "); i > 0 && isSpill(e[:i]) {
			last[e[:i]] = e[i+3:]
			continue
		}
		out = append(out, e)
	}
	rs := append([]string{}, results...)
	for i, r := range rs {
		if v, ok := last[r]; ok && isSpill(r) {
			rs[i] = v
		}
	}
	return out, rs
}

// callString renders a call (of a defer or go statement) like expr renders a
// call instruction.
func (fp *fingerprinter) callString(c *ssa.CallCommon) string {
	var args []string
	for _, a := range c.Args {
		args = append(args, fp.expr(a))
	}
	if c.IsInvoke() {
		return fmt.Sprintf("%s.%s(%s)", fp.expr(c.Value), c.Method.Name(), strings.Join(args, ", "))
	}
	if f := c.StaticCallee(); f != nil {
		name := FuncName(f)
		if fp.short {
			if i := strings.LastIndex(name, "."); i >= 0 {
				name = name[i+1:]
			}
		}
		return fmt.Sprintf("%s(%s)", name, strings.Join(args, ", "))
	}
	return fmt.Sprintf("%s(%s)", fp.expr(c.Value), strings.Join(args, ", "))
}

// Canonical lines of a normal form.

var reNumConst = regexp.MustCompile(`^-?\d+:[A-Za-z0-9_.]+$`)

// canonLine puts the conditions of one path into a canonical set and
// propagates what they say about values into the effects and results:
//   - a path whose conditions contain "false", or an atom together with its
//     negation, is infeasible: ok is false and the line is dropped;
//   - "K == e" makes every "K' != e" with another constant redundant (a switch
//     and the equivalent guard clauses test the other members in different
//     orders);
//   - where "K == e" holds, e is K in the effects and results (returning x under
//     x == 0 and returning 0 are the same).
func canonLine(conds, effects, results []string) (c, e, r []string, ok bool) {
	cs := sortedCopy(conds)
	if !Consistent(cs) {
		return nil, nil, nil, false
	}
	eq := map[string]string{} // expression -> constant
	for _, a := range cs {
		if a == "false" {
			return nil, nil, nil, false
		}
		if l, op, rr, isCmp := splitTop(a); isCmp && op == "==" {
			switch {
			case reNumConst.MatchString(l) && !reNumConst.MatchString(rr):
				if k, has := eq[rr]; has && k != l {
					return nil, nil, nil, false // e equals two different constants
				}
				eq[rr] = l
			case reNumConst.MatchString(rr) && !reNumConst.MatchString(l):
				if k, has := eq[l]; has && k != rr {
					return nil, nil, nil, false
				}
				eq[l] = rr
			}
		}
	}
	for _, a := range cs {
		if l, op, rr, isCmp := splitTop(a); isCmp && op == "!=" {
			if k, has := eq[rr]; has && reNumConst.MatchString(l) && l != k {
				continue
			}
			if k, has := eq[l]; has && reNumConst.MatchString(rr) && rr != k {
				continue
			}
		}
		c = append(c, a)
	}
	subst := func(s string) string {
		for x, k := range eq {
			for from := 0; ; {
				i := strings.Index(s[from:], x)
				if i < 0 {
					break
				}
				i += from
				j := i + len(x)
				before := i == 0 || !(isIdent(s[i-1]) || s[i-1] == '.')
				after := j == len(s) || !(isIdent(s[j]) || s[j] == '.' || s[j] == '(' || s[j] == '[' || s[j] == '#')
				if before && after {
					s = s[:i] + k + s[j:]
					from = i + len(k)
				} else {
					from = j
				}
			}
		}
		return s
	}
	for _, x := range effects {
		e = append(e, subst(x))
	}
	for _, x := range results {
		r = append(r, subst(x))
	}
	return c, e, r, true
}

func isIdent(c byte) bool {
	return c == '_' || (c >= '0' && c <= '9') || (c >= 'a' && c <= 'z') || (c >= 'A' && c <= 'Z')
}

func isUnsigned(t types.Type) bool {
	b, ok := t.Underlying().(*types.Basic)
	return ok && b.Info()&types.IsUnsigned != 0
}

func isZeroConst(v ssa.Value) bool {
	k, ok := ConstInt(v)
	return ok && k == 0
}

func isNumConst(v ssa.Value) bool {
	_, ok := ConstInt(v)
	return ok
}

// foldConstCmp decides "a op b" when both renderings are numeric constants
// ("2:Size").
func foldConstCmp(a string, op token.Token, b string) (result, decided bool) {
	if !reNumConst.MatchString(a) || !reNumConst.MatchString(b) {
		return false, false
	}
	var x, y int64
	if _, err := fmt.Sscanf(a[:strings.Index(a, ":")], "%d", &x); err != nil {
		return false, false
	}
	if _, err := fmt.Sscanf(b[:strings.Index(b, ":")], "%d", &y); err != nil {
		return false, false
	}
	switch op {
	case token.EQL:
		return x == y, true
	case token.NEQ:
		return x != y, true
	case token.LSS:
		return x < y, true
	case token.LEQ:
		return x <= y, true
	case token.GTR:
		return x > y, true
	case token.GEQ:
		return x >= y, true
	}
	return false, false
}
