package ssaq

import (
	"fmt"
	"go/types"
	"sort"
	"strings"

	"golang.org/x/tools/go/ssa"

	"verifcheck/internal/core"
)

// localStores classifies the uses of a local (an Alloc): the stores of a whole
// value, the stores into its fields, and whether its address is used in any
// other way (passed on, indexed, captured), in which case nothing is known
// about its contents.
func localStores(al *ssa.Alloc) (whole []*ssa.Store, fields map[int][]*ssa.Store, escapes bool) {
	fields = map[int][]*ssa.Store{}
	refs := al.Referrers()
	if refs == nil {
		return nil, fields, true
	}
	for _, r := range *refs {
		switch x := r.(type) {
		case *ssa.Store:
			if x.Addr == ssa.Value(al) {
				whole = append(whole, x)
			} else {
				escapes = true
			}
		case *ssa.UnOp:
			// load
		case *ssa.DebugRef:
		case *ssa.FieldAddr:
			frefs := x.Referrers()
			if frefs == nil {
				continue
			}
			for _, fr := range *frefs {
				switch y := fr.(type) {
				case *ssa.Store:
					if y.Addr == ssa.Value(x) {
						fields[x.Field] = append(fields[x.Field], y)
					} else {
						escapes = true
					}
				case *ssa.UnOp, *ssa.DebugRef:
				case *ssa.FieldAddr:
					// nested field: reads are fine, writes are not followed
					if nrefs := y.Referrers(); nrefs != nil {
						for _, nr := range *nrefs {
							if st, ok := nr.(*ssa.Store); ok && st.Addr == ssa.Value(y) {
								escapes = true
							} else if _, isLoad := nr.(*ssa.UnOp); !isLoad {
								if _, isDbg := nr.(*ssa.DebugRef); !isDbg {
									if _, isFA := nr.(*ssa.FieldAddr); !isFA {
										escapes = true
									}
								}
							}
						}
					}
				default:
					escapes = true
				}
			}
		default:
			escapes = true
		}
	}
	return whole, fields, escapes
}

// localDef renders the definition of a local that is assigned exactly once as
// a whole, or built field by field with one store per field.
func (fp *fingerprinter) localDef(al *ssa.Alloc) (string, bool) {
	if !fp.deflocals || fp.defDepth > 4 {
		return "", false
	}
	if _, isStruct := al.Type().(*types.Pointer).Elem().Underlying().(*types.Struct); !isStruct {
		return "", false
	}
	whole, fields, escapes := localStores(al)
	if escapes {
		return "", false
	}
	fp.defDepth++
	defer func() { fp.defDepth-- }()
	switch {
	case len(whole) == 1 && len(fields) == 0:
		return fp.expr(whole[0].Val), true
	case len(whole) == 0 && len(fields) > 0:
		st := al.Type().(*types.Pointer).Elem().Underlying().(*types.Struct)
		var idx []int
		for i, ss := range fields {
			if len(ss) != 1 {
				return "", false
			}
			idx = append(idx, i)
		}
		sort.Ints(idx)
		var parts []string
		for _, i := range idx {
			parts = append(parts, core.FieldName(st.Field(i))+": "+fp.expr(fields[i][0].Val))
		}
		return typeName(al.Type().(*types.Pointer).Elem()) + "{" + strings.Join(parts, ", ") + "}", true
	}
	return "", false
}

// localOrdinal names a struct-typed local that has no single definition by its
// type and its ordinal among the locals of that type in its function
// ("streamHeader#1"): free of the source name, stable under renaming.
func localOrdinal(al *ssa.Alloc) (string, bool) {
	pt, ok := al.Type().(*types.Pointer)
	if !ok {
		return "", false
	}
	if _, isStruct := pt.Elem().Underlying().(*types.Struct); !isStruct {
		return "", false
	}
	tn := typeName(pt.Elem())
	k := 0
	for _, b := range al.Parent().Blocks {
		for _, in := range b.Instrs {
			o, isAlloc := in.(*ssa.Alloc)
			if !isAlloc || o.Comment == "" {
				continue
			}
			if op, ok := o.Type().(*types.Pointer); ok && typeName(op.Elem()) == tn {
				k++
				if o == al {
					return fmt.Sprintf("%s#%d", tn, k), true
				}
			}
		}
	}
	return "", false
}

// localFieldDef renders field i of a local that is built field by field.
func (fp *fingerprinter) localFieldDef(al *ssa.Alloc, i int) (string, bool) {
	if !fp.deflocals || fp.defDepth > 4 {
		return "", false
	}
	whole, fields, escapes := localStores(al)
	if escapes || len(whole) != 0 || len(fields[i]) != 1 {
		return "", false
	}
	for _, ss := range fields {
		if len(ss) != 1 {
			return "", false
		}
	}
	fp.defDepth++
	defer func() { fp.defDepth-- }()
	return fp.expr(fields[i][0].Val), true
}

// AnchorsResolved is Anchors with locals rendered by their definitions.
func AnchorsResolved(f *ssa.Function) []Anchor {
	var out []Anchor
	count := map[string]int{}
	root := &fingerprinter{short: true, deflocals: true, f: f, pred: map[*ssa.BasicBlock]*ssa.BasicBlock{}, spill: map[*ssa.Alloc]ssa.Value{}}
	registerSpills(root, f)
	collectAnchors(root, f, nil, &out, count, map[*ssa.Function]bool{f: true})
	return out
}

// LocalDefs maps the source names of f's struct-typed locals to their
// definitions ("" when the local has no single definition, or when two locals
// share the name): the table from which a lemma written with local names is
// translated into the name-free form.
func LocalDefs(f *ssa.Function) map[string]string {
	out := map[string]string{}
	if f == nil {
		return out
	}
	fp := &fingerprinter{short: true, deflocals: true, f: f, pred: map[*ssa.BasicBlock]*ssa.BasicBlock{}, spill: map[*ssa.Alloc]ssa.Value{}}
	registerSpills(fp, f)
	seen := map[string]int{}
	for _, b := range f.Blocks {
		for _, in := range b.Instrs {
			al, ok := in.(*ssa.Alloc)
			if !ok || al.Comment == "" {
				continue
			}
			if _, spilled := fp.spill[al]; spilled {
				continue
			}
			if _, isStruct := al.Type().(*types.Pointer).Elem().Underlying().(*types.Struct); !isStruct {
				continue
			}
			seen[al.Comment]++
			d, ok := fp.localDef(al)
			if !ok {
				d, _ = localOrdinal(al)
			}
			if seen[al.Comment] > 1 {
				// several locals share the name: one alternative per local
				if d == "" || out[al.Comment] == "" {
					out[al.Comment] = ""
				} else if !strings.Contains("\x00"+out[al.Comment]+"\x00", "\x00"+d+"\x00") {
					out[al.Comment] += "\x00" + d
				}
			} else {
				out[al.Comment] = d
			}
		}
	}
	for _, l := range f.Locals {
		_ = l
	}
	return out
}

var _ = fmt.Sprintf

// RenderValueR, RenderCondR and DomAtomsR are RenderValue, RenderCond and
// DomAtoms with locals rendered by their definitions.
func RenderValueR(f *ssa.Function, v ssa.Value) string {
	fp := &fingerprinter{short: true, deflocals: true, f: f, pred: map[*ssa.BasicBlock]*ssa.BasicBlock{}, spill: map[*ssa.Alloc]ssa.Value{}}
	registerSpills(fp, f)
	return fp.expr(v)
}

func RenderCondR(f *ssa.Function, cond ssa.Value, truth bool) string {
	fp := &fingerprinter{short: true, deflocals: true, f: f, pred: map[*ssa.BasicBlock]*ssa.BasicBlock{}, spill: map[*ssa.Alloc]ssa.Value{}}
	registerSpills(fp, f)
	return strings.Join(sortedCopy(fp.cond(cond, truth)), " && ")
}

func DomAtomsR(in ssa.Instruction) []string {
	fp := &fingerprinter{short: true, derive: true, deflocals: true, f: in.Parent(), pred: map[*ssa.BasicBlock]*ssa.BasicBlock{}, spill: map[*ssa.Alloc]ssa.Value{}}
	registerSpills(fp, in.Parent())
	return fp.domAtoms(in, nil)
}

// definesLocal: the store is the (only) definition, whole or of one field, of
// a local that renders by its definition: it is not an effect of the function.
func (fp *fingerprinter) definesLocal(st *ssa.Store) bool {
	if !fp.deflocals {
		return false
	}
	al, ok := st.Addr.(*ssa.Alloc)
	if !ok {
		if fa, isFA := st.Addr.(*ssa.FieldAddr); isFA {
			al, ok = fa.X.(*ssa.Alloc)
		}
	}
	if !ok {
		return false
	}
	_, resolved := fp.localDef(al)
	return resolved
}

// storeAddr renders the destination of a store: like addr, but a field of a
// local that renders by its definition is named by the local's ordinal name (the
// definition is a value, not a place).
func (fp *fingerprinter) storeAddr(v ssa.Value) string {
	if fa, ok := v.(*ssa.FieldAddr); ok && fp.deflocals {
		if al, isAlloc := fa.X.(*ssa.Alloc); isAlloc {
			if _, spilled := fp.spill[al]; !spilled {
				if n, ok := localOrdinal(al); ok {
					if f := fieldVar(fa); f != nil {
						return n + "." + core.FieldName(f)
					}
				}
			}
		}
	}
	return fp.addr(v)
}

// ParamRefName is the name parameter p had on the reference tree (by position).
func ParamRefName(p *ssa.Parameter) string {
	f := p.Parent()
	if f == nil {
		return p.Name()
	}
	obj, ok := f.Object().(*types.Func)
	if !ok {
		return p.Name()
	}
	names := core.ParamRefNames(obj)
	for i, q := range f.Params {
		if q == p && i < len(names) {
			return names[i]
		}
	}
	return p.Name()
}
