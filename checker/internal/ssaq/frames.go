package ssaq

import (
	"strings"

	"golang.org/x/tools/go/ssa"
)

// A Frame is a function body seen from a reference-tree function: the function
// itself, or a helper that did not exist on the reference tree, as called from
// it (its parameters render as the arguments of that call, and the conditions
// that dominate the call are added to those inside the helper). Rules that
// look for a construct "in F" iterate over Frames(F), so that code moved from F
// into a new helper is still found and still judged in F's terms.
type Frame struct {
	Fn    *ssa.Function
	Call  ssa.CallInstruction // the call that enters the helper (nil for F itself)
	fp    *fingerprinter
	extra []string
	defl  bool // locals rendered by their definitions (FramesR)
}

// Frames lists F's own frame and one frame per call of a new helper reachable
// from it through new helpers only (depth at most 2).
func Frames(f *ssa.Function) []*Frame { return frames(f, false) }

// FramesR is Frames with locals rendered by their definitions.
func FramesR(f *ssa.Function) []*Frame { return frames(f, true) }

func frames(f *ssa.Function, defl bool) []*Frame {
	root := &fingerprinter{short: true, derive: true, deflocals: defl, f: f, pred: map[*ssa.BasicBlock]*ssa.BasicBlock{}, spill: map[*ssa.Alloc]ssa.Value{}}
	registerSpills(root, f)
	out := []*Frame{{Fn: f, fp: root, defl: defl}}
	var visit func(fr *Frame, busy map[*ssa.Function]bool)
	visit = func(fr *Frame, busy map[*ssa.Function]bool) {
		for _, b := range fr.Fn.Blocks {
			for _, in := range b.Instrs {
				ci, ok := in.(ssa.CallInstruction)
				if !ok {
					continue
				}
				g := ci.Common().StaticCallee()
				if !isNewHelper(g) || busy[g] || fr.fp.depth >= 2 || len(g.Blocks) == 0 {
					continue
				}
				local := &fingerprinter{short: true, derive: true, deflocals: defl, f: fr.Fn, pred: map[*ssa.BasicBlock]*ssa.BasicBlock{}, spill: fr.fp.spill, subst: fr.fp.subst, depth: fr.fp.depth}
				child := &Frame{Fn: g, Call: ci, fp: local.child(g, ci.Common().Args), extra: fr.Atoms(in), defl: defl}
				child.fp.derive = true
				out = append(out, child)
				busy[g] = true
				visit(child, busy)
				delete(busy, g)
			}
		}
	}
	visit(out[0], map[*ssa.Function]bool{f: true})
	return out
}

// Resolved reports whether the frame renders locals by their definitions.
func (fr *Frame) Resolved() bool { return fr.defl }

// Atoms: the conditions that dominate in (an instruction of fr.Fn), rendered
// in the frame of the reference-tree function, those of the call chain included.
func (fr *Frame) Atoms(in ssa.Instruction) []string {
	local := &fingerprinter{short: true, derive: true, deflocals: fr.defl, f: fr.Fn, pred: map[*ssa.BasicBlock]*ssa.BasicBlock{}, spill: fr.fp.spill, subst: fr.fp.subst, depth: fr.fp.depth}
	return local.domAtoms(in, fr.extra)
}

// Render renders a value of fr.Fn in the frame of the reference-tree function.
func (fr *Frame) Render(v ssa.Value) string {
	local := &fingerprinter{short: true, derive: true, deflocals: fr.defl, f: fr.Fn, pred: map[*ssa.BasicBlock]*ssa.BasicBlock{}, spill: fr.fp.spill, subst: fr.fp.subst, depth: fr.fp.depth}
	return local.expr(v)
}

// Cond renders a branch condition of fr.Fn under the given truth.
func (fr *Frame) Cond(v ssa.Value, truth bool) string {
	local := &fingerprinter{short: true, derive: true, deflocals: fr.defl, f: fr.Fn, pred: map[*ssa.BasicBlock]*ssa.BasicBlock{}, spill: fr.fp.spill, subst: fr.fp.subst, depth: fr.fp.depth}
	return strings.Join(sortedCopy(local.cond(v, truth)), " && ")
}
