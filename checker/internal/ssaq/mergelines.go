package ssaq

import (
	"sort"
	"strings"
)

// mergeComplementary makes the set of lines of a normal form independent of
// how a case split with equal outcomes is written. Two lines with the same
// effects and result whose conditions differ in one atom x on one side and its
// negation on the other, and agree otherwise, are one line without that atom:
// (A && x) || (A && !x) is A. For an equality x = (K == e) the other side may
// carry further atoms K' != e — they are implied by K == e (canonLine has
// removed them there) and stay. So
//
//	default (e != 0, e != 1, e != 3)  =>  error
//
// and the same switch with an explicit arm for one more value,
//
//	case 2 (2 == e) => error ;  default (e != 0, e != 1, e != 2, e != 3) => error
//
// have the same form. Applied until nothing changes; the result is sorted.
func mergeComplementary(lines []string) []string {
	type line struct {
		conds []string
		tail  string
	}
	var ls []line
	for _, l := range lines {
		i := strings.Index(l, " => ")
		if i < 0 {
			ls = append(ls, line{nil, l})
			continue
		}
		ls = append(ls, line{splitTopAnd(l[:i]), l[i:]})
	}
	has := func(set []string, a string) bool {
		for _, s := range set {
			if s == a {
				return true
			}
		}
		return false
	}
	without := func(set []string, a string) []string {
		var out []string
		for _, s := range set {
			if s != a {
				out = append(out, s)
			}
		}
		return out
	}
	// impliedBy: atom a is "K' != e" (either order) and eq is "K == e" with
	// numeric constants K' != K
	impliedBy := func(a, eq string) bool {
		al, aop, ar, ok1 := splitTop(a)
		el, eop, er, ok2 := splitTop(eq)
		if !ok1 || !ok2 || aop != "!=" || eop != "==" {
			return false
		}
		ak, ae := al, ar
		if !reNumConst.MatchString(ak) {
			ak, ae = ar, al
		}
		ek, ee := el, er
		if !reNumConst.MatchString(ek) {
			ek, ee = er, el
		}
		return reNumConst.MatchString(ak) && reNumConst.MatchString(ek) && ae == ee && ak != ek
	}
	for changed := true; changed; {
		changed = false
	search:
		for i := range ls {
			for j := range ls {
				if i == j || ls[i].tail != ls[j].tail {
					continue
				}
				// P = ls[i] holds x, Q = ls[j] holds !x; for equalities Q is the "==" side
				for _, x := range ls[i].conds {
					nx := negAtom(x)
					if !has(ls[j].conds, nx) {
						continue
					}
					p, q := without(ls[i].conds, x), without(ls[j].conds, nx)
					_, op, _, isCmp := splitTop(nx)
					ok := true
					for _, a := range q {
						if !has(p, a) {
							ok = false
						}
					}
					for _, a := range p {
						if has(q, a) {
							continue
						}
						if !(isCmp && op == "==" && impliedBy(a, nx)) {
							ok = false
						}
					}
					if !ok {
						continue
					}
					ls[i].conds = p
					ls = append(ls[:j], ls[j+1:]...)
					changed = true
					break search
				}
			}
		}
	}
	var out []string
	for _, l := range ls {
		if l.conds == nil && !strings.HasPrefix(l.tail, " => ") {
			out = append(out, l.tail)
			continue
		}
		out = append(out, strings.Join(l.conds, " && ")+l.tail)
	}
	sort.Strings(out)
	// the merge can make two lines equal
	var ded []string
	for i, l := range out {
		if i == 0 || l != out[i-1] {
			ded = append(ded, l)
		}
	}
	return ded
}

// splitTopAnd splits a rendered conjunction at its top-level " && ".
func splitTopAnd(s string) []string {
	if s == "" {
		return []string{}
	}
	var out []string
	depth, start := 0, 0
	for i := 0; i < len(s); i++ {
		switch s[i] {
		case '(', '[', '{':
			depth++
		case ')', ']', '}':
			depth--
		case ' ':
			if depth == 0 && strings.HasPrefix(s[i:], " && ") {
				out = append(out, s[start:i])
				start = i + 4
				i += 3
			}
		}
	}
	return append(out, s[start:])
}
