package flow

import (
	"fmt"
	"go/ast"

	"golang.org/x/tools/go/cfg"
)

// Point is a position in a unit's CFG: before node I of block B
// (I == len(B.Nodes) is the end of the block).
type Point struct {
	B *cfg.Block
	I int
}

// CFG returns the unit's control-flow graph.
func (u *Unit) CFG() *cfg.CFG { return u.cfg }

// Contains reports whether CFG node n contains a sub-node satisfying pred,
// not descending into function literals (they are separate units).
func Contains(n ast.Node, pred func(ast.Node) bool) bool {
	found := false
	ast.Inspect(n, func(m ast.Node) bool {
		if found || m == nil {
			return false
		}
		if _, ok := m.(*ast.FuncLit); ok {
			return false
		}
		if pred(m) {
			found = true
			return false
		}
		return true
	})
	return found
}

// Find returns the points of all CFG nodes (in live blocks) containing a
// sub-node that satisfies pred.
func (u *Unit) Find(pred func(ast.Node) bool) []Point {
	var out []Point
	for _, b := range u.cfg.Blocks {
		if !b.Live {
			continue
		}
		for i, n := range b.Nodes {
			if Contains(n, pred) {
				out = append(out, Point{b, i})
			}
		}
	}
	return out
}

// After returns the point just after p.
func (p Point) After() Point { return Point{p.B, p.I + 1} }

// isExitBlock mirrors the engine's notion of a returning exit.
func (e *Engine) isExitBlock(u *Unit, b *cfg.Block) bool {
	if len(b.Succs) != 0 {
		return false
	}
	if len(b.Nodes) > 0 {
		last := b.Nodes[len(b.Nodes)-1]
		if _, ok := last.(*ast.ReturnStmt); ok {
			return true
		}
		if es, ok := last.(*ast.ExprStmt); ok {
			if c, ok := es.X.(*ast.CallExpr); ok && !e.mayReturn(u, c) {
				return false
			}
		}
	}
	return b.Kind != cfg.KindSelectAfterCase && b.Kind != cfg.KindUnreachable
}

// PathResult describes a path found by a query.
type PathResult struct {
	Found bool
	Trace []string
}

// ExitWithout searches for a path from start to a returning exit that does
// not pass a CFG node containing a target sub-node. stop, if non-nil, ends a
// path without failing it (e.g. an alternative discharge).
func (e *Engine) ExitWithout(u *Unit, start Point, target func(ast.Node) bool, stop func(ast.Node) bool) PathResult {
	type item struct {
		p     Point
		trace *traceNode
	}
	seen := map[*cfg.Block]bool{}
	stack := []item{{start, nil}}
	for len(stack) > 0 {
		it := stack[len(stack)-1]
		stack = stack[:len(stack)-1]
		b := it.p.B
		hit := false
		for i := it.p.I; i < len(b.Nodes); i++ {
			n := b.Nodes[i]
			if Contains(n, target) || (stop != nil && Contains(n, stop)) {
				hit = true
				break
			}
		}
		if hit {
			continue
		}
		tr := &traceNode{prev: it.trace, msg: fmt.Sprintf("block %d (%s) at %s", b.Index, b.Kind, e.blockPos(b))}
		if e.isExitBlock(u, b) {
			return PathResult{Found: true, Trace: tr.list()}
		}
		for _, s := range b.Succs {
			if !seen[s] {
				seen[s] = true
				stack = append(stack, item{Point{s, 0}, tr})
			}
		}
	}
	return PathResult{}
}

// Reaches searches for a path from start to a CFG node containing a target
// sub-node, not passing through nodes containing a blocker sub-node.
func (e *Engine) Reaches(u *Unit, start Point, target func(ast.Node) bool, blocker func(ast.Node) bool) PathResult {
	type item struct {
		p     Point
		trace *traceNode
	}
	seen := map[*cfg.Block]bool{}
	stack := []item{{start, nil}}
	for len(stack) > 0 {
		it := stack[len(stack)-1]
		stack = stack[:len(stack)-1]
		b := it.p.B
		blocked := false
		for i := it.p.I; i < len(b.Nodes); i++ {
			n := b.Nodes[i]
			if Contains(n, target) {
				tr := &traceNode{prev: it.trace, msg: fmt.Sprintf("reaches %s", e.pos(n.Pos()))}
				return PathResult{Found: true, Trace: tr.list()}
			}
			if blocker != nil && Contains(n, blocker) {
				blocked = true
				break
			}
		}
		if blocked {
			continue
		}
		tr := &traceNode{prev: it.trace, msg: fmt.Sprintf("block %d (%s) at %s", b.Index, b.Kind, e.blockPos(b))}
		for _, s := range b.Succs {
			if !seen[s] {
				seen[s] = true
				stack = append(stack, item{Point{s, 0}, tr})
			}
		}
	}
	return PathResult{}
}

func (e *Engine) blockPos(b *cfg.Block) string {
	if len(b.Nodes) > 0 {
		return e.pos(b.Nodes[0].Pos())
	}
	if b.Stmt != nil {
		return e.pos(b.Stmt.Pos())
	}
	return "?"
}

// Entry returns the entry point of the unit.
func (u *Unit) Entry() Point { return Point{u.cfg.Blocks[0], 0} }

// BranchEdges returns, for a CFG node that is the boolean condition ending
// its block, the points at the start of the true and false successors.
func (u *Unit) BranchEdges(cond ast.Node) (t, f Point, ok bool) {
	for _, b := range u.cfg.Blocks {
		if len(b.Nodes) > 0 && b.Nodes[len(b.Nodes)-1] == cond && len(b.Succs) == 2 {
			return Point{b.Succs[0], 0}, Point{b.Succs[1], 0}, true
		}
	}
	return Point{}, Point{}, false
}
