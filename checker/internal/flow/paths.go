package flow

import (
	"fmt"
	"go/ast"
	"go/types"

	"golang.org/x/tools/go/cfg"
	"golang.org/x/tools/go/types/typeutil"

	"verifcheck/internal/core"
)

// New helper functions (functions that did not exist on the reference tree, see
// core/refnames.go) are looked through by the path queries: a call of a new
// helper counts as a node that satisfies pred when every path through the
// helper passes such a node (must) or when some node of the helper does (may).
// Extracting statements into a helper therefore does not hide them.
func (e *Engine) newHelpers(u *Unit, n ast.Node) []*Unit {
	var out []*Unit
	ast.Inspect(n, func(m ast.Node) bool {
		if _, ok := m.(*ast.FuncLit); ok {
			return false
		}
		if call, ok := m.(*ast.CallExpr); ok {
			if fn, ok := typeutil.Callee(u.Pkg.TypesInfo, call).(*types.Func); ok && core.IsNewFunc(fn) {
				if hu := e.ByObj[fn]; hu != nil && hu.cfg != nil {
					out = append(out, hu)
				}
			}
		}
		return true
	})
	return out
}

// pathNodes lists the nodes of block b from index from on as the path queries
// see them. go/cfg evaluates the communication statements of ALL cases of a
// select in the block that precedes the select; for a path query that would
// mean that every path "passes" every case's receive. The comm statement of a
// case is therefore taken out of that header and put at the head of its own
// case body.
func (e *Engine) pathNodes(b *cfg.Block, from int) []ast.Node {
	var out []ast.Node
	if from == 0 && b.Kind == cfg.KindSelectCaseBody {
		if cc, ok := b.Stmt.(*ast.CommClause); ok && cc.Comm != nil {
			out = append(out, cc.Comm)
		}
	}
	for i := from; i < len(b.Nodes); i++ {
		if st, ok := b.Nodes[i].(ast.Stmt); ok {
			if _, isComm := e.SelectOf[st]; isComm {
				continue
			}
		}
		out = append(out, b.Nodes[i])
	}
	return out
}

// mustContain: n satisfies pred itself, or calls a new helper all of whose paths pass pred.
func (e *Engine) mustContain(u *Unit, n ast.Node, pred func(ast.Node) bool, depth int) bool {
	if Contains(n, pred) {
		return true
	}
	if depth >= 3 {
		return false
	}
	for _, hu := range e.newHelpers(u, n) {
		if !e.exitWithout(hu, hu.Entry(), pred, nil, depth+1).Found {
			return true
		}
	}
	return false
}

// mayContain: n satisfies pred itself, or calls a new helper some node of which does.
func (e *Engine) mayContain(u *Unit, n ast.Node, pred func(ast.Node) bool, depth int) bool {
	if Contains(n, pred) {
		return true
	}
	if depth >= 3 {
		return false
	}
	for _, hu := range e.newHelpers(u, n) {
		for _, b := range hu.cfg.Blocks {
			if !b.Live {
				continue
			}
			for _, m := range b.Nodes {
				if e.mayContain(hu, m, pred, depth+1) {
					return true
				}
			}
		}
	}
	return false
}

// FindThrough is Find extended by calls of new helpers that may contain a match.
func (e *Engine) FindThrough(u *Unit, pred func(ast.Node) bool) []Point {
	var out []Point
	for _, b := range u.cfg.Blocks {
		if !b.Live {
			continue
		}
		for i, n := range b.Nodes {
			if e.mayContain(u, n, pred, 0) {
				out = append(out, Point{b, i})
			}
		}
	}
	return out
}

// Point is a position in a unit's CFG: before node I of block B
// (I == len(B.Nodes) is the end of the block).
type Point struct {
	B *cfg.Block
	I int
}

// CFG returns the unit's control-flow graph.
func (u *Unit) CFG() *cfg.CFG { return u.cfg }

// Contains reports whether CFG node n contains a sub-node satisfying pred,
// not descending into function literals (they are separate units).
func Contains(n ast.Node, pred func(ast.Node) bool) bool {
	found := false
	ast.Inspect(n, func(m ast.Node) bool {
		if found || m == nil {
			return false
		}
		if _, ok := m.(*ast.FuncLit); ok {
			return false
		}
		if pred(m) {
			found = true
			return false
		}
		return true
	})
	return found
}

// Find returns the points of all CFG nodes (in live blocks) containing a
// sub-node that satisfies pred.
func (u *Unit) Find(pred func(ast.Node) bool) []Point {
	var out []Point
	for _, b := range u.cfg.Blocks {
		if !b.Live {
			continue
		}
		for i, n := range b.Nodes {
			if Contains(n, pred) {
				out = append(out, Point{b, i})
			}
		}
	}
	return out
}

// After returns the point just after p.
func (p Point) After() Point { return Point{p.B, p.I + 1} }

// isExitBlock mirrors the engine's notion of a returning exit.
func (e *Engine) isExitBlock(u *Unit, b *cfg.Block) bool {
	if len(b.Succs) != 0 {
		return false
	}
	if len(b.Nodes) > 0 {
		last := b.Nodes[len(b.Nodes)-1]
		if _, ok := last.(*ast.ReturnStmt); ok {
			return true
		}
		if es, ok := last.(*ast.ExprStmt); ok {
			if c, ok := es.X.(*ast.CallExpr); ok && !e.mayReturn(u, c) {
				return false
			}
		}
	}
	return b.Kind != cfg.KindSelectAfterCase && b.Kind != cfg.KindUnreachable
}

// PathResult describes a path found by a query.
type PathResult struct {
	Found bool
	Trace []string
}

// ExitWithout searches for a path from start to a returning exit that does
// not pass a CFG node containing a target sub-node. stop, if non-nil, ends a
// path without failing it (e.g. an alternative discharge).
func (e *Engine) ExitWithout(u *Unit, start Point, target func(ast.Node) bool, stop func(ast.Node) bool) PathResult {
	return e.exitWithout(u, start, target, stop, 0)
}

func (e *Engine) exitWithout(u *Unit, start Point, target func(ast.Node) bool, stop func(ast.Node) bool, depth int) PathResult {
	type item struct {
		p     Point
		trace *traceNode
	}
	seen := map[*cfg.Block]bool{}
	stack := []item{{start, nil}}
	for len(stack) > 0 {
		it := stack[len(stack)-1]
		stack = stack[:len(stack)-1]
		b := it.p.B
		hit := false
		for _, n := range e.pathNodes(b, it.p.I) {
			if e.mustContain(u, n, target, depth) || (stop != nil && e.mustContain(u, n, stop, depth)) {
				hit = true
				break
			}
		}
		if hit {
			continue
		}
		tr := &traceNode{prev: it.trace, msg: fmt.Sprintf("block %d (%s) at %s", b.Index, b.Kind, e.blockPos(b))}
		if e.isExitBlock(u, b) {
			return PathResult{Found: true, Trace: tr.list()}
		}
		for _, s := range b.Succs {
			if !seen[s] {
				seen[s] = true
				stack = append(stack, item{Point{s, 0}, tr})
			}
		}
	}
	return PathResult{}
}

// Reaches searches for a path from start to a CFG node containing a target
// sub-node, not passing through nodes containing a blocker sub-node.
func (e *Engine) Reaches(u *Unit, start Point, target func(ast.Node) bool, blocker func(ast.Node) bool) PathResult {
	type item struct {
		p     Point
		trace *traceNode
	}
	seen := map[*cfg.Block]bool{}
	stack := []item{{start, nil}}
	for len(stack) > 0 {
		it := stack[len(stack)-1]
		stack = stack[:len(stack)-1]
		b := it.p.B
		blocked := false
		for _, n := range e.pathNodes(b, it.p.I) {
			if e.mayContain(u, n, target, 0) {
				tr := &traceNode{prev: it.trace, msg: fmt.Sprintf("reaches %s", e.pos(n.Pos()))}
				return PathResult{Found: true, Trace: tr.list()}
			}
			if blocker != nil && e.mustContain(u, n, blocker, 0) {
				blocked = true
				break
			}
		}
		if blocked {
			continue
		}
		tr := &traceNode{prev: it.trace, msg: fmt.Sprintf("block %d (%s) at %s", b.Index, b.Kind, e.blockPos(b))}
		for _, s := range b.Succs {
			if !seen[s] {
				seen[s] = true
				stack = append(stack, item{Point{s, 0}, tr})
			}
		}
	}
	return PathResult{}
}

func (e *Engine) blockPos(b *cfg.Block) string {
	if len(b.Nodes) > 0 {
		return e.pos(b.Nodes[0].Pos())
	}
	if b.Stmt != nil {
		return e.pos(b.Stmt.Pos())
	}
	return "?"
}

// Entry returns the entry point of the unit.
func (u *Unit) Entry() Point { return Point{u.cfg.Blocks[0], 0} }

// BranchEdges returns, for a CFG node that is the boolean condition ending
// its block, the points at the start of the true and false successors.
func (u *Unit) BranchEdges(cond ast.Node) (t, f Point, ok bool) {
	for _, b := range u.cfg.Blocks {
		if len(b.Nodes) > 0 && b.Nodes[len(b.Nodes)-1] == cond && len(b.Succs) == 2 {
			return Point{b.Succs[0], 0}, Point{b.Succs[1], 0}, true
		}
	}
	return Point{}, Point{}, false
}
