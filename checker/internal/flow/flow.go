// Package flow is E2: a path-sensitive forward dataflow over go/cfg with
// per-function summaries. States are sets of small counter vectors ("classes"),
// deferred effects and pending conditional effects that are resolved at
// branches on nil-ness of the variable that received a call result.
package flow

import (
	"fmt"
	"go/ast"
	"go/token"
	"go/types"
	"sort"
	"strings"

	"golang.org/x/tools/go/cfg"
	"golang.org/x/tools/go/packages"
	"golang.org/x/tools/go/types/typeutil"

	"verifcheck/internal/core"
)

// Effect adds N to the counter of class C.
type Effect struct {
	C int
	N int
}

// Delta is a sparse counter vector. It is immutable once stored.
type Delta map[int]int

func (d Delta) clone() Delta {
	n := make(Delta, len(d)+1)
	for k, v := range d {
		n[k] = v
	}
	return n
}

func (d Delta) Key() string {
	if len(d) == 0 {
		return ""
	}
	ks := make([]int, 0, len(d))
	for k, v := range d {
		if v != 0 {
			ks = append(ks, k)
		}
	}
	sort.Ints(ks)
	var b strings.Builder
	for _, k := range ks {
		fmt.Fprintf(&b, "%d:%d,", k, d[k])
	}
	return b.String()
}

func (d Delta) Add(e Delta) Delta {
	n := d.clone()
	for k, v := range e {
		n[k] += v
		if n[k] == 0 {
			delete(n, k)
		}
	}
	return n
}

func (d Delta) apply(effs []Effect) Delta {
	if len(effs) == 0 {
		return d
	}
	n := d.clone()
	for _, e := range effs {
		n[e.C] += e.N
		if n[e.C] == 0 {
			delete(n, e.C)
		}
	}
	return n
}

// Semantics supplies the primitive events.
type Semantics interface {
	// Call returns the direct effects of a primitive call (e.g. mu.Lock()).
	// ok=false means the call is not a primitive.
	Call(info *types.Info, call *ast.CallExpr) (effs []Effect, ok bool)
	// Assign returns effects of assigning rhs to lhs (logical locks). rhs may be nil.
	Assign(info *types.Info, lhs, rhs ast.Expr) []Effect
	// ClassName renders a class.
	ClassName(c int) string
	// NoReturn reports calls that never return besides builtin panic.
	NoReturn(info *types.Info, call *ast.CallExpr) bool
}

// NodeSemantics is an optional extension: effects of a whole CFG node,
// applied before the calls inside it are evaluated.
type NodeSemantics interface {
	Node(info *types.Info, n ast.Node) []Effect
}

// UnitKind says how a function literal is used.
type UnitKind int

const (
	KindDecl     UnitKind = iota // declared function or method
	KindGoLit                    // go func(){...}()
	KindDeferLit                 // defer func(){...}()
	KindCallLit                  // func(){...}() called in place
	KindValueLit                 // stored, passed or returned
)

// Unit is an analysed function body.
type Unit struct {
	ID     int
	Name   string
	Pkg    *packages.Package
	Body   *ast.BlockStmt
	Type   *ast.FuncType
	Obj    *types.Func  // nil for literals
	Lit    *ast.FuncLit // nil for declarations
	Parent *Unit
	Kind   UnitKind
	Pos    token.Pos

	cfg     *cfg.CFG
	Summary *Summary
	Exits   []Exit
	// Sites records the relative states before every ast.Node of the CFG
	// and before every call expression.
	Sites map[ast.Node][]Delta
	Calls []*CallSite
	// Problems found while analysing the unit itself.
	Overflow []string
	nstates  int
}

// CallSite is a resolved call (or go/defer) of another unit.
type CallSite struct {
	Call   *ast.CallExpr
	Callee *Unit
	Kind   string // call, go, defer
	// States are the relative states of the caller just before the callee
	// starts executing (for defer: at the exit where it runs).
	States []Delta
}

// Exit is one way out of a unit.
type Exit struct {
	D      Delta
	Nil    []int8 // per result: 1 literal nil, 0 anything else, -1 bare return
	Pos    token.Pos
	Trace  []string
	Panics bool
}

// Summary of a unit's effect on the counters.
type Summary struct {
	CondIdx int   // -1: unconditional
	All     Delta // if CondIdx < 0
	Nil     Delta // result[CondIdx] is literal nil
	NonNil  Delta
	Bad     bool   // exits disagree
	BadWhy  string //
	NoExit  bool   // no returning exit at all
}

func (s *Summary) key() string {
	if s == nil {
		return "<nil>"
	}
	return fmt.Sprintf("%d|%s|%s|%s|%v|%v", s.CondIdx, s.All.Key(), s.Nil.Key(), s.NonNil.Key(), s.Bad, s.NoExit)
}

// Engine analyses a set of packages.
type Engine struct {
	Sem    Semantics
	Fset   *token.FileSet
	Units  []*Unit
	ByObj  map[*types.Func]*Unit
	ByLit  map[*ast.FuncLit]*Unit
	Rounds int
	// TaggedCase maps case expressions of switches with a tag to the tag.
	taggedCase map[ast.Expr]ast.Expr
	// SelectOf maps a comm statement to its select statement.
	SelectOf map[ast.Stmt]*ast.SelectStmt
	MaxCount int
	States   int
	// NoSummaries: calls of analysed units have no effect on the caller's
	// counters (used when classes are local to one function body).
	NoSummaries bool
}

func NewEngine(sem Semantics, pkgs []*packages.Package) *Engine {
	e := &Engine{Sem: sem, ByObj: map[*types.Func]*Unit{}, ByLit: map[*ast.FuncLit]*Unit{},
		taggedCase: map[ast.Expr]ast.Expr{}, SelectOf: map[ast.Stmt]*ast.SelectStmt{}, MaxCount: 4}
	for _, pk := range pkgs {
		if e.Fset == nil {
			e.Fset = pk.Fset
		}
		for _, f := range pk.Syntax {
			for _, d := range f.Decls {
				fd, ok := d.(*ast.FuncDecl)
				if !ok || fd.Body == nil {
					continue
				}
				obj, _ := pk.TypesInfo.Defs[fd.Name].(*types.Func)
				uname := declName(pk, fd)
				if obj != nil && core.IsRenamed(obj) {
					uname = core.FuncName(obj) // keep answering to the reference name
				}
				u := &Unit{ID: len(e.Units), Name: uname, Pkg: pk, Body: fd.Body, Type: fd.Type, Obj: obj, Kind: KindDecl, Pos: fd.Pos()}
				e.Units = append(e.Units, u)
				if obj != nil {
					e.ByObj[obj] = u
				}
				e.collectLits(u, fd.Body)
			}
			ast.Inspect(f, func(n ast.Node) bool {
				switch s := n.(type) {
				case *ast.SwitchStmt:
					if s.Tag != nil {
						for _, c := range s.Body.List {
							for _, x := range c.(*ast.CaseClause).List {
								e.taggedCase[x] = s.Tag
							}
						}
					}
				case *ast.SelectStmt:
					for _, c := range s.Body.List {
						if cc := c.(*ast.CommClause); cc.Comm != nil {
							e.SelectOf[cc.Comm] = s
						}
					}
				}
				return true
			})
		}
	}
	return e
}

func declName(pk *packages.Package, fd *ast.FuncDecl) string {
	name := fd.Name.Name
	if fd.Recv != nil && len(fd.Recv.List) == 1 {
		t := fd.Recv.List[0].Type
		star := ""
		if s, ok := t.(*ast.StarExpr); ok {
			t = s.X
			star = "*"
		}
		if id, ok := t.(*ast.Ident); ok {
			name = "(" + star + id.Name + ")." + name
		}
	}
	return pk.Name + "." + name
}

// collectLits registers function literals nested directly in body (recursively).
func (e *Engine) collectLits(parent *Unit, body ast.Node) {
	count := 0
	var walk func(n ast.Node, kind UnitKind)
	walk = func(root ast.Node, _ UnitKind) {
		ast.Inspect(root, func(n ast.Node) bool {
			switch x := n.(type) {
			case *ast.GoStmt:
				if lit, ok := x.Call.Fun.(*ast.FuncLit); ok {
					e.addLit(parent, lit, KindGoLit, &count)
					for _, a := range x.Call.Args {
						walk(a, 0)
					}
					return false
				}
			case *ast.DeferStmt:
				if lit, ok := x.Call.Fun.(*ast.FuncLit); ok {
					e.addLit(parent, lit, KindDeferLit, &count)
					for _, a := range x.Call.Args {
						walk(a, 0)
					}
					return false
				}
			case *ast.CallExpr:
				if lit, ok := x.Fun.(*ast.FuncLit); ok {
					e.addLit(parent, lit, KindCallLit, &count)
					for _, a := range x.Args {
						walk(a, 0)
					}
					return false
				}
			case *ast.FuncLit:
				e.addLit(parent, x, KindValueLit, &count)
				return false
			}
			return true
		})
	}
	walk(body, 0)
}

func (e *Engine) addLit(parent *Unit, lit *ast.FuncLit, kind UnitKind, count *int) {
	*count++
	u := &Unit{ID: len(e.Units), Name: fmt.Sprintf("%s$%d", parent.Name, *count), Pkg: parent.Pkg, Body: lit.Body, Type: lit.Type, Lit: lit, Parent: parent, Kind: kind, Pos: lit.Pos()}
	e.Units = append(e.Units, u)
	e.ByLit[lit] = u
	e.collectLits(u, lit.Body)
}

// ---------------------------------------------------------------------------

type pend struct {
	key    string
	nilEff Delta
	nonNil Delta
}

type deferred struct {
	effs   []Effect
	callee *Unit
	call   *ast.CallExpr
}

type state struct {
	d      Delta
	defers []deferred
	pends  []pend
	trace  *traceNode
}

type traceNode struct {
	prev *traceNode
	msg  string
}

func (t *traceNode) list() []string {
	var out []string
	for n := t; n != nil; n = n.prev {
		out = append(out, n.msg)
	}
	for i, j := 0, len(out)-1; i < j; i, j = i+1, j-1 {
		out[i], out[j] = out[j], out[i]
	}
	if len(out) > 60 {
		out = append(out[:20], append([]string{"..."}, out[len(out)-39:]...)...)
	}
	return out
}

func (s *state) key() string {
	var b strings.Builder
	b.WriteString(s.d.Key())
	b.WriteByte('|')
	for _, d := range s.defers {
		if d.callee != nil {
			fmt.Fprintf(&b, "u%d;", d.callee.ID)
		} else if d.effs == nil {
			fmt.Fprintf(&b, "c%d;", d.call.Pos())
		} else {
			for _, e := range d.effs {
				fmt.Fprintf(&b, "%d:%d,", e.C, e.N)
			}
			b.WriteByte(';')
		}
	}
	b.WriteByte('|')
	for _, p := range s.pends {
		fmt.Fprintf(&b, "%s?%s:%s;", p.key, p.nilEff.Key(), p.nonNil.Key())
	}
	return b.String()
}

func (s *state) with(d Delta, msg string) *state {
	n := *s
	n.d = d
	if msg != "" {
		n.trace = &traceNode{prev: s.trace, msg: msg}
	}
	return &n
}

// Run iterates summaries to a fixpoint.
func (e *Engine) Run() {
	for _, u := range e.Units {
		u.cfg = cfg.New(u.Body, func(c *ast.CallExpr) bool { return e.mayReturn(u, c) })
	}
	for round := 1; round <= 12; round++ {
		e.Rounds = round
		changed := false
		for _, u := range e.Units {
			old := u.Summary.key()
			e.analyse(u)
			if u.Summary.key() != old {
				changed = true
			}
		}
		if !changed {
			break
		}
	}
	for _, u := range e.Units {
		e.States += u.nstates
	}
}

func (e *Engine) mayReturn(u *Unit, c *ast.CallExpr) bool {
	if id, ok := c.Fun.(*ast.Ident); ok && id.Name == "panic" {
		if _, isBuiltin := u.Pkg.TypesInfo.Uses[id].(*types.Builtin); isBuiltin {
			return false
		}
	}
	return !e.Sem.NoReturn(u.Pkg.TypesInfo, c)
}

func (e *Engine) pos(p token.Pos) string {
	ps := e.Fset.Position(p)
	f := ps.Filename
	if i := strings.LastIndex(f, "/"); i >= 0 {
		f = f[i+1:]
	}
	return fmt.Sprintf("%s:%d", f, ps.Line)
}

// calleeUnit resolves a call to an analysed unit.
func (e *Engine) calleeUnit(u *Unit, call *ast.CallExpr) *Unit {
	if lit, ok := ast.Unparen(call.Fun).(*ast.FuncLit); ok {
		return e.ByLit[lit]
	}
	if fn, ok := typeutil.Callee(u.Pkg.TypesInfo, call).(*types.Func); ok {
		if cu := e.ByObj[fn]; cu != nil {
			// Interface method objects are never in ByObj, so this is a static callee.
			return cu
		}
		if o := fn.Origin(); o != fn {
			return e.ByObj[o]
		}
	}
	return nil
}

func (e *Engine) analyse(u *Unit) {
	info := u.Pkg.TypesInfo
	in := make([]map[string]*state, len(u.cfg.Blocks))
	sites := map[ast.Node]map[string]Delta{}
	callStates := map[*ast.CallExpr]map[string]Delta{}
	callInfo := map[*ast.CallExpr]*CallSite{}
	u.Overflow = nil
	u.nstates = 0
	var exits []Exit

	record := func(n ast.Node, d Delta) {
		m := sites[n]
		if m == nil {
			m = map[string]Delta{}
			sites[n] = m
		}
		m[d.Key()] = d
	}
	recordCall := func(call *ast.CallExpr, callee *Unit, kind string, d Delta) {
		cs := callInfo[call]
		if cs == nil {
			cs = &CallSite{Call: call, Callee: callee, Kind: kind}
			callInfo[call] = cs
			callStates[call] = map[string]Delta{}
		}
		callStates[call][d.Key()] = d
	}

	var work []int
	queued := map[int]bool{}
	push := func(b *cfg.Block, s *state) {
		for c, v := range s.d {
			if v > e.MaxCount || v < -e.MaxCount {
				u.Overflow = append(u.Overflow, fmt.Sprintf("counter %s reached %d at block %d", e.Sem.ClassName(c), v, b.Index))
				return
			}
		}
		m := in[b.Index]
		if m == nil {
			m = map[string]*state{}
			in[b.Index] = m
		}
		k := s.key()
		if _, ok := m[k]; ok {
			return
		}
		if len(m) > 256 {
			u.Overflow = append(u.Overflow, fmt.Sprintf("more than 256 states at block %d", b.Index))
			return
		}
		m[k] = s
		u.nstates++
		if !queued[int(b.Index)] {
			queued[int(b.Index)] = true
			work = append(work, int(b.Index))
		}
	}
	if len(u.cfg.Blocks) == 0 {
		u.Summary = &Summary{CondIdx: -1, All: Delta{}}
		return
	}
	push(u.cfg.Blocks[0], &state{d: Delta{}})
	processed := map[string]bool{}

	for len(work) > 0 {
		bi := work[0]
		work = work[1:]
		queued[bi] = false
		blk := u.cfg.Blocks[bi]
		keys := make([]string, 0, len(in[bi]))
		for k := range in[bi] {
			keys = append(keys, k)
		}
		sort.Strings(keys)
		for _, k := range keys {
			pk := fmt.Sprintf("%d#%s", bi, k)
			if processed[pk] {
				continue
			}
			processed[pk] = true
			cur := []*state{in[bi][k]}
			returned := false
			var retNil []int8
			var retPos token.Pos
			noReturnEnd := false
			for ni, n := range blk.Nodes {
				var next []*state
				for _, s := range cur {
					record(n, s.d)
					outs, isRet, nilv := e.transfer(u, info, n, s, recordCall)
					if isRet {
						returned = true
						retNil = nilv
						retPos = n.Pos()
					}
					next = append(next, outs...)
				}
				cur = next
				if es, ok := n.(*ast.ExprStmt); ok && ni == len(blk.Nodes)-1 {
					if c, ok := es.X.(*ast.CallExpr); ok && !e.mayReturn(u, c) {
						noReturnEnd = true
					}
				}
			}
			switch {
			case returned || (len(blk.Succs) == 0 && !noReturnEnd && blk.Kind != cfg.KindSelectAfterCase && blk.Kind != cfg.KindUnreachable):
				// Function exit: resolve pending both ways, run defers.
				for _, s := range cur {
					for _, s2 := range e.forkPending(s) {
						d := s2.d
						tr := s2.trace
						for i := len(s2.defers) - 1; i >= 0; i-- {
							df := s2.defers[i]
							recordCall(df.call, df.callee, "defer", d)
							if df.callee != nil {
								if sum := df.callee.Summary; sum != nil && sum.CondIdx < 0 && !e.NoSummaries {
									d = d.Add(sum.All)
								}
							} else {
								d = d.apply(df.effs)
							}
						}
						pos := retPos
						if !returned {
							pos = u.Body.Rbrace
						}
						t := &traceNode{prev: tr, msg: fmt.Sprintf("exit at %s with %s", e.pos(pos), e.fmtDelta(d))}
						exits = append(exits, Exit{D: d, Nil: retNil, Pos: pos, Trace: t.list()})
					}
				}
			case len(blk.Succs) == 1:
				for _, s := range cur {
					push(blk.Succs[0], s)
				}
			case len(blk.Succs) == 2:
				var cond ast.Expr
				if len(blk.Nodes) > 0 {
					if x, ok := blk.Nodes[len(blk.Nodes)-1].(ast.Expr); ok {
						if _, tagged := e.taggedCase[x]; !tagged {
							if bt, ok := info.TypeOf(x).Underlying().(*types.Basic); ok && bt.Info()&types.IsBoolean != 0 {
								cond = x
							}
						}
					}
				}
				for _, s := range cur {
					if cond == nil || len(s.pends) == 0 {
						push(blk.Succs[0], s)
						push(blk.Succs[1], s)
						continue
					}
					push(blk.Succs[0], e.resolve(s, facts(cond, true), e.pos(cond.Pos())))
					push(blk.Succs[1], e.resolve(s, facts(cond, false), e.pos(cond.Pos())))
				}
			}
		}
	}

	u.Exits = exits
	u.Sites = map[ast.Node][]Delta{}
	for n, m := range sites {
		u.Sites[n] = sortedDeltas(m)
	}
	for call, m := range callStates {
		u.Sites[call] = sortedDeltas(m)
	}
	u.Calls = u.Calls[:0]
	for call, cs := range callInfo {
		cs.States = sortedDeltas(callStates[call])
		if cs.Callee != nil {
			u.Calls = append(u.Calls, cs)
		}
	}
	sort.Slice(u.Calls, func(i, j int) bool { return u.Calls[i].Call.Pos() < u.Calls[j].Call.Pos() })
	u.Summary = e.summarise(u, exits)
}

func sortedDeltas(m map[string]Delta) []Delta {
	ks := make([]string, 0, len(m))
	for k := range m {
		ks = append(ks, k)
	}
	sort.Strings(ks)
	out := make([]Delta, len(ks))
	for i, k := range ks {
		out[i] = m[k]
	}
	return out
}

func (e *Engine) fmtDelta(d Delta) string {
	if len(d) == 0 {
		return "{}"
	}
	ks := make([]int, 0, len(d))
	for k := range d {
		if k < acqBase {
			ks = append(ks, k)
		}
	}
	sort.Ints(ks)
	var parts []string
	for _, k := range ks {
		parts = append(parts, fmt.Sprintf("%s%+d", e.Sem.ClassName(k), d[k]))
	}
	return "{" + strings.Join(parts, ", ") + "}"
}

// FmtDelta is the exported form of fmtDelta.
func (e *Engine) FmtDelta(d Delta) string { return e.fmtDelta(d) }

// forkPending resolves all remaining pending effects both ways.
func (e *Engine) forkPending(s *state) []*state {
	out := []*state{s}
	for len(out[0].pends) > 0 {
		var next []*state
		for _, t := range out {
			p := t.pends[0]
			a := *t
			a.pends = t.pends[1:]
			a.d = t.d.Add(p.nilEff)
			a.trace = &traceNode{prev: t.trace, msg: fmt.Sprintf("  (unresolved %s assumed nil)", p.key)}
			b := *t
			b.pends = t.pends[1:]
			b.d = t.d.Add(p.nonNil)
			b.trace = &traceNode{prev: t.trace, msg: fmt.Sprintf("  (unresolved %s assumed non-nil)", p.key)}
			next = append(next, &a, &b)
		}
		out = next
	}
	return out
}

type fact struct {
	key   string
	isNil bool
}

// facts returns the nil-ness facts implied by cond evaluating to val.
func facts(cond ast.Expr, val bool) []fact {
	cond = ast.Unparen(cond)
	switch c := cond.(type) {
	case *ast.UnaryExpr:
		if c.Op == token.NOT {
			return facts(c.X, !val)
		}
	case *ast.BinaryExpr:
		switch c.Op {
		case token.LAND:
			if val {
				return append(facts(c.X, true), facts(c.Y, true)...)
			}
		case token.LOR:
			if !val {
				return append(facts(c.X, false), facts(c.Y, false)...)
			}
		case token.EQL, token.NEQ:
			x, y := ast.Unparen(c.X), ast.Unparen(c.Y)
			if isNilIdent(x) {
				x, y = y, x
			}
			if isNilIdent(y) {
				return []fact{{key: types.ExprString(x), isNil: (c.Op == token.EQL) == val}}
			}
		}
	}
	return nil
}

func isNilIdent(x ast.Expr) bool {
	id, ok := x.(*ast.Ident)
	return ok && id.Name == "nil"
}

func (e *Engine) resolve(s *state, fs []fact, where string) *state {
	if len(fs) == 0 || len(s.pends) == 0 {
		return s
	}
	n := *s
	n.pends = nil
	for _, p := range s.pends {
		done := false
		for _, f := range fs {
			if f.key == p.key {
				if f.isNil {
					n.d = n.d.Add(p.nilEff)
					n.trace = &traceNode{prev: n.trace, msg: fmt.Sprintf("  %s: %s == nil => %s", where, p.key, e.fmtDelta(p.nilEff))}
				} else {
					n.d = n.d.Add(p.nonNil)
					n.trace = &traceNode{prev: n.trace, msg: fmt.Sprintf("  %s: %s != nil => %s", where, p.key, e.fmtDelta(p.nonNil))}
				}
				done = true
				break
			}
		}
		if !done {
			n.pends = append(n.pends, p)
		}
	}
	return &n
}

// applySummary returns the possible successor deltas of calling callee.
func (e *Engine) applySummary(callee *Unit, d Delta) []Delta {
	s := callee.Summary
	if s == nil {
		return []Delta{d}
	}
	if s.CondIdx < 0 {
		return []Delta{d.Add(s.All)}
	}
	return []Delta{d.Add(s.Nil), d.Add(s.NonNil)}
}

// transfer applies node n to state s.
func (e *Engine) transfer(u *Unit, info *types.Info, n ast.Node, s *state,
	recordCall func(*ast.CallExpr, *Unit, string, Delta)) (outs []*state, isReturn bool, nilv []int8) {

	cur := []*state{s}
	// evalCalls processes the calls inside expression x in evaluation order.
	var evalCalls func(x ast.Node, bind func(call *ast.CallExpr) (key string, ok bool))
	evalCalls = func(x ast.Node, bind func(call *ast.CallExpr) (string, bool)) {
		if x == nil {
			return
		}
		var calls []*ast.CallExpr
		ast.Inspect(x, func(m ast.Node) bool {
			switch c := m.(type) {
			case *ast.FuncLit:
				return false
			case *ast.CallExpr:
				calls = append(calls, c)
			}
			return true
		})
		// post-order approximation: inner calls (later in the pre-order list and
		// contained in an earlier one) run first. Sort by End position.
		sort.SliceStable(calls, func(i, j int) bool { return calls[i].End() < calls[j].End() })
		for _, call := range calls {
			var next []*state
			for _, st := range cur {
				if effs, ok := e.Sem.Call(info, call); ok {
					recordCall(call, nil, "call", st.d)
					nd := st.d.apply(effs)
					msg := ""
					if len(effs) > 0 {
						msg = fmt.Sprintf("%s: %s => %s", e.pos(call.Pos()), types.ExprString(call.Fun), e.fmtDelta(nd))
					}
					next = append(next, st.with(nd, msg))
					continue
				}
				callee := e.calleeUnit(u, call)
				recordCall(call, callee, "call", st.d)
				if callee == nil || callee.Summary == nil || e.NoSummaries {
					next = append(next, st)
					continue
				}
				sum := callee.Summary
				if sum.CondIdx < 0 {
					if len(sum.All) == 0 {
						next = append(next, st)
					} else {
						nd := st.d.Add(sum.All)
						next = append(next, st.with(nd, fmt.Sprintf("%s: call %s %s => %s", e.pos(call.Pos()), callee.Name, e.fmtDelta(sum.All), e.fmtDelta(nd))))
					}
					continue
				}
				if key, ok := bind(call); ok {
					ns := *st
					ns.pends = append(append([]pend{}, st.pends...), pend{key: key, nilEff: sum.Nil, nonNil: sum.NonNil})
					ns.trace = &traceNode{prev: st.trace, msg: fmt.Sprintf("%s: %s := %s (nil => %s, non-nil => %s)", e.pos(call.Pos()), key, callee.Name, e.fmtDelta(sum.Nil), e.fmtDelta(sum.NonNil))}
					next = append(next, &ns)
					continue
				}
				next = append(next,
					st.with(st.d.Add(sum.Nil), fmt.Sprintf("%s: call %s, result assumed nil => %s", e.pos(call.Pos()), callee.Name, e.fmtDelta(sum.Nil))),
					st.with(st.d.Add(sum.NonNil), fmt.Sprintf("%s: call %s, result assumed non-nil => %s", e.pos(call.Pos()), callee.Name, e.fmtDelta(sum.NonNil))))
			}
			cur = next
		}
	}
	if ns, ok := e.Sem.(NodeSemantics); ok {
		if effs := ns.Node(info, n); len(effs) > 0 {
			nd := s.d.apply(effs)
			cur = []*state{s.with(nd, fmt.Sprintf("%s: %s", e.pos(n.Pos()), e.fmtDelta(nd)))}
		}
	}
	nobind := func(*ast.CallExpr) (string, bool) { return "", false }
	kill := func(key string) {
		// A re-assigned variable loses its pending effect: fork it now.
		var next []*state
		for _, st := range cur {
			found := false
			for i, p := range st.pends {
				if p.key == key {
					found = true
					rest := append(append([]pend{}, st.pends[:i]...), st.pends[i+1:]...)
					a := *st
					a.pends = rest
					a.d = st.d.Add(p.nilEff)
					b := *st
					b.pends = rest
					b.d = st.d.Add(p.nonNil)
					next = append(next, &a, &b)
					break
				}
			}
			if !found {
				next = append(next, st)
			}
		}
		cur = next
	}

	switch x := n.(type) {
	case *ast.GoStmt:
		// Arguments are evaluated now; the call itself runs elsewhere.
		for _, a := range x.Call.Args {
			evalCalls(a, nobind)
		}
		if callee := e.calleeUnit(u, x.Call); callee != nil {
			recordCall(x.Call, callee, "go", Delta{})
		}
	case *ast.DeferStmt:
		for _, a := range x.Call.Args {
			evalCalls(a, nobind)
		}
		if sel, ok := x.Call.Fun.(*ast.SelectorExpr); ok {
			evalCalls(sel.X, nobind)
		}
		var next []*state
		for _, st := range cur {
			ns := *st
			if effs, ok := e.Sem.Call(info, x.Call); ok {
				ns.defers = append(append([]deferred{}, st.defers...), deferred{effs: effs, call: x.Call})
			} else {
				// callee may be nil: the call is still recorded at exit so that
				// rules can ask what is held when the deferred call runs.
				ns.defers = append(append([]deferred{}, st.defers...), deferred{callee: e.calleeUnit(u, x.Call), call: x.Call})
			}
			next = append(next, &ns)
		}
		cur = next
	case *ast.AssignStmt:
		bind := nobind
		if len(x.Rhs) == 1 {
			if call, ok := ast.Unparen(x.Rhs[0]).(*ast.CallExpr); ok {
				bind = func(c *ast.CallExpr) (string, bool) {
					if c != call {
						return "", false
					}
					callee := e.calleeUnit(u, c)
					if callee == nil || callee.Summary == nil || callee.Summary.CondIdx < 0 || callee.Summary.CondIdx >= len(x.Lhs) {
						return "", false
					}
					lhs := x.Lhs[callee.Summary.CondIdx]
					if id, ok := lhs.(*ast.Ident); ok && id.Name == "_" {
						return "", false
					}
					return types.ExprString(lhs), true
				}
			}
		}
		for _, l := range x.Lhs {
			kill(types.ExprString(l))
		}
		for _, r := range x.Rhs {
			evalCalls(r, bind)
		}
		for _, l := range x.Lhs {
			if _, ok := l.(*ast.Ident); !ok {
				evalCalls(l, nobind)
			}
		}
		if len(x.Lhs) == len(x.Rhs) {
			for i := range x.Lhs {
				if effs := e.Sem.Assign(info, x.Lhs[i], x.Rhs[i]); len(effs) > 0 {
					var next []*state
					for _, st := range cur {
						nd := st.d.apply(effs)
						next = append(next, st.with(nd, fmt.Sprintf("%s: %s = %s => %s", e.pos(x.Pos()), types.ExprString(x.Lhs[i]), types.ExprString(x.Rhs[i]), e.fmtDelta(nd))))
					}
					cur = next
				}
			}
		}
	case *ast.ReturnStmt:
		for _, r := range x.Results {
			evalCalls(r, nobind)
		}
		isReturn = true
		if len(x.Results) == 0 {
			nres := 0
			if u.Type.Results != nil {
				nres = u.Type.Results.NumFields()
			}
			nilv = make([]int8, nres)
			for i := range nilv {
				nilv[i] = -1
			}
		} else {
			nilv = make([]int8, len(x.Results))
			for i, r := range x.Results {
				if isNilIdent(ast.Unparen(r)) {
					nilv[i] = 1
				}
			}
		}
	default:
		evalCalls(n, nobind)
	}
	return cur, isReturn, nilv
}

func (e *Engine) summarise(u *Unit, exits []Exit) *Summary {
	if len(exits) == 0 {
		return &Summary{CondIdx: -1, All: Delta{}, NoExit: true}
	}
	all := map[string]Delta{}
	for _, x := range exits {
		all[x.D.Key()] = x.D
	}
	if len(all) == 1 {
		for _, d := range all {
			return &Summary{CondIdx: -1, All: d}
		}
	}
	// Try a conditional summary on each result index.
	nres := 0
	if u.Type.Results != nil {
		nres = u.Type.Results.NumFields()
	}
	for idx := 0; idx < nres; idx++ {
		nilD, nonD := map[string]Delta{}, map[string]Delta{}
		ok := true
		for _, x := range exits {
			if idx >= len(x.Nil) || x.Nil[idx] < 0 {
				ok = false
				break
			}
			if x.Nil[idx] == 1 {
				nilD[x.D.Key()] = x.D
			} else {
				nonD[x.D.Key()] = x.D
			}
		}
		if ok && len(nilD) == 1 && len(nonD) == 1 {
			s := &Summary{CondIdx: idx}
			for _, d := range nilD {
				s.Nil = d
			}
			for _, d := range nonD {
				s.NonNil = d
			}
			return s
		}
	}
	// Inconsistent: majority delta is used by callers, the unit is flagged.
	count := map[string]int{}
	for _, x := range exits {
		count[x.D.Key()]++
	}
	keys := make([]string, 0, len(count))
	for k := range count {
		keys = append(keys, k)
	}
	sort.Slice(keys, func(i, j int) bool {
		if count[keys[i]] != count[keys[j]] {
			return count[keys[i]] > count[keys[j]]
		}
		return keys[i] < keys[j]
	})
	var why []string
	for _, k := range keys {
		why = append(why, fmt.Sprintf("%d exit(s) with %s", count[k], e.fmtDelta(all[k])))
	}
	return &Summary{CondIdx: -1, All: all[keys[0]], Bad: true, BadWhy: strings.Join(why, "; ")}
}

// ---------------------------------------------------------------------------
// Absolute states

// Abs holds, per unit, the set of absolute counter vectors at entry.
type Abs struct {
	Entry map[*Unit][]Delta
	// From records, per unit and entry state key, the caller that first
	// produced that entry state.
	From map[*Unit]map[string]Origin
}

// Origin says where an entry state came from.
type Origin struct {
	Caller *Unit
	Call   *ast.CallExpr
	Entry  Delta // caller's entry state
	Kind   string
}

// Propagate computes absolute entry states top-down. isEntry says which
// units start with the empty vector.
func (e *Engine) Propagate(isEntry func(*Unit) bool) *Abs {
	entry := map[*Unit]map[string]Delta{}
	from := map[*Unit]map[string]Origin{}
	var curOrigin *Origin
	add := func(u *Unit, d Delta) bool {
		m := entry[u]
		if m == nil {
			m = map[string]Delta{}
			entry[u] = m
		}
		k := d.Key()
		if _, ok := m[k]; ok {
			return false
		}
		if len(m) >= 32 {
			return false
		}
		for c, v := range d {
			if c < acqBase && (v > e.MaxCount || v < -e.MaxCount) {
				return false
			}
		}
		m[k] = d
		if curOrigin != nil {
			if from[u] == nil {
				from[u] = map[string]Origin{}
			}
			from[u][k] = *curOrigin
		}
		return true
	}
	var work []*Unit
	for _, u := range e.Units {
		if isEntry(u) {
			add(u, Delta{})
			work = append(work, u)
		}
	}
	for len(work) > 0 {
		u := work[0]
		work = work[1:]
		for _, ent := range sortedDeltas(entry[u]) {
			for _, cs := range u.Calls {
				for _, rel := range cs.States {
					var d Delta
					if cs.Kind == "go" {
						d = Delta{}
					} else {
						d = tagAcquirers(ent.Add(rel), u)
					}
					curOrigin = &Origin{Caller: u, Call: cs.Call, Entry: ent, Kind: cs.Kind}
					if add(cs.Callee, d) {
						work = append(work, cs.Callee)
					}
					curOrigin = nil
				}
			}
		}
	}
	out := &Abs{Entry: map[*Unit][]Delta{}, From: from}
	for u, m := range entry {
		out.Entry[u] = sortedDeltas(m)
	}
	return out
}

// At returns the absolute states before node n of unit u.
func (a *Abs) At(u *Unit, n ast.Node) []Delta {
	rel := u.Sites[n]
	ents := a.Entry[u]
	seen := map[string]bool{}
	var out []Delta
	for _, en := range ents {
		for _, r := range rel {
			d := tagAcquirers(en.Add(r), u)
			if k := d.Key(); !seen[k] {
				seen[k] = true
				out = append(out, d)
			}
		}
	}
	return out
}

// Path explains how unit u can be entered with absolute state d.
func (a *Abs) Path(e *Engine, u *Unit, d Delta) []string {
	var out []string
	seen := map[string]bool{}
	for u != nil {
		k := fmt.Sprintf("%d|%s", u.ID, d.Key())
		if seen[k] {
			break
		}
		seen[k] = true
		o, ok := a.From[u][d.Key()]
		if !ok {
			out = append(out, fmt.Sprintf("%s entered as an entry point with %s", u.Name, e.fmtDelta(d)))
			break
		}
		out = append(out, fmt.Sprintf("%s entered with %s: %s at %s in %s", u.Name, e.fmtDelta(d), o.Kind, e.pos(o.Call.Pos()), o.Caller.Name))
		u, d = o.Caller, o.Entry
	}
	return out
}

// Pos renders a position as file:line.
func (e *Engine) Pos(p token.Pos) string { return e.pos(p) }

// Acquirer tags: pseudo-classes recording which unit took a class that is
// currently held (count > 0) in an absolute state.
const acqBase = 1 << 20

func tagKey(c, uid int) int { return acqBase + c*4096 + uid }

// tagAcquirers normalises the tags of d: every held class without a tag is
// attributed to u; tags of classes that are no longer held are dropped.
func tagAcquirers(d Delta, u *Unit) Delta {
	n := d.clone()
	tagged := map[int]bool{}
	for k := range n {
		if k >= acqBase {
			c := (k - acqBase) / 4096
			if n[c] <= 0 {
				delete(n, k)
			} else {
				tagged[c] = true
			}
		}
	}
	for c, v := range d {
		if c < acqBase && v > 0 && !tagged[c] {
			n[tagKey(c, u.ID)] = 1
		}
	}
	return n
}

// Acquirer returns the unit that took class c in absolute state d.
func (e *Engine) Acquirer(d Delta, c int) *Unit {
	for k := range d {
		if k >= acqBase && (k-acqBase)/4096 == c {
			return e.Units[(k-acqBase)%4096]
		}
	}
	return nil
}
