#!/bin/bash
# devben.sh <benign|seeded>/<id> : apply in the dev worktree (never touches /repo) and run check-all there
D=/verif/$1
git -C /tmp/cdev-repo2 checkout -q -- . ; git -C /tmp/cdev-repo2 clean -fdq
git -C /tmp/cdev-repo2 apply $D/patch.diff || exit 3
VERIF_REPO=/tmp/cdev-repo2 VERIF_DIR=/tmp/cdev-out2 VERIF_NO_EVIDENCE=1 ${VC:-/verif/bin/verifcheck} check-all > /tmp/devben2.log 2>&1
echo "$1 $(grep '^ALARMS' /tmp/devben2.log)"
grep "violated \|fatal\|blind" /tmp/devben2.log | cut -c1-400 | head -8
git -C /tmp/cdev-repo2 checkout -q -- . ; git -C /tmp/cdev-repo2 clean -fdq
