// renlocals: renames every function-local variable (not parameters, not results) in the
// packages of the module at dir by appending a suffix. Behaviour-preserving stress edit.
package main

import (
	"fmt"
	"go/ast"
	"go/format"
	"go/token"
	"go/types"
	"os"
	"strings"

	"golang.org/x/tools/go/packages"
)

func main() {
	dir, suffix := os.Args[1], os.Args[2]
	renParams := strings.HasPrefix(suffix, "P")
	cfg := &packages.Config{Mode: packages.LoadSyntax, Dir: dir, Tests: false}
	pkgs, err := packages.Load(cfg, os.Args[3:]...)
	if err != nil {
		panic(err)
	}
	n := 0
	for _, p := range pkgs {
		if len(p.Errors) > 0 {
			fmt.Println("errors in", p.PkgPath, p.Errors[0])
			continue
		}
		for i, f := range p.Syntax {
			fname := p.CompiledGoFiles[i]
			if strings.HasSuffix(fname, "_test.go") || strings.Contains(fname, ".capnp.go") {
				continue
			}
			// objects to rename: local vars declared inside function bodies
			ren := map[types.Object]bool{}
			ast.Inspect(f, func(nd ast.Node) bool {
				fd, ok := nd.(*ast.FuncDecl)
				if !ok || fd.Body == nil {
					return true
				}
				params := map[types.Object]bool{}
				collect := func(fl *ast.FieldList) {
					if fl == nil {
						return
					}
					for _, fld := range fl.List {
						for _, nm := range fld.Names {
							params[p.TypesInfo.Defs[nm]] = true
						}
					}
				}
				collect(fd.Type.Params)
				collect(fd.Type.Results)
				collect(fd.Recv)
				root := ast.Node(fd.Body)
				if renParams {
					root = fd
				}
				ast.Inspect(root, func(m ast.Node) bool {
					if fl, ok := m.(*ast.FuncLit); ok {
						// parameters of literals stay
						if fl.Type.Params != nil {
							for _, fld := range fl.Type.Params.List {
								for _, nm := range fld.Names {
									params[p.TypesInfo.Defs[nm]] = true
								}
							}
						}
						if fl.Type.Results != nil {
							for _, fld := range fl.Type.Results.List {
								for _, nm := range fld.Names {
									params[p.TypesInfo.Defs[nm]] = true
								}
							}
						}
					}
					id, ok := m.(*ast.Ident)
					if !ok || id.Name == "_" {
						return true
					}
					o := p.TypesInfo.Defs[id]
					if v, isVar := o.(*types.Var); isVar && !v.IsField() && (renParams || !params[o]) && o.Parent() != p.Types.Scope() {
						ren[o] = true
					}
					return true
				})
				return true
			})
			changed := false
			ast.Inspect(f, func(nd ast.Node) bool {
				id, ok := nd.(*ast.Ident)
				if !ok {
					return true
				}
				o := p.TypesInfo.Defs[id]
				if o == nil {
					o = p.TypesInfo.Uses[id]
				}
				if o != nil && ren[o] {
					id.Name += suffix
					changed = true
					n++
				}
				return true
			})
			// implicit objects of type switches (x := v.(type)) are not in Defs: handle via Implicits
			if changed {
				out, err := os.Create(fname)
				if err != nil {
					panic(err)
				}
				format.Node(out, p.Fset, f)
				out.Close()
			}
		}
	}
	fmt.Println("renamed identifiers:", n)
	_ = token.NoPos
}
