#!/usr/bin/env python3
import json,sys
d=json.load(open('/verif/evidence/%s.json'%sys.argv[1]))
pat=sys.argv[2] if len(sys.argv)>2 else ''
for s in d['coverage']['samples']:
    if pat in s['rule']:
        print(s['rule'],'|',s['construct'],'|',s['status'],'|',s['reason'][:200])
