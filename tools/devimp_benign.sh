#!/bin/bash
# imp3.sh Cxx : import /tmp/seed/Cxx-b3-out/b5..b7 into /verif/benign and evaluate with the dev binary
P=$1
for k in ${KS:-b5 b6 b7}; do
  S=/tmp/seed/$P-${B:-b3}-out/$k
  [ -f $S/patch.diff ] || { echo "$P-$k missing"; continue; }
  mkdir -p /verif/benign/$P-$k
  cp $S/patch.diff $S/meta.json /verif/benign/$P-$k/
  VC=/tmp/vc-dev /tmp/devben2.sh benign/$P-$k
done
