#!/bin/bash
# seedeval.sh <dir with patch.diff demo_test.go meta.json> [properties...]
# 1. confirms in a scratch worktree: patch applies, build+suite pass, demo fails with / passes without
# 2. applies the patch to /repo, runs the quick checks of the given properties (default: all claimed), undoes it
set -u
export GOFLAGS=-mod=mod GOPROXY=off GOSUMDB=off GOTOOLCHAIN=local
D=$(readlink -f "$1"); shift
PROPS="$*"
if [ -z "$PROPS" ]; then PROPS=$(python3 -c "import json;print(' '.join(c['property_id'] for c in json.load(open('/verif/MANIFEST.json'))['checks']))"); fi
WT=/tmp/seedeval-wt-$$
OUT="$D/eval.txt"; : > "$OUT"
DEMODIR=$(python3 -c "import json;print(json.load(open('$D/meta.json')).get('demo_dir','.'))")
DEMORUN=$(python3 -c "import json;print(json.load(open('$D/meta.json')).get('demo_run',''))")
if [ -z "${CHECKS_ONLY:-}" ]; then
# (CHECKS_ONLY=1: the seed was confirmed in an earlier evaluation; only re-run the checks)
git -C /repo worktree add -q --detach "$WT" HEAD || exit 2
cleanup() { git -C /repo worktree remove --force "$WT" >/dev/null 2>&1; rm -rf "$WT"; }
trap cleanup EXIT
cd "$WT"
cp "$D/demo_test.go" "$WT/$DEMODIR/zz_seed_demo_test.go"
# demo without patch
RUNCMD=$(echo "$DEMORUN" | sed -e "s#cd [^ ]* && ##")
[ -z "$RUNCMD" ] && RUNCMD="go test -vet=off -count=1 ./$DEMODIR/"
( eval "timeout 300 $RUNCMD" ) > "$D/demo_without.log" 2>&1; W=$?
echo "demo_without_patch_exit=$W" >> "$OUT"
if ! git apply "$D/patch.diff"; then echo "patch_applies=no" >> "$OUT"; cat "$OUT"; exit 1; fi
echo "patch_applies=yes" >> "$OUT"
( eval "timeout 300 $RUNCMD" ) > "$D/demo_with.log" 2>&1; P=$?
echo "demo_with_patch_exit=$P" >> "$OUT"
rm -f "$WT/$DEMODIR/zz_seed_demo_test.go"
( go build ./... && timeout 900 go test -vet=off -count=1 ./... ) > "$D/suite_with.log" 2>&1; S=$?
echo "suite_with_patch_exit=$S" >> "$OUT"
fi
cd /verif
# now the checks against /repo with the patch
if ! git -C /repo apply "$D/patch.diff"; then echo "repo_apply=failed" >> "$OUT"; cat "$OUT"; exit 1; fi
CAUGHT=""
./run.sh setup >/dev/null 2>&1
# one load of the patched tree, the quick rules of every property (same rules as ./run.sh check <p> quick)
VERIF_NO_EVIDENCE=1 ./bin/verifcheck check-all > "$D/check_all.log" 2>&1
ALL=$(grep '^ALARMS:' "$D/check_all.log" | sed 's/^ALARMS://')
for p in $PROPS; do
	case " $ALL " in *" $p "*) CAUGHT="$CAUGHT $p";; esac
done
grep -q '^ALARMS:' "$D/check_all.log" || CAUGHT="CHECKER-FAILED"
git -C /repo checkout -- .
echo "caught_by=$CAUGHT" >> "$OUT"
cat "$OUT"
