#!/bin/bash
# seedconfirm.sh <dir with patch.diff demo_test.go meta.json>
# Confirms a seed in its own scratch worktree (never touches /repo's working tree):
# the patch applies to HEAD, the demo passes without it and fails with it, and the
# whole existing suite passes with it. Writes <dir>/confirm.txt. Safe to run in parallel.
set -u
export GOFLAGS=-mod=mod GOPROXY=off GOSUMDB=off GOTOOLCHAIN=local
D=$(readlink -f "$1")
WT=/tmp/seedconfirm-wt-$$
OUT="$D/confirm.txt"; : > "$OUT"
DEMODIR=$(python3 -c "import json;print(json.load(open('$D/meta.json')).get('demo_dir','.'))")
DEMORUN=$(python3 -c "import json;print(json.load(open('$D/meta.json')).get('demo_run',''))")
git -C /repo worktree add -q --detach "$WT" HEAD || exit 2
cleanup() { git -C /repo worktree remove --force "$WT" >/dev/null 2>&1; rm -rf "$WT"; }
trap cleanup EXIT
cd "$WT"
cp "$D/demo_test.go" "$WT/$DEMODIR/zz_seed_demo_test.go"
RUNCMD=$(echo "$DEMORUN" | sed -e "s#cd [^ ]* && ##")
[ -z "$RUNCMD" ] && RUNCMD="go test -vet=off -count=1 ./$DEMODIR/"
( eval "timeout 300 $RUNCMD" ) > "$D/demo_without.log" 2>&1; echo "demo_without_patch_exit=$?" >> "$OUT"
if ! git apply "$D/patch.diff"; then echo "patch_applies=no" >> "$OUT"; cat "$OUT"; exit 1; fi
echo "patch_applies=yes" >> "$OUT"
( eval "timeout 300 $RUNCMD" ) > "$D/demo_with.log" 2>&1; echo "demo_with_patch_exit=$?" >> "$OUT"
rm -f "$WT/$DEMODIR/zz_seed_demo_test.go"
( go build ./... && timeout 1200 go test -vet=off -count=1 ./... ) > "$D/suite_with.log" 2>&1; echo "suite_with_patch_exit=$?" >> "$OUT"
echo "$(basename $D) $(tr '\n' ' ' < $OUT)"
