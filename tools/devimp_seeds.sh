#!/bin/bash
# imps.sh Cxx : import /tmp/seed/Cxx-r6-out/m9,m10 into /verif/seeded and evaluate with the dev binary
P=$1
for k in m11 m12; do
  S=/tmp/seed/$P-r6-out/$k
  [ -f $S/patch.diff ] || { echo "$P-$k missing"; continue; }
  mkdir -p /verif/seeded/$P-$k
  cp $S/patch.diff $S/meta.json /verif/seeded/$P-$k/
  cp $S/demo_test.go /verif/seeded/$P-$k/ 2>/dev/null || ls $S
  /tmp/devben3.sh seeded/$P-$k | head -4
done
