#!/usr/bin/env python3
"""seedfinal.py <seeddir> [first_round note]: folds eval.txt (written by
tools/seedeval.sh) into meta.json and removes the logs."""
import json, os, sys, glob

d = sys.argv[1].rstrip("/")
note = sys.argv[2] if len(sys.argv) > 2 else None
ev = {}
for line in open(os.path.join(d, "eval.txt")):
    if "=" in line:
        k, v = line.strip().split("=", 1)
        ev[k] = v.strip()
mp = os.path.join(d, "meta.json")
m = json.load(open(mp))
if "demo_with_patch_exit" in ev or "confirmed" not in m:
  m["confirmed"] = {
    "demo_passes_without_patch": ev.get("demo_without_patch_exit") == "0",
    "demo_fails_with_patch": ev.get("demo_with_patch_exit") not in ("0", None),
    "existing_suite_passes_with_patch": ev.get("suite_with_patch_exit") == "0",
    "patch_applies_to_repo_head": ev.get("patch_applies") == "yes",
}
m["ran"] = ["tools/seedeval.sh %s  (scratch worktree: demo without/with patch, go build ./... && go test -vet=off -count=1 ./... with patch; then git -C /repo apply patch.diff, ./run.sh check <every claimed property> quick, git -C /repo checkout -- .)" % d.replace("/verif/", "")]
m["caught_by"] = ev.get("caught_by", "").split()
if note:
    m["first_round"] = note
elif "first_round" not in m:
    m["first_round"] = "caught" if m["caught_by"] else "missed"
json.dump(m, open(mp, "w"), indent=1)
for f in glob.glob(os.path.join(d, "*.log")) + [os.path.join(d, "eval.txt")]:
    os.remove(f)
print(d, m["confirmed"], m["caught_by"])
