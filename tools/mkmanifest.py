#!/usr/bin/env python3
"""Regenerates /verif/MANIFEST.json from the table below (kept in one place so
that claims, techniques and not_applicable stay consistent)."""
import json, os, sys
HERE = os.path.dirname(os.path.dirname(os.path.abspath(__file__)))

# property -> (technique, level text, level note, design ref)
CLAIMS = {
    "C01": ("site-exhaustive discipline checks over SSA: confinement of Segment.data, checked-result dominance, provenance classification of every raw accessor call against dominating regionInBounds/dataAddress/primitiveElem guards, construction-site guards, normal forms of the bounds kernel, panic census over the call graph",
            "discipline-based necessary condition of memory safety of the read path, exhaustive over all ~300 sites (every raw access justified by a dominating guard on the same segment and address, every object constructed under a region check, kernel functions equal to their confirmed normal form); not a value-level proof of extents",
            "trusts x/tools v0.29.0; the object invariant (off,size inside seg) is assumed once established at construction; guards matched on rendered SSA expressions", "DESIGN.md 3 C01"),
    "C02": ("SSA dominance (charge before return, depth decrement under a non-zero proof), who-may-call, atomic-only use of the budget field, structure of the CAS retry loop, normal forms of readSize",
            "necessary conditions of the traversal/depth bounds decided over every site (every returned struct/list charged with its own readSize, every depthLimit store classified, budget only touched atomically); not the accounting equation, not recursion depth of consumers",
            "trusts x/tools v0.29.0", "DESIGN.md 3 C02"),
    "C06": ("must-pass-through / at-most-once path queries over go/cfg; who-may-call over resolved callees; path-sensitive linear-resource dataflow for Recv/Returner; SSA dominating-guard atoms",
            "structural necessary conditions of exactly-once, in-order RPC delivery, decided exhaustively over every CFG path and call site of today's tree (single dispatcher, one discharge per answer, Returner consumed exactly once, id reuse and id validation guards, handler lock discipline); it is not a proof over message histories",
            "trusts go/types, go/cfg, go/ssa of x/tools v0.29.0; lock identity per class; dynamic calls are not followed", "DESIGN.md 3 C06"),
    "C07": ("who-writes-field over SSA stores; SSA dominating-guard atoms on table entries; linear ownership path queries for AddRef results; teardown must-pass-through",
            "ownership/layering necessary conditions of reference counting (designated writers of every count, nil-tested table entries, Release carries the entry's count, AddRef results disposed on all paths, complete teardown); not the count equation over histories",
            "trusts x/tools v0.29.0; access-path (not alias) matching of guards", "DESIGN.md 3 C07"),
    "C08": ("SSA dominance: non-nil / length guards on untrusted ids and table entries, known-nil detection for annotate arguments, nil-able func fields; switch-default and panic census over the call graph; comma-ok type-assertion results dereferenced only under ok; task-group pairing; lock-state dataflow with absolute-state propagation",
            "necessary conditions for surviving a hostile peer (no unchecked index or nil table entry, annotate never gets nil, no call through a possibly-nil func field, non-panicking dispatch defaults, handler errors propagate, enumerated panics, no application code or blocking under Conn.mu); not protocol-correctness of each reply",
            "trusts x/tools v0.29.0; CHA call graph restricted to the module for interface dispatch", "DESIGN.md 3 C08"),
    "C09": ("path-sensitive lock-state dataflow over go/cfg with function summaries and absolute-state propagation from entry points; must-pass-through path queries; interprocedural dynamic-type flow over SSA for the stream-broken latch",
            "exhaustive over all CFG paths of packages capnp, rpc, server: lock balance per function, documented lock contracts at every call path, no application code/blocking/re-lock under Conn.mu, transport operations under the sender lock, shutdown/task-group shape, wake-ups exactly once, latch liveness; not bounded time or goroutine exit under real schedulers",
            "trusts x/tools v0.29.0; lock identity per class (struct field); literal-nil results drive conditional summaries", "DESIGN.md 3 C09"),
    "C10": ("lock-state dataflow (balance, guarded-by, held-lock policy); SSA dominating-guard atoms for close(done), WeakClient.AddRef and the call bracket; must-pass-through queries for finish()/Shutdown order",
            "necessary conditions of exactly-once capability shutdown (serialised counts, conditioned close of done, Shutdown only after <-done from two designated sites, call bracket, reference transfer); not exactly-once under interleavings",
            "trusts x/tools v0.29.0; lock identity per class; guards matched on access paths", "DESIGN.md 3 C10"),
    "C11": ("lock-state dataflow (balance, contracts, guarded-by, policy); must-non-nil forward dataflow for lazily created maps; linear Recv dataflow; path queries for the ongoing-call bracket and resolve-once",
            "necessary conditions of once-only, deadlock-free pipelining in answer.go, exhaustive over CFG paths; not delivery order or exactly-once under interleavings",
            "trusts x/tools v0.29.0; lock identity per class (two Promise.mu may be held by design)", "DESIGN.md 3 C11"),
    "C12": ("lock-state dataflow incl. the logical lock Server.starting; path queries for admission-after-drain-test and slot release; SSA guards for close(drain)/close(full); linear Recv dataflow; SSA index agreement between the base index handed out for a queued call (queueCaller.basis) and the index fulfill stores its result at",
            "necessary conditions of ordered, capped, exactly-once local delivery in package server, exhaustive over CFG paths; not ordering or the cap as numeric invariants over timings",
            "trusts x/tools v0.29.0; lock identity per class", "DESIGN.md 3 C12"),
    "C03": ("abstract interpretation of the pointer-word decoders over a per-bit provenance domain, compared with the encoding specification's field table; normal forms (loop-free SSA paths) of the resolution code; anchor lemmas (call + argument + dominating atoms)",
            "bit-exact agreement of every decoder with the specified pointer layout for all 2^64 pointer words (the domain tracks each result bit's source bit), plus structural normal forms of far/double-far/composite resolution and of the default/upgrade clauses; not value equality of decoded trees against an independent decoder",
            "trusts x/tools v0.29.0; arithmetic outside shift/mask/convert/add-constant is opaque to the bit domain and fails the rule rather than passing", "DESIGN.md 3 C03"),
    "C04": ("sibling cross-check of getter/setter/list accessor pairs against the schema width table (SSA anchors), normal forms of setters and alloc, who-may-grow-a-segment, header-field table shared by the four framers",
            "three necessary conditions of write/read-back agreement decided over every accessor pair and framer (same guard, same width, same address on both sides; a single bump allocator that zero-fills; one header layout); not round-trip equality, non-interference or chunking independence",
            "trusts x/tools v0.29.0", "DESIGN.md 3 C04"),
    "C05": ("abstract interpretation of the pointer-word encoders over per-bit provenance, composition decoder(encoder(args)) in the same domain, normal forms of List.raw/nearPointerOffset/allocSize, anchor lemmas for the shapes emitted by writePtr, pairing of every address returned by alloc with the segment returned by the same call",
            "bit-exact agreement of every encoder with the specified layout and inverse agreement with the decoders of C03 for all argument values, plus the structural conditions under which writePtr emits near / far / double-far pointers; not that an independent decoder reconstructs the written tree",
            "trusts x/tools v0.29.0; opaque arithmetic fails the rule", "DESIGN.md 3 C05"),
    "C13": ("SSA def-use (the copy count reaches a comparison), value-source classification of allocation sizes and run counters, tag-dispatch sibling comparison of Pack/Unpack/ReadWord, interval analysis of indexes against dominating length tests, upper-bound analysis of every value converted to a count byte, io.EOF exclusion for reads after the tag byte",
            "four structural clauses of the packed codec decided over every site (short literal detected, growth per count byte bounded by a single byte, same tag set in all three codecs with ErrUnexpectedEOF at every truncation point, every input index bounded); not unpack(pack(x)) = x nor equivalence of the two decoders",
            "trusts x/tools v0.29.0", "DESIGN.md 3 C13"),
    "C14": ("SSA dominance of header-derived allocation sizes by limit comparisons, normal form of totalSize, classification of every returned error in Decode (EOF only for the first header read), three-index-slice check for reused buffers, reset completeness (every field written elsewhere is re-initialised by Message.Reset on every path)",
            "structural necessary conditions of bounded, exactly framed decoding decided over every allocation and return site of Decoder.Decode, Unmarshal and demuxArena; not equality of decoded and encoded messages nor exact allocation totals",
            "trusts x/tools v0.29.0", "DESIGN.md 3 C14"),
    "C15": ("static analysis of the generator's template program (the string constant compiled into capnpc-go parsed with text/template/parse): snippet-first discipline per accessor, getter/setter expression agreement, file/embedded tree equality; normal forms of the parameter code; no-map-iteration and dropped-error rules over SSA",
            "structural necessary conditions of generated accessors agreeing with the schema (every union member accessor checks/sets the discriminant at DiscriminantOffset, getter and setter name the same slot, width and default; offsets scaled by the width; deterministic emission order; generator failures reported); not that emitted code compiles or that emitted bytes are right for a given schema",
            "trusts x/tools v0.29.0 and text/template/parse; the generated *.capnp.go files checked in are not re-derived", "DESIGN.md 3 C15"),
    "C16": ("anchor lemmas over SSA (call + arguments + dominating atoms) for the copy decision of writePtr, the capability re-homing, copyStruct's section handling and list copies",
            "structural necessary conditions of deep copy on assignment decided over the copy kernel (copy exactly under forceCopy / other message / list member; capabilities re-homed with AddRef; truncation, zero-fill and nulling of sections; fresh allocation per copied list); not value equality of the copy nor independence under later mutation",
            "trusts x/tools v0.29.0; normal forms are sensitive to refactoring of the named kernel functions (a changed form is reported as undecided-violation with both forms)", "DESIGN.md 3 C16"),
    "C17": ("SSA guard analysis (element-size*length only under a not-bit-list proof), case-coverage lemmas for Equal, dropped-error rule for the recursion, full-scan recogniser for isZeroFilled, same-message guard of the capability-index shortcut",
            "necessary conditions of Equal being structural equality decided over every comparison site; not iff-correctness, reflexivity or symmetry as value-level facts",
            "trusts x/tools v0.29.0", "DESIGN.md 3 C17"),
    "C18": ("SSA guard analysis of the bulk-copy path, anchor lemmas for canonical sizes, pre-order allocation order via dominance, capability rejection and single-segment output lemmas, dropped-error rule",
            "structural necessary conditions of canonicalisation decided over canonical.go (composite lists never take the data-only path; every struct sized by canonicalStructSize; pre-order allocation; capabilities rejected); not byte-identity across layouts nor idempotence as value-level facts",
            "trusts x/tools v0.29.0", "DESIGN.md 3 C18"),
    "C19": ("sibling table extraction: each schema walker's type switch compared with the schema width/scale table; union-guard reachability over the SSA CFG; bounds-predicate normal form; cached-message budget rule (limit assigned before the first read); dropped-error rule; append-aliasing rule; FIFO work list of embedded structs",
            "structural necessary conditions of pogs agreeing with generated accessors decided over every accessor call in extractField/insertField/marshalFieldValue; not round-trip equality nor Go struct tag/embedding resolution",
            "trusts x/tools v0.29.0", "DESIGN.md 3 C19"),
    "C20": ("finite-domain evaluation of the escape predicate by constant folding over all 256 byte values on the SSA form, escape-switch/guard contradiction rule, dropped-error rule, cached-message budget rule, sibling table and union guard for the text walker",
            "the escape set is decided exactly for every byte value (finite domain), the remaining clauses are structural necessary conditions over every call site of the text encoder; not injectivity of the whole rendering nor float formatting",
            "trusts x/tools v0.29.0", "DESIGN.md 3 C20"),
}
PENDING_REASON = "no static check registered yet in this round; see DESIGN.md section 3 for the clause that is planned"
NOT_APPLICABLE = {
}
ALL = ["C%02d" % i for i in range(1, 21)]

def main():
    checks = []
    for pid in ALL:
        if pid not in CLAIMS:
            continue
        tech, text, note, ref = CLAIMS[pid]
        checks.append({
            "property_id": pid,
            "quick_cmd": "./run.sh check %s quick" % pid,
            "thorough_cmd": "./run.sh check %s thorough" % pid,
            "evidence_file": "/verif/evidence/%s.json" % pid,
            "replay_cmd_template": "./run.sh explain {path}",
            "engine": "verifcheck",
            "level_claimed": {"category": "other", "text": text, "design_ref": ref},
            "level_note": note,
            "technique": tech,
        })
    na = []
    for pid in ALL:
        if pid in CLAIMS:
            continue
        na.append({"property_id": pid, "reason": NOT_APPLICABLE.get(pid, PENDING_REASON)})
    m = {
        "version": 1,
        "setup_cmd": "./run.sh setup",
        "hooks": {
            "guard": "verif",
            "enable": "none: the checks are static analyses of the unmodified sources; no hooks are compiled in",
            "baseline_off_cmd": "cd /repo && go build ./... && go test -vet=off -count=1 ./...",
            "source_commits": [],
            "add_only": True,
        },
        "engines": [{
            "name": "verifcheck",
            "path": "/verif/checker",
            "serves_properties": sorted(CLAIMS),
            "kind_free_text": "repository-specific static analyser (go/packages + go/cfg path-sensitive dataflow with summaries, go/ssa dominance/provenance queries, table extraction); decides structural necessary conditions, never executes library code",
        }],
        "checks": checks,
        "not_applicable": na,
        "notes": "All claims are at level 'other': structural necessary conditions decided exhaustively over the enumerated sites/paths of the current tree (see DESIGN.md). known_findings.json lists genuine defects recorded or fixed.",
    }
    with open(os.path.join(HERE, "MANIFEST.json"), "w") as f:
        json.dump(m, f, indent=1)
        f.write("\n")

if __name__ == "__main__":
    main()
