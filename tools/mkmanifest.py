#!/usr/bin/env python3
"""Regenerates /verif/MANIFEST.json from the table below (kept in one place so
that claims, techniques and not_applicable stay consistent)."""
import json, os, sys
HERE = os.path.dirname(os.path.dirname(os.path.abspath(__file__)))

# property -> (technique, level text, level note, design ref)
CLAIMS = {
}
PENDING_REASON = "no static check registered yet in this round; see DESIGN.md section 3 for the clause that is planned"
NOT_APPLICABLE = {
}
ALL = ["C%02d" % i for i in range(1, 21)]

def main():
    checks = []
    for pid in ALL:
        if pid not in CLAIMS:
            continue
        tech, text, note, ref = CLAIMS[pid]
        checks.append({
            "property_id": pid,
            "quick_cmd": "./run.sh check %s quick" % pid,
            "thorough_cmd": "./run.sh check %s thorough" % pid,
            "evidence_file": "/verif/evidence/%s.json" % pid,
            "replay_cmd_template": "./run.sh explain {path}",
            "engine": "verifcheck",
            "level_claimed": {"category": "other", "text": text, "design_ref": ref},
            "level_note": note,
            "technique": tech,
        })
    na = []
    for pid in ALL:
        if pid in CLAIMS:
            continue
        na.append({"property_id": pid, "reason": NOT_APPLICABLE.get(pid, PENDING_REASON)})
    m = {
        "version": 1,
        "setup_cmd": "./run.sh setup",
        "hooks": {
            "guard": "verif",
            "enable": "none: the checks are static analyses of the unmodified sources; no hooks are compiled in",
            "baseline_off_cmd": "cd /repo && go build ./... && go test -vet=off -count=1 ./...",
            "source_commits": [],
            "add_only": True,
        },
        "engines": [{
            "name": "verifcheck",
            "path": "/verif/checker",
            "serves_properties": sorted(CLAIMS),
            "kind_free_text": "repository-specific static analyser (go/packages + go/cfg path-sensitive dataflow with summaries, go/ssa dominance/provenance queries, table extraction); decides structural necessary conditions, never executes library code",
        }],
        "checks": checks,
        "not_applicable": na,
        "notes": "All claims are at level 'other': structural necessary conditions decided exhaustively over the enumerated sites/paths of the current tree (see DESIGN.md). known_findings.json lists genuine defects recorded or fixed.",
    }
    with open(os.path.join(HERE, "MANIFEST.json"), "w") as f:
        json.dump(m, f, indent=1)
        f.write("\n")

if __name__ == "__main__":
    main()
