#!/bin/bash
# devpart.sh <devben script> <log> <ids...>
S=$1; L=$2; shift 2
for id in "$@"; do
  $S benign/$id > /dev/null 2>&1
  echo "$id $(grep '^ALARMS' $L)"
done
echo done
