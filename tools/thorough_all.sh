#!/bin/bash
cd /verif
for p in $(seq -f "C%02g" 1 20); do
  ./run.sh check $p thorough > /tmp/t_$p.log 2>&1
  echo "$p exit=$? viol=$(grep -c '^VIOLATION' /tmp/t_$p.log) known=$(grep -c '^KNOWN-FINDING' /tmp/t_$p.log)"
done
echo done
