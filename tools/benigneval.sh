#!/bin/bash
# benigneval.sh <dir with patch.diff meta.json> : applies a behaviour-preserving
# change to /repo, runs the quick rules of every claimed property (one load,
# `verifcheck check-all`), undoes it. Every alarm is a false alarm of the
# machinery (to be corrected, never listed as a finding).
set -u
export GOFLAGS=-mod=mod GOPROXY=off GOSUMDB=off GOTOOLCHAIN=local
D=$(readlink -f "$1")
cd /verif
./run.sh setup >/dev/null 2>&1
if ! git -C /repo apply "$D/patch.diff"; then echo "$(basename $D) apply=failed"; exit 1; fi
VERIF_NO_EVIDENCE=1 ./bin/verifcheck check-all > "$D/check_all.log" 2>&1
git -C /repo checkout -- .; git -C /repo clean -fdq
AL=$(grep '^ALARMS:' "$D/check_all.log" | sed 's/^ALARMS://')
grep -q '^ALARMS:' "$D/check_all.log" || AL=" CHECKER-FAILED"
echo "$(basename $D) alarms=$AL"
grep "violated \|undecided \|fatal" "$D/check_all.log" | cut -c1-420 | head -12
