#!/bin/bash
cd /verif
for d in seeded/C*; do
  CHECKS_ONLY=1 tools/seedeval.sh $d > /dev/null 2>&1
  echo "$(basename $d) $(grep caught_by $d/eval.txt)"
done
echo done
