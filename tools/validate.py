#!/usr/bin/env python3
import json, sys, glob, jsonschema
m=json.load(open('/verif/MANIFEST.json')); s=json.load(open('/root/.vp/MANIFEST.schema.json'))
jsonschema.validate(m,s); print("manifest ok: checks=%d na=%d" % (len(m['checks']), len(m.get('not_applicable',[]))))
s=json.load(open('/root/.vp/EVIDENCE.schema.json'))
for f in sorted(glob.glob('/verif/evidence/*.json')):
    jsonschema.validate(json.load(open(f)),s); print("evidence ok", f)
