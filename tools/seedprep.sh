#!/bin/bash
# seedprep.sh <round> <prop>... : for each property creates a scratch worktree
# /tmp/seed/<prop>-<round>-wt, an output dir and the prompt file a seeding
# sub-agent is given (property text only, nothing from /verif).
set -eu
R=$1; shift
mkdir -p /tmp/seed
for P in "$@"; do
	WT=/tmp/seed/$P-$R-wt; OUT=/tmp/seed/$P-$R-out
	rm -rf "$OUT"; mkdir -p "$OUT"
	if [ "${TMPL:-seedprompt.tmpl}" = "benignprompt.tmpl" ]; then mkdir -p "$OUT/b1" "$OUT/b2" "$OUT/b3" "$OUT/b4"; else mkdir -p "$OUT/m1" "$OUT/m2"; fi
	[ -d "$WT" ] || git -C /repo worktree add -q --detach "$WT" HEAD
	python3 - "$P" "$WT" "$OUT" <<'E'
import json, sys
pid, wt, out = sys.argv[1:4]
prop = None
for l in open('/verif/properties.jsonl'):
    d = json.loads(l)
    if d['id'] == pid:
        prop = d
a = prop['anchors']
text = "%s: %s\n\nStatement: %s\n\nQuantified: %s\n\nWhy unit tests cannot settle it: %s\n\nWhere it lives: files %s\n%s" % (
    pid, prop['title'], prop['statement'], prop['quantifier']['text'], prop['why_tests_cant'], ", ".join(a['files']),
    "\n".join(" - %s: %s" % (m['name'], m['where']) for m in a['mechanism']))
import os
t = open('/verif/tools/' + os.environ.get('TMPL', 'seedprompt.tmpl')).read()
t = t.replace('@WT@', wt).replace('@OUT@', out).replace('@ID@', pid).replace('@PROPERTY@', text)
open('/tmp/seed/%s-%s-prompt.txt' % (pid, out.split('-')[-2]), 'w').write(t)
E
	echo "$P: $WT $OUT /tmp/seed/$P-$R-prompt.txt"
done
