import json,os,sys
first={}
for l in open('/tmp/b3_first.txt'):
    a,b=l.split(); first[a]=b.split(',')
final={}
for l in open(sys.argv[1]):
    parts=l.split()
    if len(parts)>=2 and parts[1]=='ALARMS:':
        final[parts[0]]=parts[2:]
for d in sorted(os.listdir('/verif/benign')):
    p='/verif/benign/%s/meta.json'%d
    m=json.load(open(p))
    if d not in final:
        print('no result for',d); continue
    if 'alarms_first' not in m:
        m['alarms_first']=first.get(d,[])
    m['alarms_final']=final[d]
    json.dump(m,open(p,'w'),indent=1)
print('ok',sum(1 for v in final.values() if v),'alarm of',len(final))
