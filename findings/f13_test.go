// F13: a long-lived text.Encoder eventually fails with "read traversal limit
// reached" because cached schema nodes share one message's read budget.
//
// Defect (/repo/internal/nodemap/nodemap.go, Map.Find):
//
//	msg, err := capnp.Unmarshal(data)       // default TraverseLimit: 64 MiB
//	req, err := schema.ReadRootCodeGeneratorRequest(msg)
//	nodes, _ := req.Nodes()
//	for i := 0; i < nodes.Len(); i++ { n := nodes.At(i); m.nodes[n.Id()] = n }
//
// The schema.Node values cached in m.nodes are views into `msg`.  Every
// pointer dereferenced through them later (node.StructNode().Fields(),
// field.Name(), field.Slot().Type(), ...) is charged against that single
// message's traversal limit, which is a security limit meant for ONE
// traversal of untrusted input and is never reset.  encoding/text.Encoder
// keeps a nodemap.Map for its whole lifetime, so after enough Encode calls
// the budget is used up and every further Encode fails.
//
// Failing history: one text.NewEncoder(ioutil.Discard); encode the same
// 3-field, data-only struct aircraftlib.Zdate{year: 2004, month: 12, day: 7}
// repeatedly.  The encoded struct's own message has its read limit reset on
// each iteration, so it is not the one running out.
//
// Correct behaviour: encoding never fails.  Actual: after a few hundred
// thousand iterations Encode returns "... read traversal limit reached".
package zdemo

import (
	"io/ioutil"
	"testing"
	"time"

	"capnproto.org/go/capnp/v3"
	"capnproto.org/go/capnp/v3/encoding/text"
	air "capnproto.org/go/capnp/v3/internal/aircraftlib"
)

func TestF13_TextEncoderExhaustsSchemaTraversalLimit(t *testing.T) {
	msg, seg, err := capnp.NewMessage(capnp.SingleSegment(nil))
	if err != nil {
		t.Fatal(err)
	}
	d, err := air.NewRootZdate(seg)
	if err != nil {
		t.Fatal(err)
	}
	d.SetYear(2004)
	d.SetMonth(12)
	d.SetDay(7)

	if s, err := text.Marshal(air.Zdate_TypeID, d.Struct); err != nil {
		t.Fatalf("text.Marshal: %v", err)
	} else {
		t.Logf("encoding: %s", s)
	}

	enc := text.NewEncoder(ioutil.Discard)
	const maxIter = 2000000
	deadline := time.Now().Add(25 * time.Second)
	for i := 1; i <= maxIter; i++ {
		msg.ResetReadLimit(1 << 40) // the encoded message is never the one that runs out
		if err := enc.Encode(air.Zdate_TypeID, d.Struct); err != nil {
			t.Fatalf("DEFECT F13: Encode #%d of the same 3-field struct on one text.Encoder failed: %v", i, err)
		}
		if i%4096 == 0 && time.Now().After(deadline) {
			t.Logf("stopping after %d iterations (time budget)", i)
			return
		}
	}
}
