// F16: handleCall leaks the Conn's sender lock when a Call targets a
// promisedAnswer whose answer has not returned yet.
//
// Defect (/repo/rpc/rpc.go, Conn.handleCall, case
// rpccp.MessageTarget_Which_promisedAnswer, branch "Results not ready, use
// pipeline caller"):
//
//	tgtAns.pcalls.Add(1)
//	callCtx, ans.cancel = context.WithCancel(c.bgctx)
//	tgt := tgtAns.pcall
//	c.tasks.Add(1)
//	c.mu.Unlock()                 // <-- every sibling branch does c.unlockSender() first
//	pcall := tgt.PipelineRecv(...)
//
// handleCall acquired the sender lock via c.tryLockSender(ctx) at its top.
// All other branches release it before unlocking c.mu; this one never does.
// From then on the Conn can never send a message again: answer.Return for
// either call blocks in c.lockSender() forever, and even conn.Close() hangs
// (shutdown waits for those tasks).
//
// Failing history (peer -> conn unless noted):
//
//	Bootstrap(q=0)                                  conn -> Return(0, cap = export E)
//	Call(q=1, target importedCap E, method M)       M calls Ack() and blocks
//	Call(q=2, target promisedAnswer{q=1, [getPointerField 0]}, method M)
//	   ... the conn has fully handled the three messages ...
//	M is unblocked and returns successfully
//
// Correct behaviour: the peer receives Return(1) (results) and Return(2)
// (exception, since result pointer 0 is null).  Actual: no message at all.
package zdemo

import (
	"context"
	"testing"

	"capnproto.org/go/capnp/v3"
	"capnproto.org/go/capnp/v3/rpc"
	"capnproto.org/go/capnp/v3/server"
	rpccp "capnproto.org/go/capnp/v3/std/capnp/rpc"
)

func TestF16_PipelinedCallOnPendingAnswerLeaksSenderLock(t *testing.T) {
	started := make(chan struct{}, 8)
	unblock := make(chan struct{})
	srv := newTestServer(func(ctx context.Context, call *server.Call) error {
		call.Ack() // let the receive goroutine go on; makes the call pipelinable
		started <- struct{}{}
		select {
		case <-unblock:
		case <-ctx.Done():
			return ctx.Err()
		}
		_, err := call.AllocResults(capnp.ObjectSize{PointerCount: 1})
		return err
	})
	p1, p2 := newFakePipe()
	conn := rpc.NewConn(p1, &rpc.Options{BootstrapClient: srv, ErrorReporter: errorLog{t}})
	defer closeConnBestEffort(t, conn)

	// 1. Bootstrap.
	if err := peerSendMsg(p2, &rpcMessage{Which: rpccp.Message_Which_bootstrap, Bootstrap: &rpcBootstrap{QuestionID: 0}}); err != nil {
		t.Fatal(err)
	}
	m, err := peerRecv(p2, hangTimeout)
	if err != nil || m.Which != rpccp.Message_Which_return || m.Return.Which != rpccp.Return_Which_results ||
		len(m.Return.Results.CapTable) != 1 || m.Return.Results.CapTable[0].Which != rpccp.CapDescriptor_Which_senderHosted {
		t.Fatalf("peer: expected bootstrap Return with one senderHosted cap, got %+v, %v", m, err)
	}
	exportID := m.Return.Results.CapTable[0].SenderHosted

	// 2. Call #1 on the bootstrap capability; blocks inside the method.
	err = peerSend(p2, func(seg *capnp.Segment) (*rpcMessage, error) {
		params, err := capnp.NewStruct(seg, capnp.ObjectSize{})
		if err != nil {
			return nil, err
		}
		return &rpcMessage{Which: rpccp.Message_Which_call, Call: &rpcCall{
			QuestionID:  1,
			Target:      rpcMessageTarget{Which: rpccp.MessageTarget_Which_importedCap, ImportedCap: exportID},
			InterfaceID: testInterfaceID,
			MethodID:    testMethodID,
			Params:      rpcPayload{Content: params.ToPtr()},
		}}, nil
	})
	if err != nil {
		t.Fatal(err)
	}
	select {
	case <-started:
	case <-timeAfter():
		t.Fatal("method for call #1 did not start")
	}

	// 3. Call #2 pipelined on the (pending) answer to call #1.
	err = peerSend(p2, func(seg *capnp.Segment) (*rpcMessage, error) {
		params, err := capnp.NewStruct(seg, capnp.ObjectSize{})
		if err != nil {
			return nil, err
		}
		return &rpcMessage{Which: rpccp.Message_Which_call, Call: &rpcCall{
			QuestionID: 2,
			Target: rpcMessageTarget{
				Which: rpccp.MessageTarget_Which_promisedAnswer,
				PromisedAnswer: &rpcPromisedAnswer{
					QuestionID: 1,
					Transform:  []rpcPromisedAnswerOp{{Which: rpccp.PromisedAnswer_Op_Which_getPointerField, GetPointerField: 0}},
				},
			},
			InterfaceID: testInterfaceID,
			MethodID:    testMethodID,
			Params:      rpcPayload{Content: params.ToPtr()},
		}}, nil
	})
	if err != nil {
		t.Fatal(err)
	}
	// Wait until the conn's receive goroutine has completely handled
	// Bootstrap, Call #1 and Call #2 (it asks for a 4th message).
	if !p1.WaitRecvCalls(4, hangTimeout) {
		t.Fatal("conn did not finish handling call #2 within 2s")
	}

	// 4. Let the method return; both answers should now be returned.
	close(unblock)
	got := map[uint32]rpccp.Return_Which{}
	for len(got) < 2 {
		m, err := peerRecv(p2, hangTimeout)
		if err != nil {
			t.Fatalf("DEFECT F16: after the method returned, the peer received Returns for answers %v only; "+
				"waiting for the next one: %v.  handleCall leaked the sender lock in the "+
				"\"results not ready, use pipeline caller\" branch, so the Conn cannot send any more", got, err)
		}
		if m.Which != rpccp.Message_Which_return {
			t.Fatalf("peer: unexpected %v message", m.Which)
		}
		got[m.Return.AnswerID] = m.Return.Which
	}
	if got[1] != rpccp.Return_Which_results {
		t.Errorf("Return for call #1 is %v; want results", got[1])
	}
	if _, ok := got[2]; !ok {
		t.Errorf("no Return for call #2")
	}
}
