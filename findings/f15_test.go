// F15: capnp.Equal treats all bit lists of the same length as equal.
//
// Defect (/repo/pointer.go, Equal, `case listPtrType:`):
//
//	if l1.size.PointerCount == 0 && l2.size.PointerCount == 0 && l1.size.DataSize == l2.size.DataSize {
//		sz, _ := l1.size.totalSize().times(l1.length)
//		return bytes.Equal(l1.seg.slice(l1.off, sz), l2.seg.slice(l2.off, sz)), nil
//	}
//
// A bit list has size == ObjectSize{} (element size 0 bytes), so sz == 0,
// two empty slices are compared and the result is always true.  The bit-list
// flag is never consulted, so a bit list also equals a void list of the same
// length.
//
// Failing input: two 8-element List(Bool): [true,false,...] and
// [false,true,...].  capnp.Equal reports true.
//
// Correct behaviour: false (and false for bit list vs. void list).
package zdemo

import (
	"testing"

	"capnproto.org/go/capnp/v3"
)

func TestF15_EqualIgnoresBitListContents(t *testing.T) {
	_, seg, err := capnp.NewMessage(capnp.SingleSegment(nil))
	if err != nil {
		t.Fatal(err)
	}
	l1, err := capnp.NewBitList(seg, 8)
	if err != nil {
		t.Fatal(err)
	}
	l2, err := capnp.NewBitList(seg, 8)
	if err != nil {
		t.Fatal(err)
	}
	l1.Set(0, true)
	l2.Set(1, true)
	if l1.At(0) == l2.At(0) {
		t.Fatal("test setup: lists do not differ")
	}
	eq, err := capnp.Equal(l1.ToPtr(), l2.ToPtr())
	if err != nil {
		t.Fatalf("Equal: %v", err)
	}
	if eq {
		t.Errorf("DEFECT F15: capnp.Equal(%v, %v) = true; want false", l1, l2)
	}

	void := capnp.NewVoidList(seg, 8)
	eq, err = capnp.Equal(l1.ToPtr(), void.ToPtr())
	if err != nil {
		t.Fatalf("Equal: %v", err)
	}
	if eq {
		t.Errorf("DEFECT F15: capnp.Equal(bit list %v, 8-element void list) = true; want false", l1)
	}
}
