// F8b: importClient.Send leaks the Conn's sender lock when
// Transport.NewMessage fails.
//
// Defect (/repo/rpc/import.go, importClient.Send): same shape as F8a:
//
//	if err := ic.c.tryLockSender(ctx); err != nil { ... }  // sender lock acquired
//	q := ic.c.newQuestion(s.Method)
//	ic.c.mu.Unlock()
//	msg, send, release, err := ic.c.transport.NewMessage(ctx)
//	if err != nil {
//		ic.c.mu.Lock()
//		ic.c.questions[q.id] = nil
//		ic.c.questionID.remove(uint32(q.id))
//		ic.c.mu.Unlock()
//		return capnp.ErrorAnswer(...), func() {}         // <-- no ic.c.unlockSender()
//	}
//
// Failing history:
//
//	bc := conn.Bootstrap(ctx)
//	peer: Return(bootstrap question, results = capability senderHosted(84))
//	conn: sends Finish; bc resolves to an importClient for import 84
//	bc.SendCall(...)     // NewMessage fails (injected, once) -> error answer, sender lock leaked
//	bc.SendCall(...)     // blocks in tryLockSender although the transport is healthy
//
// Correct behaviour: the second SendCall sends its Call message and returns.
package zdemo

import (
	"context"
	"testing"

	"capnproto.org/go/capnp/v3"
	"capnproto.org/go/capnp/v3/rpc"
	rpccp "capnproto.org/go/capnp/v3/std/capnp/rpc"
)

func TestF08b_ImportClientSendLeaksSenderLock(t *testing.T) {
	p1, p2 := newFakePipe()
	conn := rpc.NewConn(p1, &rpc.Options{ErrorReporter: errorLog{t}})
	defer closeConnBestEffort(t, conn)

	ctx, cancel := context.WithCancel(context.Background()) // no deadline
	defer cancel()

	bc := conn.Bootstrap(ctx)
	m, err := peerRecv(p2, hangTimeout)
	if err != nil || m.Which != rpccp.Message_Which_bootstrap {
		t.Fatalf("peer: expected Bootstrap message, got %+v, %v", m, err)
	}
	qid := m.Bootstrap.QuestionID
	err = peerSend(p2, func(seg *capnp.Segment) (*rpcMessage, error) {
		return &rpcMessage{
			Which: rpccp.Message_Which_return,
			Return: &rpcReturn{
				AnswerID: qid,
				Which:    rpccp.Return_Which_results,
				Results: &rpcPayload{
					Content:  capnp.NewInterface(seg, 0).ToPtr(),
					CapTable: []rpcCapDescriptor{{Which: rpccp.CapDescriptor_Which_senderHosted, SenderHosted: 84}},
				},
			},
		}, nil
	})
	if err != nil {
		t.Fatal(err)
	}
	rctx, rcancel := context.WithTimeout(ctx, hangTimeout)
	err = bc.Resolve(rctx)
	rcancel()
	if err != nil {
		t.Fatalf("bootstrap client did not resolve: %v", err)
	}
	if m, err := peerRecv(p2, hangTimeout); err != nil || m.Which != rpccp.Message_Which_finish {
		t.Fatalf("peer: expected Finish message, got %+v, %v", m, err)
	}
	// The Conn has now completely handled the Return (it is waiting for the
	// next message), so no NewMessage call other than those made by the
	// calls below can happen.
	if !p1.WaitRecvCalls(2, hangTimeout) {
		t.Fatal("conn did not finish handling the Return")
	}

	method := capnp.Method{InterfaceID: testInterfaceID, MethodID: testMethodID}

	// Call #1: the transport fails to allocate the message.
	p1.FailNextNewMessage()
	var ans1 *capnp.Answer
	returned, p := runWithTimeout(hangTimeout, func() {
		var rel capnp.ReleaseFunc
		ans1, rel = bc.SendCall(ctx, capnp.Send{Method: method})
		rel()
	})
	if !returned || p != nil {
		t.Fatalf("call #1: returned=%v panic=%v", returned, p)
	}
	if _, err := ans1.Struct(); err == nil {
		t.Fatal("call #1 succeeded although NewMessage failed")
	} else {
		t.Logf("call #1 failed as expected: %v", err)
	}

	// Call #2: transport is healthy again.
	before := p1.NewMessageCalls()
	returned, p = runWithTimeout(hangTimeout, func() {
		bc.SendCall(ctx, capnp.Send{Method: method})
	})
	if p != nil {
		t.Fatalf("call #2 panicked: %v", p)
	}
	if !returned {
		t.Errorf("DEFECT F8b: second SendCall on a healthy transport did not return within 2s "+
			"(NewMessage calls made by it: %d): importClient.Send leaked the sender lock when NewMessage failed",
			p1.NewMessageCalls()-before)
	} else if m, err := peerRecv(p2, hangTimeout); err != nil || m.Which != rpccp.Message_Which_call {
		t.Errorf("peer: expected Call message for call #2, got %+v, %v", m, err)
	} else if m.Call.Target.Which != rpccp.MessageTarget_Which_importedCap || m.Call.Target.ImportedCap != 84 {
		t.Errorf("peer: call #2 target = %+v; want importedCap 84", m.Call.Target)
	}
	cancel()
}
