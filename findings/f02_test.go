// F2: capnp.Canonicalize corrupts composite (struct) lists whose elements
// have no pointers.
//
// Defect (/repo/canonical.go, canonicalList):
//
//	if l.size.PointerCount == 0 {
//		// Data only, just copy over.
//		sz := l.allocSize()                  // includes +8 for the tag word of a composite list
//		_, newAddr, err := alloc(dst, sz)
//		cl := List{seg: dst, off: newAddr, ..., flags: l.flags}
//		end, _ := l.off.addSize(sz)
//		copy(dst.data[newAddr:], l.seg.data[l.off:end])
//
// The "data only" fast path is meant for primitive lists, but it is also
// taken for composite lists with PointerCount == 0.  For those, l.off points
// PAST the tag word, and a List's off must point past the tag word as well,
// but here cl.off is the start of the allocation.  Consequently: no tag
// word is written, the element data is copied to where the tag word should
// be, the copy reads 8 bytes beyond the end of the source list, and the list
// pointer written by the caller refers to off-8 (the word before the
// allocation) as the tag word.
//
// Failing input: root struct {0 data, 1 pointer}; pointer 0 = composite list
// of 2 elements of size {DataSize: 8, PointerCount: 0} with values
// 0x1111111111111111 and 0x2222222222222222.
//
// Correct behaviour: the canonical form decodes to a struct that is
// capnp.Equal to the original: a 2-element struct list with the same
// values.  Actual: an error or a mangled list.
package zdemo

import (
	"testing"

	"capnproto.org/go/capnp/v3"
)

func TestF02_CanonicalizeDataOnlyCompositeList(t *testing.T) {
	_, seg, err := capnp.NewMessage(capnp.SingleSegment(nil))
	if err != nil {
		t.Fatal(err)
	}
	root, err := capnp.NewRootStruct(seg, capnp.ObjectSize{PointerCount: 1})
	if err != nil {
		t.Fatal(err)
	}
	l, err := capnp.NewCompositeList(seg, capnp.ObjectSize{DataSize: 8}, 2)
	if err != nil {
		t.Fatal(err)
	}
	want := []uint64{0x1111111111111111, 0x2222222222222222}
	for i, v := range want {
		l.Struct(i).SetUint64(0, v)
	}
	if err := root.SetPtr(0, l.ToPtr()); err != nil {
		t.Fatal(err)
	}

	type result struct {
		b   []byte
		err error
		p   interface{}
	}
	var res result
	func() {
		defer func() { res.p = recover() }()
		res.b, res.err = capnp.Canonicalize(root)
	}()
	if res.p != nil {
		t.Fatalf("DEFECT F2: Canonicalize panicked: %v", res.p)
	}
	if res.err != nil {
		t.Fatalf("DEFECT F2: Canonicalize returned error: %v", res.err)
	}
	t.Logf("canonical bytes (%d): % x", len(res.b), res.b)

	// Expected canonical encoding, by hand:
	//   word 0: root struct pointer  (offset 0, 0 data words, 1 pointer)
	//   word 1: list pointer         (offset 0, composite, 2 words)
	//   word 2: tag                  (2 elements, 1 data word, 0 pointers)
	//   word 3: 0x1111...
	//   word 4: 0x2222...
	if len(res.b) != 5*8 {
		t.Errorf("DEFECT F2: canonical form is %d bytes; want 40", len(res.b))
	}

	msg := &capnp.Message{Arena: capnp.SingleSegment(res.b)}
	var back capnp.Struct
	var got []uint64
	var rerr error
	func() {
		defer func() {
			if p := recover(); p != nil {
				t.Fatalf("DEFECT F2: reading canonical form panicked: %v", p)
			}
		}()
		rp, err := msg.Root()
		if err != nil {
			rerr = err
			return
		}
		back = rp.Struct()
		p, err := back.Ptr(0)
		if err != nil {
			rerr = err
			return
		}
		bl := p.List()
		for i := 0; i < bl.Len(); i++ {
			got = append(got, bl.Struct(i).Uint64(0))
		}
	}()
	if rerr != nil {
		t.Fatalf("DEFECT F2: canonical form of a data-only struct list cannot be read back: %v", rerr)
	}
	if len(got) != len(want) || got[0] != want[0] || got[1] != want[1] {
		t.Errorf("DEFECT F2: list read back from canonical form = %#x; want %#x", got, want)
	}
	eq, err := capnp.Equal(root.ToPtr(), back.ToPtr())
	if err != nil {
		t.Errorf("DEFECT F2: capnp.Equal(original, canonical): %v", err)
	} else if !eq {
		t.Errorf("DEFECT F2: capnp.Equal(original, decoded canonical form) = false")
	}
}
