// F11: packed.Unpack silently zero-fills a truncated literal ("unpacked") run.
//
// Defect (/repo/internal/packed/packed.go, Unpack, `case unpackedTag:`):
//
//	dst = allocWords(dst, int(src[0]))  // reserve n zeroed words
//	src = src[1:]
//	n := copy(dst[start:], src)         // copies min(8*n, len(src)) bytes
//	src = src[n:]
//
// There is no check that len(src) >= 8*n, so when the input ends in the
// middle of the literal run the missing bytes are left as zeroes and no
// error is reported.
//
// Failing input (hex):  ff 01 02 03 04 05 06 07 08 02 09 09 09
//
//	ff                       tag: all 8 bytes of the word follow
//	01 .. 08                 the word
//	02                       2 more words (16 bytes) follow verbatim
//	09 09 09                 ... but only 3 bytes are present
//
// Correct behaviour: an error such as io.ErrUnexpectedEOF, which is what the
// streaming decoder packed.NewReader returns for the very same input.
package zdemo

import (
	"bufio"
	"bytes"
	"io/ioutil"
	"testing"

	"capnproto.org/go/capnp/v3/internal/packed"
)

func TestF11_UnpackTruncatedLiteralRun(t *testing.T) {
	input := []byte{0xff, 1, 2, 3, 4, 5, 6, 7, 8, 0x02, 9, 9, 9}

	// Reference: the streaming decoder rejects the input.
	_, rerr := ioutil.ReadAll(packed.NewReader(bufio.NewReader(bytes.NewReader(input))))
	if rerr == nil {
		t.Log("note: packed.Reader also accepted the truncated input")
	} else {
		t.Logf("packed.Reader on the same input: error %q", rerr)
	}

	out, err := packed.Unpack(nil, input)
	if err == nil {
		t.Fatalf("DEFECT F11: packed.Unpack accepted a truncated literal run (13 of 26 input bytes present) "+
			"and returned %d bytes with no error: % x (packed.Reader error for same input: %v)",
			len(out), out, rerr)
	}
}
