// F14: reading a struct list as a pointer list returns the wrong word.
//
// Background: the Cap'n Proto encoding spec allows a List(T) of pointers
// (e.g. List(Text)) to be "upgraded" to a List(struct) whose first pointer
// field is the old element.  A reader expecting a pointer list that is
// handed a composite list must read the FIRST POINTER of each element,
// i.e. the word at elementStart + DataSize.
//
// Defect (/repo/list.go, List.primitiveElem):
//
//	addr, ok := p.off.element(int32(i), p.size.totalSize())
//	...
//	return addr, nil      // start of the element == start of its DATA section
//
// primitiveElem explicitly accepts composite lists whose PointerCount >=
// expected PointerCount, but for expectedSize{PointerCount: 1} it returns
// the address of the element's first data word instead of its first
// pointer.  PointerList.At, TextList.At, DataList.At all use it.
//
// Failing input: composite list, 1 element of size {DataSize: 8,
// PointerCount: 1}; data word = 0 (so the bug shows up as a null pointer
// rather than an error), pointer 0 = Text "hello".  A second sub-case uses a
// non-zero data word, which is then misinterpreted as a pointer.
//
// Correct behaviour: TextList{l}.At(0) == "hello" and PointerList{l}.At(0)
// is the text pointer.  Actual: "" / null pointer (data word 0) or an
// error / garbage (data word non-zero).
package zdemo

import (
	"testing"

	"capnproto.org/go/capnp/v3"
)

func TestF14_PointerListViewOfCompositeList(t *testing.T) {
	for _, dataWord := range []uint64{0, 0x0000000100000000} {
		_, seg, err := capnp.NewMessage(capnp.SingleSegment(nil))
		if err != nil {
			t.Fatal(err)
		}
		l, err := capnp.NewCompositeList(seg, capnp.ObjectSize{DataSize: 8, PointerCount: 1}, 1)
		if err != nil {
			t.Fatal(err)
		}
		e := l.Struct(0)
		e.SetUint64(0, dataWord)
		if err := e.SetText(0, "hello"); err != nil {
			t.Fatal(err)
		}
		// Sanity: the struct view works.
		if ep, err := e.Ptr(0); err != nil || ep.Text() != "hello" {
			t.Fatalf("setup: element text = %q, %v", ep.Text(), err)
		}

		func() {
			defer func() {
				if p := recover(); p != nil {
					t.Errorf("DEFECT F14 (data word %#x): panic: %v", dataWord, p)
				}
			}()
			got, err := capnp.TextList{List: l}.At(0)
			if err != nil {
				t.Errorf("DEFECT F14 (data word %#x): TextList{compositeList}.At(0) error: %v; want \"hello\"", dataWord, err)
			} else if got != "hello" {
				t.Errorf("DEFECT F14 (data word %#x): TextList{compositeList}.At(0) = %q; want \"hello\"", dataWord, got)
			}
			p, err := capnp.PointerList{List: l}.At(0)
			if err != nil {
				t.Errorf("DEFECT F14 (data word %#x): PointerList{compositeList}.At(0) error: %v", dataWord, err)
			} else if p.Text() != "hello" {
				t.Errorf("DEFECT F14 (data word %#x): PointerList{compositeList}.At(0) = %v (valid=%v); want text \"hello\"", dataWord, p, p.IsValid())
			}
		}()
	}
}
