// F19: recvPayload releases imported clients while holding Conn.mu, which
// self-deadlocks the receive goroutine.
//
// Defect (/repo/rpc/rpc.go, Conn.recvPayload — documented "The caller must
// be holding onto c.mu"):
//
//	mtab[i], local, err = c.recvCap(ptab.At(i))
//	if err != nil {
//		releaseList(mtab[:i]).release()     // <-- runs ClientHook.Shutdown under c.mu
//		return capnp.Ptr{}, nil, annotate(err).errorf(...)
//	}
//
// If an earlier descriptor in the same cap table was senderHosted, recvCap
// created a fresh import client via addImport.  Releasing its only reference
// calls importClient.Shutdown, whose first statement is ic.c.mu.Lock() —
// on the goroutine that already holds c.mu.  The receive goroutine is stuck
// forever with c.mu held, so every other operation on the Conn (including
// Close) hangs too.  A remote peer can trigger this with one message.
//
// Failing history:
//
//	conn.Bootstrap(ctx)                         conn -> Bootstrap(q)
//	peer -> Return(q, results, capTable = [senderHosted(7), receiverHosted(99)])
//	         (export 99 does not exist, so descriptor 1 is a protocol error)
//	conn.Close()                                hangs
//
// Correct behaviour: the bad Return is reported/rejected (the bootstrap
// client resolves to an error) and the Conn stays usable; Close returns.
package zdemo

import (
	"context"
	"testing"

	"capnproto.org/go/capnp/v3"
	"capnproto.org/go/capnp/v3/rpc"
	rpccp "capnproto.org/go/capnp/v3/std/capnp/rpc"
)

func TestF19_RecvPayloadErrorPathDeadlocksConn(t *testing.T) {
	p1, p2 := newFakePipe()
	conn := rpc.NewConn(p1, &rpc.Options{ErrorReporter: errorLog{t}})

	ctx, cancel := context.WithCancel(context.Background())
	defer cancel()
	bc := conn.Bootstrap(ctx)
	_ = bc
	m, err := peerRecv(p2, hangTimeout)
	if err != nil || m.Which != rpccp.Message_Which_bootstrap {
		t.Fatalf("peer: expected Bootstrap message, got %+v, %v", m, err)
	}
	qid := m.Bootstrap.QuestionID

	err = peerSend(p2, func(seg *capnp.Segment) (*rpcMessage, error) {
		return &rpcMessage{
			Which: rpccp.Message_Which_return,
			Return: &rpcReturn{
				AnswerID: qid,
				Which:    rpccp.Return_Which_results,
				Results: &rpcPayload{
					Content: capnp.NewInterface(seg, 0).ToPtr(),
					CapTable: []rpcCapDescriptor{
						{Which: rpccp.CapDescriptor_Which_senderHosted, SenderHosted: 7},
						{Which: rpccp.CapDescriptor_Which_receiverHosted, ReceiverHosted: 99},
					},
				},
			},
		}, nil
	})
	if err != nil {
		t.Fatal(err)
	}

	// The receive goroutine should finish handling the Return and ask for
	// the next message.
	handled := p1.WaitRecvCalls(2, hangTimeout)
	if !handled {
		t.Errorf("DEFECT F19: the Conn's receive goroutine did not finish handling the Return within 2s")
	}

	var cerr error
	returned, p := runWithTimeout(hangTimeout, func() { cerr = conn.Close() })
	if p != nil {
		t.Fatalf("conn.Close() panicked: %v", p)
	}
	if !returned {
		t.Fatal("DEFECT F19: conn.Close() did not return within 2s after the peer sent a Return whose cap table is " +
			"[senderHosted(7), receiverHosted(99: unknown export)]: recvPayload released the import client while " +
			"holding Conn.mu and importClient.Shutdown re-locked Conn.mu on the same goroutine")
	}
	t.Logf("conn.Close(): %v", cerr)
}
