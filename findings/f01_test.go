// F1: List.Struct underflows the unsigned depth limit, defeating
// Message.DepthLimit.
//
// Defect (/repo/list.go, List.Struct):
//
//	return Struct{ ..., depthLimit: p.depthLimit - 1 }
//
// depthLimit is a uint.  Segment.readPtr hands out a list with
// depthLimit-1, which may legitimately be 0 (the list itself may be looked
// at, but nothing below it may be dereferenced).  List.Struct then
// computes 0 - 1 == 2^64-1 for the element, so every pointer reachable from
// that element gets an effectively unlimited depth budget.
//
// Failing input: a 4-word single segment message forming a pointer cycle
//
//	word 0: root pointer  -> struct S at word 1 {0 data words, 1 pointer}
//	word 1: S.ptr[0]      -> composite list L, tag at word 2
//	word 2: L tag         : 1 element, {0 data words, 1 pointer}
//	word 3: L[0].ptr[0]   -> composite list L again (tag at word 2)
//
// with msg.DepthLimit = 4, walked as  Root -> S.Ptr(0) -> L.Struct(0).Ptr(0)
// -> L.Struct(0).Ptr(0) -> ...
//
// Depth budget actually handed out: root struct 3, L 2, L[0] 1, L (2nd
// visit) 0, L[0] 2^64-1, L 2^64-2, ...
//
// Correct behaviour: "depth limit reached" error after at most 4 pointer
// dereferences.  Actual: 1000+ dereferences succeed.
package zdemo

import (
	"testing"

	"capnproto.org/go/capnp/v3"
)

func TestF01_ListStructDepthLimitUnderflow(t *testing.T) {
	seg := []byte{
		0x00, 0x00, 0x00, 0x00, 0x00, 0x00, 0x01, 0x00, // root -> struct at word 1, 0 data, 1 ptr
		0x01, 0x00, 0x00, 0x00, 0x0f, 0x00, 0x00, 0x00, // list ptr: offset 0, composite, 1 word
		0x04, 0x00, 0x00, 0x00, 0x00, 0x00, 0x01, 0x00, // tag: 1 element, 0 data, 1 ptr
		0xf9, 0xff, 0xff, 0xff, 0x0f, 0x00, 0x00, 0x00, // list ptr: offset -2 (word 2), composite, 1 word
	}
	const depthLimit = 4
	msg := &capnp.Message{
		Arena:         capnp.SingleSegment(seg),
		DepthLimit:    depthLimit,
		TraverseLimit: 1 << 30,
	}
	root, err := msg.Root()
	if err != nil {
		t.Fatalf("Root: %v", err)
	}
	s := root.Struct()
	if !s.IsValid() {
		t.Fatal("root is not a struct")
	}

	const maxLevels = 1000
	derefs := 1 // the root pointer
	for level := 0; level < maxLevels; level++ {
		p, err := s.Ptr(0)
		if err != nil {
			t.Logf("error after %d pointer dereferences: %v", derefs, err)
			if derefs > depthLimit {
				t.Errorf("DEFECT F1: DepthLimit=%d but %d pointers were dereferenced before the error", depthLimit, derefs)
			}
			return
		}
		derefs++
		l := p.List()
		if !l.IsValid() || l.Len() != 1 {
			t.Fatalf("level %d: unexpected list (valid=%v, len=%d)", level, l.IsValid(), l.Len())
		}
		s = l.Struct(0)
		if !s.IsValid() {
			t.Logf("List.Struct returned an invalid struct after %d pointer dereferences", derefs)
			if derefs > depthLimit {
				t.Errorf("DEFECT F1: DepthLimit=%d but %d pointers were dereferenced", depthLimit, derefs)
			}
			return
		}
	}
	t.Fatalf("DEFECT F1: Message.DepthLimit=%d, yet a cyclic struct<->struct-list graph was followed through %d pointer dereferences without any error",
		depthLimit, derefs)
}
