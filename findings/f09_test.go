// F9: importClient.Shutdown dereferences a nil import-table entry.
//
// Defect (/repo/rpc/import.go, importClient.Shutdown):
//
//	ent := ic.c.imports[ic.id]
//	if ic.generation != ent.generation {      // <-- ent may be nil
//
// (the sibling importClient.Send does check `ent == nil || ...`).  The
// `generation` mechanism documented on impent exists precisely because an
// old importClient's Shutdown can run AFTER a newer importClient for the same
// import ID has been created.  If that newer client is also shut down first,
// it deletes the table entry, and the old client's Shutdown then finds no
// entry at all.
//
// capnp.Client.Release delays ClientHook.Shutdown until all in-flight calls
// on the hook have left ClientHook.Send.  importClient.Send calls the
// application's PlaceArgs callback without holding any lock, which gives a
// fully deterministic schedule (no timing assumptions):
//
//	(1) conn.Bootstrap(); peer returns senderHosted(7)  -> import client A (generation 0)
//	(2) goroutine G1: A.SendCall(...), parked inside PlaceArgs      (A.calls == 1)
//	(3) goroutine G2: A.Release()   last reference: refs == 0, but Shutdown must
//	                                wait for G1's call to leave Send (the test
//	                                confirms refs == 0 through a WeakClient)
//	(4) peer: Bootstrap + Call on the conn's own bootstrap capability with
//	    params cap table [senderHosted(7)]
//	        -> addImport(7): weak ref to A is dead -> generation 1, client B
//	        -> method returns, args released -> B.Shutdown: generation matches,
//	           deletes imports[7], sends Release(7)        (peer waits for it)
//	(5) PlaceArgs returns; G1's Send finishes; G2 now runs A's
//	    importClient.Shutdown: imports[7] == nil -> nil pointer dereference
//	    (while holding Conn.mu, so the Conn is wedged as well)
//
// Correct behaviour: A's Shutdown notices that the entry is gone (or belongs
// to another generation) and returns without doing anything.
package zdemo

import (
	"context"
	"runtime/debug"
	"testing"
	"time"

	"capnproto.org/go/capnp/v3"
	"capnproto.org/go/capnp/v3/rpc"
	"capnproto.org/go/capnp/v3/server"
	rpccp "capnproto.org/go/capnp/v3/std/capnp/rpc"
)

func TestF09_ImportClientShutdownNilEntry(t *testing.T) {
	srv := newTestServer(func(ctx context.Context, call *server.Call) error { return nil })
	p1, p2 := newFakePipe()
	conn := rpc.NewConn(p1, &rpc.Options{BootstrapClient: srv, ErrorReporter: errorLog{t}})
	defer closeConnBestEffort(t, conn)
	ctx, cancel := context.WithCancel(context.Background())
	defer cancel()

	// 1. Import client A for import ID 7.
	a := conn.Bootstrap(ctx)
	m, err := peerRecv(p2, hangTimeout)
	if err != nil || m.Which != rpccp.Message_Which_bootstrap {
		t.Fatalf("peer: expected Bootstrap message, got %+v, %v", m, err)
	}
	qid := m.Bootstrap.QuestionID
	err = peerSend(p2, func(seg *capnp.Segment) (*rpcMessage, error) {
		return &rpcMessage{Which: rpccp.Message_Which_return, Return: &rpcReturn{
			AnswerID: qid,
			Which:    rpccp.Return_Which_results,
			Results: &rpcPayload{
				Content:  capnp.NewInterface(seg, 0).ToPtr(),
				CapTable: []rpcCapDescriptor{{Which: rpccp.CapDescriptor_Which_senderHosted, SenderHosted: 7}},
			},
		}}, nil
	})
	if err != nil {
		t.Fatal(err)
	}
	rctx, rcancel := context.WithTimeout(ctx, hangTimeout)
	err = a.Resolve(rctx)
	rcancel()
	if err != nil {
		t.Fatalf("bootstrap client did not resolve: %v", err)
	}
	if m, err := peerRecv(p2, hangTimeout); err != nil || m.Which != rpccp.Message_Which_finish {
		t.Fatalf("peer: expected Finish message, got %+v, %v", m, err)
	}
	if !p1.WaitRecvCalls(2, hangTimeout) {
		t.Fatal("conn did not finish handling the Return")
	}
	weakA := a.WeakRef()

	// 2. G1: a call on A parked inside PlaceArgs.
	inPlace := make(chan struct{})
	leavePlace := make(chan struct{})
	g1done := make(chan struct{})
	go func() {
		defer close(g1done)
		_, rel := a.SendCall(ctx, capnp.Send{
			Method: capnp.Method{InterfaceID: testInterfaceID, MethodID: testMethodID},
			PlaceArgs: func(capnp.Struct) error {
				close(inPlace)
				<-leavePlace
				return nil
			},
		})
		go rel() // waits for the answer; unblocked by cancel() at test end
	}()
	select {
	case <-inPlace:
	case <-timeAfter():
		t.Fatal("G1 did not reach PlaceArgs")
	}

	// 3. Release the last reference to A.  Whichever goroutine drops the
	// reference count to zero ("G2") blocks inside Client.Release until G1's
	// call has left Send, and then runs importClient.Shutdown.  The weak
	// reference is used to learn when the count has really reached zero;
	// probing it takes (and gives back) a temporary reference, so any of the
	// releasing goroutines may end up being G2.  All of them recover panics.
	type relResult struct {
		p     interface{}
		stack string
	}
	relDone := make(chan relResult, 4096)
	started := 0
	releaseAsync := func(c *capnp.Client) {
		started++
		go func() {
			var r relResult
			defer func() {
				if r.p = recover(); r.p != nil {
					r.stack = stackFrames(string(debug.Stack()), "importClient", "Client).Release")
				}
				relDone <- r
			}()
			c.Release()
		}()
	}
	releaseAsync(a)
	deadline := time.Now().Add(hangTimeout)
	for {
		extra, ok := weakA.AddRef()
		if !ok {
			break // reference count is zero and stays zero
		}
		releaseAsync(extra)
		if time.Now().After(deadline) {
			t.Fatal("import client A still has references 2s after Release")
		}
		time.Sleep(time.Millisecond)
	}
	// All releasers but G2 return promptly; G2 must still be blocked.
	finished := 0
	collect := func(d time.Duration) (panicked *relResult) {
		timeout := time.After(d)
		for finished < started {
			select {
			case r := <-relDone:
				finished++
				if r.p != nil {
					return &r
				}
			case <-timeout:
				return nil
			}
		}
		return nil
	}
	if r := collect(50 * time.Millisecond); r != nil {
		t.Fatalf("premise broken: a Release panicked while G1's call is still inside Send: %v\n%s", r.p, r.stack)
	}
	if finished == started {
		t.Fatal("premise broken: all Release calls returned while a call is still inside Send")
	}

	// 4. The peer hands import 7 to the conn again; client B (generation 1)
	// is created, delivered to the local bootstrap server and released.
	if err := peerSendMsg(p2, &rpcMessage{Which: rpccp.Message_Which_bootstrap, Bootstrap: &rpcBootstrap{QuestionID: 100}}); err != nil {
		t.Fatal(err)
	}
	m, err = peerRecv(p2, hangTimeout)
	if err != nil || m.Which != rpccp.Message_Which_return || m.Return.Which != rpccp.Return_Which_results ||
		len(m.Return.Results.CapTable) != 1 || m.Return.Results.CapTable[0].Which != rpccp.CapDescriptor_Which_senderHosted {
		t.Fatalf("peer: expected bootstrap Return with one senderHosted cap, got %+v, %v", m, err)
	}
	exportID := m.Return.Results.CapTable[0].SenderHosted
	err = peerSend(p2, func(seg *capnp.Segment) (*rpcMessage, error) {
		params, err := capnp.NewStruct(seg, capnp.ObjectSize{PointerCount: 1})
		if err != nil {
			return nil, err
		}
		if err := params.SetPtr(0, capnp.NewInterface(seg, 0).ToPtr()); err != nil {
			return nil, err
		}
		return &rpcMessage{Which: rpccp.Message_Which_call, Call: &rpcCall{
			QuestionID:  101,
			Target:      rpcMessageTarget{Which: rpccp.MessageTarget_Which_importedCap, ImportedCap: exportID},
			InterfaceID: testInterfaceID,
			MethodID:    testMethodID,
			Params: rpcPayload{
				Content:  params.ToPtr(),
				CapTable: []rpcCapDescriptor{{Which: rpccp.CapDescriptor_Which_senderHosted, SenderHosted: 7}},
			},
		}}, nil
	})
	if err != nil {
		t.Fatal(err)
	}
	gotRelease, gotReturn := false, false
	for !(gotRelease && gotReturn) {
		m, err := peerRecv(p2, hangTimeout)
		if err != nil {
			t.Fatalf("peer: waiting for Release(7) and Return(101) (release=%v return=%v): %v", gotRelease, gotReturn, err)
		}
		switch {
		case m.Which == rpccp.Message_Which_release && m.Release.ID == 7:
			t.Logf("peer: got Release{id: 7, referenceCount: %d}: client B (generation 1) shut down and removed imports[7]", m.Release.ReferenceCount)
			gotRelease = true
		case m.Which == rpccp.Message_Which_return && m.Return.AnswerID == 101:
			gotReturn = true
		default:
			t.Fatalf("peer: unexpected %v message", m.Which)
		}
	}

	// 5. Let G1's call leave Send; A's Shutdown then runs on G2.
	close(leavePlace)
	select {
	case <-g1done:
	case <-timeAfter():
		t.Fatal("G1's SendCall did not return")
	}
	r := collect(hangTimeout)
	if r != nil {
		t.Fatalf("DEFECT F9: Release of the old-generation import client panicked in importClient.Shutdown: %v\n%s", r.p, r.stack)
	}
	if finished != started {
		t.Fatalf("%d of %d Release calls did not return within 2s", started-finished, started)
	}
	cancel()
}
