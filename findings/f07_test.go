// F7: Conn.shutdown calls a nil releaseMsg on placeholder (error) answers.
//
// Defect (/repo/rpc/rpc.go, Conn.shutdown):
//
//	for _, a := range answers {
//		if a != nil {
//			releaseList(a.resultCapTable).release()
//			a.releaseMsg()            // <-- nil for answers made by errorAnswer()
//		}
//	}
//
// handleBootstrap and handleCall insert `errorAnswer(c, id, err)` into the
// answers table when the Return message cannot be allocated
// (Transport.NewMessage fails).  Such a placeholder has no message and its
// releaseMsg field is nil (handleFinish knows this and checks for nil;
// shutdown does not).  The placeholder stays in the table until the remote
// peer sends Finish, so closing the connection before that panics with a
// nil function call, and the transport is never closed.
//
// Failing history:
//
//	peer -> Bootstrap(q=5)
//	conn: handleBootstrap: Transport.NewMessage fails once (injected)
//	      -> answers[5] = errorAnswer(...)
//	conn.Close()      -> panic: runtime error: invalid memory address or nil
//	                     pointer dereference (call of nil func) in shutdown
//
// Correct behaviour: Close returns normally (and closes the transport).
package zdemo

import (
	"testing"

	"capnproto.org/go/capnp/v3/rpc"
	rpccp "capnproto.org/go/capnp/v3/std/capnp/rpc"
)

func TestF07_ShutdownNilReleaseMsgOnErrorAnswer(t *testing.T) {
	srv := newTestServer(nil)
	p1, p2 := newFakePipe()
	p1.FailNextNewMessage() // the Conn's very first NewMessage is the bootstrap Return
	conn := rpc.NewConn(p1, &rpc.Options{BootstrapClient: srv, ErrorReporter: errorLog{t}})

	if err := peerSendMsg(p2, &rpcMessage{Which: rpccp.Message_Which_bootstrap, Bootstrap: &rpcBootstrap{QuestionID: 5}}); err != nil {
		t.Fatal(err)
	}
	// Wait until the Bootstrap message has been completely handled.
	if !p1.WaitRecvCalls(2, hangTimeout) {
		t.Fatal("conn did not finish handling the Bootstrap within 2s")
	}
	if n := p1.NewMessageCalls(); n != 1 {
		t.Fatalf("conn made %d NewMessage calls; want 1 (the failed bootstrap Return)", n)
	}

	var cerr error
	returned, p := runWithTimeout(hangTimeout, func() { cerr = conn.Close() })
	if p != nil {
		t.Fatalf("DEFECT F7: conn.Close() panicked after an incoming Bootstrap whose Return could not be allocated: %v", p)
	}
	if !returned {
		t.Fatal("conn.Close() did not return within 2s")
	}
	t.Logf("conn.Close(): %v", cerr)
}
