// F17: text marshalling of List(Enum) drops the error from marshalEnum.
//
// Defect (/repo/encoding/text/marshal.go, (*Encoder).marshalList):
//
//	case schema.Type_Which_enum:
//		...
//		for i := 0; i < il.Len(); i++ {
//			...
//			enc.marshalEnum(typ, il.At(i))      // <-- returned error ignored
//		}
//
// whereas the scalar enum case in marshalFieldValue does
// `return enc.marshalEnum(...)`.  marshalEnum fails e.g. when the enum's
// schema node cannot be found in the registry, is not an enum, or cannot be
// read.  For a list the failure is swallowed: Encode returns nil and emits
// a list with empty elements ("[, ]"), i.e. silently wrong output.
//
// Failing input: a private schemas.Registry containing two struct nodes that
// both refer to enum type @0xe1e1e1e1e1e1e1e1, which is NOT registered:
//
//	struct S1 @0xa1a1a1a1a1a1a1a1 { e  @0 :E; }
//	struct S2 @0xa2a2a2a2a2a2a2a2 { es @0 :List(E); }
//
// Encoding an S1 returns a "not found" error (correct).  Encoding an S2
// whose `es` has two elements returns nil and writes "(es = [, ])".
//
// Correct behaviour: the S2 encoding fails with the same error as S1.
package zdemo

import (
	"bytes"
	"testing"

	"capnproto.org/go/capnp/v3"
	"capnproto.org/go/capnp/v3/encoding/text"
	"capnproto.org/go/capnp/v3/internal/schema"
	"capnproto.org/go/capnp/v3/schemas"
)

func TestF17_TextMarshalEnumListDropsError(t *testing.T) {
	const (
		s1ID   = 0xa1a1a1a1a1a1a1a1
		s2ID   = 0xa2a2a2a2a2a2a2a2
		enumID = 0xe1e1e1e1e1e1e1e1 // deliberately absent from the registry
	)

	// Build the CodeGeneratorRequest holding S1 and S2.
	smsg, sseg, err := capnp.NewMessage(capnp.SingleSegment(nil))
	if err != nil {
		t.Fatal(err)
	}
	req, err := schema.NewRootCodeGeneratorRequest(sseg)
	if err != nil {
		t.Fatal(err)
	}
	nodes, err := req.NewNodes(2)
	if err != nil {
		t.Fatal(err)
	}
	mkStruct := func(n schema.Node, id uint64, name, fieldName string, dataWords, ptrs uint16, list bool) {
		n.SetId(id)
		if err := n.SetDisplayName(name); err != nil {
			t.Fatal(err)
		}
		n.SetStructNode()
		n.StructNode().SetDataWordCount(dataWords)
		n.StructNode().SetPointerCount(ptrs)
		fields, err := n.StructNode().NewFields(1)
		if err != nil {
			t.Fatal(err)
		}
		f := fields.At(0)
		if err := f.SetName(fieldName); err != nil {
			t.Fatal(err)
		}
		f.SetCodeOrder(0)
		f.SetSlot()
		f.Slot().SetOffset(0)
		typ, err := f.Slot().NewType()
		if err != nil {
			t.Fatal(err)
		}
		if list {
			typ.SetList()
			typ, err = typ.List().NewElementType()
			if err != nil {
				t.Fatal(err)
			}
		}
		typ.SetEnum()
		typ.Enum().SetTypeId(enumID)
		// Like the capnp compiler, always emit a default value.
		dv, err := f.Slot().NewDefaultValue()
		if err != nil {
			t.Fatal(err)
		}
		if list {
			if err := dv.SetList(capnp.Ptr{}); err != nil {
				t.Fatal(err)
			}
		} else {
			dv.SetEnum(0)
		}
	}
	mkStruct(nodes.At(0), s1ID, "f17.capnp:S1", "e", 1, 0, false)
	mkStruct(nodes.At(1), s2ID, "f17.capnp:S2", "es", 0, 1, true)
	blob, err := smsg.Marshal()
	if err != nil {
		t.Fatal(err)
	}
	reg := new(schemas.Registry)
	if err := reg.Register(&schemas.Schema{Bytes: blob, Nodes: []uint64{s1ID, s2ID}}); err != nil {
		t.Fatal(err)
	}

	// Values to encode.
	_, seg, err := capnp.NewMessage(capnp.SingleSegment(nil))
	if err != nil {
		t.Fatal(err)
	}
	s1, err := capnp.NewStruct(seg, capnp.ObjectSize{DataSize: 8})
	if err != nil {
		t.Fatal(err)
	}
	s1.SetUint16(0, 1)
	s2, err := capnp.NewStruct(seg, capnp.ObjectSize{PointerCount: 1})
	if err != nil {
		t.Fatal(err)
	}
	es, err := capnp.NewUInt16List(seg, 2)
	if err != nil {
		t.Fatal(err)
	}
	es.Set(0, 1)
	es.Set(1, 0)
	if err := s2.SetPtr(0, es.ToPtr()); err != nil {
		t.Fatal(err)
	}

	// Reference: a scalar field of the unknown enum type is an error.
	var buf1 bytes.Buffer
	enc1 := text.NewEncoder(&buf1)
	enc1.UseRegistry(reg)
	err1 := enc1.Encode(s1ID, s1)
	if err1 == nil {
		t.Fatalf("premise broken: encoding S1 (scalar field of unregistered enum type) succeeded: %q", buf1.String())
	}
	t.Logf("S1 {e :E}: Encode error: %v (correct)", err1)

	// The same enum type as list element: error is swallowed.
	var buf2 bytes.Buffer
	enc2 := text.NewEncoder(&buf2)
	enc2.UseRegistry(reg)
	err2 := enc2.Encode(s2ID, s2)
	if err2 == nil {
		t.Fatalf("DEFECT F17: encoding S2 {es :List(E)} with E missing from the registry returned nil and wrote %q; "+
			"want an error like for S1 (%v)", buf2.String(), err1)
	}
	t.Logf("S2 {es :List(E)}: Encode error: %v", err2)
}
