// Shared helpers for the F-tests: a trivial PipelineCaller, an in-memory
// rpc.Transport with fault injection, and plain-old-Go-struct mirrors of the
// RPC messages (adapted from /repo/rpc/level0_test.go) used to script the
// remote peer.
package zdemo

import (
	"context"
	"errors"
	"fmt"
	"strings"
	"sync"
	"testing"
	"time"

	"capnproto.org/go/capnp/v3"
	"capnproto.org/go/capnp/v3/pogs"
	"capnproto.org/go/capnp/v3/rpc"
	"capnproto.org/go/capnp/v3/server"
	rpccp "capnproto.org/go/capnp/v3/std/capnp/rpc"
)

// ---------------------------------------------------------------------
// dummyPipelineCaller

// dummyPipelineCaller is a trivial capnp.PipelineCaller that fails every
// pipelined call.  It is used where a Promise is needed but never called.
type dummyPipelineCaller struct{}

func (dummyPipelineCaller) PipelineSend(ctx context.Context, transform []capnp.PipelineOp, s capnp.Send) (*capnp.Answer, capnp.ReleaseFunc) {
	return capnp.ErrorAnswer(s.Method, errDummy), func() {}
}

func (dummyPipelineCaller) PipelineRecv(ctx context.Context, transform []capnp.PipelineOp, r capnp.Recv) capnp.PipelineCaller {
	r.Reject(errDummy)
	return nil
}

var errDummy = errors.New("dummy pipeline caller")

// ---------------------------------------------------------------------
// fakeTransport: in-memory rpc.Transport with fault injection.

// hangTimeout is how long tests wait before declaring that an operation
// hangs.
const hangTimeout = 2 * time.Second

// fakeTransport is one end of an in-memory message pipe.  Messages are
// serialized to bytes on send and parsed again on receive, so the two ends
// never share capnp.Message memory.  The pipe is buffered (256 messages), so
// send never blocks in these tests.
type fakeTransport struct {
	in     <-chan []byte
	out    chan<- []byte
	closed chan struct{} // closed by Close on this end
	once   sync.Once

	mu          sync.Mutex
	newMsgCalls int           // number of NewMessage calls so far
	failAt      map[int]error // NewMessage call number (1-based) -> error to return
	recvCalls   int           // number of RecvMessage calls so far
	recvChanged chan struct{} // closed and replaced whenever recvCalls changes
}

var _ rpc.Transport = (*fakeTransport)(nil)

func newFakePipe() (a, b *fakeTransport) {
	ab := make(chan []byte, 256)
	ba := make(chan []byte, 256)
	a = &fakeTransport{in: ba, out: ab, closed: make(chan struct{}), failAt: map[int]error{}, recvChanged: make(chan struct{})}
	b = &fakeTransport{in: ab, out: ba, closed: make(chan struct{}), failAt: map[int]error{}, recvChanged: make(chan struct{})}
	return a, b
}

var errInjected = errors.New("fakeTransport: injected NewMessage failure")

// FailNextNewMessage makes the next NewMessage call (and only that one)
// return errInjected.
func (t *fakeTransport) FailNextNewMessage() {
	t.mu.Lock()
	t.failAt[t.newMsgCalls+1] = errInjected
	t.mu.Unlock()
}

// NewMessageCalls returns the number of NewMessage calls made so far.
func (t *fakeTransport) NewMessageCalls() int {
	t.mu.Lock()
	defer t.mu.Unlock()
	return t.newMsgCalls
}

// WaitRecvCalls blocks until RecvMessage has been called at least n times on
// this transport.  Because rpc.Conn has exactly one receive goroutine, which
// handles each message completely before asking for the next one, "the Conn
// has called RecvMessage k+1 times" means "the Conn has completely handled
// the first k messages".
func (t *fakeTransport) WaitRecvCalls(n int, d time.Duration) bool {
	deadline := time.After(d)
	for {
		t.mu.Lock()
		ok := t.recvCalls >= n
		ch := t.recvChanged
		t.mu.Unlock()
		if ok {
			return true
		}
		select {
		case <-ch:
		case <-deadline:
			return false
		}
	}
}

func (t *fakeTransport) NewMessage(ctx context.Context) (rpccp.Message, func() error, capnp.ReleaseFunc, error) {
	t.mu.Lock()
	t.newMsgCalls++
	err := t.failAt[t.newMsgCalls]
	t.mu.Unlock()
	if err != nil {
		return rpccp.Message{}, nil, nil, err
	}
	msg, seg, err := capnp.NewMessage(capnp.MultiSegment(nil))
	if err != nil {
		return rpccp.Message{}, nil, nil, err
	}
	rmsg, err := rpccp.NewRootMessage(seg)
	if err != nil {
		return rpccp.Message{}, nil, nil, err
	}
	send := func() error {
		b, err := msg.Marshal()
		if err != nil {
			return err
		}
		select {
		case <-t.closed:
			return errors.New("fakeTransport: send on closed transport")
		default:
		}
		select {
		case t.out <- b:
			return nil
		case <-t.closed:
			return errors.New("fakeTransport: send on closed transport")
		case <-ctx.Done():
			return ctx.Err()
		}
	}
	return rmsg, send, func() {}, nil
}

func (t *fakeTransport) RecvMessage(ctx context.Context) (rpccp.Message, capnp.ReleaseFunc, error) {
	t.mu.Lock()
	t.recvCalls++
	close(t.recvChanged)
	t.recvChanged = make(chan struct{})
	t.mu.Unlock()
	select {
	case b := <-t.in:
		msg, err := capnp.Unmarshal(b)
		if err != nil {
			return rpccp.Message{}, nil, err
		}
		rmsg, err := rpccp.ReadRootMessage(msg)
		if err != nil {
			return rpccp.Message{}, nil, err
		}
		return rmsg, func() {}, nil
	case <-t.closed:
		return rpccp.Message{}, nil, errors.New("fakeTransport: receive on closed transport")
	case <-ctx.Done():
		return rpccp.Message{}, nil, ctx.Err()
	}
}

func (t *fakeTransport) Close() error {
	t.once.Do(func() { close(t.closed) })
	return nil
}

// ---------------------------------------------------------------------
// Running things with a timeout.

// runWithTimeout runs f in a new goroutine.  It reports whether f returned
// within d, and the recovered panic value (nil if f did not panic).  If f
// does not return, the goroutine is leaked (the tests are demonstrating
// deadlocks, there is nothing else to do).
func runWithTimeout(d time.Duration, f func()) (returned bool, panicVal interface{}) {
	done := make(chan interface{}, 1)
	go func() {
		defer func() { done <- recover() }()
		f()
	}()
	select {
	case p := <-done:
		return true, p
	case <-time.After(d):
		return false, nil
	}
}

// closeConnBestEffort closes conn but gives up (with a log message) if Close
// hangs or panics; used for cleanup in tests that wedge the Conn.
func closeConnBestEffort(t *testing.T, conn *rpc.Conn) {
	returned, p := runWithTimeout(hangTimeout, func() { conn.Close() })
	if !returned {
		t.Log("cleanup: conn.Close() did not return within 2s (Conn is wedged); leaking it")
	} else if p != nil {
		t.Logf("cleanup: conn.Close() panicked: %v", p)
	}
}

// ---------------------------------------------------------------------
// Scripting the remote peer (adapted from /repo/rpc/level0_test.go).

const (
	testInterfaceID uint64 = 0xa7317bd7216570aa
	testMethodID    uint16 = 9
)

// newTestServer returns a client for a local server with a single method
// (testInterfaceID, testMethodID) implemented by impl.
func newTestServer(impl func(context.Context, *server.Call) error) *capnp.Client {
	return capnp.NewClient(server.New([]server.Method{{
		Method: capnp.Method{InterfaceID: testInterfaceID, MethodID: testMethodID},
		Impl:   impl,
	}}, nil, nil, nil))
}

type rpcMessage struct {
	Which         rpccp.Message_Which
	Unimplemented *rpcMessage
	Abort         *rpcException
	Bootstrap     *rpcBootstrap
	Call          *rpcCall
	Return        *rpcReturn
	Finish        *rpcFinish
	Resolve       *rpcResolve
	Release       *rpcRelease
	Disembargo    *rpcDisembargo
}

type rpcException struct {
	Reason string
	Type   rpccp.Exception_Type
}

type rpcBootstrap struct {
	QuestionID uint32 `capnp:"questionId"`
}

type rpcCall struct {
	QuestionID              uint32 `capnp:"questionId"`
	Target                  rpcMessageTarget
	InterfaceID             uint64 `capnp:"interfaceId"`
	MethodID                uint16 `capnp:"methodId"`
	AllowThirdPartyTailCall bool
	Params                  rpcPayload
	SendResultsTo           rpcCallSendResultsTo
}

type rpcCallSendResultsTo struct {
	Which rpccp.Call_sendResultsTo_Which
}

type rpcReturn struct {
	AnswerID         uint32 `capnp:"answerId"`
	ReleaseParamCaps bool

	Which                 rpccp.Return_Which
	Results               *rpcPayload
	Exception             *rpcException
	TakeFromOtherQuestion uint32
}

type rpcFinish struct {
	QuestionID        uint32 `capnp:"questionId"`
	ReleaseResultCaps bool
}

type rpcMessageTarget struct {
	Which          rpccp.MessageTarget_Which
	ImportedCap    uint32
	PromisedAnswer *rpcPromisedAnswer
}

type rpcPayload struct {
	Content  capnp.Ptr
	CapTable []rpcCapDescriptor
}

type rpcCapDescriptor struct {
	Which          rpccp.CapDescriptor_Which
	SenderHosted   uint32
	SenderPromise  uint32
	ReceiverHosted uint32
	ReceiverAnswer *rpcPromisedAnswer
}

type rpcPromisedAnswer struct {
	QuestionID uint32 `capnp:"questionId"`
	Transform  []rpcPromisedAnswerOp
}

type rpcPromisedAnswerOp struct {
	Which           rpccp.PromisedAnswer_Op_Which
	GetPointerField uint16
}

type rpcResolve struct {
	PromiseID uint32 `capnp:"promiseId"`
	Which     rpccp.Resolve_Which
	Cap       *rpcCapDescriptor
	Exception *rpcException
}

type rpcRelease struct {
	ID             uint32 `capnp:"id"`
	ReferenceCount uint32
}

type rpcDisembargo struct {
	Target  rpcMessageTarget
	Context rpcDisembargoContext
}

type rpcDisembargoContext struct {
	Which            rpccp.Disembargo_context_Which
	SenderLoopback   uint32
	ReceiverLoopback uint32
	Provide          uint32
}

// peerSend sends msg from the scripted peer.  build, if non-nil, is called
// with the outgoing message's first segment before msg is inserted, so that
// it can allocate objects (e.g. call params) that msg refers to.
func peerSend(tr rpc.Transport, build func(seg *capnp.Segment) (*rpcMessage, error)) error {
	ctx, cancel := context.WithTimeout(context.Background(), hangTimeout)
	defer cancel()
	m, send, release, err := tr.NewMessage(ctx)
	if err != nil {
		return fmt.Errorf("peer send: %v", err)
	}
	defer release()
	msg, err := build(m.Segment())
	if err != nil {
		return fmt.Errorf("peer send: %v", err)
	}
	if err := pogs.Insert(rpccp.Message_TypeID, m.Struct, msg); err != nil {
		return fmt.Errorf("peer send: %v", err)
	}
	if err := send(); err != nil {
		return fmt.Errorf("peer send: %v", err)
	}
	return nil
}

// peerSendMsg sends a message that needs no extra objects.
func peerSendMsg(tr rpc.Transport, msg *rpcMessage) error {
	return peerSend(tr, func(*capnp.Segment) (*rpcMessage, error) { return msg, nil })
}

// peerRecv receives the next message sent by the Conn under test, waiting at
// most d.
func peerRecv(tr rpc.Transport, d time.Duration) (*rpcMessage, error) {
	ctx, cancel := context.WithTimeout(context.Background(), d)
	defer cancel()
	m, _, err := tr.RecvMessage(ctx)
	if err != nil {
		return nil, err
	}
	r := new(rpcMessage)
	if err := pogs.Extract(r, rpccp.Message_TypeID, m.Struct); err != nil {
		return nil, fmt.Errorf("extract RPC message: %v", err)
	}
	return r, nil
}

// errorLog is an rpc.ErrorReporter that logs to the test log.
type errorLog struct{ t *testing.T }

func (l errorLog) ReportError(err error) { l.t.Log("conn reported error:", err) }

// timeAfter returns a channel that fires after hangTimeout.
func timeAfter() <-chan time.Time { return time.After(hangTimeout) }

// stackFrames extracts from a debug.Stack() dump the frames (function line +
// file:line line) whose function line contains one of the given substrings.
func stackFrames(stack string, substrs ...string) string {
	lines := strings.Split(stack, "\n")
	var out []string
	for i := 0; i+1 < len(lines); i++ {
		for _, s := range substrs {
			if strings.Contains(lines[i], s) {
				out = append(out, lines[i], lines[i+1])
				break
			}
		}
	}
	return strings.Join(out, "\n")
}
