// F5: rpc.Conn.Close on an already-closed Conn returns while holding Conn.mu.
//
// Defect (/repo/rpc/rpc.go, Conn.Close):
//
//	c.mu.Lock()
//	if c.closed {
//		return fail("close on closed connection")   // <-- c.mu still locked
//	}
//
// Failing history (no peer interaction required):
//
//	conn.Close()   // ok: nil
//	conn.Close()   // ok: returns "close on closed connection", but leaks c.mu
//	conn.Close()   // hangs forever in c.mu.Lock()  (so does conn.Bootstrap, ...)
//
// Correct behaviour: the third (and every further) Close returns the same
// error as the second one.
package zdemo

import (
	"context"
	"testing"

	"capnproto.org/go/capnp/v3/rpc"
)

func TestF05_ConnCloseTwiceLeaksMutex(t *testing.T) {
	p1, _ := newFakePipe() // buffered; the Abort message just sits in the pipe
	conn := rpc.NewConn(p1, &rpc.Options{ErrorReporter: errorLog{t}})

	var err1, err2, err3 error
	if returned, p := runWithTimeout(hangTimeout, func() { err1 = conn.Close() }); !returned || p != nil {
		t.Fatalf("first Close: returned=%v panic=%v", returned, p)
	}
	if err1 != nil {
		t.Fatalf("first Close: %v", err1)
	}
	if returned, p := runWithTimeout(hangTimeout, func() { err2 = conn.Close() }); !returned || p != nil {
		t.Fatalf("second Close: returned=%v panic=%v", returned, p)
	}
	if err2 == nil {
		t.Error("second Close returned nil; documented to return an error")
	} else {
		t.Logf("second Close: %v (expected)", err2)
	}
	returned, p := runWithTimeout(hangTimeout, func() { err3 = conn.Close() })
	if p != nil {
		t.Fatalf("third Close panicked: %v", p)
	}
	if !returned {
		t.Fatal("DEFECT F5: third conn.Close() did not return within 2s: the second Close returned with Conn.mu still locked")
	}
	t.Logf("third Close: %v", err3)

	// Any other API call is stuck as well; only reached when the defect is fixed.
	returned, _ = runWithTimeout(hangTimeout, func() { conn.Bootstrap(context.Background()).Release() })
	if !returned {
		t.Fatal("DEFECT F5: conn.Bootstrap() after double Close did not return within 2s")
	}
}
