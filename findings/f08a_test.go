// F8a: question.PipelineSend leaks the Conn's sender lock when
// Transport.NewMessage fails.
//
// Defect (/repo/rpc/question.go, question.PipelineSend):
//
//	if err := q.c.tryLockSender(ctx); err != nil { ... }   // sender lock acquired
//	q2 := q.c.newQuestion(s.Method)
//	q.c.mu.Unlock()
//	msg, send, release, err := q.c.transport.NewMessage(ctx)
//	if err != nil {
//		q.c.mu.Lock()
//		q.c.questions[q2.id] = nil
//		q.c.questionID.remove(uint32(q2.id))
//		q.c.mu.Unlock()
//		return capnp.ErrorAnswer(...), func() {}       // <-- no q.c.unlockSender()
//	}
//
// All other error branches of the function release the sender lock; this one
// does not, so Conn.sendCond stays non-nil forever and nothing can be sent on
// the connection any more.
//
// Failing history:
//
//	bc := conn.Bootstrap(ctx)            // NewMessage #1 (Bootstrap message): ok
//	bc.SendCall(ctx, ...)                // pipelined on the bootstrap question;
//	                                     // NewMessage #2 fails (injected, once)
//	                                     // -> error answer (fine), sender lock leaked
//	bc.SendCall(ctx, ...)                // transport healthy again, but the call
//	                                     // blocks in tryLockSender until ctx is done
//
// Correct behaviour: the second SendCall sends its Call message and returns
// a (pending) answer promptly.
package zdemo

import (
	"context"
	"testing"

	"capnproto.org/go/capnp/v3"
	"capnproto.org/go/capnp/v3/rpc"
	rpccp "capnproto.org/go/capnp/v3/std/capnp/rpc"
)

func TestF08a_PipelineSendLeaksSenderLock(t *testing.T) {
	p1, p2 := newFakePipe()
	conn := rpc.NewConn(p1, &rpc.Options{ErrorReporter: errorLog{t}})
	defer closeConnBestEffort(t, conn)

	ctx, cancel := context.WithCancel(context.Background()) // no deadline
	defer cancel()

	bc := conn.Bootstrap(ctx)
	if m, err := peerRecv(p2, hangTimeout); err != nil || m.Which != rpccp.Message_Which_bootstrap {
		t.Fatalf("peer: expected Bootstrap message, got %+v, %v", m, err)
	}
	// The peer never answers the Bootstrap, so calls on bc are pipelined
	// calls on the bootstrap question (question.PipelineSend).

	method := capnp.Method{InterfaceID: testInterfaceID, MethodID: testMethodID}

	// Call #1: the transport fails to allocate the message.
	p1.FailNextNewMessage()
	var ans1 *capnp.Answer
	returned, p := runWithTimeout(hangTimeout, func() {
		var rel capnp.ReleaseFunc
		ans1, rel = bc.SendCall(ctx, capnp.Send{Method: method})
		rel()
	})
	if !returned || p != nil {
		t.Fatalf("call #1: returned=%v panic=%v", returned, p)
	}
	if _, err := ans1.Struct(); err == nil {
		t.Fatal("call #1 succeeded although NewMessage failed")
	} else {
		t.Logf("call #1 failed as expected: %v", err)
	}

	// Call #2: transport is healthy again.
	before := p1.NewMessageCalls()
	returned, p = runWithTimeout(hangTimeout, func() {
		// Do not wait for the answer (the scripted peer never returns);
		// only SendCall itself must return.
		bc.SendCall(ctx, capnp.Send{Method: method})
	})
	if p != nil {
		t.Fatalf("call #2 panicked: %v", p)
	}
	if !returned {
		t.Errorf("DEFECT F8a: second SendCall on a healthy transport did not return within 2s "+
			"(NewMessage calls made by it: %d): question.PipelineSend leaked the sender lock when NewMessage failed",
			p1.NewMessageCalls()-before)
	} else if m, err := peerRecv(p2, hangTimeout); err != nil || m.Which != rpccp.Message_Which_call {
		t.Errorf("peer: expected Call message for call #2, got %+v, %v", m, err)
	}
	cancel() // lets the stuck SendCall (if any) give up so that Close can finish
}
