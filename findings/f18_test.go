// F18(a): capnpc-go's generated <Field>Bytes() getter for Text fields skips
// the union discriminant check.
//
// Defect (/repo/capnpc-go/templates/structTextField, and its compiled copy in
// /repo/capnpc-go/templates.go):
//
//	func (s T) Field() (string, error) {
//		{{template "_checktag" . -}}          // panics if Which() != field
//		p, err := s.Struct.Ptr(off)
//		...
//	func (s T) FieldBytes() ([]byte, error) {
//		p, err := s.Struct.Ptr(off)           // <-- no _checktag
//
// All other generated getters of union members (including Data fields, see
// structDataField) check the discriminant first.  FieldBytes() therefore
// silently reinterprets whatever other union member currently occupies the
// shared pointer slot.
//
// Demonstrated with code already generated in the repo:
// aircraftlib.Z is a big union in which text (@13), blob (@14), ... all live
// in pointer slot 0.
//
//	z.SetBlob([]byte("BLOB-BYTES\x00"))  // Which() == blob
//	z.Text()                          // panics "Which() != text"   (as designed)
//	z.TextBytes()                     // returns "BLOB-BYTES", nil  (defect)
//
// Correct behaviour: TextBytes() behaves like Text() (same panic).
//
// F18(b) (generateFile in /repo/capnpc-go/capnpc-go.go returning the nil
// `err` instead of the write/close error) is not demonstrated here; it needs
// a failing filesystem.
package zdemo

import (
	"testing"

	"capnproto.org/go/capnp/v3"
	air "capnproto.org/go/capnp/v3/internal/aircraftlib"
)

func TestF18_TextBytesGetterSkipsUnionCheck(t *testing.T) {
	_, seg, err := capnp.NewMessage(capnp.SingleSegment(nil))
	if err != nil {
		t.Fatal(err)
	}
	z, err := air.NewRootZ(seg)
	if err != nil {
		t.Fatal(err)
	}
	if err := z.SetBlob([]byte("BLOB-BYTES\x00")); err != nil {
		t.Fatal(err)
	}
	if z.Which() != air.Z_Which_blob {
		t.Fatalf("Which() = %v; want blob", z.Which())
	}

	var textPanic interface{}
	func() {
		defer func() { textPanic = recover() }()
		z.Text()
	}()
	if textPanic == nil {
		t.Fatal("Z.Text() did not panic although Which() == blob (test premise broken)")
	}
	t.Logf("Z.Text() with Which()==blob panics: %v (as designed)", textPanic)

	var bytesPanic interface{}
	var got []byte
	var gerr error
	func() {
		defer func() { bytesPanic = recover() }()
		got, gerr = z.TextBytes()
	}()
	if bytesPanic == nil {
		t.Fatalf("DEFECT F18a: Z.TextBytes() with Which()==blob returned (%q, %v) instead of panicking like Z.Text(): "+
			"the generated ...Bytes() getter lacks the union discriminant check", got, gerr)
	}
}
